// wharfcheck decides structural necessary conditions of the given wharf
// properties from /repo's current source (static analysis only).
package main

import (
	"encoding/json"
	"flag"
	"fmt"
	"os"
	"runtime/pprof"
	"sort"
	"strconv"
	"strings"
	"time"

	"wharfverif/checker/internal/core"
	"wharfverif/checker/internal/rules"
)

func main() {
	prop := flag.String("prop", "", "property id (C01..C19)")
	tier := flag.String("tier", "quick", "quick|thorough")
	repo := flag.String("repo", "/repo", "tree to analyse")
	verif := flag.String("verif", "/verif", "verification directory (evidence, known findings)")
	verbose := flag.Bool("v", false, "print every obligation")
	replay := flag.String("replay", "", "replay file: re-evaluate that obligation on the current tree")
	noEvidence := flag.Bool("no-evidence", false, "do not write evidence (used for scratch-copy self-tests)")
	list := flag.Bool("list", false, "list properties with rules")
	noFixtures := flag.Bool("no-fixtures", false, "skip the fixture guard (scratch-copy self-tests)")
	selftest := flag.String("selftest", "", "JSON file with checker self-test results to embed in the evidence")
	dumpFuncs := flag.Bool("dump-funcs", false, "print the inventory of module functions of -repo (reference for normalisation) and exit")
	dumpSSA := flag.String("ssa", "", "pkg:func - print the SSA form of one function as the rules see it (after normalisation) and exit")
	noNorm := flag.Bool("no-normalise", false, "do not expand functions that are missing from the inventory")
	flag.Parse()
	if pf := os.Getenv("WHARFCHECK_CPUPROFILE"); pf != "" {
		if f, err := os.Create(pf); err == nil {
			pprof.StartCPUProfile(f)
			defer pprof.StopCPUProfile()
		}
	}
	if *dumpFuncs {
		p, err := core.Load(*repo, 20)
		if err != nil {
			fmt.Fprintf(os.Stderr, "BROKEN: %v\n", err)
			os.Exit(2)
		}
		b, _ := json.MarshalIndent(core.BuildInventory(p.Roots), "", " ")
		fmt.Println(string(b))
		return
	}
	if !*noNorm {
		core.InventoryFile = *verif + "/baseline_inventory.json"
	}

	if *list {
		var ids []string
		for id := range rules.Registry {
			ids = append(ids, id)
		}
		sort.Strings(ids)
		for _, id := range ids {
			fmt.Println(id)
		}
		return
	}
	if t := os.Getenv("VERIF_TIER"); t == "quick" || t == "thorough" {
		*tier = t
	}
	seed := 0
	if s := os.Getenv("VERIF_SEED"); s != "" {
		if n, err := strconv.Atoi(s); err == nil {
			seed = n
		}
	}
	var replayKey string
	if *replay != "" {
		b, err := os.ReadFile(*replay)
		if err != nil {
			fmt.Fprintf(os.Stderr, "BROKEN: %v\n", err)
			os.Exit(2)
		}
		var r struct {
			Property string `json:"property"`
			Key      string `json:"key"`
		}
		if err := json.Unmarshal(b, &r); err != nil {
			fmt.Fprintf(os.Stderr, "BROKEN: %v\n", err)
			os.Exit(2)
		}
		*prop, replayKey = r.Property, r.Key
		*noEvidence = true
	}
	if *dumpSSA != "" {
		p, err := core.Load(*repo, 20)
		if err != nil {
			fmt.Fprintf(os.Stderr, "BROKEN: %v\n", err)
			os.Exit(2)
		}
		printNorm(p)
		parts := strings.SplitN(*dumpSSA, ":", 2)
		fn := p.Fn(parts[0], parts[1])
		if fn == nil {
			fmt.Println("not found")
			os.Exit(2)
		}
		for _, f := range core.WithAnons(fn) {
			f.WriteTo(os.Stdout)
		}
		return
	}
	if *prop == "all" {
		// convenience for scratch copies: every property on one load, no evidence, summary only
		os.Exit(runAll(*repo, *verif))
	}
	pr, ok := rules.Registry[*prop]
	if !ok {
		fmt.Fprintf(os.Stderr, "BROKEN: no rules for property %q\n", *prop)
		os.Exit(2)
	}
	t0 := time.Now()
	var st map[string]interface{}
	if *selftest != "" {
		b, err := os.ReadFile(*selftest)
		var arr []map[string]interface{}
		if err != nil || json.Unmarshal(b, &arr) != nil {
			fmt.Fprintf(os.Stderr, "BROKEN: cannot read self-test results %s\n", *selftest)
			os.Exit(2)
		}
		nOK, nFail, nStale := 0, 0, 0
		for _, r := range arr {
			switch r["result"] {
			case "ok":
				nOK++
			case "stale":
				nStale++
			default:
				nFail++
			}
		}
		st = map[string]interface{}{"variants": arr, "detected_or_silent_as_expected": nOK, "failed": nFail, "stale": nStale,
			"method": "each variant patch applied to a scratch copy of /repo, analysed in a separate process; mutants/seeded must be reported at the expected obligation, benign variants must stay silent"}
	}
	skipFixtures = *noFixtures
	selftestResults = st
	code := run(pr, *prop, *tier, *repo, *verif, seed, *verbose, replayKey, *noEvidence, t0)
	pprof.StopCPUProfile()
	os.Exit(code)
}

var skipFixtures bool
var selftestResults map[string]interface{}

func run(pr *rules.Property, prop, tier, repo, verif string, seed int, verbose bool, replayKey string, noEvidence bool, t0 time.Time) (code int) {
	defer func() {
		if r := recover(); r != nil {
			fmt.Fprintf(os.Stderr, "BROKEN: checker panic: %v\n", r)
			panic(r)
		}
	}()
	p, err := core.Load(repo, 20)
	if err != nil {
		fmt.Fprintf(os.Stderr, "BROKEN: %v\n", err)
		return 2
	}
	c := core.NewCtx(p, prop, tier)
	// what was done to the tree before the rules looked at it (nothing, on the reference tree)
	if p.Aliases != nil {
		for _, n := range p.Aliases.Notes {
			c.Notes = append(c.Notes, "alias: "+n)
		}
	}
	if p.Norm != nil && len(p.Norm.NewFuncs) > 0 {
		c.Notes = append(c.Notes, fmt.Sprintf("normalisation: %d functions not in the reference inventory (%s); %d calls expanded into their callers, %d left as calls, %d helpers dropped after full expansion",
			len(p.Norm.NewFuncs), strings.Join(p.Norm.NewFuncs, ", "), len(p.Norm.Sites), len(p.Norm.Skips), len(p.Norm.Removed)))
		for _, sk := range p.Norm.Skips {
			c.Notes = append(c.Notes, fmt.Sprintf("normalisation: %s -> %s not expanded (%s)", sk.Caller, sk.Callee, sk.Reason))
		}
		for _, n := range p.Norm.Notes {
			c.Notes = append(c.Notes, "normalisation: "+n)
		}
	} else {
		c.Notes = append(c.Notes, "normalisation: every function of the tree is in the reference inventory; nothing was expanded or renamed")
	}
	pr.Run(c)
	if !skipFixtures {
		if err := rules.RunFixtures(c, pr, verif); err != nil {
			fmt.Fprintf(os.Stderr, "BROKEN: fixture guard: %v\n", err)
			return 2
		}
	}
	if verbose || replayKey != "" {
		for _, o := range c.Obls {
			if replayKey != "" && o.Key() != replayKey {
				continue
			}
			fmt.Printf("%-12s %-13s %s  %s :: %s\n    %s\n", o.Rule, o.Status, o.Pos, o.Func, o.Construct, o.Detail)
			for _, s := range o.Path {
				fmt.Printf("      path: %s\n", s)
			}
		}
	}
	if replayKey != "" {
		for _, o := range c.Obls {
			if o.Key() == replayKey {
				if o.Status != core.Discharged {
					fmt.Printf("VIOLATION property=%s replay=%s\n", prop, "(replayed)")
					return 1
				}
				fmt.Println("obligation is discharged on the current tree")
				return 0
			}
		}
		fmt.Println("obligation key no longer exists on the current tree: " + replayKey)
		return 0
	}
	if noEvidence {
		verifTmp, _ := os.MkdirTemp("", "wharfcheck-noev-")
		defer os.RemoveAll(verifTmp)
		// known findings still apply
		if b, err := os.ReadFile(verif + "/known_findings.txt"); err == nil {
			os.WriteFile(verifTmp+"/known_findings.txt", b, 0o644)
		}
		verif = verifTmp
	}
	expl := "Static analysis of /repo's current source (type-checked AST + go/ssa + call graph). Decides structural NECESSARY conditions of " +
		prop + " — not the behaviour itself. " + strings.TrimSpace(pr.Explanation)
	return c.Finish(verif, seed, t0, expl, pr.Assumptions, selftestResults)
}

func runAll(repo, verif string) int {
	p, err := core.Load(repo, 20)
	if err != nil {
		fmt.Fprintf(os.Stderr, "BROKEN: %v\n", err)
		return 2
	}
	var ids []string
	for id := range rules.Registry {
		ids = append(ids, id)
	}
	sort.Strings(ids)
	rc := 0
	printAliases(p)
	printNorm(p)
	for _, id := range ids {
		c := core.NewCtx(p, id, "quick")
		func() {
			defer func() {
				if r := recover(); r != nil {
					fmt.Printf("%s BROKEN: checker panic: %v\n", id, r)
					rc = 2
				}
			}()
			rules.Registry[id].Run(c)
		}()
		bad := 0
		for _, o := range c.Obls {
			if o.Status != core.Discharged {
				bad++
				fmt.Printf("%s %s %s %s :: %s\n    %s\n", id, o.Rule, o.Status, o.Pos, o.Func+" :: "+o.Construct, o.Detail)
			}
		}
		fmt.Printf("== %s obligations=%d not-discharged=%d\n", id, len(c.Obls), bad)
		if bad > 0 && rc == 0 {
			rc = 1
		}
	}
	return rc
}

func printNorm(p *core.Prog) {
	if p.Norm == nil || len(p.Norm.NewFuncs) == 0 {
		return
	}
	fmt.Printf("normalisation: %d functions not in the inventory, %d calls expanded, %d left as calls\n", len(p.Norm.NewFuncs), len(p.Norm.Sites), len(p.Norm.Skips))
	for _, s := range p.Norm.Skips {
		fmt.Printf("  not expanded: %s -> %s (%s)\n", s.Caller, s.Callee, s.Reason)
	}
	for _, s := range p.Norm.Notes {
		fmt.Printf("  note: %s\n", s)
	}
}

func printAliases(p *core.Prog) {
	if p.Aliases == nil {
		return
	}
	for _, s := range p.Aliases.Notes {
		fmt.Printf("alias: %s\n", s)
	}
}
