package probe

import (
	"bytes"
	"context"
	"io"
	"math/rand"
	"testing"

	"github.com/itchio/headway/state"
	"github.com/itchio/lake"
	"github.com/itchio/lake/tlc"
	"github.com/itchio/wharf/pwr"
)

type memPool struct {
	contents [][]byte
	written  map[int64]*bytes.Buffer
}

var _ lake.WritablePool = (*memPool)(nil)

func (p *memPool) GetSize(i int64) int64                        { return int64(len(p.contents[i])) }
func (p *memPool) GetReader(i int64) (io.Reader, error)         { return bytes.NewReader(p.contents[i]), nil }
func (p *memPool) GetReadSeeker(i int64) (io.ReadSeeker, error) { return bytes.NewReader(p.contents[i]), nil }
func (p *memPool) Close() error                                 { return nil }

type memWriter struct {
	p *memPool
	i int64
}

func (w *memWriter) Write(buf []byte) (int, error) { return w.p.written[w.i].Write(buf) }
func (w *memWriter) Close() error                  { return nil }
func (p *memPool) GetWriter(i int64) (io.WriteCloser, error) {
	p.written[i] = new(bytes.Buffer)
	return &memWriter{p, i}, nil
}

// C18: signed file = [A, B]; written data = [B]: block 0 is rejected by Write; what does Close do with it?
func TestValidatingPoolRejectedBlockEqualToNextSignedBlock(t *testing.T) {
	prng := rand.New(rand.NewSource(7))
	A := make([]byte, pwr.BlockSize)
	B := make([]byte, pwr.BlockSize)
	prng.Read(A)
	prng.Read(B)
	signed := append(append([]byte{}, A...), B...)
	container := &tlc.Container{Size: int64(len(signed)), Files: []*tlc.File{{Path: "f", Mode: 0644, Size: int64(len(signed))}}}
	hashes, err := pwr.ComputeSignature(context.Background(), container, &memPool{contents: [][]byte{signed}, written: map[int64]*bytes.Buffer{}}, &state.Consumer{})
	must(t, err)
	under := &memPool{contents: [][]byte{signed}, written: map[int64]*bytes.Buffer{}}
	vp := &pwr.ValidatingPool{Pool: under, Container: container, Signature: &pwr.SignatureInfo{Container: container, Hashes: hashes}}
	w, err := vp.GetWriter(0)
	must(t, err)
	_, werr := w.Write(B)
	cerr := w.Close()
	t.Logf("write err = %v", werr)
	t.Logf("close err = %v", cerr)
	t.Logf("bytes that reached the underlying pool: %d", under.written[0].Len())
}
