package rules

import (
	"go/constant"
	"go/token"
	"go/types"
	"strings"

	"golang.org/x/tools/go/ssa"

	"wharfverif/checker/internal/core"
)

// ---- path-keyed index maps ------------------------------------------------------------------------
//
// Several places keep a map from an entry's path to its index (or to a mark). Such a map stands for
// "the entry with this path": it must tell apart any two entries the container tells apart, so the key
// has to be a one-to-one image of the path. A key that went through a folding or cutting function
// (ToLower, Base, Trim…, a slice of the string) merges entries whose paths differ - legal in a
// container - and the later entry silently takes the earlier one's place.

// pathFieldSource reports whether v derives (through calls' arguments, concatenation, slicing,
// conversions and phis) from a field named Path/Name of an entry type of package tlc.
func pathFieldSource(v ssa.Value, depth int, seen map[ssa.Value]bool) bool {
	if v == nil || depth > 10 || seen[v] {
		return false
	}
	seen[v] = true
	v = core.StripConv(v)
	if _, name, ok := core.FieldOf(v); ok {
		if name == "Path" {
			if fa := fieldOwner(v); strings.Contains(fa, "tlc.") {
				return true
			}
		}
		return false
	}
	switch x := v.(type) {
	case *ssa.Phi:
		for _, e := range x.Edges {
			if pathFieldSource(e, depth+1, seen) {
				return true
			}
		}
	case *ssa.Call:
		if x.Call.IsInvoke() {
			return false
		}
		for _, a := range x.Call.Args {
			if bt, ok := a.Type().Underlying().(*types.Basic); ok && bt.Info()&types.IsString != 0 {
				if pathFieldSource(a, depth+1, seen) {
					return true
				}
			}
		}
	case *ssa.BinOp:
		if x.Op == token.ADD {
			return pathFieldSource(x.X, depth+1, seen) || pathFieldSource(x.Y, depth+1, seen)
		}
	case *ssa.Slice:
		return pathFieldSource(x.X, depth+1, seen)
	case *ssa.UnOp:
		if x.Op == token.MUL {
			// a local the path was stored in
			if a, ok := core.CellRoot(x.X).(*ssa.Alloc); ok {
				for _, st := range core.CellStores(a) {
					if pathFieldSource(st.Val, depth+1, seen) {
						return true
					}
				}
			}
		}
	}
	return false
}

// fieldOwner names the struct type whose field v reads.
func fieldOwner(v ssa.Value) string {
	v = core.StripConv(v)
	switch x := v.(type) {
	case *ssa.UnOp:
		if fa, ok := x.X.(*ssa.FieldAddr); ok {
			return core.TypeName(fa.X.Type())
		}
	case *ssa.Field:
		return core.TypeName(x.X.Type())
	case *ssa.FieldAddr:
		return core.TypeName(x.X.Type())
	}
	return ""
}

// oneToOneImage reports whether key is a one-to-one image of the path field it derives from; if not,
// what merges paths.
var oneToOneCalls = map[string]bool{
	"path/filepath.ToSlash": true, "path/filepath.FromSlash": true,
	"path/filepath.Clean": true, "path.Clean": true, // container paths are stored clean: Clean is the identity on them
}

func oneToOneImage(v ssa.Value, depth int) (ok bool, why string) {
	if depth > 10 {
		return false, "derivation too deep to follow"
	}
	v = core.StripConv(v)
	if _, _, isField := core.FieldOf(v); isField {
		return true, ""
	}
	switch x := v.(type) {
	case *ssa.Const:
		return true, ""
	case *ssa.Phi:
		for _, e := range x.Edges {
			if ok, why := oneToOneImage(e, depth+1); !ok {
				return false, why
			}
		}
		return true, ""
	case *ssa.Call:
		n := core.CalleeName(x)
		if x.Call.IsInvoke() {
			return false, "the key comes out of " + n
		}
		if !oneToOneCalls[n] {
			return false, "the key went through " + n
		}
		for _, a := range x.Call.Args {
			if bt, isB := a.Type().Underlying().(*types.Basic); isB && bt.Info()&types.IsString != 0 {
				if ok, why := oneToOneImage(a, depth+1); !ok {
					return false, why
				}
			}
		}
		return true, ""
	case *ssa.BinOp:
		if x.Op == token.ADD {
			if ok, why := oneToOneImage(x.X, depth+1); !ok {
				return false, why
			}
			return oneToOneImage(x.Y, depth+1)
		}
		return false, "the key is computed with " + x.Op.String()
	case *ssa.Slice:
		return false, "the key is a part of the path (a slice of it)"
	case *ssa.UnOp:
		if x.Op == token.MUL {
			if a, isA := core.CellRoot(x.X).(*ssa.Alloc); isA {
				for _, st := range core.CellStores(a) {
					if ok, why := oneToOneImage(st.Val, depth+1); !ok {
						return false, why
					}
				}
				return true, ""
			}
		}
	case *ssa.Parameter, *ssa.Extract, *ssa.Lookup, *ssa.Next:
		return true, ""
	}
	return true, ""
}

// rulePathKeysAreOneToOne: every access (update or lookup) to a string-keyed map whose key derives
// from an entry's Path is keyed by a one-to-one image of that path. want filters the functions taken.
func rulePathKeysAreOneToOne(c *core.Ctx, rule string, floor int, want func(fn *ssa.Function) bool) {
	c.Rule(rule, "a map that stands for 'the entry with this path' is keyed by a one-to-one image of the path")
	n := 0
	for _, top := range c.P.SrcFuncs() {
		if top.Parent() != nil || strings.Contains(c.P.Pos(top.Pos()), ".pb.go:") || !want(top) {
			continue
		}
		for _, fn := range core.WithAnons(top) {
			core.Instrs(fn, func(in ssa.Instruction) {
				var key ssa.Value
				var what string
				switch x := in.(type) {
				case *ssa.MapUpdate:
					key, what = x.Key, "update"
				case *ssa.Lookup:
					if _, isMap := x.X.Type().Underlying().(*types.Map); isMap {
						key, what = x.Index, "lookup"
					}
				}
				if key == nil {
					return
				}
				if bt, ok := key.Type().Underlying().(*types.Basic); !ok || bt.Info()&types.IsString == 0 {
					return
				}
				if !pathFieldSource(key, 0, map[ssa.Value]bool{}) {
					return
				}
				n++
				ok, why := oneToOneImage(key, 0)
				c.Check(ok, rule, core.FnName(top), what+" keyed by "+core.Describe(key), core.InstrPos(in),
					"the key is the path itself (or a one-to-one image: separators converted, a constant added)",
					why+": two entries whose paths differ only in what that removes (letter case, a directory, a suffix) share one key, so the later entry takes the earlier one's place in the map - everything recorded for 'the entry with this path' (its index, its hashes, its place in the old build) goes to the wrong entry and the earlier one is left with nothing")
			})
		}
	}
	c.Floor(rule, "path-keyed map accesses", n, floor)
}

// ---- a pool that is given work has a worker ---------------------------------------------------------

// impliesAtLeastOne: does guard g establish v >= 1 ?
func impliesAtLeastOne(g core.Guard, v ssa.Value) bool {
	bo, ok := g.Cond.(*ssa.BinOp)
	if !ok {
		return false
	}
	cst := func(x ssa.Value) (int64, bool) {
		if k, ok := x.(*ssa.Const); ok && k.Value != nil && k.Value.Kind() == constant.Int {
			return k.Int64(), true
		}
		return 0, false
	}
	x, y := core.StripConv(bo.X), core.StripConv(bo.Y)
	op := bo.Op
	var k int64
	if _, xIsK := cst(x); !xIsK && agreeVal(x, v, 0) {
		kk, ok := cst(y)
		if !ok {
			return false
		}
		k = kk
	} else if _, yIsK := cst(y); !yIsK && agreeVal(y, v, 0) {
		kk, ok := cst(x)
		if !ok {
			return false
		}
		k = kk
		// k op v  ==  v op' k
		switch op {
		case token.LSS:
			op = token.GTR
		case token.LEQ:
			op = token.GEQ
		case token.GTR:
			op = token.LSS
		case token.GEQ:
			op = token.LEQ
		}
	} else {
		return false
	}
	switch op {
	case token.LSS: // v < k false  => v >= k
		return !g.Val && k >= 1
	case token.LEQ: // v <= k false => v > k
		return !g.Val && k >= 0
	case token.GTR: // v > k true
		return g.Val && k >= 0
	case token.GEQ:
		return g.Val && k >= 1
	case token.EQL:
		return g.Val && k >= 1
	}
	return false
}

// atLeastOne: is v >= 1 whatever path produced it?
func atLeastOne(v ssa.Value, seen map[ssa.Value]bool) bool {
	v = core.StripConv(v)
	if seen[v] {
		return true // a cycle adds no new source
	}
	seen[v] = true
	if k, ok := core.ConstInt(v); ok {
		return k >= 1
	}
	switch x := v.(type) {
	case *ssa.Phi:
		for i, e := range x.Edges {
			e = core.StripConv(e)
			okEdge := false
			for _, g := range core.EdgeGuards(x.Block().Preds[i], x.Block()) {
				if impliesAtLeastOne(g, e) {
					okEdge = true
					break
				}
			}
			if !okEdge && !atLeastOne(e, seen) {
				return false
			}
		}
		return true
	case *ssa.Call:
		if b, ok := x.Call.Value.(*ssa.Builtin); ok && b.Name() == "max" {
			for _, a := range x.Call.Args {
				if atLeastOne(a, map[ssa.Value]bool{}) {
					return true
				}
			}
		}
	}
	if in, ok := v.(ssa.Instruction); ok {
		for _, g := range core.Guards(in) {
			if impliesAtLeastOne(g, v) {
				return true
			}
		}
	}
	return false
}

// rulePoolHasAWorker: in fn, the loop that starts the worker goroutines runs at least once: its bound
// is at least 1 on every path that reaches it.
func rulePoolHasAWorker(c *core.Ctx, rule string, fn *ssa.Function) {
	c.Rule(rule, "the loop that starts the workers runs at least once")
	n := 0
	seenHdr := map[*ssa.If]bool{}
	core.Instrs(fn, func(in ssa.Instruction) {
		g, ok := in.(*ssa.Go)
		if !ok {
			return
		}
		// loop headers: an If on `i < N` that dominates the go statement and is reached again from it
		core.Instrs(fn, func(h ssa.Instruction) {
			ifi, ok := h.(*ssa.If)
			if !ok || seenHdr[ifi] {
				return
			}
			bo, ok := ifi.Cond.(*ssa.BinOp)
			if !ok || (bo.Op != token.LSS && bo.Op != token.LEQ) {
				return
			}
			if _, isPhi := bo.X.(*ssa.Phi); !isPhi {
				return
			}
			if !ifi.Block().Dominates(g.Block()) || core.FindPath(fn, g, isInstr(ifi), nil) == nil {
				return
			}
			seenHdr[ifi] = true
			n++
			bound := bo.Y
			ok1 := atLeastOne(bound, map[ssa.Value]bool{})
			if bo.Op == token.LEQ {
				if k, isK := core.ConstInt(bound); isK && k >= 0 {
					ok1 = true
				}
			}
			c.Check(ok1, rule, core.FnName(fn), "worker loop bound "+core.Describe(bound), core.InstrPos(ifi),
				"every value that reaches the bound is a constant >= 1 or comes through a test that made it so",
				"the number of workers started can be zero on some path (a value reaches the loop bound after the 'at least one' clamp, or without one): nobody receives what the dispatcher sends and nobody reports a result, so the call never returns - e.g. an extraction restarted from a resume marker that already covers every entry")
		})
	})
	c.Floor(rule, "worker-starting loops in "+core.FnName(fn), n, 1)
}

// ---- the overlay writer's old-file reader stands where the writer is told it stands -----------------

// agreeVal: structurally the same value (same constant, same parameter, two loads of the same field of
// agreeing bases).
func agreeVal(a, b ssa.Value, depth int) bool {
	a, b = core.StripConv(a), core.StripConv(b)
	if a == b {
		return true
	}
	if depth > 6 {
		return false
	}
	if ka, ok := a.(*ssa.Const); ok {
		kb, ok2 := b.(*ssa.Const)
		return ok2 && ka.Value != nil && kb.Value != nil && constant.Compare(ka.Value, token.EQL, kb.Value)
	}
	la, ok1 := a.(*ssa.UnOp)
	lb, ok2 := b.(*ssa.UnOp)
	if ok1 && ok2 && la.Op == token.MUL && lb.Op == token.MUL {
		if core.CellRoot(la.X) == core.CellRoot(lb.X) {
			return true
		}
		fa, okA := la.X.(*ssa.FieldAddr)
		fb, okB := lb.X.(*ssa.FieldAddr)
		return okA && okB && fa.Field == fb.Field && agreeVal(fa.X, fb.X, depth+1)
	}
	if ta, ok := a.(*ssa.Extract); ok {
		tb, ok2 := b.(*ssa.Extract)
		return ok2 && ta.Index == tb.Index && ta.Tuple == tb.Tuple
	}
	return false
}

// ruleOverlayReaderStandsWhereTold: NewOverlayWriter(r, readOffset, f, overlayOffset) is told where in
// the old file r stands; r comes from a pool that re-issues open files at whatever position they were
// left. So on every path to the call r has been positioned, from the start of the file, at an offset
// that is the one handed over: a Seek(x, SeekStart) on r where x is (one of the values merging into)
// readOffset. pkgs limits the callers taken.
func ruleOverlayReaderStandsWhereTold(c *core.Ctx, rule string, floor int) {
	c.Rule(rule, "the old-file reader handed to an overlay writer has been positioned at the read offset handed over with it")
	n := 0
	for _, top := range c.P.SrcFuncs() {
		if top.Parent() != nil || !strings.HasPrefix(core.PkgPathOf(top), core.Mod) || strings.HasSuffix(core.PkgPathOf(top), "/pwr/overlay") {
			continue
		}
		for _, fn := range core.WithAnons(top) {
			core.Instrs(fn, func(in ssa.Instruction) {
				now, ok := in.(*ssa.Call)
				if !ok || core.CalleeName(now) != "pwr/overlay.NewOverlayWriter" || len(now.Call.Args) < 4 {
					return
				}
				n++
				r, ro := now.Call.Args[0], now.Call.Args[1]
				roOrigins := core.Origins(ro)
				agrees := func(x ssa.Value) bool {
					if agreeVal(x, ro, 0) {
						return true
					}
					xs := core.Origins(x)
					if len(xs) == 0 {
						return false
					}
					for _, xo := range xs {
						found := false
						for _, o := range roOrigins {
							if agreeVal(xo, o, 0) {
								found = true
							}
						}
						if !found {
							return false
						}
					}
					return true
				}
				goodSeek := func(x ssa.Instruction) bool {
					sc, ok := x.(*ssa.Call)
					if !ok || !sc.Call.IsInvoke() || sc.Call.Method.Name() != "Seek" || len(sc.Call.Args) != 2 {
						return false
					}
					if w, isW := core.ConstInt(sc.Call.Args[1]); !isW || w != 0 {
						return false
					}
					return agreeVal(sc.Call.Value, r, 0) && agrees(sc.Call.Args[0])
				}
				p := core.FindPath(fn, nil, isInstr(now), goodSeek)
				c.Check(p == nil, rule, core.FnName(top), "reader positioned at the read offset before NewOverlayWriter("+core.Describe(r)+", "+core.Describe(ro)+", …)", core.InstrPos(now),
					"every path to the call passes a Seek(readOffset, SeekStart) on the reader that is handed over",
					"the overlay writer can be made around an old-file reader that was not positioned at the read offset it is told (no Seek from the start on some path, or a Seek to something else): the reader comes from a pool that hands back the same open file wherever it was left, so new data is compared with the wrong old bytes and, where they happen to match, old bytes are kept in the committed file").Path = c.P.PathStrings(p)
			})
		}
	}
	c.Floor(rule, "overlay writers made outside package overlay", n, floor)
}

// ---- pooled objects are not used after they were given back --------------------------------------------

// pooledUseAfterPut lists, for fn, the uses of (memory of) an object after it was handed back to a
// sync.Pool: with a deferred Put, anything derived from the object that is returned; with a plain Put,
// any use of it that the Put can reach.
func pooledUseAfterPut(fn *ssa.Function) []ssa.Instruction {
	var out []ssa.Instruction
	isPut := func(cc *ssa.CallCommon) ssa.Value {
		if f := cc.StaticCallee(); f != nil && f.Name() == "Put" && f.Signature.Recv() != nil && strings.HasSuffix(core.TypeName(f.Signature.Recv().Type()), "sync.Pool") && len(cc.Args) == 2 {
			return core.StripConv(cc.Args[1])
		}
		return nil
	}
	aliasing := func(t types.Type) bool {
		switch t.Underlying().(type) {
		case *types.Slice, *types.Pointer, *types.Map, *types.Interface:
			return true
		}
		return false
	}
	derived := func(obj ssa.Value) map[ssa.Value]bool {
		d := map[ssa.Value]bool{obj: true}
		for changed := true; changed; {
			changed = false
			core.Instrs(fn, func(in ssa.Instruction) {
				v, ok := in.(ssa.Value)
				if !ok || d[v] {
					return
				}
				add := false
				switch x := in.(type) {
				case *ssa.Call:
					if aliasing(x.Type()) && !x.Call.IsInvoke() && len(x.Call.Args) > 0 && d[core.StripConv(x.Call.Args[0])] {
						if f := x.Call.StaticCallee(); f != nil && f.Signature.Recv() != nil {
							add = true // a method of the pooled object handing out its memory (Bytes(), ...)
						}
					}
				case *ssa.Slice:
					add = d[core.StripConv(x.X)]
				case *ssa.FieldAddr:
					add = d[core.StripConv(x.X)]
				case *ssa.IndexAddr:
					add = d[core.StripConv(x.X)]
				case *ssa.UnOp:
					if x.Op == token.MUL && aliasing(x.Type()) {
						add = d[core.StripConv(x.X)]
					}
				case *ssa.MakeInterface, *ssa.ChangeType, *ssa.Convert, *ssa.ChangeInterface:
					var ops []*ssa.Value
					for _, op := range in.Operands(ops) {
						if op != nil && *op != nil && d[*op] {
							add = true
						}
					}
				case *ssa.Phi:
					for _, e := range x.Edges {
						if d[core.StripConv(e)] {
							add = true
						}
					}
				}
				if add {
					d[v] = true
					changed = true
				}
			})
		}
		return d
	}
	core.Instrs(fn, func(in ssa.Instruction) {
		switch x := in.(type) {
		case *ssa.Defer:
			obj := isPut(&x.Call)
			if obj == nil {
				return
			}
			d := derived(obj)
			for k := 0; k < fn.Signature.Results().Len(); k++ {
				for _, rs := range core.Returns(fn, k) {
					hit := false
					for _, o := range core.Origins(rs.Val) {
						if d[core.StripConv(o)] && aliasing(o.Type()) {
							hit = true
						}
					}
					if hit {
						out = append(out, rs.Ret)
					}
				}
			}
		case *ssa.Call:
			obj := isPut(&x.Call)
			if obj == nil {
				return
			}
			d := derived(obj)
			core.Instrs(fn, func(u ssa.Instruction) {
				if u == in {
					return
				}
				var ops []*ssa.Value
				uses := false
				for _, op := range u.Operands(ops) {
					if op != nil && *op != nil && d[core.StripConv(*op)] {
						uses = true
					}
				}
				if _, isDbg := u.(*ssa.DebugRef); isDbg || !uses {
					return
				}
				if _, isV := u.(ssa.Value); isV && d[u.(ssa.Value)] {
					// a derivation made after the Put counts when it is itself used; its use is what is reported
					if _, isCall := u.(*ssa.Call); !isCall {
						return
					}
				}
				if core.FindPath(fn, in, isInstr(u), nil) != nil {
					out = append(out, u)
				}
			})
		}
	})
	return out
}

// rulePooledNotUsedAfterPut: no function of the module uses an object (or memory it handed out) after
// giving it back to a sync.Pool.
func rulePooledNotUsedAfterPut(c *core.Ctx, rule string) {
	c.Rule(rule, "nothing that belongs to a pooled object is used after the object was put back")
	nFn, nPut := 0, 0
	for _, top := range c.P.SrcFuncs() {
		if top.Parent() != nil || !strings.HasPrefix(core.PkgPathOf(top), core.Mod) || strings.Contains(c.P.Pos(top.Pos()), ".pb.go:") {
			continue
		}
		nFn++
		for _, fn := range core.WithAnons(top) {
			bad := pooledUseAfterPut(fn)
			core.Instrs(fn, func(in ssa.Instruction) {
				var cc *ssa.CallCommon
				switch x := in.(type) {
				case *ssa.Defer:
					cc = &x.Call
				case *ssa.Call:
					cc = &x.Call
				}
				if cc != nil {
					if f := cc.StaticCallee(); f != nil && f.Name() == "Put" && f.Signature.Recv() != nil && strings.HasSuffix(core.TypeName(f.Signature.Recv().Type()), "sync.Pool") {
						nPut++
					}
				}
			})
			done := map[string]bool{}
			for _, u := range bad {
				what := "use"
				if _, isRet := u.(*ssa.Return); isRet {
					what = "return"
				}
				if done[what] {
					continue
				}
				done[what] = true
				c.Bad(rule, core.FnName(top), what+" of a pooled object's memory after its Put", core.InstrPos(u),
					"memory of an object that was already handed back to its sync.Pool is still used (returned to the caller behind a deferred Put, or touched after the Put): another goroutine can take the same object from the pool and write into it meanwhile - the diff and the signature are produced by concurrent goroutines with their own wire contexts - so the bytes that reach the output depend on the interleaving")
			}
		}
	}
	c.Stats[rule+".pool_puts"] = nPut
	c.Floor(rule, "module functions examined", nFn, 100)
}

// ---- running totals of a resumable writer start from what the resume hands over -----------------------

// ruleRunningTotalsAreSeeded: the overlay writer is made anew for every session of an interrupted apply,
// from the offsets of the checkpoint. An integer field of it that some method keeps adding to (a running
// total: bytes read, bytes accepted, ...) describes the whole file, not the session - so the constructor
// has to start it from one of its parameters. A total that starts at zero in every session is right only
// for an apply that is never interrupted.
func ruleRunningTotalsAreSeeded(c *core.Ctx, rule string) {
	c.Rule(rule, "every running total kept by the overlay writer is started from a parameter of its constructor")
	now := c.P.Fn("pwr/overlay", "NewOverlayWriter")
	if now == nil {
		c.Missing(rule, "pwr/overlay.NewOverlayWriter", "not found")
		return
	}
	isOW := func(t types.Type) bool { return strings.HasSuffix(core.TypeName(t), "overlay.overlayWriter") }
	type acc struct {
		name string
		at   ssa.Instruction
		fn   *ssa.Function
	}
	var accs []acc
	seenF := map[string]bool{}
	for _, top := range c.P.SrcFuncs() {
		if top.Parent() != nil || !strings.HasSuffix(core.PkgPathOf(top), "/pwr/overlay") {
			continue
		}
		for _, fn := range core.WithAnons(top) {
			core.Instrs(fn, func(in ssa.Instruction) {
				st, ok := in.(*ssa.Store)
				if !ok {
					return
				}
				fa, ok := st.Addr.(*ssa.FieldAddr)
				if !ok || !isOW(fa.X.Type()) {
					return
				}
				bt, ok := st.Val.Type().Underlying().(*types.Basic)
				if !ok || bt.Info()&types.IsInteger == 0 {
					return
				}
				bo, ok := core.StripConv(st.Val).(*ssa.BinOp)
				if !ok || (bo.Op != token.ADD && bo.Op != token.SUB) {
					return
				}
				self := false
				for _, side := range []ssa.Value{bo.X, bo.Y} {
					for _, o := range core.Origins(side) {
						if ld, ok := o.(*ssa.UnOp); ok && ld.Op == token.MUL {
							if fb, ok := ld.X.(*ssa.FieldAddr); ok && fb.Field == fa.Field && isOW(fb.X.Type()) {
								self = true
							}
						}
					}
				}
				_, name, _ := core.FieldOf(st.Addr)
				if self && !seenF[name] {
					seenF[name] = true
					accs = append(accs, acc{name, in, top})
				}
			})
		}
	}
	fromParam := func(v ssa.Value) bool {
		found := false
		var walk func(v ssa.Value, d int)
		walk = func(v ssa.Value, d int) {
			if d > 5 || found {
				return
			}
			for _, o := range core.Origins(v) {
				switch x := o.(type) {
				case *ssa.Parameter:
					found = true
				case *ssa.BinOp:
					walk(x.X, d+1)
					walk(x.Y, d+1)
				}
			}
		}
		walk(v, 0)
		return found
	}
	// a total matters when a reading of it (other than for its own update) ends up in a field of something
	// (an op that is written, a checkpoint) or is returned; one that is only printed does not
	matters := func(name string) bool {
		hit := false
		for _, top := range c.P.SrcFuncs() {
			if top.Parent() != nil || !strings.HasSuffix(core.PkgPathOf(top), "/pwr/overlay") {
				continue
			}
			for _, fn := range core.WithAnons(top) {
				core.Instrs(fn, func(in ssa.Instruction) {
					ld, ok := in.(*ssa.UnOp)
					if !ok || ld.Op != token.MUL || hit {
						return
					}
					fa, ok := ld.X.(*ssa.FieldAddr)
					if !ok || !isOW(fa.X.Type()) {
						return
					}
					if _, n, _ := core.FieldOf(ld.X); n != name {
						return
					}
					seen := map[ssa.Value]bool{}
					var fwd func(v ssa.Value, d int)
					fwd = func(v ssa.Value, d int) {
						if d > 6 || seen[v] || hit || v.Referrers() == nil {
							return
						}
						seen[v] = true
						for _, r := range *v.Referrers() {
							switch x := r.(type) {
							case *ssa.Return:
								hit = true
							case *ssa.Store:
								if fb, ok := x.Addr.(*ssa.FieldAddr); ok {
									if isOW(fb.X.Type()) && fb.Field == fa.Field {
										continue // its own update
									}
									hit = true
								}
							case *ssa.BinOp:
								fwd(x, d+1)
							case *ssa.Convert:
								fwd(x, d+1)
							case *ssa.ChangeType:
								fwd(x, d+1)
							case *ssa.Phi:
								fwd(x, d+1)
							}
						}
					}
					fwd(ld, 0)
				})
			}
		}
		return hit
	}
	for _, a := range accs {
		if !matters(a.name) {
			c.Ok(rule, core.FnName(now), "running total "+a.name+" is not handed on", core.InstrPos(a.at), "read only for its own update or for printing")
			continue
		}
		seeded := false
		core.Instrs(now, func(in ssa.Instruction) {
			if st, ok := in.(*ssa.Store); ok {
				if fa, ok := st.Addr.(*ssa.FieldAddr); ok && isOW(fa.X.Type()) {
					if _, n, _ := core.FieldOf(st.Addr); n == a.name && fromParam(st.Val) {
						seeded = true
					}
				}
			}
		})
		c.Check(seeded, rule, core.FnName(now), "running total "+a.name+" started from a parameter", core.InstrPos(a.at),
			"NewOverlayWriter assigns it from one of its parameters", "the overlay writer keeps adding to its field "+a.name+" (in "+core.FnName(a.fn)+") but the constructor does not start it from what the resume hands over: the writer is made anew for every session of an interrupted apply, so after a resume the total covers the last session only - whatever is derived from it (an op's length, an offset saved in a checkpoint) is wrong for the file as a whole")
	}
	c.Floor(rule, "running totals kept by the overlay writer", len(accs), 1)
}

// ---- the split function hands out at most one block ----------------------------------------------------

// ruleSplitTokensAreOneBlock: every token the block split function returns is at most blockSize long: it is
// data[:blockSize], or it is returned where len(data) >= blockSize is known not to hold. The signer hashes
// one token as one block: a longer token is a 'block' no reader of the signature can ever match, and the
// blocks it swallowed have no hash at all.
func ruleSplitTokensAreOneBlock(c *core.Ctx, rule string) {
	c.Rule(rule, "the block split function never returns a token longer than a block")
	newFn := c.P.Fn("splitfunc", "New")
	if newFn == nil {
		c.Missing(rule, "splitfunc.New", "not found")
		return
	}
	n := 0
	for _, lit := range core.WithAnons(newFn) {
		if lit == newFn || lit.Signature.Results().Len() != 3 || len(lit.Params) < 1 {
			continue
		}
		data := lit.Params[0]
		isBlockSize := func(v ssa.Value) bool {
			for _, o := range core.Origins(v) {
				o = core.CellRoot(core.StripConv(o))
				if ld, ok := o.(*ssa.UnOp); ok && ld.Op == token.MUL {
					o = core.CellRoot(ld.X)
				}
				switch x := o.(type) {
				case *ssa.Parameter:
					if x.Parent() == newFn {
						return true
					}
				case *ssa.Alloc:
					for _, st := range core.CellStores(x) {
						if p, ok := st.Val.(*ssa.Parameter); ok && p.Parent() == newFn {
							return true
						}
					}
				case *ssa.FreeVar:
					return true
				}
			}
			return false
		}
		isLenData := func(v ssa.Value) bool {
			cl, ok := core.StripConv(v).(*ssa.Call)
			if !ok {
				return false
			}
			b, ok := cl.Call.Value.(*ssa.Builtin)
			return ok && b.Name() == "len" && core.StripConv(cl.Call.Args[0]) == ssa.Value(data)
		}
		for _, rs := range core.Returns(lit, 1) {
			if rs.Val == nil || core.IsNilConst(rs.Val) {
				continue
			}
			nonNil := false
			for _, o := range core.Origins(rs.Val) {
				if !core.IsNilConst(o) {
					nonNil = true
				}
			}
			if !nonNil {
				continue
			}
			n++
			ok := true
			for _, o := range core.Origins(rs.Val) {
				if core.IsNilConst(o) {
					continue
				}
				if sl, isSl := o.(*ssa.Slice); isSl && sl.High != nil && isBlockSize(sl.High) && core.StripConv(sl.X) == ssa.Value(data) {
					continue
				}
				// the whole of data, where it is known to be shorter than a block
				short := false
				var gs []core.Guard
				gs = append(gs, core.Guards(rs.Ret)...)
				for _, g := range gs {
					bo, isB := g.Cond.(*ssa.BinOp)
					if !isB {
						continue
					}
					switch {
					case isLenData(bo.X) && isBlockSize(bo.Y):
						if (bo.Op == token.GEQ && !g.Val) || (bo.Op == token.LSS && g.Val) || (bo.Op == token.LEQ && g.Val) || (bo.Op == token.GTR && !g.Val) {
							short = true
						}
					case isLenData(bo.Y) && isBlockSize(bo.X):
						if (bo.Op == token.LEQ && !g.Val) || (bo.Op == token.GTR && g.Val) || (bo.Op == token.GEQ && g.Val) || (bo.Op == token.LSS && !g.Val) {
							short = true
						}
					}
				}
				if !short {
					ok = false
				}
			}
			c.Check(ok, rule, core.FnName(newFn), "token returned is at most one block", core.InstrPos(rs.Ret),
				"data[:blockSize], or data where len(data) >= blockSize does not hold", "the split function can return everything it was given as one token without knowing it to be shorter than a block (at end of input, say, with several blocks still buffered): the signer hashes that token as a single block, so the blocks inside it get no hash of their own and the differ sends again data the old build already has")
		}
	}
	c.Floor(rule, "token-returning exits of the split function", n, 2)
}

// ---- an entry is made before it is reported done ----------------------------------------------------------

// ruleEntryMadeBeforeDone (R19.10): the literal of ExtractZip that handles one entry (the one calling the
// tree-making helpers Mkdir / Symlink / CopyFile) returns success only after one of them was called - or under
// settings.DryRun. The worker advances the resume marker and reports the entry done right after that literal
// returns nil: an entry whose making is put off (queued for later) is behind the marker before it exists, and
// an extraction restarted from the marker never makes it.
func ruleEntryMadeBeforeDone(c *core.Ctx, rule string, ez *ssa.Function) {
	c.Rule(rule, "the per-entry literal of ExtractZip succeeds only after the entry was made (or under DryRun)")
	isMaker := func(in ssa.Instruction) bool {
		cl, ok := in.(*ssa.Call)
		if !ok {
			return false
		}
		switch core.CalleeName(cl) {
		case "archiver.Mkdir", "archiver.Symlink", "archiver.CopyFile":
			return true
		}
		return false
	}
	var per *ssa.Function
	for _, f := range core.WithAnons(ez) {
		if f == ez {
			continue
		}
		n := 0
		core.Instrs(f, func(in ssa.Instruction) {
			if isMaker(in) {
				n++
			}
		})
		if n >= 2 {
			per = f
		}
	}
	if per == nil {
		c.Missing(rule, core.FnName(ez), "no function literal calling two of Mkdir / Symlink / CopyFile found")
		return
	}
	dryEdge := func(b, s2 *ssa.BasicBlock) bool {
		if len(b.Instrs) == 0 || len(b.Succs) != 2 {
			return false
		}
		ifi, ok := b.Instrs[len(b.Instrs)-1].(*ssa.If)
		if !ok {
			return false
		}
		for _, o := range core.Origins(ifi.Cond) {
			if _, n, ok := core.FieldOf(o); ok && n == "DryRun" {
				return s2 == b.Succs[0]
			}
			if ld, ok := o.(*ssa.UnOp); ok && ld.Op == token.MUL {
				if _, n, ok := core.FieldOf(ld.X); ok && n == "DryRun" {
					return s2 == b.Succs[0]
				}
			}
		}
		return false
	}
	n := 0
	for _, rs := range successReturns(per) {
		n++
		p := core.FindPathSkipping(per, nil, isInstr(rs.Ret), isMaker, dryEdge)
		c.Check(p == nil, rule, core.FnName(per), "success return behind Mkdir / Symlink / CopyFile", core.InstrPos(rs.Ret),
			"every path to this return (DryRun apart) calls one of the helpers that make the entry",
			"an entry can be handled 'successfully' without having been made (its making is put off, queued, left to someone else): the worker then moves the resume marker past it and reports it done, so an extraction that is interrupted and restarted from the marker skips it for good").Path = c.P.PathStrings(p)
	}
	c.Floor(rule, "success returns of the per-entry literal", n, 1)
	// ... and the helpers are called nowhere else in ExtractZip: what a worker did not make before the marker moved is not made later
	for _, f := range core.WithAnons(ez) {
		if f == per {
			continue
		}
		core.Instrs(f, func(in ssa.Instruction) {
			if isMaker(in) && f == ez {
				c.Bad(rule, core.FnName(ez), "entries are made by the worker that marks them done: "+core.CalleeName(in.(*ssa.Call)), core.InstrPos(in),
					"ExtractZip itself makes entries outside the per-entry literal (after the workers, say): whatever it makes there was already behind the resume marker")
			}
		})
	}
}

// ---- no method is invoked on a writer that was never obtained -------------------------------------------

// ruleNoInvokeOnUnsetWriter (R10.nil): in the patcher's series functions the entry writer lives in a local
// variable that starts nil and is assigned on some paths only (a whole-file op needs no writer). When that
// variable is a memory cell (a literal captures it), every method invoked on it - in the function itself, or in
// a literal at each place the literal is called - is reached from the variable's declaration only through an
// assignment to it, or sits behind a test of the variable against nil. An error path that asks the unset writer
// where it stands turns a truncated patch into a nil dereference.
func ruleNoInvokeOnUnsetWriter(c *core.Ctx, rule string) {
	c.Rule(rule, "no method is invoked on the series' entry writer where it can still be unset")
	n, nCells := 0, 0
	for _, name := range []string{"savingPatcher.processRsync", "savingPatcher.processBsdiff"} {
		fn := c.P.Fn("pwr/patcher", name)
		if fn == nil {
			c.Missing(rule, "pwr/patcher."+name, "not found")
			continue
		}
		core.Instrs(fn, func(in ssa.Instruction) {
			cell, ok := in.(*ssa.Alloc)
			if !ok || !cell.Heap {
				return
			}
			pt, ok := cell.Type().(*types.Pointer)
			if !ok {
				return
			}
			if _, isIface := pt.Elem().Underlying().(*types.Interface); !isIface || !strings.HasSuffix(core.TypeName(pt.Elem()), "EntryWriter") {
				return
			}
			nCells++
			isStore := func(x ssa.Instruction) bool {
				st, ok := x.(*ssa.Store)
				return ok && core.CellRoot(st.Addr) == ssa.Value(cell) && !core.IsNilConst(st.Val)
			}
			nilGuarded := func(x ssa.Instruction) bool {
				return hasGuard(x, func(g core.Guard) bool {
					bo, ok := g.Cond.(*ssa.BinOp)
					if !ok || (bo.Op != token.EQL && bo.Op != token.NEQ) {
						return false
					}
					var t ssa.Value
					if core.IsNilConst(bo.Y) {
						t = bo.X
					} else if core.IsNilConst(bo.X) {
						t = bo.Y
					} else {
						return false
					}
					ld, ok := t.(*ssa.UnOp)
					if !ok || ld.Op != token.MUL || core.CellRoot(ld.X) != ssa.Value(cell) {
						return false
					}
					return (bo.Op == token.NEQ) == g.Val
				})
			}
			for _, u := range core.CellUses(cell) {
				ld, ok := u.(*ssa.UnOp)
				if !ok || ld.Op != token.MUL || ld.Referrers() == nil {
					continue
				}
				for _, r := range *ld.Referrers() {
					cl, ok := r.(ssa.CallInstruction)
					if !ok || !cl.Common().IsInvoke() || cl.Common().Value != ssa.Value(ld) {
						continue
					}
					inv := r
					n++
					okSite, where := true, ""
					if nilGuarded(inv) {
						// tested right there
					} else if inv.Parent() == fn {
						if p := core.FindPath(fn, cell, isInstr(inv), isStore); p != nil {
							okSite, where = false, "in the function itself"
						}
					} else {
						// in a literal: every direct call of it; a literal that is handed on (deferred, passed) counts where it is made
						lit := inv.Parent()
						core.Instrs(fn, func(x ssa.Instruction) {
							site := false
							switch y := x.(type) {
							case *ssa.Call:
								site = calledFunc(y) == lit
							case *ssa.MakeClosure:
								if y.Fn == ssa.Value(lit) && y.Referrers() != nil {
									for _, rr := range *y.Referrers() {
										if cc, isCall := rr.(ssa.CallInstruction); isCall && cc.Common().Value == ssa.Value(y) {
											continue
										}
										if _, isDbg := rr.(*ssa.DebugRef); isDbg {
											continue
										}
										site = true // escapes: handed to something that will call it
									}
								}
							}
							if site && okSite {
								if p := core.FindPath(fn, cell, isInstr(x), isStore); p != nil {
									okSite, where = false, "in a literal that is called (or handed on) at "+c.P.Pos(core.InstrPos(x))
								}
							}
						})
					}
					c.Check(okSite, rule, core.FnName(fn), "method "+cl.Common().Method.Name()+" invoked on the entry writer only once it is set", core.InstrPos(inv),
						"every path from the variable's declaration to this invocation assigns the writer (or the invocation is behind a nil test)",
						"a method is invoked on the entry writer "+where+" on a path where no writer was obtained yet (a series that opens with a whole-file op never gets one): a read error or a missing end marker there becomes a nil pointer dereference instead of an error")
				}
			}
		})
	}
	if nCells == 0 {
		// the writer is an ordinary local of both functions (no literal captures it): nothing for this rule to look at
		c.Ok(rule, "pwr/patcher", "the series' entry writer is not held in a cell", token.NoPos, "no function literal captures the writer variable")
		return
	}
	c.Floor(rule, "methods invoked on a series' entry writer held in a cell", n, 3)
}

// ---- the healer removes non-recursively only what it has seen not to be a directory --------------------------

// ruleHealerRemovesWhatItSaw (R06.8): damage can put anything at an entry's path - a non-empty directory where a
// file was signed, too. In the methods of the archive healer (function literals included) a plain os.Remove is
// reached only where an Lstat's IsDir() came out false; whatever may be a directory is removed with RemoveAll
// (or left to the pool, whose writer does that). os.Remove of a non-empty directory fails, and with it the
// healing that the property says terminates without error for every kind swap.
func ruleHealerRemovesWhatItSaw(c *core.Ctx, rule string) {
	c.Rule(rule, "the healer removes non-recursively only what it has seen not to be a directory")
	n, nFn := 0, 0
	for _, top := range c.P.SrcFuncs() {
		if top.Parent() != nil || !strings.HasSuffix(core.PkgPathOf(top), "/pwr") || !strings.Contains(core.FnName(top), "ArchiveHealer") {
			continue
		}
		nFn++
		for _, fn := range core.WithAnons(top) {
			core.Instrs(fn, func(in ssa.Instruction) {
				cl, ok := in.(*ssa.Call)
				if !ok || core.CalleeName(cl) != "os.Remove" {
					return
				}
				n++
				notDir := hasGuard(in, func(g core.Guard) bool {
					c2, ok := g.Cond.(*ssa.Call)
					return ok && c2.Call.IsInvoke() && c2.Call.Method.Name() == "IsDir" && !g.Val
				})
				c.Check(notDir, rule, core.FnName(top), "os.Remove only of something seen not to be a directory", core.InstrPos(in),
					"reached only through the outcome !IsDir() of a look at the path", "the healer removes a path non-recursively without having seen that no directory stands there: where damage put a non-empty directory in a file's place the removal fails ('directory not empty') and the healing ends in an error, the file and everything queued after it unrepaired")
			})
		}
	}
	c.Floor(rule, "methods of the archive healer", nFn, 4)
	c.Floor(rule, "os.Remove calls in the archive healer", n, 2)
}

// ---- what is hashed as a block was read in full -----------------------------------------------------------

// ruleHashedBlocksAreReadInFull (R04.8): a buffer handed to HashBlock / uniqueHash / βhash is never cut at the
// count a single Read returned. One Read may come back short of what is there (a zip entry is inflated 32 KiB
// at a time): the hash then covers a prefix of the block, and this producer's signature disagrees with the
// other's and with the content. Counts from io.ReadFull / io.ReadAtLeast, and tokens of the block scanner, are
// what the producers use.
func ruleHashedBlocksAreReadInFull(c *core.Ctx, rule string) {
	c.Rule(rule, "no block is hashed at the length a single Read returned")
	n := 0
	for _, top := range c.P.SrcFuncs() {
		pk := core.PkgPathOf(top)
		if top.Parent() != nil || (!strings.HasSuffix(pk, "/pwr") && !strings.HasSuffix(pk, "/wsync")) {
			continue
		}
		for _, fn := range core.WithAnons(top) {
			core.Instrs(fn, func(in ssa.Instruction) {
				cl, ok := in.(*ssa.Call)
				if !ok {
					return
				}
				nm := core.CalleeName(cl)
				if !strings.HasSuffix(nm, ".HashBlock") && !strings.HasSuffix(nm, ".uniqueHash") && nm != "wsync.βhash" {
					return
				}
				arg := cl.Call.Args[len(cl.Call.Args)-1]
				n++
				single := ""
				for _, o := range core.Origins(arg) {
					sl, ok := o.(*ssa.Slice)
					if !ok || sl.High == nil {
						continue
					}
					for _, h := range core.Origins(sl.High) {
						ex, ok := h.(*ssa.Extract)
						if !ok || ex.Index != 0 {
							continue
						}
						rc, ok := ex.Tuple.(*ssa.Call)
						if !ok {
							continue
						}
						if rc.Call.IsInvoke() && rc.Call.Method.Name() == "Read" {
							single = "a Read of " + core.Describe(rc.Call.Value)
						} else if f := rc.Call.StaticCallee(); f != nil && f.Name() == "Read" && f.Signature.Recv() != nil {
							single = core.CalleeName(rc)
						}
					}
				}
				c.Check(single == "", rule, core.FnName(top), "buffer hashed by "+nm+" is not cut at a single Read's count", core.InstrPos(in),
					"the length hashed does not come from one Read call", "the block that is hashed is cut at the count returned by "+single+": a single Read may deliver less than is there (zip entries are inflated 32 KiB at a time), so the hash - and the ShortSize - can describe a prefix of the file's block; the signature then disagrees with the one made while diffing, and an undamaged build does not validate against it")
			})
		}
	}
	c.Floor(rule, "hashing calls in pwr and wsync", n, 3)
}

// ---- a block counts as checked only when that block was checked -------------------------------------------

// ruleVerdictsAreNotExtrapolated (R09.9): the safekeeper remembers which blocks it has validated so as not to
// hash them again. Whether the validation of a block is skipped must not be decided by an *ordering* test on
// the block index ("below the highest block that passed"): blocks are read in whatever order the patch reuses
// them, so an earlier block that was never hashed would pass as checked. The guards of the call that judges
// the block are searched (through merged flags and expanded helpers) for <, <=, >, >= on the block index.
func ruleVerdictsAreNotExtrapolated(c *core.Ctx, rule string) {
	c.Rule(rule, "whether a block's validation is skipped is not decided by an ordering test on the block index")
	vb := c.P.Fn("pwr", "safeKeeper.validateBlock")
	if vb == nil {
		c.Missing(rule, "pwr.(*safeKeeper).validateBlock", "not found")
		return
	}
	n := 0
	for _, in := range allInstrs(vb, callLikeInvoke("ValidateAsError")) {
		cl := in.(ssa.CallInstruction)
		args := cl.Common().Args
		if len(args) < 2 {
			continue
		}
		idx := core.StripConv(args[len(args)-2])
		n++
		isIdx := func(v ssa.Value) bool {
			for _, o := range core.Origins(v) {
				if core.StripConv(o) == idx || sameExpr(o, idx) {
					return true
				}
			}
			return false
		}
		bad := ""
		seen := map[ssa.Value]bool{}
		var walk func(v ssa.Value, d int)
		walk = func(v ssa.Value, d int) {
			if v == nil || d > 8 || seen[v] || bad != "" {
				return
			}
			seen[v] = true
			switch x := v.(type) {
			case *ssa.BinOp:
				switch x.Op {
				case token.LSS, token.LEQ, token.GTR, token.GEQ:
					if isIdx(x.X) || isIdx(x.Y) {
						bad = core.Describe(x)
					}
				case token.LAND, token.LOR, token.AND, token.OR:
					walk(x.X, d+1)
					walk(x.Y, d+1)
				}
			case *ssa.UnOp:
				if x.Op == token.NOT {
					walk(x.X, d+1)
				} else if x.Op == token.MUL {
					for _, o := range core.Origins(x) {
						if o != ssa.Value(x) {
							walk(o, d+1)
						}
					}
				}
			case *ssa.Phi:
				for _, e := range x.Edges {
					walk(e, d+1)
				}
			}
		}
		for _, g := range core.Guards(in) {
			walk(g.Cond, 0)
		}
		c.Check(bad == "", rule, core.FnName(vb), "skipping the validation of a block is not decided by an ordering test on its index", core.InstrPos(in),
			"no <, <=, >, >= on the block index among what decides whether the block is judged", "whether this block is validated is decided by "+bad+": a block whose index lies below (above) some remembered mark passes as checked although it was never hashed - the blocks of an old file are read in the order the patch reuses them, so damage in an earlier block that is read later goes unnoticed and the patch applies, silently wrong")
	}
	c.Floor(rule, "calls that judge a block in validateBlock", n, 1)
}

// ---- wounds are merged only with wounds of their own kind ----------------------------------------------------

// ruleMergedWoundsShareAKind (R05.10): where the aggregator widens the pending wound with an incoming one
// (pending.End = incoming.End), a test that fixes the incoming wound's kind to ONE constant lies on every path
// to it - and the same constant guards every place the pending wound is set - or the two kinds were compared
// equal. A range merged across kinds keeps the pending wound's kind: a FILE wound swallowed by a run of healthy
// markers is a wound no consumer ever sees.
func ruleMergedWoundsShareAKind(c *core.Ctx, rule string) {
	c.Rule(rule, "the aggregator merges a wound only into a pending wound of the same kind")
	agg := c.P.Fn("pwr", "AggregateWounds")
	if agg == nil {
		c.Missing(rule, "pwr.AggregateWounds", "not found")
		return
	}
	kindOf := func(in ssa.Instruction) (ks map[int64]bool, sameKinds bool) {
		ks = map[int64]bool{}
		for _, g := range core.Guards(in) {
			bo, ok := g.Cond.(*ssa.BinOp)
			if !ok || (bo.Op != token.EQL && bo.Op != token.NEQ) {
				continue
			}
			holds := (bo.Op == token.EQL) == g.Val
			if !holds {
				continue
			}
			_, nx, okx := core.FieldOf(bo.X)
			_, ny, oky := core.FieldOf(bo.Y)
			if okx && nx == "Kind" {
				if k, isK := core.ConstInt(bo.Y); isK {
					ks[k] = true
				} else if oky && ny == "Kind" {
					sameKinds = true
				}
			}
		}
		return ks, sameKinds
	}
	n := 0
	for _, fn := range core.WithAnons(agg) {
		var merges, sets []ssa.Instruction
		core.Instrs(fn, func(in ssa.Instruction) {
			st, ok := in.(*ssa.Store)
			if !ok {
				return
			}
			// pending = incoming (a store of a *Wound into a captured / local cell)
			if core.TypeName(st.Val.Type()) == "pwr.Wound" {
				if _, isPtr := st.Val.Type().(*types.Pointer); isPtr && !core.IsNilConst(st.Val) {
					switch core.CellRoot(st.Addr).(type) {
					case *ssa.Alloc, *ssa.FreeVar:
						sets = append(sets, in)
					}
				}
				return
			}
			fa, ok := st.Addr.(*ssa.FieldAddr)
			if !ok || core.TypeName(fa.X.Type()) != "pwr.Wound" {
				return
			}
			if _, nm, _ := core.FieldOf(st.Addr); nm != "End" && nm != "Start" {
				return
			}
			// the value comes from a field of another wound
			for _, o := range core.Origins(st.Val) {
				if b, nm, ok := core.FieldOf(o); ok && (nm == "End" || nm == "Start") && core.TypeName(b.Type()) == "pwr.Wound" && !agreeVal(b, fa.X, 0) {
					merges = append(merges, in)
					return
				}
				if ld, ok := o.(*ssa.UnOp); ok && ld.Op == token.MUL {
					if b, nm, ok := core.FieldOf(ld.X); ok && (nm == "End" || nm == "Start") && core.TypeName(b.Type()) == "pwr.Wound" && !agreeVal(b, fa.X, 0) {
						merges = append(merges, in)
						return
					}
				}
			}
		})
		for _, m := range merges {
			n++
			ks, same := kindOf(m)
			ok := same
			why := ""
			if !ok {
				if len(ks) != 1 {
					why = "no test fixing the incoming wound's kind to one constant lies on every path to the merge"
				} else {
					ok = true
					for _, s := range sets {
						ks2, _ := kindOf(s)
						match := len(ks2) == 1
						for k := range ks {
							if !ks2[k] {
								match = false
							}
						}
						if !match {
							ok, why = false, "the pending wound can be set from a wound of another kind than the one that is merged into it"
						}
					}
				}
			}
			c.Check(ok, rule, core.FnName(agg), "a wound is merged only into a pending wound of its own kind", core.InstrPos(m),
				"the merge and every assignment of the pending wound lie behind the same single-kind test (or the kinds were compared equal)",
				why+": the merged range keeps the pending wound's kind, so a FILE wound that follows a run of healthy markers (a damaged last block, say) disappears into a CLOSED_FILE range that every consumer takes for healthy - fail-fast validation then returns nil for a damaged directory")
		}
	}
	c.Floor(rule, "merges of an incoming wound into the pending one", n, 1)
}

// ---- link targets are created as recorded ---------------------------------------------------------------------

// ruleLinkTargetsVerbatim (R19.11): what package archiver hands to Symlink (its own helper or os.Symlink) as the
// link's target does not go through a function that rewrites paths lexically (Clean, Join, Abs, Rel,
// EvalSymlinks, Base, Dir). A target such as ./a, b/ or jump/../x (jump a link) is a different link once it is
// 'cleaned' - and resolves to a different file when a component before the .. is itself a link.
func ruleLinkTargetsVerbatim(c *core.Ctx, rule string, pkgSuffix string, floor int) {
	c.Rule(rule, "a symbolic link's target is created as it was recorded, not lexically rewritten")
	rewriters := map[string]bool{"path/filepath.Clean": true, "path.Clean": true, "path/filepath.Join": true, "path.Join": true, "path/filepath.Abs": true,
		"path/filepath.Rel": true, "path/filepath.EvalSymlinks": true, "path/filepath.Base": true, "path.Base": true, "path/filepath.Dir": true, "path.Dir": true}
	n := 0
	for _, top := range c.P.SrcFuncs() {
		if top.Parent() != nil || !strings.HasSuffix(core.PkgPathOf(top), pkgSuffix) {
			continue
		}
		for _, fn := range core.WithAnons(top) {
			core.Instrs(fn, func(in ssa.Instruction) {
				cl, ok := in.(*ssa.Call)
				if !ok {
					return
				}
				nm := core.CalleeName(cl)
				if nm != "os.Symlink" && !strings.HasSuffix(nm, "archiver.Symlink") && !strings.HasSuffix(nm, "screw.Symlink") {
					return
				}
				// inside the helper itself the target is a parameter: judged at its callers
				n++
				bad := ""
				seen := map[ssa.Value]bool{}
				var walk func(v ssa.Value, d int)
				walk = func(v ssa.Value, d int) {
					if v == nil || d > 8 || seen[v] || bad != "" {
						return
					}
					seen[v] = true
					for _, o := range core.Origins(v) {
						if rc, ok := o.(*ssa.Call); ok {
							if rewriters[core.CalleeName(rc)] {
								bad = core.CalleeName(rc)
								return
							}
							if !rc.Call.IsInvoke() {
								for _, a := range rc.Call.Args {
									if bt, ok := a.Type().Underlying().(*types.Basic); ok && bt.Info()&types.IsString != 0 {
										walk(a, d+1)
									}
								}
							}
						}
					}
				}
				walk(cl.Call.Args[0], 0)
				c.Check(bad == "", rule, core.FnName(top), "the target handed to "+nm+" is not lexically rewritten", core.InstrPos(in),
					"the link target reaches the call as it was recorded (separators converted at most)",
					"the link target goes through "+bad+" before the link is made: targets that are valid but not in their shortest spelling (./a, b/, x//y, jump/../x) come out as different links - and where a component before a .. is itself a link, as links to a different file")
			})
		}
	}
	c.Floor(rule, "symlink creations in the package", n, floor)
}

// ---- every control message of a bsdiff series is applied -----------------------------------------------------

// ruleEveryControlIsApplied (R12.9): in the whole-series applier (*PatchContext).Patch, from reading a control
// message the loop comes round to the next read only through Apply. A control whose Add and Copy are both empty
// still carries a Seek: skipping it shifts every later addition against the old file.
func ruleEveryControlIsApplied(c *core.Ctx, rule string) {
	c.Rule(rule, "the series loop of bsdiff's Patch hands every control it reads to Apply")
	fn := c.P.Fn("bsdiff", "PatchContext.Patch")
	if fn == nil {
		c.Missing(rule, "bsdiff.(*PatchContext).Patch", "not found")
		return
	}
	isApply := func(in ssa.Instruction) bool {
		cl, ok := in.(*ssa.Call)
		return ok && strings.HasSuffix(core.CalleeName(cl), "IndividualPatchContext).Apply")
	}
	n := 0
	core.Instrs(fn, func(in ssa.Instruction) {
		cl, ok := in.(ssa.CallInstruction)
		if !ok {
			return
		}
		idx := wireReadCall(cl)
		if idx < 0 || core.TypeName(core.StripConv(cl.Common().Args[idx]).Type()) != "bsdiff.Control" {
			return
		}
		if core.FindPath(fn, in, isInstr(in), nil) == nil {
			return // not in a loop
		}
		n++
		p := core.FindPath(fn, in, isInstr(in), isApply)
		c.Check(p == nil, rule, core.FnName(fn), "every control read in the loop is applied before the next is read", core.InstrPos(in),
			"the loop comes back to this read only through Apply", "a control message can be read and passed over (one whose Add and Copy are empty, say): it still carries a Seek, and without it every later addition is summed with the wrong bytes of the old file - right length, no error, wrong content").Path = c.P.PathStrings(p)
	})
	c.Floor(rule, "control reads in the loop of Patch", n, 1)
}

// ---- an absent sub-message is not dereferenced ---------------------------------------------------------------

// ruleAbsentSubMessagesAreNotDereferenced (R10.ptr): a singular message-typed field of a generated (protobuf)
// message is a pointer that is nil when the stream did not carry the field. Where such a pointer - read from the
// field, returned by the generated getter, or received as a parameter from a call that hands one over - has a
// field selected directly (p.Field, not the nil-safe p.GetField()), a test of p against nil lies on every path.
func ruleAbsentSubMessagesAreNotDereferenced(c *core.Ctx, rule string) {
	c.Rule(rule, "a sub-message pointer that the stream may not have carried is tested against nil before a field is selected from it")
	isPBPtr := func(t types.Type) bool {
		pt, ok := t.(*types.Pointer)
		if !ok {
			return false
		}
		nt, ok := pt.Elem().(*types.Named)
		if !ok || nt.Obj().Pkg() == nil {
			return false
		}
		if _, isStruct := nt.Underlying().(*types.Struct); !isStruct {
			return false
		}
		return strings.Contains(c.P.Pos(nt.Obj().Pos()), ".pb.go:")
	}
	inPB := func(fn *ssa.Function) bool { return strings.Contains(c.P.Pos(fn.Pos()), ".pb.go:") }
	maybe := map[ssa.Value]bool{}
	var fns []*ssa.Function
	for _, fn := range c.P.SrcFuncs() {
		if !strings.HasPrefix(core.PkgPathOf(fn), core.Mod) || inPB(fn) {
			continue
		}
		fns = append(fns, fn)
		core.Instrs(fn, func(in ssa.Instruction) {
			switch x := in.(type) {
			case *ssa.UnOp:
				if x.Op == token.MUL && isPBPtr(x.Type()) {
					if fa, ok := x.X.(*ssa.FieldAddr); ok && isPBPtr(fa.X.Type()) {
						maybe[x] = true
					}
				}
			case *ssa.Call:
				if f := x.Call.StaticCallee(); f != nil && strings.HasPrefix(f.Name(), "Get") && f.Signature.Recv() != nil && isPBPtr(f.Signature.Recv().Type()) && isPBPtr(x.Type()) {
					maybe[x] = true
				}
			}
		})
	}
	// nilTested: on every path to at, base was found non-nil
	nilTested := func(at ssa.Instruction, base ssa.Value) bool {
		return hasGuard(at, func(g core.Guard) bool {
			bo, ok := g.Cond.(*ssa.BinOp)
			if !ok || (bo.Op != token.EQL && bo.Op != token.NEQ) {
				return false
			}
			var t ssa.Value
			if core.IsNilConst(bo.Y) {
				t = bo.X
			} else if core.IsNilConst(bo.X) {
				t = bo.Y
			} else {
				return false
			}
			if !(agreeVal(t, base, 0) || sameVal(t, base)) {
				same := false
				for _, o := range core.Origins(base) {
					if agreeVal(t, o, 0) {
						same = true
					}
				}
				if !same {
					return false
				}
			}
			return (bo.Op == token.NEQ) == g.Val
		})
	}
	isMaybe := func(v ssa.Value) bool {
		if maybe[v] {
			return true
		}
		for _, o := range core.Origins(v) {
			if maybe[o] {
				return true
			}
		}
		return false
	}
	// hand-over to parameters of module functions (to a fixed point; three rounds are plenty)
	for round := 0; round < 3; round++ {
		for _, fn := range fns {
			core.Instrs(fn, func(in ssa.Instruction) {
				cl, ok := in.(ssa.CallInstruction)
				if !ok {
					return
				}
				f := cl.Common().StaticCallee()
				if f == nil || f.Blocks == nil || !strings.HasPrefix(core.PkgPathOf(f), core.Mod) || inPB(f) {
					return
				}
				args := cl.Common().Args
				for i, a := range args {
					if i < len(f.Params) && isPBPtr(a.Type()) && isMaybe(a) && !nilTested(in, a) {
						maybe[f.Params[i]] = true
					}
				}
			})
		}
	}
	n := 0
	for _, fn := range fns {
		core.Instrs(fn, func(in ssa.Instruction) {
			fa, ok := in.(*ssa.FieldAddr)
			if !ok || !isPBPtr(fa.X.Type()) || !isMaybe(fa.X) {
				return
			}
			n++
			base := fa.X
			guarded := nilTested(in, base)
			_, nm, _ := core.FieldOf(fa)
			c.Check(guarded, rule, core.FnName(fn), "field "+nm+" selected from "+core.Describe(base)+" only behind a nil test", core.InstrPos(in),
				"a test of the pointer against nil lies on every path to the selection", "a field is selected directly from a sub-message pointer that is nil when the stream did not carry that field (a well-framed header without compression settings, say): the reader of a patch or signature crashes with a nil pointer dereference where it should return an error")
		})
	}
	c.Floor(rule, "direct field selections from possibly absent sub-messages", n, 1)
}

// ---- a remainder is not taken with a mask of a run-time divisor ------------------------------------------------

// ruleNoMaskForRuntimeModulo (R11.8): in package wsync nothing is computed as x & (n - 1) with n a value of the
// run (the context's block size): that equals x % n only when n is a power of two, and the block size is the
// caller's choice.
func ruleNoMaskForRuntimeModulo(c *core.Ctx, rule string) {
	c.Rule(rule, "no x & (n-1) with a run-time n in package wsync")
	nFn := 0
	for _, top := range c.P.SrcFuncs() {
		if !strings.HasSuffix(core.PkgPathOf(top), "/wsync") {
			continue
		}
		nFn++
		core.Instrs(top, func(in ssa.Instruction) {
			bo, ok := in.(*ssa.BinOp)
			if !ok || bo.Op != token.AND {
				return
			}
			for _, side := range []ssa.Value{bo.X, bo.Y} {
				sub, ok := core.StripConv(side).(*ssa.BinOp)
				if !ok || sub.Op != token.SUB {
					continue
				}
				if k, isK := core.ConstInt(sub.Y); !isK || k != 1 {
					continue
				}
				if _, isConst := core.StripConv(sub.X).(*ssa.Const); isConst {
					continue
				}
				c.Bad(rule, core.FnName(top), "mask "+core.Describe(bo), core.InstrPos(in),
					"a remainder is taken as x & (n-1) where n is a value of the run (the block size): that is x % n only for powers of two; with any other block size the short last block of an old file comes out too short (its tail is dropped from the replay) or too long")
			}
		})
	}
	c.Floor(rule, "functions of package wsync", nFn, 10)
}
