package probe

import (
	"bytes"
	"context"
	"math/rand"
	"os"
	"path/filepath"
	"testing"

	"github.com/itchio/headway/state"
	"github.com/itchio/lake/pools/fspool"
	"github.com/itchio/lake/tlc"
	"github.com/itchio/wharf/pwr"
	"github.com/itchio/wharf/wire"
	"github.com/itchio/wharf/wsync"
)

func must(t *testing.T, err error) {
	t.Helper()
	if err != nil {
		t.Fatalf("must: %+v", err)
	}
}

func randBytes(seed int64, n int) []byte {
	r := rand.New(rand.NewSource(seed))
	b := make([]byte, n)
	r.Read(b)
	return b
}

func writeFile(t *testing.T, dir, rel string, data []byte) {
	p := filepath.Join(dir, filepath.FromSlash(rel))
	must(t, os.MkdirAll(filepath.Dir(p), 0o755))
	must(t, os.WriteFile(p, data, 0o644))
}

func walk(t *testing.T, dir string) *tlc.Container {
	c, err := tlc.WalkAny(dir, tlc.WalkOpts{})
	must(t, err)
	return c
}

func sign(t *testing.T, dir string) (*tlc.Container, []wsync.BlockHash) {
	c := walk(t, dir)
	h, err := pwr.ComputeSignature(context.Background(), c, fspool.New(c, dir), &state.Consumer{})
	must(t, err)
	return c, h
}

func sigBytes(t *testing.T, c *tlc.Container, hashes []wsync.BlockHash) []byte {
	buf := new(bytes.Buffer)
	w := wire.NewWriteContext(buf)
	must(t, w.WriteMagic(pwr.SignatureMagic))
	must(t, w.WriteMessage(&pwr.SignatureHeader{Compression: &pwr.CompressionSettings{Algorithm: pwr.CompressionAlgorithm_NONE}}))
	must(t, w.WriteMessage(c))
	for _, h := range hashes {
		must(t, w.WriteMessage(&pwr.BlockHash{WeakHash: h.WeakHash, StrongHash: h.StrongHash}))
	}
	return buf.Bytes()
}

func diff(t *testing.T, oldDir, newDir string) []byte {
	oc, oh := sign(t, oldDir)
	nc := walk(t, newDir)
	patch := new(bytes.Buffer)
	dctx := &pwr.DiffContext{
		Compression:     &pwr.CompressionSettings{Algorithm: pwr.CompressionAlgorithm_NONE},
		Consumer:        &state.Consumer{},
		SourceContainer: nc,
		Pool:            fspool.New(nc, newDir),
		TargetContainer: oc,
		TargetSignature: oh,
	}
	must(t, dctx.WritePatch(context.Background(), patch, new(bytes.Buffer)))
	return patch.Bytes()
}
