package rules

import (
	"go/token"
	"go/types"
	"reflect"
	"sort"
	"strings"

	"golang.org/x/tools/go/ssa"

	"wharfverif/checker/internal/core"
)

func init() {
	register(&Property{
		ID: "C17",
		Explanation: `R17.1 skip touches nothing: in Resume the only call from which a bowl write/transpose or an old-build pool read is reachable is the call to processFile; skipFile's call tree contains none; processFile (with touchedFiles++) and skipFile sit on opposite outcomes of one branch that depends on the whitelist being non-nil and on the whitelist lookup keyed by sh.FileIndex; ` +
			`R17.2 the skip path reads every message type the processing path reads for a series (sibling agreement); a type it would decode as another type must not alias the end-marker discriminator (field number + wire type from the generated struct tags); ` +
			`R17.3 a freshly read header is acted upon (skip or process) only after it was compared with the expected file index; ` +
			`R17.4 the series kind that skipFile dispatches on is (re)assigned on every path from reading the header to the skip/process decision. ` +
			`R17.6 (shared with C03) every cyclic path through the increment of the checkpoint file index stores nil into each pointer field of the checkpoint that the loop body or its callees read (SyncHeader, RsyncCheckpoint, BsdiffCheckpoint), directly or through a callee / deferred call that does so on all its paths. ` +
			`R17.7 every success return of skipFile is reached through the outcome op.Type == HEY_YOU_DID_IT of a SyncOp read from the stream. ` +
			`R07.4 (shared) pool read-seekers are positioned before they are read linearly. R17.8 the value found by a lookup of the whitelist, not only the presence of the key, flows into a branch condition. NOT decided: equality of the selected files with full application; that GetTouchedFiles equals the subset size.`,
		Assumptions: []string{"effects are the Bowl methods GetWriter/Transpose and the lake.Pool methods GetSize/GetReader/GetReadSeeker; module-internal call graph (CHA) for reachability"},
		Run:         runC17,
	})
}

func runC17(c *core.Ctx) {
	c.Rule("R17.1", "skip touches nothing; skip/process decided by the whitelist lookup")
	c.Rule("R17.2", "skip path reads what the process path reads; no end-marker aliasing")
	c.Rule("R17.3", "whitelist consulted after the header check")
	c.Rule("R17.4", "series kind is set from the current header before skipping")
	c.Rule("R17.5", "the whitelist kept is the caller's, values included")
	rulePerFileStateCleared(c, "R17.6")
	ruleSkipEndsAtTheMarker(c, "R17.7")
	ruleWhitelistValueDecides(c, "R17.8")
	ruleRewindBeforeLinearRead(c, "R07.4")
	{
		nSt := 0
		for _, fn := range c.P.SrcFuncs() {
			if !strings.HasSuffix(core.PkgPathOf(fn), "/pwr/patcher") {
				continue
			}
			core.Instrs(fn, func(in ssa.Instruction) {
				st, ok := in.(*ssa.Store)
				if !ok {
					return
				}
				if _, n, ok := core.FieldOf(st.Addr); !ok || n != "sourceIndexWhiteList" {
					return
				}
				nSt++
				okAll := true
				for _, o := range core.Origins(st.Val) {
					switch x := o.(type) {
					case *ssa.Parameter:
					case *ssa.Const:
					case *ssa.MakeMap:
						// a copy: every value put into it comes out of the caller's map
						if refs := x.Referrers(); refs != nil {
							for _, r := range *refs {
								mu, ok := r.(*ssa.MapUpdate)
								if !ok || mu.Map != ssa.Value(x) {
									continue
								}
								fromSrc := false
								for _, vo := range core.Origins(mu.Value) {
									switch y := vo.(type) {
									case *ssa.Extract: // value of a range over a map, or v, ok := m[k]
										fromSrc = true
										_ = y
									case *ssa.Lookup:
										fromSrc = true
									}
								}
								if !fromSrc {
									okAll = false
								}
							}
						}
					default:
						okAll = false
					}
				}
				c.Check(okAll, "R17.5", core.FnName(fn), "the whitelist stored is the caller's map or a copy with its values", core.InstrPos(in),
					"parameter, nil, or a map filled with values read from the source map", "the whitelist the patcher keeps is not the caller's: a copy that does not take its values from the caller's map (every key present becomes selected), or something else entirely")
			})
		}
		c.Floor("R17.5", "assignments of the whitelist", nSt, 1)
	}
	resume := c.P.Fn("pwr/patcher", "savingPatcher.Resume")
	skip := c.P.Fn("pwr/patcher", "savingPatcher.skipFile")
	process := c.P.Fn("pwr/patcher", "savingPatcher.processFile")
	if resume == nil || skip == nil {
		c.Missing("R17", "pwr/patcher.(*savingPatcher).Resume/skipFile", "not found")
		return
	}
	// processFile is the usual carrier of the effects, but what matters are the calls in Resume from which a bowl
	// write or a pool read is reachable, whatever they are called
	isEffect := func(in ssa.Instruction) bool {
		cl, ok := in.(ssa.CallInstruction)
		if !ok || !cl.Common().IsInvoke() {
			return false
		}
		tn := core.TypeName(cl.Common().Value.Type())
		m := cl.Common().Method.Name()
		switch {
		case strings.HasSuffix(tn, "pwr/bowl.Bowl") && (m == "GetWriter" || m == "Transpose"):
			return true
		case (tn == "github.com/itchio/lake.Pool" || tn == "github.com/itchio/lake.WritablePool") && (m == "GetSize" || m == "GetReader" || m == "GetReadSeeker" || m == "GetWriter"):
			return true
		}
		return false
	}
	g := c.P.CallGraph(c.Tier == "thorough")
	memo := map[*ssa.Function]int{} // 0 unknown, 1 in progress, 2 no, 3 yes
	var reaches func(f *ssa.Function) bool
	reaches = func(f *ssa.Function) bool {
		if f == nil || !core.InModule(f) {
			return false
		}
		switch memo[f] {
		case 1, 2:
			return false
		case 3:
			return true
		}
		memo[f] = 1
		res := false
		for _, ff := range core.WithAnons(f) {
			core.Instrs(ff, func(in ssa.Instruction) {
				if isEffect(in) {
					res = true
				}
			})
		}
		if !res {
			if n := g.Nodes[f]; n != nil {
				for _, e := range n.Out {
					if e.Callee != nil && reaches(e.Callee.Func) {
						res = true
					}
				}
			}
		}
		if res {
			memo[f] = 3
		} else {
			memo[f] = 2
		}
		return res
	}
	c.Check(!reaches(skip), "R17.1", core.FnName(skip), "call tree contains no bowl write / pool read", skip.Pos(),
		"no Bowl.GetWriter/Transpose or Pool read is reachable from skipFile", "a bowl write/transpose or an old-build pool read is reachable from skipFile: a file outside the whitelist is touched or read")
	nEff := 0
	var skipCall ssa.Instruction
	var processCalls []ssa.Instruction
	core.Instrs(resume, func(in ssa.Instruction) {
		cl, ok := in.(ssa.CallInstruction)
		if !ok {
			return
		}
		if _, isDefer := in.(*ssa.Defer); isDefer {
			return
		}
		if sc := cl.Common().StaticCallee(); sc == skip {
			skipCall = in
			return
		}
		direct := isEffect(in)
		via := false
		if sc := cl.Common().StaticCallee(); sc != nil {
			via = reaches(sc)
		}
		if direct || via {
			nEff++
			processCalls = append(processCalls, in)
			if process != nil {
				c.Check(cl.Common().StaticCallee() == process, "R17.1", core.FnName(resume), "effect-reaching call "+core.CalleeName(cl), core.InstrPos(in),
					"bowl/pool effects are reachable from Resume only through processFile", "Resume reaches a bowl write or pool read through "+core.CalleeName(cl)+", outside the whitelisted branch")
			}
		}
	})
	c.Floor("R17.1", "effect-reaching calls in Resume", nEff, 1)
	if len(processCalls) == 0 || skipCall == nil {
		c.Bad("R17.1", core.FnName(resume), "skipFile / processing calls", resume.Pos(), "Resume no longer calls both skipFile and a function that applies the series")
		return
	}
	processCall := processCalls[0]
	// mutually exclusive within one file's iteration (the iteration ends where c.FileIndex is advanced)
	isAdvance := func(x ssa.Instruction) bool {
		st, ok := x.(*ssa.Store)
		if !ok {
			return false
		}
		b, n, ok := core.FieldOf(st.Addr)
		return ok && n == "FileIndex" && core.TypeName(b.Type()) == "pwr/patcher.Checkpoint"
	}
	excl := true
	for _, pc := range processCalls {
		if core.FindPath(resume, skipCall, isInstr(pc), isAdvance) != nil || core.FindPath(resume, pc, isInstr(skipCall), isAdvance) != nil {
			excl = false
		}
	}
	c.Check(excl, "R17.1", core.FnName(resume), "skipFile and processFile are mutually exclusive per file", core.InstrPos(skipCall),
		"neither call can follow the other before the file index is advanced", "a file can be both skipped and processed in the same iteration")
	{
		// transitive support of the decision to skip
		var lookupOK, nilOK bool
		seen := map[ssa.Value]bool{}
		var visit func(v ssa.Value, d int)
		visitGuards := func(b *ssa.BasicBlock, d int) {
			for _, g := range core.BlockGuards(b) {
				visit(g.Cond, d+1)
			}
		}
		visit = func(v ssa.Value, d int) {
			if v == nil || seen[v] || d > 6 {
				return
			}
			seen[v] = true
			switch x := v.(type) {
			case *ssa.Phi:
				for i, e := range x.Edges {
					visit(e, d+1)
					visitGuards(x.Block().Preds[i], d)
				}
			case *ssa.UnOp:
				visit(x.X, d+1)
			case *ssa.BinOp:
				if (x.Op == token.NEQ || x.Op == token.EQL) && core.IsNilConst(x.Y) {
					if _, n, ok := core.FieldOf(x.X); ok && n == "sourceIndexWhiteList" {
						nilOK = true
					}
				}
				visit(x.X, d+1)
				visit(x.Y, d+1)
			case *ssa.Extract:
				visit(x.Tuple, d+1)
			case *ssa.Lookup:
				_, n, ok := core.FieldOf(x.X)
				b, kn, kok := core.FieldOf(x.Index)
				if ok && n == "sourceIndexWhiteList" && kok && kn == "FileIndex" && core.TypeName(b.Type()) == "pwr.SyncHeader" {
					lookupOK = true
				}
			}
		}
		for _, g := range core.Guards(skipCall) {
			visit(g.Cond, 0)
		}
		c.Check(lookupOK, "R17.1", core.FnName(resume), "skipping depends on whitelist[sh.FileIndex]", core.InstrPos(skipCall),
			"the decision to skip is derived from the whitelist lookup keyed by the header's file index", "the decision to skip does not derive from the whitelist lookup keyed by sh.FileIndex")
		c.Check(nilOK, "R17.1", core.FnName(resume), "skipping depends on whitelist != nil", core.InstrPos(skipCall),
			"a nil whitelist means 'apply everything'", "the decision no longer distinguishes a nil whitelist (apply everything) from an empty one")
		// touchedFiles++ after processFile, never after skipFile
		touched := false
		core.Instrs(resume, func(in ssa.Instruction) {
			st, ok := in.(*ssa.Store)
			if !ok {
				return
			}
			if _, n, ok := core.FieldOf(st.Addr); ok && n == "touchedFiles" {
				// counted after a processing call of the same iteration returned nil, never after a skip
				after := false
				for _, pc := range processCalls {
					if core.FindPath(resume, pc, isInstr(in), isAdvance) != nil {
						after = true
						if pcc, ok := pc.(*ssa.Call); ok && ungatedPath(resume, pcc, in, isAdvance) != nil {
							after = false
						}
					}
				}
				fromStart := core.FindPath(resume, nil, isInstr(in), func(x ssa.Instruction) bool {
					for _, pc := range processCalls {
						if x == pc {
							return true
						}
					}
					return false
				}) != nil
				if after && !fromStart && core.FindPath(resume, skipCall, isInstr(in), isAdvance) == nil {
					touched = true
				} else {
					c.Bad("R17.1", core.FnName(resume), "touchedFiles updated outside the process outcome", core.InstrPos(in), "touchedFiles is updated on a path that does not process a whitelisted file")
				}
			}
		})
		c.Check(touched, "R17.1", core.FnName(resume), "touchedFiles++ on the process outcome", core.InstrPos(processCall),
			"counted where the file is processed", "processed files are not counted in touchedFiles")
	}

	// ---- R17.3 / R17.4
	var hdrRead ssa.Instruction
	core.Instrs(resume, func(in ssa.Instruction) {
		cl, ok := in.(ssa.CallInstruction)
		if !ok {
			return
		}
		if idx := wireReadCall(cl); idx >= 0 && core.TypeName(core.StripConv(cl.Common().Args[idx]).Type()) == "pwr.SyncHeader" {
			hdrRead = in
		}
	})
	if hdrRead == nil {
		c.Bad("R17.3", core.FnName(resume), "header read", resume.Pos(), "Resume no longer reads the sync header")
	} else {
		var lookup ssa.Instruction
		core.Instrs(resume, func(in ssa.Instruction) {
			if lk, ok := in.(*ssa.Lookup); ok {
				if _, n, ok := core.FieldOf(lk.X); ok && n == "sourceIndexWhiteList" {
					lookup = in
				}
			}
		})
		if lookup != nil {
			eqEdge := func(b, s *ssa.BasicBlock) bool {
				ifi, ok := b.Instrs[len(b.Instrs)-1].(*ssa.If)
				if !ok {
					return false
				}
				bo, ok := ifi.Cond.(*ssa.BinOp)
				if !ok || (bo.Op != token.NEQ && bo.Op != token.EQL) {
					return false
				}
				_, n1, ok1 := core.FieldOf(bo.X)
				_, n2, ok2 := core.FieldOf(bo.Y)
				if !ok1 || !ok2 || n1 != "FileIndex" || n2 != "FileIndex" {
					return false
				}
				return (bo.Op == token.NEQ && s == b.Succs[1]) || (bo.Op == token.EQL && s == b.Succs[0])
			}
			// demanded of the ACTIONS, not of the lookup itself (looking a bogus key up in a map is harmless):
			// from the header read, skipFile / processFile are reachable only through the 'indices agree' outcome
			for _, act := range append([]ssa.Instruction{skipCall}, processCalls...) {
				p := core.FindPathSkipping(resume, hdrRead, isInstr(act), nil, eqEdge)
				c.Check(p == nil, "R17.3", core.FnName(resume), "a freshly read header is acted upon only after sh.FileIndex == c.FileIndex was established: "+core.CalleeName(act.(ssa.CallInstruction)), core.InstrPos(act),
					"from the header read, the call is reachable only through the 'indices agree' outcome", "a file can be skipped or processed on the strength of a header whose file index was not compared with the expected one").Path = c.P.PathStrings(p)
			}
		}
		// R17.4: which checkpoint fields does skipFile read? each must be stored on every path header read -> skipFile call
		var cParam *ssa.Parameter
		for _, p := range skip.Params {
			if core.TypeName(p.Type()) == "pwr/patcher.Checkpoint" {
				cParam = p
			}
		}
		readFields := map[string]bool{}
		if cParam != nil {
			core.Instrs(skip, func(in ssa.Instruction) {
				if fa, ok := in.(*ssa.FieldAddr); ok && fa.X == ssa.Value(cParam) {
					_, n, _ := core.FieldOf(fa)
					readFields[n] = true
				}
			})
		}
		var rf []string
		for n := range readFields {
			rf = append(rf, n)
		}
		sort.Strings(rf)
		for _, n := range rf {
			if n != "FileKind" {
				continue // BsdiffCheckpoint etc. legitimately come from the checkpoint being resumed
			}
			p := core.FindPath(resume, hdrRead, isInstr(skipCall), func(x ssa.Instruction) bool {
				st, ok := x.(*ssa.Store)
				if !ok {
					return false
				}
				b, fn, ok := core.FieldOf(st.Addr)
				return ok && fn == n && core.TypeName(b.Type()) == "pwr/patcher.Checkpoint"
			})
			c.Check(p == nil, "R17.4", core.FnName(resume), "c."+n+" assigned between reading the header and skipFile", core.InstrPos(skipCall),
				"skipFile dispatches on a series kind derived from the header just read", "skipFile reads c."+n+", but a path from reading this file's header to the skipFile call never assigns it: it still holds the kind of a previously processed file and the series is skipped with the wrong message types").Path = c.P.PathStrings(p)
		}
		c.Stats["R17.4.checkpoint_fields_read_by_skipFile"] = len(rf)
	}

	// ---- R17.2
	readTypes := func(fns ...*ssa.Function) map[string]types.Type {
		out := map[string]types.Type{}
		seen := map[*ssa.Function]bool{}
		var walk func(f *ssa.Function, d int)
		walk = func(f *ssa.Function, d int) {
			if f == nil || seen[f] || d > 3 || !strings.HasSuffix(core.PkgPathOf(f), "/pwr/patcher") {
				return
			}
			seen[f] = true
			for _, ff := range core.WithAnons(f) {
				core.Instrs(ff, func(in ssa.Instruction) {
					cl, ok := in.(ssa.CallInstruction)
					if !ok {
						return
					}
					if idx := wireReadCall(cl); idx >= 0 {
						t := core.StripConv(cl.Common().Args[idx]).Type()
						out[core.TypeName(t)] = t
					}
					if sc := cl.Common().StaticCallee(); sc != nil {
						walk(sc, d+1)
					}
				})
			}
		}
		for _, f := range fns {
			walk(f, 0)
		}
		return out
	}
	rSkip := readTypes(skip)
	var procFns []*ssa.Function
	for _, pc := range processCalls {
		if sc := pc.(ssa.CallInstruction).Common().StaticCallee(); sc != nil {
			procFns = append(procFns, sc)
		}
	}
	rProc := readTypes(procFns...)
	if process == nil && len(procFns) > 0 {
		process = procFns[0] // for positions in reports
	}
	if process == nil {
		process = resume
	}
	var missing []string
	for n := range rProc {
		if _, ok := rSkip[n]; !ok {
			missing = append(missing, n)
		}
	}
	sort.Strings(missing)
	c.Stats["R17.2.series_message_types_processed"] = len(rProc)
	if len(rProc) < 3 {
		c.Bad("R17.2", core.FnName(process), "series message types", process.Pos(), "fewer than three series message types are read by the processing path (SyncOp, BsdiffHeader, Control expected)")
	}
	if len(missing) == 0 {
		c.Ok("R17.2", core.FnName(skip), "reads every series message type the processing path reads", skip.Pos(),
			"skip path and process path decode the same message types, so no message is decoded as another type")
	} else {
		// discriminator: SyncOp.type (field 1, varint)
		disc := protoTag(rSkip["pwr.SyncOp"], "Type")
		for _, m := range missing {
			alias := ""
			st := structOf(rProc[m])
			if st != nil {
				for i := 0; i < st.NumFields(); i++ {
					tag := reflect.StructTag(st.Tag(i)).Get("protobuf")
					if tag == "" {
						continue
					}
					parts := strings.Split(tag, ",")
					if len(parts) >= 2 && disc != "" && parts[0]+","+parts[1] == disc {
						alias = st.Field(i).Name()
					}
				}
			}
			c.Check(alias == "", "R17.2", core.FnName(skip), m+" is decoded as SyncOp by the skip loop without aliasing the end marker", skip.Pos(),
				"no field of "+m+" has the discriminator's field number and wire type ("+disc+")",
				"the skip loop decodes "+m+" as a SyncOp and stops on Type == HEY_YOU_DID_IT; "+m+"."+alias+" has the same field number and wire type as SyncOp.type ("+disc+"), so a "+m+" whose "+alias+" is 2049 ends the skip early")
		}
	}
}

// protoTag returns "wiretype,number" of the named field from the generated struct tag.
func protoTag(t types.Type, field string) string {
	st := structOf(t)
	if st == nil {
		return ""
	}
	for i := 0; i < st.NumFields(); i++ {
		if st.Field(i).Name() == field {
			parts := strings.Split(reflect.StructTag(st.Tag(i)).Get("protobuf"), ",")
			if len(parts) >= 2 {
				return parts[0] + "," + parts[1]
			}
		}
	}
	return ""
}

// rulePerFileStateCleared is R17.6 (shared with C03): the checkpoint handed to Resume carries state that
// belongs to the file it was saved in (the series checkpoints, the header already read). Whatever way an
// iteration of the file loop takes - processing the file or skipping it - that state must be nil again
// before the next iteration, or the next file of the same kind "resumes" a series that is not its own.
// The fields are found by role: pointer fields of the checkpoint that the loop body or the functions it
// calls read. The anchor is the increment of the file index.
func rulePerFileStateCleared(c *core.Ctx, rule string) {
	c.Rule(rule, "per-file checkpoint state is cleared on every way round the file loop")
	resume := c.P.Fn("pwr/patcher", "savingPatcher.Resume")
	if resume == nil {
		c.Missing(rule, "pwr/patcher.(*savingPatcher).Resume", "not found")
		return
	}
	rname := core.FnName(resume)
	isCk := func(v ssa.Value) bool {
		return strings.HasSuffix(core.TypeName(v.Type()), "pwr/patcher.Checkpoint")
	}
	var inc *ssa.Store
	core.Instrs(resume, func(in ssa.Instruction) {
		st, ok := in.(*ssa.Store)
		if !ok {
			return
		}
		base, n, ok := core.FieldOf(st.Addr)
		if !ok || n != "FileIndex" || !isCk(base) {
			return
		}
		if bo, ok := st.Val.(*ssa.BinOp); ok && bo.Op == token.ADD {
			if k, isC := core.ConstInt(bo.Y); isC && k == 1 {
				inc = st
			}
		}
	})
	if inc == nil {
		c.Missing(rule, rname, "no increment of the checkpoint's file index in Resume")
		return
	}
	// the loop: blocks on a cycle through the increment
	reach := func(from *ssa.BasicBlock, fwd bool) map[*ssa.BasicBlock]bool {
		seen := map[*ssa.BasicBlock]bool{}
		work := []*ssa.BasicBlock{}
		next := func(b *ssa.BasicBlock) []*ssa.BasicBlock {
			if fwd {
				return b.Succs
			}
			return b.Preds
		}
		work = append(work, next(from)...)
		for len(work) > 0 {
			b := work[len(work)-1]
			work = work[:len(work)-1]
			if seen[b] {
				continue
			}
			seen[b] = true
			work = append(work, next(b)...)
		}
		return seen
	}
	fw, bw := reach(inc.Block(), true), reach(inc.Block(), false)
	if !fw[inc.Block()] {
		c.Missing(rule, rname, "the increment of the file index is not inside a loop")
		return
	}
	// fields read by the loop body and what it calls
	read := map[string]token.Pos{}
	var scan func(fn *ssa.Function, only func(*ssa.BasicBlock) bool, depth int, seen map[*ssa.Function]bool)
	scan = func(fn *ssa.Function, only func(*ssa.BasicBlock) bool, depth int, seen map[*ssa.Function]bool) {
		if seen[fn] {
			return
		}
		seen[fn] = true
		for _, b := range fn.Blocks {
			if only != nil && !only(b) {
				continue
			}
			for _, in := range b.Instrs {
				switch x := in.(type) {
				case *ssa.UnOp:
					if x.Op != token.MUL {
						continue
					}
					fa, ok := x.X.(*ssa.FieldAddr)
					if !ok || !isCk(fa.X) {
						continue
					}
					if _, isPtr := x.Type().Underlying().(*types.Pointer); !isPtr {
						continue
					}
					_, n, _ := core.FieldOf(fa)
					if _, dup := read[n]; !dup {
						read[n] = x.Pos()
					}
				case ssa.CallInstruction:
					if depth <= 0 {
						continue
					}
					if cal := x.Common().StaticCallee(); cal != nil && cal.Blocks != nil && strings.HasPrefix(core.PkgPathOf(cal), core.Mod) {
						scan(cal, nil, depth-1, seen)
					}
				}
			}
		}
		for _, an := range fn.AnonFuncs {
			if only == nil {
				scan(an, nil, depth, seen)
			}
		}
	}
	scan(resume, func(b *ssa.BasicBlock) bool { return fw[b] && bw[b] }, 3, map[*ssa.Function]bool{})
	var fields []string
	for n := range read {
		fields = append(fields, n)
	}
	sort.Strings(fields)
	c.Floor(rule, "pointer fields of the checkpoint read inside the file loop", len(fields), 2)
	// clearing events
	var alwaysClears func(fn *ssa.Function, field string, depth int) bool
	clearsHere := func(field string, depth int) ipred {
		return func(in ssa.Instruction) bool {
			switch x := in.(type) {
			case *ssa.Store:
				base, n, ok := core.FieldOf(x.Addr)
				return ok && n == field && isCk(base) && core.IsNilConst(x.Val)
			case *ssa.Defer:
				for _, f := range deferCallees(x) {
					if depth > 0 && alwaysClears(f, field, depth-1) {
						return true
					}
				}
			case *ssa.Call:
				if depth > 0 {
					if cal := localCallee(x); cal != nil && alwaysClears(cal, field, depth-1) {
						return true
					}
					if cal := x.Call.StaticCallee(); cal != nil && cal.Blocks != nil && strings.HasPrefix(core.PkgPathOf(cal), core.Mod) && alwaysClears(cal, field, depth-1) {
						return true
					}
				}
			}
			return false
		}
	}
	memo := map[string]bool{}
	alwaysClears = func(fn *ssa.Function, field string, depth int) bool {
		key := core.FnName(fn) + "|" + field
		if v, ok := memo[key]; ok {
			return v
		}
		memo[key] = false
		res := core.FindPath(fn, nil, isReturn, clearsHere(field, depth)) == nil
		memo[key] = res
		return res
	}
	for _, f := range fields {
		p := core.FindPath(resume, inc, isInstr(inc), clearsHere(f, 2))
		c.Check(p == nil, rule, rname, "Checkpoint."+f+" is nil again before the next file", read[f],
			"every way round the file loop stores nil into the field (itself, or through a callee or deferred call that always does)",
			"an iteration of the file loop can leave Checkpoint."+f+" as it found it: after resuming in the middle of a file that the whitelist now skips, the next file of the same kind continues that file's series at that file's offsets").Path = c.P.PathStrings(p)
	}
}

// ruleSkipEndsAtTheMarker is R17.7: whatever the kind of the series, it is closed by a SyncOp carrying the
// end marker (R01.3 makes the writers do that). Skipping a series has read all of it only when that marker
// has been read: every success return of skipFile is reached through the "is the marker" outcome of a test
// of the Type of a SyncOp. A skip that stops one message early leaves the marker to be taken for the next
// file's header.
func ruleSkipEndsAtTheMarker(c *core.Ctx, rule string) {
	c.Rule(rule, "a skipped series has been read up to its end marker")
	skip := c.P.Fn("pwr/patcher", "savingPatcher.skipFile")
	if skip == nil {
		c.Missing(rule, "pwr/patcher.(*savingPatcher).skipFile", "not found")
		return
	}
	hey, ok := syncOpTypes(c.P, "SyncOp_")["HEY_YOU_DID_IT"]
	if !ok {
		c.Missing(rule, "pwr.SyncOp_HEY_YOU_DID_IT", "not found")
		return
	}
	isOpType := func(v ssa.Value) bool {
		for _, o := range core.Origins(v) {
			if b, n, ok := core.FieldOf(o); ok && n == "Type" && strings.HasSuffix(core.TypeName(b.Type()), "pwr.SyncOp") {
				return true
			}
			// through the generated getter
			if cl, ok := o.(*ssa.Call); ok && strings.HasSuffix(core.CalleeName(cl), "pwr.SyncOp).GetType") {
				return true
			}
		}
		return false
	}
	n := 0
	for _, rs := range successReturns(skip) {
		n++
		okM := hasGuard(rs.Ret, func(g core.Guard) bool { return relHolds(g, token.EQL, isOpType, isConstInt(hey)) })
		c.Check(okM, rule, core.FnName(skip), "success only after the end marker was read", core.InstrPos(rs.Ret),
			"the return is reached only through the outcome op.Type == HEY_YOU_DID_IT of a SyncOp read from the stream",
			"skipFile can succeed without having read the series' closing SyncOp: the marker is still in the stream and the next header read decodes it as a SyncHeader for file 0 ('expected file N, got file 0')")
	}
	c.Floor(rule, "success returns of skipFile", n, 1)
}

// ruleWhitelistValueDecides is R17.8: the whitelist is a map from file index to "wanted". R17.5 makes the patcher
// keep the caller's values; this rule makes it read them: wherever package patcher looks the whitelist up, the
// value found takes part in a branch condition - a lookup that is only asked whether the key is present treats
// a file the caller mapped to false as selected.
func ruleWhitelistValueDecides(c *core.Ctx, rule string) {
	c.Rule(rule, "the whitelist's values, not its keys, decide")
	n := 0
	for _, fn := range c.P.SrcFuncs() {
		if !strings.HasSuffix(core.PkgPathOf(fn), "/pwr/patcher") {
			continue
		}
		core.Instrs(fn, func(in ssa.Instruction) {
			lk, ok := in.(*ssa.Lookup)
			if !ok {
				return
			}
			if _, nme, ok := core.FieldOf(lk.X); !ok || nme != "sourceIndexWhiteList" {
				return
			}
			n++
			// does the value reach a branch
			var val ssa.Value = lk
			if lk.CommaOk {
				val = nil
				if refs := lk.Referrers(); refs != nil {
					for _, r := range *refs {
						if ex, ok := r.(*ssa.Extract); ok && ex.Index == 0 {
							val = ex
						}
					}
				}
			}
			decides := false
			if val != nil {
				seen := map[ssa.Value]bool{}
				var walk func(v ssa.Value, d int)
				walk = func(v ssa.Value, d int) {
					if d > 6 || seen[v] || decides {
						return
					}
					seen[v] = true
					refs := v.Referrers()
					if refs == nil {
						return
					}
					for _, r := range *refs {
						switch x := r.(type) {
						case *ssa.If:
							decides = true
						case *ssa.Return:
							decides = true // a helper answering "wanted?": judged where it is expanded or called
						case *ssa.Store:
							// a flag variable
							if a, ok := core.CellRoot(x.Addr).(*ssa.Alloc); ok {
								for _, u := range core.CellUses(a) {
									if ld, ok := u.(*ssa.UnOp); ok && ld.Op == token.MUL {
										walk(ld, d+1)
									}
								}
							}
						case ssa.Value:
							walk(x, d+1)
						}
					}
				}
				walk(val, 0)
			}
			c.Check(decides, rule, core.FnName(fn), "the value found in the whitelist takes part in the decision", core.InstrPos(in),
				"the looked-up value (not only the presence of the key) flows into a branch condition",
				"the whitelist is only asked whether the file index is a key: a file the caller mapped to false (a map filled for every file with 'is it selected?') is patched, written through the bowl and counted as touched")
		})
	}
	c.Floor(rule, "lookups of the whitelist", n, 1)
}
