#!/bin/bash
# Thorough tier: (1) checker self-test — every source-level variant under mutants/<prop>/, every
# refactoring bundle under benign_all/ and every seeded change under seeded/*/ that names <prop> and
# is marked static-detectable is applied to a scratch copy of /repo (outside /repo and /verif,
# removed immediately), analysed in a separate process: mutants and seeds must be reported at the
# expected obligation, every *.benign.patch must stay silent; (2) the property is decided on /repo's
# current tree with the precise (VTA) call graph; that verdict alone determines exit 0/1; a
# self-test miss is exit 2 ("checker broken").  Variants run VERIF_JOBS (default 6) at a time.
set -u
cd "$(dirname "$0")"
VERIF="$(pwd)"
PROP="$1"
BIN="$VERIF/.bin/wharfcheck"
REPO="${WHARF_REPO:-/repo}"
TMPBASE="${TMPDIR:-/tmp}"
JOBS="${VERIF_JOBS:-6}"
WORK="$(mktemp -d "$TMPBASE/wharf-selftest-XXXXXX")"
trap 'rm -rf "$WORK"' EXIT
export BIN REPO PROP VERIF TMPBASE WORK

run_variant() {  # $1 index, $2 patch file, $3 kind (mutant|benign|seeded), $4 expect substring
  local idx="$1" pf="$2" kind="$3" expect="$4" name
  name="$(basename "$(dirname "$pf")")/$(basename "$pf")"
  local scratch
  scratch="$(mktemp -d "$TMPBASE/wharf-mut-XXXXXX")"
  rsync -a --exclude .git "$REPO/" "$scratch/"
  local verdict="ok" detail=""
  if ! (cd "$scratch" && patch -p1 -s --no-backup-if-mismatch < "$pf" >/dev/null 2>&1); then
    verdict="stale"; detail="patch no longer applies to the current tree (skipped)"
  else
    local out rc
    out="$("$BIN" -prop "$PROP" -tier quick -repo "$scratch" -verif "$VERIF" -no-evidence -no-fixtures 2>&1)"; rc=$?
    if [ "$kind" = benign ]; then
      if [ $rc -ne 0 ]; then verdict="FAIL"; detail="benign variant raised an alarm (rc=$rc)"; fi
    else
      if [ $rc -ne 1 ]; then verdict="FAIL"; detail="variant not reported (rc=$rc)";
      elif [ -n "$expect" ] && ! grep -qF -- "$expect" <<<"$out"; then verdict="FAIL"; detail="reported, but not at the expected obligation: $expect"; fi
    fi
    if [ "$verdict" = FAIL ]; then { echo "SELFTEST-FAIL $name: $detail"; echo "$out" | tail -15; } > "$WORK/$idx.fail"; fi
  fi
  rm -rf "$scratch"
  python3 -c 'import json,sys; print(json.dumps({"variant":sys.argv[1],"kind":sys.argv[2],"expect":sys.argv[3],"result":sys.argv[4],"detail":sys.argv[5]}))' "$name" "$kind" "$expect" "$verdict" "$detail" > "$WORK/$idx.json"
  echo "selftest $kind $name: $verdict $detail" > "$WORK/$idx.line"
}
export -f run_variant

# ---- the list of variants: index <TAB> patch <TAB> kind <TAB> expect
LIST="$WORK/list.tsv"
: > "$LIST"
n=0
add() { n=$((n+1)); printf '%04d\t%s\t%s\t%s\n' "$n" "$1" "$2" "$3" >> "$LIST"; }
shopt -s nullglob
for pf in "$VERIF"/mutants/"$PROP"/*.patch; do
  expect="$(grep -m1 '^# expect:' "$pf" | sed 's/^# expect: *//')"
  case "$pf" in
    *.benign.patch) add "$pf" benign "" ;;
    *) add "$pf" mutant "$expect" ;;
  esac
done
# behaviour-preserving refactoring bundles: every property must stay silent on each
for pf in "$VERIF"/benign_all/*.benign.patch; do
  add "$pf" benign ""
done
# the behaviour-preserving re-expressions written for the other properties' rules: silent here too
for pf in "$VERIF"/mutants/*/*.benign.patch; do
  case "$pf" in "$VERIF"/mutants/"$PROP"/*) continue ;; esac
  add "$pf" benign ""
done
for meta in "$VERIF"/seeded/*/meta.json; do
  d="$(dirname "$meta")"
  if python3 - "$meta" "$PROP" <<'PY'
import json,sys
m=json.load(open(sys.argv[1]))
sys.exit(0 if (m.get("property")==sys.argv[2] and m.get("static_detected")) else 1)
PY
  then
    expect="$(python3 -c 'import json,sys; print(json.load(open(sys.argv[1])).get("expect",""))' "$meta")"
    add "$d/patch.diff" seeded "$expect"
  fi
done

# ---- run them, JOBS at a time
while IFS=$'\t' read -r idx pf kind expect; do
  while [ "$(jobs -rp | wc -l)" -ge "$JOBS" ]; do wait -n; done
  run_variant "$idx" "$pf" "$kind" "$expect" &
done < "$LIST"
wait

# ---- collect in order
RESULTS="$WORK/results.json"
fail=0
{
  echo '['
  first=1
  while IFS=$'\t' read -r idx pf kind expect; do
    [ -f "$WORK/$idx.json" ] || { echo "SELFTEST-FAIL $pf: no result" >&2; fail=1; continue; }
    [ $first -eq 1 ] || echo ','
    first=0
    cat "$WORK/$idx.json"
  done < "$LIST"
  echo ']'
} > "$RESULTS"
while IFS=$'\t' read -r idx pf kind expect; do
  [ -f "$WORK/$idx.line" ] && cat "$WORK/$idx.line"
  if [ -f "$WORK/$idx.fail" ]; then cat "$WORK/$idx.fail" >&2; fail=1; fi
done < "$LIST"

"$BIN" -prop "$PROP" -tier thorough -repo "$REPO" -verif "$VERIF" -selftest "$RESULTS" ${VERIF_VERBOSE:+-v}
rc=$?
if [ $fail -ne 0 ] && [ $rc -ne 1 ]; then
  echo "BROKEN: checker self-test failed (see SELFTEST-FAIL lines)" >&2
  exit 2
fi
exit $rc
