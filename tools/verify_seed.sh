#!/bin/bash
# tools/verify_seed.sh <prop> <seed-id> <pkgdir> [race]
# Confirms a seeded change delivered by a sub-agent in /tmp/seed-<prop>/out (or /tmp/seedout-<seed-id>):
#   suite passes with the change; demo fails with it; demo passes without it.
# On success stores it as /verif/seeded/<seed-id>/ (patch.diff, demo, notes.md, meta.json skeleton).
set -u
PROP="$1"; ID="$2"; PKG="$3"; RACE="${4:-}"
W="${SEEDW:-/tmp/seed-$PROP}"
OUT="/tmp/seedout-$ID"
VERIF="$(cd "$(dirname "$0")/.." && pwd)"
export GOFLAGS=-mod=mod GOPROXY=off
if [ -d "$W/out" ]; then rm -rf "$OUT"; mv "$W/out" "$OUT"; fi
[ -f "$OUT/patch.diff" ] || { echo "no patch in $OUT"; exit 1; }
cd "$W" || exit 1
git checkout -q -- . && git clean -fdq
git apply "$OUT/patch.diff" || { echo "PATCH DOES NOT APPLY"; exit 1; }
if git diff --name-only | grep -q '_test.go$'; then echo "patch touches test files"; exit 1; fi
go build ./... || { echo "DOES NOT COMPILE"; exit 1; }
echo "--- suite with change"
if ! go test -vet=off -count=1 -timeout 25m ./... > /tmp/seedsuite-$ID.log 2>&1; then echo "SUITE FAILS WITH CHANGE"; grep -v "^ok\|no test files" /tmp/seedsuite-$ID.log | head -20; git checkout -q -- .; exit 1; fi
echo "suite passes"
DEMOS=$(ls "$OUT"/*_test.go)
cp $DEMOS "$W/$PKG/"
NAMES=$(cat $DEMOS | grep -oE '^func (Test[A-Za-z0-9_]+)' | awk '{print $2}' | paste -sd'|')
RFLAG=""; [ "$RACE" = race ] && RFLAG="-race"
echo "--- demo with change ($NAMES)"
if go test -vet=off -count=1 $RFLAG -run "^($NAMES)\$" "./$PKG/" > /tmp/seeddemo1-$ID.log 2>&1; then echo "DEMO PASSES WITH CHANGE (should fail)"; tail -5 /tmp/seeddemo1-$ID.log; RES=bad; else echo "demo fails with change (good)"; grep -m3 -E "^\s+.*_test.go|FAIL|panic|DATA RACE" /tmp/seeddemo1-$ID.log | head -5; RES=ok; fi
git checkout -q -- .
echo "--- demo without change"
if go test -vet=off -count=1 $RFLAG -run "^($NAMES)\$" "./$PKG/" > /tmp/seeddemo2-$ID.log 2>&1; then echo "demo passes without change (good)"; else echo "DEMO FAILS WITHOUT CHANGE"; tail -15 /tmp/seeddemo2-$ID.log; RES=bad; fi
git checkout -q -- . && git clean -fdq
[ "$RES" = ok ] || exit 1
D="$VERIF/seeded/$ID"
mkdir -p "$D"
cp "$OUT/patch.diff" "$D/patch.diff"
cp $DEMOS "$D/"
# store demo sources under a name the go tool ignores inside /verif (not a package here)
for f in "$D"/*_test.go; do mv "$f" "${f%.go}.go.txt"; done
[ -f "$OUT/notes.md" ] && cp "$OUT/notes.md" "$D/notes.md"
echo "stored in $D (write meta.json next)"
