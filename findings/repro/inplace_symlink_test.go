package probe

import (
	"bytes"
	"os"
	"path/filepath"
	"testing"

	"github.com/itchio/headway/state"
	"github.com/itchio/lake/pools/fspool"
	"github.com/itchio/savior/seeksource"
	"github.com/itchio/wharf/pwr/bowl"
	"github.com/itchio/wharf/pwr/patcher"
)

// C02: in-place apply where a path that was a symlink in the old build becomes a regular file whose content
// is copied from an old file that is itself patched in place (so the transposition is a copy, not a move)
func TestInPlaceCopyOntoFormerSymlink(t *testing.T) {
	dir := t.TempDir()
	old := filepath.Join(dir, "old")
	nw := filepath.Join(dir, "new")
	stage := filepath.Join(dir, "stage")

	dataOld := randBytes(31, 300*1024)
	dataNew := append([]byte{}, dataOld...)
	copy(dataNew[100*1024:], randBytes(32, 2000)) // a small in-place edit: data gets an overlay
	other := randBytes(33, 50*1024)

	writeFile(t, old, "data", dataOld)
	writeFile(t, old, "other", other)
	must(t, os.Symlink("other", filepath.Join(old, "link")))

	writeFile(t, nw, "data", dataNew)
	writeFile(t, nw, "other", other)
	writeFile(t, nw, "link", dataOld) // regular file now, a copy of the OLD data

	patch := diff(t, old, nw)

	p, err := patcher.New(seeksource.FromBytes(patch), &state.Consumer{})
	must(t, err)
	b, err := bowl.NewOverlayBowl(bowl.OverlayBowlParams{
		TargetContainer: p.GetTargetContainer(),
		SourceContainer: p.GetSourceContainer(),
		OutputFolder:    old,
		StageFolder:     stage,
	})
	must(t, err)
	err = p.Resume(nil, fspool.New(p.GetTargetContainer(), old), b)
	t.Logf("apply err = %v", err)
	if err == nil {
		err = b.Commit()
		t.Logf("commit err = %v", err)
	}

	st, lerr := os.Lstat(filepath.Join(old, "link"))
	must(t, lerr)
	t.Logf("link is a symlink after commit: %v (new build has a regular file there)", st.Mode()&os.ModeSymlink != 0)
	gotOther, rerr := os.ReadFile(filepath.Join(old, "other"))
	must(t, rerr)
	t.Logf("other: len=%d equal-to-new=%v equal-to-old-data=%v", len(gotOther), bytes.Equal(gotOther, other), bytes.Equal(gotOther, dataOld))
	gotData, rerr := os.ReadFile(filepath.Join(old, "data"))
	must(t, rerr)
	t.Logf("data: equal-to-new=%v", bytes.Equal(gotData, dataNew))
}
