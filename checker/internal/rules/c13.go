package rules

import (
	"go/token"
	"go/types"
	"sort"
	"strconv"
	"strings"

	"golang.org/x/tools/go/ssa"

	"wharfverif/checker/internal/core"
)

func init() {
	register(&Property{
		ID: "C13",
		Explanation: `R13.1 every read of the underlying source is counted: source.Read / source.ReadByte / DiscardByRead(source) occur only in countingReader.Read, countingReader.ReadByte and ReadContext.Resume, each of which updates r.offset from the call's result; ReadMessage and ExpectMagic read only through the counting reader; ` +
			`R13.2 the three-state save protocol: WantSave asks the source and moves to 'waiting' only from 'idle'; the source callback stores the source checkpoint and moves to 'has checkpoint'; PopCheckpoint returns a checkpoint only in that state, built from r.offset and r.sourceCheckpoint, and is not reachable from ReadMessage (so the offset is a message boundary); ` +
			`R13.3 codec pairing: the algorithms with a registered compressor are exactly those with a registered decompressor, each Apply builds its stream with a constructor from a package named after the algorithm, and NONE is a pass-through on both sides; ` +
			`R13.4 every magic constant written has a reader expecting the same constant; R13.5 in package wire the byte count returned by a Read call is never discarded (a source may return 0, nil at a save point); R13.6 every success return of ReadMessage has passed msg.Reset() and the unmarshalling of the bytes just read (decoding merges, so without the reset an all-default message reads back as its predecessor). ` +
			`R13.7 WriteMessage writes the varint length and then the marshalled bytes on every success path, empty payloads included; R13.8 every success return of WriteContext.Close has tested the writer against an interface with a Close method and, on the branch where the test held, invoked it (CompressWire hands the compressor to a WriteContext: its Close writes the final block and trailer that make the stream end). ` +
			`R13.9 every success path of Resume stores a save state other than 'has a source checkpoint', or reaches the return through a test that shows the state is another one. ` +
			`R13.10 reader and writer agree on message length limits; R13.11 the source DecompressWire hands to NewReadContext derives on every branch from Section(offset, size-offset) and was resumed from nil; R07.5 (shared) streams are decompressed as their own header declares. R13.12 CompressWire hands back its input context only through the outcome Algorithm == NONE. R13.13 when a registered compressor hands back a wrapper type of the module, the wrapper has a Close and every success return of it lies behind the codec's Close (an 'already closed' flag that Close sets excepted); R13.3 looks for the codec's constructor in the wrapper's methods; R13.7 also accepts one Write of (*proto.Buffer).Bytes() after EncodeMessage as prefix and payload. R15.7 (shared) nothing that belongs to a pooled object is returned behind a deferred sync.Pool.Put or used after a plain one. R13.14 no return of a registered codec's Apply (compressor or decompressor) hands back the stream it was given. NOT decided: the round trip itself, buffer regrowth, decompressor checkpoints lagging the message offset (savior's code).`,
		Assumptions: []string{"the underlying source is the field source of wire.ReadContext"},
		Run:         runC13,
	})
}

func runC13(c *core.Ctx) {
	c.Rule("R13.1", "every source read is counted")
	c.Rule("R13.2", "reader save protocol")
	c.Rule("R13.3", "codec pairing")
	c.Rule("R13.4", "magic pairing")
	c.Rule("R13.5", "Read counts are not discarded in package wire")
	c.Rule("R13.6", "ReadMessage resets and decodes on every success path")
	crRead := c.P.Fn("wire", "countingReader.Read")
	crReadByte := c.P.Fn("wire", "countingReader.ReadByte")
	resume := c.P.Fn("wire", "ReadContext.Resume")
	readMsg := c.P.Fn("wire", "ReadContext.ReadMessage")
	expMagic := c.P.Fn("wire", "ReadContext.ExpectMagic")
	want := c.P.Fn("wire", "ReadContext.WantSave")
	pop := c.P.Fn("wire", "ReadContext.PopCheckpoint")
	newRC := c.P.Fn("wire", "NewReadContext")
	for n, f := range map[string]*ssa.Function{"countingReader.Read": crRead, "countingReader.ReadByte": crReadByte, "ReadContext.Resume": resume, "ReadContext.ReadMessage": readMsg,
		"ReadContext.ExpectMagic": expMagic, "ReadContext.WantSave": want, "ReadContext.PopCheckpoint": pop, "NewReadContext": newRC} {
		if f == nil {
			c.Missing("R13", "wire."+n, "not found")
			return
		}
	}
	isSourceVal := func(v ssa.Value) bool {
		_, n, ok := core.FieldOf(v)
		return ok && n == "source"
	}
	isSourceRead := func(in ssa.Instruction) bool {
		cl, ok := in.(*ssa.Call)
		if !ok {
			return false
		}
		if cl.Call.IsInvoke() {
			m := cl.Call.Method.Name()
			return (m == "Read" || m == "ReadByte") && isSourceVal(cl.Call.Value)
		}
		if strings.HasSuffix(core.CalleeName(cl), "savior.DiscardByRead") {
			return isSourceVal(core.StripConv(cl.Call.Args[0]))
		}
		return false
	}
	allowed := map[*ssa.Function]bool{crRead: true, crReadByte: true, resume: true}
	nReads := 0
	var wireFns []*ssa.Function
	for _, fn := range c.P.SrcFuncs() {
		if core.PkgPathOf(fn) == core.Mod+"/wire" {
			wireFns = append(wireFns, fn)
		}
	}
	for _, fn := range wireFns {
		for _, in := range allInstrs(fn, isSourceRead) {
			nReads++
			cl := in.(*ssa.Call)
			c.Check(allowed[fn], "R13.1", core.FnName(fn), "source read "+core.CalleeName(cl), core.InstrPos(in),
				"the source is read only by the counting reader and by Resume", "the underlying source is read outside the counting reader: the bytes are not counted and every later checkpoint offset is wrong")
			if !allowed[fn] {
				continue
			}
			// offset updated from the result on the success path
			isOffStore := func(x ssa.Instruction) bool {
				st, ok := x.(*ssa.Store)
				if !ok {
					return false
				}
				_, n, ok := core.FieldOf(st.Addr)
				return ok && n == "offset"
			}
			var p []ssa.Instruction
			switch {
			case strings.HasSuffix(core.CalleeName(cl), "DiscardByRead"):
				// success path: err == nil outcome; offset = checkpoint.Offset
				p = core.FindPathSkipping(fn, in, func(x ssa.Instruction) bool {
					r, ok := x.(*ssa.Return)
					return ok && len(r.Results) > 0 && core.IsNilConst(r.Results[len(r.Results)-1])
				}, isOffStore, nil)
			case cl.Call.Method.Name() == "Read":
				// offset += n on every path
				p = core.FindPath(fn, in, isReturn, func(x ssa.Instruction) bool {
					if !isOffStore(x) {
						return false
					}
					bo, ok := x.(*ssa.Store).Val.(*ssa.BinOp)
					if !ok || bo.Op != token.ADD {
						return false
					}
					for _, o := range core.Origins(bo.Y) {
						if ex, ok := o.(*ssa.Extract); ok && ex.Tuple == ssa.Value(cl) && ex.Index == 0 {
							return true
						}
					}
					return false
				})
			default: // ReadByte: offset++ on the err == nil outcome
				errNil := func(b, s *ssa.BasicBlock) bool {
					ifi, ok := b.Instrs[len(b.Instrs)-1].(*ssa.If)
					if !ok {
						return false
					}
					bo, ok := ifi.Cond.(*ssa.BinOp)
					if !ok || !core.IsNilConst(bo.Y) || !loadsStoredResult(bo.X, cl) && !extractOf(bo.X, cl, 1) {
						return false
					}
					// remove the error outcome
					return (bo.Op == token.EQL && s == b.Succs[1]) || (bo.Op == token.NEQ && s == b.Succs[0])
				}
				p = core.FindPathSkipping(fn, in, isReturn, isOffStore, errNil)
			}
			c.Check(p == nil, "R13.1", core.FnName(fn), "offset updated after "+core.CalleeName(cl), core.InstrPos(in),
				"r.offset is updated from the call's result on every success path", "a successful read of the source does not update r.offset: checkpoints popped later point before the message boundary").Path = c.P.PathStrings(p)
		}
	}
	c.Floor("R13.1", "source read sites (Read, ReadByte, DiscardByRead)", nReads, 2)
	// Resume (re)positions the source on every path, so every successful return must have set r.offset
	for _, rs := range successReturns(resume) {
		p := core.FindPath(resume, nil, isInstr(rs.Ret), func(x ssa.Instruction) bool {
			st, ok := x.(*ssa.Store)
			if !ok {
				return false
			}
			_, n, ok := core.FieldOf(st.Addr)
			return ok && n == "offset"
		})
		c.Check(p == nil, "R13.1", core.FnName(resume), "every successful Resume sets r.offset", core.InstrPos(rs.Ret),
			"r.offset is set on every path to this success return", "Resume can succeed without setting r.offset: the counted offset no longer matches the source position").Path = c.P.PathStrings(p)
	}
	// the counting reader's ReadByte must itself read a byte from the source (and Read must Read)
	c.Check(len(allInstrs(crReadByte, func(in ssa.Instruction) bool {
		cl, ok := in.(*ssa.Call)
		return ok && cl.Call.IsInvoke() && cl.Call.Method.Name() == "ReadByte" && isSourceVal(cl.Call.Value)
	})) > 0, "R13.1", core.FnName(crReadByte), "delegates to source.ReadByte", crReadByte.Pos(),
		"ReadByte delegates to the source's ReadByte (which retries at save points)", "countingReader.ReadByte no longer delegates to source.ReadByte: the length prefix is read through a path that does not honour the source's (0, nil) save-point signal")
	// ReadMessage / ExpectMagic read through the counting reader only
	for _, fn := range []*ssa.Function{readMsg, expMagic} {
		n := 0
		for _, cl := range core.Calls(fn, true) {
			nm := core.CalleeName(cl)
			if nm == "encoding/binary.ReadUvarint" || nm == "io.ReadFull" || nm == "encoding/binary.Read" {
				n++
				_, fname, ok := core.FieldOf(core.StripConv(cl.Common().Args[0]))
				c.Check(ok && fname == "countingReader", "R13.1", core.FnName(fn), nm+" reads through the counting reader", core.InstrPos(cl.(ssa.Instruction)),
					"reader argument is r.countingReader", "a framing read bypasses the counting reader")
			}
		}
		c.Floor("R13.1", "framing reads in "+fn.Name(), n, 1)
	}

	// ---- R13.6: what ReadMessage hands back is the message that was read, nothing of what the struct held before
	{
		isDecode := func(in ssa.Instruction) bool {
			cl, ok := in.(ssa.CallInstruction)
			if !ok {
				return false
			}
			n := core.CalleeName(cl)
			return strings.HasSuffix(n, "proto.Buffer).Unmarshal") || strings.HasSuffix(n, "proto.Unmarshal") || strings.HasSuffix(n, "proto.Buffer).DecodeMessage")
		}
		isReset := func(in ssa.Instruction) bool {
			cl, ok := in.(*ssa.Call)
			if !ok {
				return false
			}
			if cl.Call.IsInvoke() && cl.Call.Method.Name() == "Reset" {
				for _, p := range readMsg.Params {
					if cl.Call.Value == ssa.Value(p) {
						return true
					}
				}
			}
			// proto.Unmarshal (as opposed to Buffer.Unmarshal / UnmarshalMerge) resets the message itself
			return strings.HasSuffix(core.CalleeName(cl), "proto.Unmarshal")
		}
		n := 0
		for _, rs := range successReturns(readMsg) {
			n++
			p := core.FindPath(readMsg, nil, isInstr(rs.Ret), isReset)
			c.Check(p == nil, "R13.6", core.FnName(readMsg), "a successful read has reset the destination message", core.InstrPos(rs.Ret),
				"every path to this success return calls msg.Reset()", "ReadMessage can succeed without resetting the destination: decoding merges into it, so fields of the message previously read into the same struct survive (an all-default message reads back as its predecessor)").Path = c.P.PathStrings(p)
			p = core.FindPath(readMsg, nil, isInstr(rs.Ret), isDecode)
			c.Check(p == nil, "R13.6", core.FnName(readMsg), "a successful read has decoded the payload", core.InstrPos(rs.Ret),
				"every path to this success return unmarshals the bytes just read", "ReadMessage can succeed without decoding the payload it consumed").Path = c.P.PathStrings(p)
		}
		c.Floor("R13.6", "success returns of ReadMessage", n, 1)
	}

	ruleSaveProtocol(c)

	// ---- R13.7: the writer frames every message the way the reader expects: on every success path the
	// varint of the marshalled length is written, then the marshalled bytes (also when there are none)
	c.Rule("R13.7", "WriteMessage writes the length prefix and the payload on every success path")
	if wm := c.P.Fn("wire", "WriteContext.WriteMessage"); wm == nil {
		c.Missing("R13.7", "wire.(*WriteContext).WriteMessage", "not found")
	} else {
		var marshal *ssa.Call
		core.Instrs(wm, func(in ssa.Instruction) {
			if cl, ok := in.(*ssa.Call); ok && strings.HasSuffix(core.CalleeName(cl), "proto.Marshal") {
				marshal = cl
			}
		})
		isWriteOf := func(pred func(ssa.Value) bool) ipred {
			return func(in ssa.Instruction) bool {
				cl, ok := in.(*ssa.Call)
				if !ok || !cl.Call.IsInvoke() || cl.Call.Method.Name() != "Write" || len(cl.Call.Args) != 1 {
					return false
				}
				return pred(cl.Call.Args[0])
			}
		}
		// the other idiom: (*proto.Buffer).EncodeMessage writes the varint length and the body into the buffer;
		// one Write of that buffer's Bytes() is prefix and payload at once
		framed := func(v ssa.Value) bool {
			for _, f := range core.WithAnons(wm) {
				for _, o := range originsAcrossLiterals(v, f) {
					bc, ok := o.(*ssa.Call)
					if !ok || !strings.HasSuffix(core.CalleeName(bc), "proto.Buffer).Bytes") || len(bc.Call.Args) == 0 {
						continue
					}
					enc := false
					core.Instrs(bc.Parent(), func(in ssa.Instruction) {
						if ec, ok := in.(*ssa.Call); ok && strings.HasSuffix(core.CalleeName(ec), "proto.Buffer).EncodeMessage") && sameVal(ec.Call.Args[0], bc.Call.Args[0]) && core.InstrDominates(ec, bc) {
							enc = true
						}
					})
					if enc {
						return true
					}
				}
			}
			return false
		}
		// third idiom: prefix and payload are assembled in one frame buffer - PutUvarint at its start, the
		// marshalled bytes copied behind it - and the frame goes out in a single Write. (How long the frame is cut
		// is arithmetic and not judged.)
		baseOf := func(v ssa.Value) ssa.Value {
			for i := 0; i < 6; i++ {
				v = core.StripConv(v)
				if sl, ok := v.(*ssa.Slice); ok {
					v = sl.X
					continue
				}
				break
			}
			if ld, ok := v.(*ssa.UnOp); ok && ld.Op == token.MUL {
				if _, n, ok := core.FieldOf(ld.X); ok {
					return ssaFieldKey(n)
				}
			}
			return v
		}
		framedInBuffer := func(v ssa.Value, at ssa.Instruction) bool {
			b := baseOf(v)
			if b == nil {
				return false
			}
			put, cp := false, false
			core.Instrs(wm, func(in ssa.Instruction) {
				cl, ok := in.(*ssa.Call)
				if !ok || !core.InstrDominates(in, at) {
					return
				}
				if strings.HasSuffix(core.CalleeName(cl), "binary.PutUvarint") && len(cl.Call.Args) == 2 && baseOf(cl.Call.Args[0]) == b {
					put = true
				}
				if bi, isB := cl.Call.Value.(*ssa.Builtin); isB && bi.Name() == "copy" && len(cl.Call.Args) == 2 && baseOf(cl.Call.Args[0]) == b && marshal != nil && extractOf(cl.Call.Args[1], marshal, 0) {
					cp = true
				}
			})
			return put && cp
		}
		isFrameWrite := func(in ssa.Instruction) bool {
			cl, ok := in.(*ssa.Call)
			if !ok || !cl.Call.IsInvoke() || cl.Call.Method.Name() != "Write" || len(cl.Call.Args) != 1 {
				return false
			}
			return framedInBuffer(cl.Call.Args[0], in)
		}
		isPayloadW := isWriteOf(func(v ssa.Value) bool { return (marshal != nil && extractOf(v, marshal, 0)) || framed(v) })
		isPayload := func(in ssa.Instruction) bool { return isPayloadW(in) || isFrameWrite(in) }
		isPrefix := isWriteOf(func(v ssa.Value) bool {
			// a slice of the varint buffer cut at what PutUvarint returned
			for _, o := range core.Origins(v) {
				if sl, ok := o.(*ssa.Slice); ok && sl.High != nil {
					for _, h := range core.Origins(sl.High) {
						if hc, ok := h.(*ssa.Call); ok && strings.HasSuffix(core.CalleeName(hc), "binary.PutUvarint") {
							return true
						}
					}
				}
			}
			return framed(v)
		})
		isPrefixW := isPrefix
		isPrefix = func(in ssa.Instruction) bool { return isPrefixW(in) || isFrameWrite(in) }
		n := 0
		for _, rs := range successReturns(wm) {
			n++
			p := core.FindPath(wm, nil, isInstr(rs.Ret), isPrefix)
			c.Check(p == nil, "R13.7", core.FnName(wm), "length prefix written before success", core.InstrPos(rs.Ret),
				"every path to this success return writes the varint length", "WriteMessage can succeed without writing the length prefix: the reader decodes the following bytes as a length").Path = c.P.PathStrings(p)
			p = core.FindPath(wm, nil, isInstr(rs.Ret), isPayload)
			c.Check(p == nil, "R13.7", core.FnName(wm), "payload written before success", core.InstrPos(rs.Ret),
				"every path to this success return writes the marshalled bytes", "WriteMessage can succeed without writing the payload it announced").Path = c.P.PathStrings(p)
			for _, pw := range allInstrs(wm, isPrefix) {
				if isPayload(pw) {
					continue // one write carries both
				}
				p2 := core.FindPath(wm, pw, isPayload, nil)
				c.Check(p2 != nil, "R13.7", core.FnName(wm), "the payload follows the prefix", core.InstrPos(pw), "prefix, then payload", "the payload is not written after the prefix")
			}
		}
		c.Floor("R13.7", "success returns of WriteMessage", n, 1)
	}

	ruleWriterCloseFinishesStream(c)
	rulePooledNotUsedAfterPut(c, "R15.7")
	ruleResumeLeavesNothingPending(c)
	ruleReaderAcceptsWhatWriterWrites(c, "R13.10")
	ruleDecompressedWireStartsAtZero(c, "R13.11")
	rulePassThroughOnlyForNone(c, "R13.12")
	ruleDecompressAsDeclared(c, "R07.5")

	// ---- R13.4 magic pairing
	written, expected := map[int64][]string{}, map[int64][]string{}
	for _, fn := range c.P.SrcFuncs() {
		for _, cl := range core.Calls(fn, false, "(*wire.WriteContext).WriteMagic") {
			if k, isC := core.ConstInt(cl.Common().Args[1]); isC {
				written[k] = append(written[k], core.FnName(fn))
			}
		}
		for _, cl := range core.Calls(fn, false, "(*wire.ReadContext).ExpectMagic") {
			if k, isC := core.ConstInt(cl.Common().Args[1]); isC {
				expected[k] = append(expected[k], core.FnName(fn))
			}
		}
	}
	magicName := func(k int64) string {
		for _, pp := range []string{"pwr", "pwr/overlay"} {
			if pk := c.P.Pkg(pp); pk != nil {
				for _, n := range pk.Types.Scope().Names() {
					if kk, ok := pk.Types.Scope().Lookup(n).(*types.Const); ok && strings.HasSuffix(n, "Magic") {
						if v, ok := constInt64(kk); ok && v == k {
							return n
						}
					}
				}
			}
		}
		return "?"
	}
	nm := 0
	for k, ws := range written {
		name := magicName(k)
		if name == "WoundsMagic" {
			// wounds files are written for external consumers; the module has no reader (not in C13's quantifier)
			continue
		}
		nm++
		sort.Strings(ws)
		c.Check(len(expected[k]) > 0, "R13.4", "wire magic "+name, "written magic has a reader expecting the same constant", token.NoPos,
			"written in "+strings.Join(dedup(ws), ", ")+"; expected in "+strings.Join(dedup(expected[k]), ", "), "magic "+name+" is written ("+strings.Join(dedup(ws), ", ")+") but no reader expects that constant")
	}
	c.Floor("R13.4", "magic constants written", nm, 2)

	// ---- R13.5
	nRd := 0
	for _, fn := range wireFns {
		core.Instrs(fn, func(in ssa.Instruction) {
			cl, ok := in.(*ssa.Call)
			if !ok {
				return
			}
			var sig *types.Signature
			name := ""
			if cl.Call.IsInvoke() {
				sig, name = cl.Call.Method.Type().(*types.Signature), cl.Call.Method.Name()
			} else if f := cl.Call.StaticCallee(); f != nil {
				sig, name = f.Signature, f.Name()
			}
			if sig == nil || name != "Read" || sig.Results().Len() != 2 || sig.Params().Len() != 1 {
				return
			}
			nRd++
			used := false
			if refs := cl.Referrers(); refs != nil {
				for _, r := range *refs {
					if ex, ok := r.(*ssa.Extract); ok && ex.Index == 0 {
						if er := ex.Referrers(); er != nil && len(*er) > 0 {
							used = true
						}
					}
				}
			}
			c.Check(used, "R13.5", core.FnName(fn), "count returned by "+core.CalleeName(cl)+" is used", core.InstrPos(in),
				"the byte count is used", "the byte count of a Read is discarded: a resumable source returns (0, nil) at a save point, so the buffer content is then consumed although nothing was read")
		})
	}
	c.Floor("R13.5", "Read calls in package wire", nRd, 1)
}

func extractOf(v ssa.Value, call *ssa.Call, idx int) bool {
	for _, o := range core.Origins(v) {
		if ex, ok := o.(*ssa.Extract); ok && ex.Tuple == ssa.Value(call) && ex.Index == idx {
			return true
		}
	}
	return false
}

// ruleCodecPairing (R13.3, shared with C01's "for every compression setting").
func ruleCodecPairing(c *core.Ctx, rule string) {
	// ---- R13.3
	algName := map[int64]string{}
	if pk := c.P.Pkg("pwr"); pk != nil {
		for _, n := range pk.Types.Scope().Names() {
			if k, ok := pk.Types.Scope().Lookup(n).(*types.Const); ok && strings.HasPrefix(n, "CompressionAlgorithm_") {
				v, _ := constInt64(k)
				algName[v] = strings.TrimPrefix(n, "CompressionAlgorithm_")
			}
		}
	}
	regs := map[string]map[int64][]types.Type{"RegisterCompressor": {}, "RegisterDecompressor": {}}
	nReg := 0
	for _, fn := range c.P.SrcFuncs() {
		for kind := range regs {
			for _, cl := range core.Calls(fn, false, "pwr."+kind) {
				nReg++
				if k, isC := core.ConstInt(cl.Common().Args[0]); isC {
					regs[kind][k] = append(regs[kind][k], core.StripConv(cl.Common().Args[1]).Type())
				} else {
					c.Bad(rule, core.FnName(fn), kind+" with a non-constant algorithm", core.InstrPos(cl.(ssa.Instruction)), "registration with a non-constant algorithm cannot be paired statically")
				}
			}
		}
	}
	var algs []int64
	seen := map[int64]bool{}
	for _, m := range regs {
		for k := range m {
			if !seen[k] {
				seen[k] = true
				algs = append(algs, k)
			}
		}
	}
	sort.Slice(algs, func(i, j int) bool { return algs[i] < algs[j] })
	for _, k := range algs {
		hc, hd := len(regs["RegisterCompressor"][k]) > 0, len(regs["RegisterDecompressor"][k]) > 0
		c.Check(hc && hd, rule, "pwr.Register*", "algorithm "+algName[k]+" has both a compressor and a decompressor", token.NoPos,
			"registered on both sides", "algorithm "+algName[k]+" is registered on one side only: streams written with it cannot be read back (or vice versa)")
		for kind, m := range regs {
			for _, t := range m[k] {
				ms := c.P.SSA.MethodSets.MethodSet(t)
				sel := ms.Lookup(nil, "Apply")
				if sel == nil {
					continue
				}
				apply := c.P.SSA.MethodValue(sel)
				if apply == nil || apply.Blocks == nil {
					continue
				}
				okName, ctor := false, ""
				for _, rs := range core.Returns(apply, 0) {
					for _, o := range core.Origins(rs.Val) {
						var cl *ssa.Call
						switch x := o.(type) {
						case *ssa.Call:
							cl = x
						case *ssa.Extract:
							cl, _ = x.Tuple.(*ssa.Call)
						}
						if cl == nil {
							// a wrapper type of the module around the codec's stream: the constructor is called in its methods
							for _, m := range wrapperMethods(c, o) {
								core.Instrs(m, func(in ssa.Instruction) {
									if wc, ok := in.(*ssa.Call); ok {
										if f := wc.Call.StaticCallee(); f != nil && strings.Contains(strings.ToLower(core.PkgPathOf(f)), strings.ToLower(algName[k])) && f.Signature.Recv() == nil {
											ctor = core.FnName(f)
											okName = true
										}
									}
								})
							}
							continue
						}
						if f := cl.Call.StaticCallee(); f != nil {
							ctor = core.FnName(f)
							if strings.Contains(strings.ToLower(core.PkgPathOf(f)), strings.ToLower(algName[k])) {
								okName = true
							}
						}
					}
				}
				if kind == "RegisterCompressor" {
					ruleWrappedStreamIsFinished(c, "R13.13", apply)
				}
				// R13.14: the other side applies its codec for the algorithm alone, whatever the quality: a codec
				// never hands back the very stream it was given ("this setting does not compress anyway")
				c.Rule("R13.14", "a registered codec never hands back the stream it was given")
				if len(apply.Params) >= 2 {
					given := apply.Params[1]
					for _, rs := range core.Returns(apply, 0) {
						same := false
						for _, o := range core.Origins(rs.Val) {
							if core.StripConv(o) == ssa.Value(given) {
								same = true
							}
						}
						c.Check(!same, "R13.14", core.FnName(apply), kind+"("+algName[k]+"): what is returned is not the stream given", core.InstrPos(rs.Ret),
							"the stream returned is built by the codec", "for some setting the codec registered for "+algName[k]+" returns the stream it was given, unwrapped: the other side decides by the algorithm alone and still applies its codec, so what was written that way cannot be read back (gzip: invalid header)")
					}
				}
				c.Check(okName, rule, core.FnName(apply), kind+"("+algName[k]+") builds a "+strings.ToLower(algName[k])+" stream", apply.Pos(),
					"constructor "+ctor+" comes from a package named after the algorithm", "the codec registered for "+algName[k]+" builds its stream with "+ctor+", which is not a "+strings.ToLower(algName[k])+" implementation: the other side cannot decode it")
			}
		}
	}
	c.Floor(rule, "codec registrations", nReg, 2)
	c.Floor(rule, "algorithms", len(algs), 2)
	// NONE is a pass-through on both sides; unregistered algorithm is an error
	for _, nm := range []string{"CompressWire", "DecompressWire"} {
		fn := c.P.Fn("pwr", nm)
		if fn == nil {
			c.Missing(rule, "pwr."+nm, "not found")
			continue
		}
		noneTest := false
		core.Instrs(fn, func(in ssa.Instruction) {
			if ifi, ok := in.(*ssa.If); ok {
				isNone := func(v ssa.Value) bool {
					k, isC := core.ConstInt(v)
					return isC && algName[k] == "NONE"
				}
				// Algorithm == NONE or != NONE, either way round: one outcome is the pass-through
				if condHolds(ifi.Cond, true, token.EQL, isField("Algorithm"), isNone) || condHolds(ifi.Cond, false, token.EQL, isField("Algorithm"), isNone) {
					noneTest = true
				}
			}
		})
		c.Check(noneTest, rule, core.FnName(fn), "NONE is special-cased (pass-through)", fn.Pos(), "Algorithm == NONE is tested", "the NONE algorithm is no longer a pass-through in "+nm)
		// the registry lookup result is nil-checked with an error return
		lookups := allInstrs(fn, func(in ssa.Instruction) bool { _, ok := in.(*ssa.Lookup); return ok })
		okNil := false
		for _, lk := range lookups {
			core.Instrs(fn, func(in ssa.Instruction) {
				if ifi, ok := in.(*ssa.If); ok {
					isLk := func(v ssa.Value) bool { return sharesOrigin(v, lk.(*ssa.Lookup)) }
					if condHolds(ifi.Cond, true, token.EQL, isLk, core.IsNilConst) || condHolds(ifi.Cond, false, token.EQL, isLk, core.IsNilConst) {
						okNil = true
					}
				}
			})
		}
		c.Check(okNil, rule, core.FnName(fn), "unregistered algorithm is an error", fn.Pos(), "the registry lookup is nil-checked", "an unregistered algorithm is not rejected in "+nm)
	}

}

// ruleSaveProtocol is R13.2, the reader side of the save protocol (shared with C03: the message
// checkpoint is one of the state layers a patcher checkpoint is made of).
func ruleSaveProtocol(c *core.Ctx) {
	crRead := c.P.Fn("wire", "countingReader.Read")
	crReadByte := c.P.Fn("wire", "countingReader.ReadByte")
	readMsg := c.P.Fn("wire", "ReadContext.ReadMessage")
	expMagic := c.P.Fn("wire", "ReadContext.ExpectMagic")
	want := c.P.Fn("wire", "ReadContext.WantSave")
	pop := c.P.Fn("wire", "ReadContext.PopCheckpoint")
	newRC := c.P.Fn("wire", "NewReadContext")
	for n, f := range map[string]*ssa.Function{"countingReader.Read": crRead, "countingReader.ReadByte": crReadByte, "ReadContext.ReadMessage": readMsg,
		"ReadContext.ExpectMagic": expMagic, "ReadContext.WantSave": want, "ReadContext.PopCheckpoint": pop, "NewReadContext": newRC} {
		if f == nil {
			c.Missing("R13.2", "wire."+n, "not found")
			return
		}
	}
	isSourceVal := func(v ssa.Value) bool {
		_, n, ok := core.FieldOf(v)
		return ok && n == "source"
	}
	// ---- R13.2
	stateConst := func(name string) int64 {
		if k, ok := c.P.Pkg("wire").Types.Scope().Lookup(name).(*types.Const); ok {
			v, _ := constInt64(k)
			return v
		}
		return -1
	}
	idle, waiting, has := stateConst("saveStateIdle"), stateConst("saveStateWaitingForSource"), stateConst("saveStateHasSourceCheckpoint")
	if idle < 0 || waiting < 0 || has < 0 {
		c.Missing("R13.2", "wire.saveState*", "state constants not found")
	} else {
		stateGuard := func(in ssa.Instruction, want int64) bool {
			return hasGuard(in, func(g core.Guard) bool {
				return relHolds(g, token.EQL, isField("saveState"), isConstInt(want))
			})
		}
		stateStore := func(want int64) ipred {
			return func(in ssa.Instruction) bool {
				st, ok := in.(*ssa.Store)
				if !ok {
					return false
				}
				_, n, ok := core.FieldOf(st.Addr)
				k, isC := core.ConstInt(st.Val)
				return ok && n == "saveState" && isC && k == want
			}
		}
		ask := firstInstr(want, func(in ssa.Instruction) bool {
			cl, ok := in.(*ssa.Call)
			return ok && cl.Call.IsInvoke() && cl.Call.Method.Name() == "WantSave" && isSourceVal(cl.Call.Value)
		})
		setW := firstInstr(want, stateStore(waiting))
		c.Check(ask != nil && stateGuard(ask, idle), "R13.2", core.FnName(want), "source.WantSave() asked from the idle state", want.Pos(),
			"the source is asked under saveState == idle", "WantSave does not forward the request to the source from the idle state: no checkpoint is ever produced")
		c.Check(setW != nil && stateGuard(setW, idle) && ask != nil && (core.InstrDominates(ask, setW) || core.InstrDominates(setW, ask)), "R13.2", core.FnName(want), "state moves idle -> waiting together with the request", want.Pos(),
			"saveState = waiting on the same path as the request", "the state is not moved to 'waiting' on the path that asks the source")
		// the callback
		var cb *ssa.Function
		// (a literal in NewReadContext, or a method used as the callback: whichever function of the package
		// records the delivery)
		for _, f := range c.P.SrcFuncs() {
			if strings.HasSuffix(core.PkgPathOf(f), "/wire") && firstInstr(f, stateStore(has)) != nil {
				cb = f
			}
		}
		if cb == nil {
			c.Bad("R13.2", core.FnName(newRC), "source save callback", newRC.Pos(), "no callback stores saveState = has-source-checkpoint")
		} else {
			stCk := firstInstr(cb, func(in ssa.Instruction) bool {
				st, ok := in.(*ssa.Store)
				if !ok {
					return false
				}
				_, n, ok := core.FieldOf(st.Addr)
				if !ok || n != "sourceCheckpoint" {
					return false
				}
				for _, p := range cb.Params { // a literal's only parameter, or a method's after the receiver
					if st.Val == ssa.Value(p) && core.TypeName(p.Type()) == "github.com/itchio/savior.SourceCheckpoint" {
						return true
					}
				}
				return false
			})
			c.Check(stCk != nil && core.FindPath(cb, nil, isReturn, stateStore(has)) == nil, "R13.2", core.FnName(cb), "callback stores the source checkpoint and moves to has-checkpoint", cb.Pos(),
				"both on every path", "the source's save callback does not record the checkpoint and the state on every path")
			// installed as OnSave
			inst := false
			core.Instrs(newRC, func(in ssa.Instruction) {
				if st, ok := in.(*ssa.Store); ok {
					if _, n, ok := core.FieldOf(st.Addr); ok && n == "OnSave" {
						for _, o := range core.Origins(st.Val) {
							if mc, ok := o.(*ssa.MakeClosure); ok {
								if mc.Fn == cb {
									inst = true
								} else if w, ok := mc.Fn.(*ssa.Function); ok && w.Synthetic != "" {
									// a method value: the bound-method wrapper calls the method
									core.Instrs(w, func(x ssa.Instruction) {
										if cl, ok := x.(ssa.CallInstruction); ok && cl.Common().StaticCallee() == cb {
											inst = true
										}
									})
								}
							}
						}
					}
				}
			})
			c.Check(inst && containsCall(newRC, callLikeInvoke("SetSourceSaveConsumer")), "R13.2", core.FnName(newRC), "callback installed on the source", newRC.Pos(),
				"SetSourceSaveConsumer(OnSave: callback)", "the save callback is not installed on the source")
		}
		// PopCheckpoint
		nNon := 0
		for _, rs := range core.Returns(pop, 0) {
			if core.IsNilConst(rs.Val) {
				continue
			}
			nNon++
			// equivalently: the stored source checkpoint is non-nil (the callback sets both, Pop and Resume clear both)
			haveCk := hasGuard(rs.Ret, func(g core.Guard) bool {
				bo, ok := g.Cond.(*ssa.BinOp)
				if !ok || !core.IsNilConst(bo.Y) {
					return false
				}
				_, n, ok := core.FieldOf(bo.X)
				return ok && n == "sourceCheckpoint" && ((bo.Op == token.NEQ && g.Val) || (bo.Op == token.EQL && !g.Val))
			})
			c.Check(stateGuard(rs.Ret, has) || haveCk, "R13.2", core.FnName(pop), "checkpoint returned only when the source has delivered one", core.InstrPos(rs.Ret),
				"guarded by saveState == has-source-checkpoint (or r.sourceCheckpoint != nil)", "PopCheckpoint can return a checkpoint although the source has not delivered one")
			for _, o := range core.Origins(rs.Val) {
				a, ok := o.(*ssa.Alloc)
				if !ok {
					c.Bad("R13.2", core.FnName(pop), "returned checkpoint is a literal", core.InstrPos(rs.Ret), "the returned checkpoint is not built here")
					continue
				}
				off, ok1 := litField(a, "Offset")
				sck, ok2 := litField(a, "SourceCheckpoint")
				_, n1, f1 := core.FieldOf(off)
				_, n2, f2 := core.FieldOf(sck)
				c.Check(ok1 && f1 && n1 == "offset", "R13.2", core.FnName(pop), "checkpoint Offset is r.offset", core.InstrPos(a),
					"Offset: r.offset", "the checkpoint's Offset is not the counted reader offset")
				c.Check(ok2 && f2 && n2 == "sourceCheckpoint", "R13.2", core.FnName(pop), "checkpoint SourceCheckpoint is r.sourceCheckpoint", core.InstrPos(a),
					"SourceCheckpoint: r.sourceCheckpoint", "the checkpoint does not carry the source's checkpoint")
			}
		}
		c.Floor("R13.2", "non-nil returns of PopCheckpoint", nNon, 1)
		// not reachable from ReadMessage / counting reader
		g := c.P.CallGraph(false)
		reach := map[*ssa.Function]bool{}
		var walk func(f *ssa.Function)
		walk = func(f *ssa.Function) {
			if reach[f] || !core.InModule(f) {
				return
			}
			reach[f] = true
			if n := g.Nodes[f]; n != nil {
				for _, e := range n.Out {
					walk(e.Callee.Func)
				}
			}
		}
		for _, f := range []*ssa.Function{readMsg, crRead, crReadByte, expMagic} {
			walk(f)
		}
		c.Check(!reach[pop], "R13.2", core.FnName(pop), "not reachable from ReadMessage / the counting reader", pop.Pos(),
			"checkpoints are popped between messages only", "PopCheckpoint is reachable from inside ReadMessage: a checkpoint offset can fall in the middle of a message")
	}

	ruleCodecPairing(c, "R13.3")

}

// ruleWriterCloseFinishesStream is R13.8: "read back as the same sequence followed by end-of-stream" needs
// the compressor's trailer, which only the compressor's Close writes; CompressWire hands the compressor to
// a WriteContext, so WriteContext.Close is what finishes the stream. Whatever else Close does (flushing,
// logging), every return must have asked whether the writer has a Close method, and when it has, must have
// invoked it.
func ruleWriterCloseFinishesStream(c *core.Ctx) {
	c.Rule("R13.8", "WriteContext.Close closes the underlying writer whenever it has a Close method")
	fn := c.P.Fn("wire", "WriteContext.Close")
	if fn == nil {
		c.Missing("R13.8", "wire.(*WriteContext).Close", "not found")
		return
	}
	fname := core.FnName(fn)
	fromWriter := func(v ssa.Value) bool {
		for _, o := range core.Origins(v) {
			if _, n, ok := core.FieldOf(o); ok && n == "writer" {
				return true
			}
			if ld, ok := o.(*ssa.UnOp); ok && ld.Op == token.MUL {
				if _, n, ok := core.FieldOf(ld.X); ok && n == "writer" {
					return true
				}
			}
		}
		return false
	}
	hasClose := func(t types.Type) bool {
		it, ok := t.Underlying().(*types.Interface)
		if !ok {
			return false
		}
		for i := 0; i < it.NumMethods(); i++ {
			if it.Method(i).Name() == "Close" {
				return true
			}
		}
		return false
	}
	var asserts []*ssa.TypeAssert
	core.Instrs(fn, func(in ssa.Instruction) {
		if ta, ok := in.(*ssa.TypeAssert); ok && hasClose(ta.AssertedType) && fromWriter(ta.X) {
			asserts = append(asserts, ta)
		}
	})
	c.Floor("R13.8", "type assertions of the writer to an interface with Close", len(asserts), 1)
	if len(asserts) == 0 {
		return
	}
	isAssert := func(in ssa.Instruction) bool {
		for _, ta := range asserts {
			if in == ssa.Instruction(ta) {
				return true
			}
		}
		return false
	}
	// failure returns are not held to this: a Close that reports an error has not claimed a finished stream
	success := map[ssa.Instruction]bool{}
	for _, rs := range successReturns(fn) {
		success[rs.Ret] = true
		p := core.FindPath(fn, nil, isInstr(rs.Ret), isAssert)
		c.Check(p == nil, "R13.8", fname, "success return after asking whether the writer is a Closer", core.InstrPos(rs.Ret),
			"every path to this return tests the writer against an interface with Close", "Close can succeed without ever looking for the writer's Close method: a compressor that is also something else (gzip.Writer has Flush and Close) is never finished, and the stream ends without its trailer").Path = c.P.PathStrings(p)
	}
	c.Floor("R13.8", "success returns of WriteContext.Close", len(success), 1)
	isCloseOf := func(ta *ssa.TypeAssert) ipred {
		return func(in ssa.Instruction) bool {
			cl, ok := in.(ssa.CallInstruction)
			if !ok || !cl.Common().IsInvoke() || cl.Common().Method.Name() != "Close" {
				return false
			}
			for _, o := range core.Origins(cl.Common().Value) {
				if o == ssa.Value(ta) {
					return true
				}
				if ex, ok := o.(*ssa.Extract); ok && ex.Tuple == ssa.Value(ta) {
					return true
				}
			}
			return false
		}
	}
	for _, ta := range asserts {
		// the blocks entered knowing the assertion held
		var starts []*ssa.BasicBlock
		if !ta.CommaOk {
			// a plain assertion panics when it fails: everything after it knows it held
			starts = nil
			closes := isCloseOf(ta)
			core.Instrs(fn, func(in ssa.Instruction) {
				if !success[in] {
					return
				}
				p := core.FindPath(fn, ta, isInstr(in), closes)
				if p != nil {
					c.Bad("R13.8", fname, "Close invoked once the writer is known to have one", core.InstrPos(in), "the writer has a Close method and Close returns without invoking it")
				}
			})
			continue
		}
		for _, b := range fn.Blocks {
			iff, ok := b.Instrs[len(b.Instrs)-1].(*ssa.If)
			if !ok {
				continue
			}
			cond, neg := iff.Cond, false
			for {
				if u, ok := cond.(*ssa.UnOp); ok && u.Op == token.NOT {
					cond, neg = u.X, !neg
					continue
				}
				break
			}
			ex, ok := cond.(*ssa.Extract)
			if !ok || ex.Tuple != ssa.Value(ta) || ex.Index != 1 {
				continue
			}
			if neg {
				starts = append(starts, b.Succs[1])
			} else {
				starts = append(starts, b.Succs[0])
			}
		}
		if len(starts) == 0 {
			c.Missing("R13.8", fname, "the outcome of the writer's Closer assertion is not tested by a branch")
			continue
		}
		closes := isCloseOf(ta)
		seen := map[*ssa.BasicBlock]bool{}
		var bad ssa.Instruction
		var dfs func(b *ssa.BasicBlock)
		dfs = func(b *ssa.BasicBlock) {
			if seen[b] || bad != nil {
				return
			}
			seen[b] = true
			for _, in := range b.Instrs {
				if closes(in) {
					return
				}
				if isReturn(in) {
					if success[in] {
						bad = in
					}
					return
				}
			}
			for _, s := range b.Succs {
				if ret, ok := s.Instrs[len(s.Instrs)-1].(*ssa.Return); ok && core.ReturnEdgeFails(b, ret) {
					continue
				}
				dfs(s)
			}
		}
		for _, s := range starts {
			dfs(s)
		}
		o := c.Check(bad == nil, "R13.8", fname, "Close invoked once the writer is known to have one", ta.Pos(),
			"on the branch where the assertion holds every path to a return invokes Close on its result", "the writer has a Close method and Close returns without invoking it: the compressed stream is left without its final block and trailer")
		if bad != nil {
			o.Detail += " (return at " + c.P.Pos(bad.Pos()) + ")"
		}
	}
}

// ruleResumeLeavesNothingPending is R13.9: a source checkpoint that was delivered but not popped belongs to
// the position the reader had when it was delivered. Resume moves the reader; if the "has a source
// checkpoint" state survives it, the next PopCheckpoint pairs the resumed offset with a source checkpoint
// from further along, and that checkpoint cannot be resumed from. Every success path of Resume therefore
// stores another state - unless it got there through a test that already shows the state is another one.
func ruleResumeLeavesNothingPending(c *core.Ctx) {
	c.Rule("R13.9", "Resume leaves no source checkpoint pending")
	resume := c.P.Fn("wire", "ReadContext.Resume")
	if resume == nil {
		c.Missing("R13.9", "wire.(*ReadContext).Resume", "not found")
		return
	}
	has, ok := int64(0), false
	if k, isK := c.P.LookupObj("wire", "saveStateHasSourceCheckpoint").(*types.Const); isK {
		has, ok = constInt64(k)
	}
	if !ok {
		c.Missing("R13.9", "wire.saveStateHasSourceCheckpoint", "not found")
		return
	}
	isState := func(v ssa.Value) bool {
		for _, o := range core.Origins(v) {
			if _, n, ok := core.FieldOf(o); ok && n == "saveState" {
				return true
			}
		}
		return false
	}
	clears := func(in ssa.Instruction) bool {
		st, ok := in.(*ssa.Store)
		if !ok {
			return false
		}
		if _, n, ok := core.FieldOf(st.Addr); !ok || n != "saveState" {
			return false
		}
		k, isC := core.ConstInt(st.Val)
		return isC && k != has
	}
	// edges that already say "the state is not 'has a checkpoint'"
	other := func(b, s *ssa.BasicBlock) bool {
		if len(b.Instrs) == 0 || len(b.Succs) != 2 {
			return false
		}
		iff, ok := b.Instrs[len(b.Instrs)-1].(*ssa.If)
		if !ok {
			return false
		}
		val := s == b.Succs[0]
		if condHolds(iff.Cond, val, token.NEQ, isState, isConstInt(has)) {
			return true
		}
		// equal to some other constant
		bo, ok := iff.Cond.(*ssa.BinOp)
		if !ok {
			return false
		}
		for _, side := range []ssa.Value{bo.X, bo.Y} {
			if k, isC := core.ConstInt(side); isC && k != has && condHolds(iff.Cond, val, token.EQL, isState, isConstInt(k)) {
				return true
			}
		}
		return false
	}
	n := 0
	for _, rs := range successReturns(resume) {
		n++
		p := core.FindPathSkipping(resume, nil, isInstr(rs.Ret), clears, other)
		c.Check(p == nil, "R13.9", core.FnName(resume), "success only with the save state moved off 'has a source checkpoint'", core.InstrPos(rs.Ret),
			"every path to this return stores another save state, or passes a test that shows the state is another one",
			"Resume can succeed with a delivered-but-unpopped source checkpoint still pending: the next PopCheckpoint pairs the resumed offset with a source checkpoint from further along the stream, and resuming from that fails ('source resumed after our offset')").Path = c.P.PathStrings(p)
	}
	c.Floor("R13.9", "success returns of Resume", n, 1)
}

// ruleReaderAcceptsWhatWriterWrites is R13.10 (shared with C04): "any sequence of messages written through the
// wire writer ... is read back". If ReadMessage fails because the decoded length is beyond some constant,
// WriteMessage must refuse such a message too (with a constant that is not larger): otherwise a message the
// writer happily wrote - a container listing very many files is a single message - cannot be read back.
func ruleReaderAcceptsWhatWriterWrites(c *core.Ctx, rule string) {
	c.Rule(rule, "the reader refuses no message length the writer accepts")
	rm := c.P.Fn("wire", "ReadContext.ReadMessage")
	wm := c.P.Fn("wire", "WriteContext.WriteMessage")
	if rm == nil || wm == nil {
		c.Missing(rule, "wire.ReadMessage / WriteMessage", "not found")
		return
	}
	lengthOf := func(fn *ssa.Function, isSrc func(ssa.Value) bool) func(ssa.Value) bool {
		var dep func(v ssa.Value, d int) bool
		dep = func(v ssa.Value, d int) bool {
			if d > 6 || v == nil {
				return false
			}
			for _, o := range core.Origins(v) {
				if isSrc(o) {
					return true
				}
				switch x := o.(type) {
				case *ssa.BinOp:
					if dep(x.X, d+1) || dep(x.Y, d+1) {
						return true
					}
				case *ssa.Call:
					if b, ok := x.Call.Value.(*ssa.Builtin); ok && b.Name() == "len" && dep(x.Call.Args[0], d+1) {
						return true
					}
				}
			}
			return false
		}
		return func(v ssa.Value) bool { return dep(v, 0) }
	}
	isDecoded := lengthOf(rm, func(o ssa.Value) bool {
		ex, ok := o.(*ssa.Extract)
		if !ok || ex.Index != 0 {
			return false
		}
		cl, ok := ex.Tuple.(*ssa.Call)
		return ok && (strings.HasSuffix(core.CalleeName(cl), "binary.ReadUvarint") || strings.HasSuffix(core.CalleeName(cl), "binary.ReadVarint"))
	})
	isMarshalled := lengthOf(wm, func(o ssa.Value) bool {
		ex, ok := o.(*ssa.Extract)
		if !ok || ex.Index != 0 {
			return false
		}
		cl, ok := ex.Tuple.(*ssa.Call)
		return ok && strings.HasSuffix(core.CalleeName(cl), "proto.Marshal")
	})
	// the constants beyond which a function fails
	limits := func(fn *ssa.Function, isLen func(ssa.Value) bool) map[int64]ssa.Instruction {
		out := map[int64]ssa.Instruction{}
		success := map[ssa.Instruction]bool{}
		for _, rs := range successReturns(fn) {
			success[rs.Ret] = true
		}
		core.Instrs(fn, func(in ssa.Instruction) {
			if !isReturn(in) || success[in] {
				return
			}
			for _, g := range core.Guards(in) {
				bo, ok := g.Cond.(*ssa.BinOp)
				if !ok {
					continue
				}
				for _, pair := range [][2]ssa.Value{{bo.X, bo.Y}, {bo.Y, bo.X}} {
					k, isC := core.ConstInt(core.StripConv(pair[1]))
					if !isC || !isLen(pair[0]) {
						continue
					}
					// length > K / length >= K taken, or K < length ...
					if relHolds(g, token.GTR, isLen, isConstInt(k)) || relHolds(g, token.GEQ, isLen, isConstInt(k)) {
						out[k] = in
					}
				}
			}
		})
		return out
	}
	rl, wl := limits(rm, isDecoded), limits(wm, isMarshalled)
	c.Stats[rule+".reader_limits"] = len(rl)
	c.Stats[rule+".writer_limits"] = len(wl)
	for k, at := range rl {
		matched := false
		for kw := range wl {
			if kw <= k {
				matched = true
			}
		}
		c.Check(matched, rule, core.FnName(rm), "length limit of the reader is also the writer's", core.InstrPos(at),
			"WriteMessage fails for lengths beyond a constant that is not larger", "ReadMessage refuses messages longer than "+strconv.FormatInt(k, 10)+" bytes and WriteMessage does not: a message the writer accepted (a container with very many files is one message) cannot be read back")
	}
	c.Ok(rule, core.FnName(rm), "reader and writer limits compared", rm.Pos(), strconv.Itoa(len(rl))+" reader limit(s), "+strconv.Itoa(len(wl))+" writer limit(s)")
}

// ruleDecompressedWireStartsAtZero is R13.11: the checkpoints of the reader DecompressWire returns count from
// the first byte after the header - for every algorithm. The source handed to NewReadContext is, on every
// branch, the section of the original source cut at the current position (or a decompressor applied to it),
// and it has been resumed from nothing before the function succeeds. A pass-through for NONE over the
// un-sectioned source reads the same bytes but pops checkpoints whose two offsets have different origins.
func ruleDecompressedWireStartsAtZero(c *core.Ctx, rule string) {
	c.Rule(rule, "the decompressed wire is a section that starts at offset 0, whatever the algorithm")
	fn := c.P.Fn("pwr", "DecompressWire")
	if fn == nil {
		c.Missing(rule, "pwr.DecompressWire", "not found")
		return
	}
	var sec *ssa.Call
	core.Instrs(fn, func(in ssa.Instruction) {
		if cl, ok := in.(*ssa.Call); ok && cl.Call.IsInvoke() && cl.Call.Method.Name() == "Section" {
			sec = cl
		}
	})
	if sec == nil {
		c.Bad(rule, core.FnName(fn), "section of the source", fn.Pos(), "DecompressWire no longer cuts a section of the original source at the current position")
		return
	}
	var fromSection func(v ssa.Value, d int) bool
	fromSection = func(v ssa.Value, d int) bool {
		if d > 5 || v == nil {
			return false
		}
		os := core.Origins(v)
		if len(os) == 0 {
			return false
		}
		for _, o := range os {
			ok := false
			switch x := o.(type) {
			case *ssa.Extract:
				if x.Tuple == ssa.Value(sec) && x.Index == 0 {
					ok = true
				} else if cl, isCall := x.Tuple.(*ssa.Call); isCall && x.Index == 0 {
					for _, a := range cl.Call.Args {
						if fromSection(a, d+1) {
							ok = true
						}
					}
				}
			case *ssa.Call:
				for _, a := range x.Call.Args {
					if fromSection(a, d+1) {
						ok = true
					}
				}
			case *ssa.MakeInterface:
				ok = fromSection(x.X, d+1)
			case *ssa.ChangeInterface:
				ok = fromSection(x.X, d+1)
			case *ssa.TypeAssert:
				ok = fromSection(x.X, d+1)
			case *ssa.Const:
				ok = x.IsNil() // the result variable of a failed step; the function has returned by then
			}
			if !ok {
				return false
			}
		}
		return true
	}
	isResume := func(in ssa.Instruction) bool {
		cl, ok := in.(*ssa.Call)
		return ok && cl.Call.IsInvoke() && cl.Call.Method.Name() == "Resume" && len(cl.Call.Args) == 1 && core.IsNilConst(cl.Call.Args[0])
	}
	n := 0
	core.Instrs(fn, func(in ssa.Instruction) {
		cl, ok := in.(*ssa.Call)
		if !ok || !strings.HasSuffix(core.CalleeName(cl), "wire.NewReadContext") || len(cl.Call.Args) != 1 {
			return
		}
		n++
		okSrc := fromSection(cl.Call.Args[0], 0)
		c.Check(okSrc, rule, core.FnName(fn), "the reader is built over the section (or a decompressor applied to it)", core.InstrPos(in),
			"every value the source can be derives from Section(offset, size-offset)", "on some branch the reader is built over the original source, not over the section cut at the current position: its message offsets count from the end of the header while the source's own checkpoints count from the start of the file, and a popped checkpoint cannot be resumed from")
		p := core.FindPath(fn, nil, isInstr(in), isResume)
		c.Check(p == nil, rule, core.FnName(fn), "the source was resumed from nothing before the reader is built", core.InstrPos(in),
			"every path passes source.Resume(nil)", "on some branch the source is handed to the reader without having been resumed").Path = c.P.PathStrings(p)
	})
	c.Floor(rule, "readers built by DecompressWire", n, 1)
}

// rulePassThroughOnlyForNone is R13.12 (shared with C04): the reader decides whether to decompress from the
// algorithm the header announces, and from nothing else. The writer may therefore hand back its input
// context uncompressed only where the algorithm is NONE: every return of CompressWire whose result is the
// context it was given is reached only through the outcome Algorithm == NONE.
func rulePassThroughOnlyForNone(c *core.Ctx, rule string) {
	c.Rule(rule, "the writer leaves a stream uncompressed only for the algorithm NONE")
	fn := c.P.Fn("pwr", "CompressWire")
	if fn == nil || len(fn.Params) == 0 {
		c.Missing(rule, "pwr.CompressWire", "not found")
		return
	}
	none := int64(-1)
	if k, ok := c.P.LookupObj("pwr", "CompressionAlgorithm_NONE").(*types.Const); ok {
		none, _ = constInt64(k)
	}
	isAlg := func(v ssa.Value) bool {
		for _, o := range core.Origins(v) {
			if _, n, ok := core.FieldOf(o); ok && n == "Algorithm" {
				return true
			}
			if cl, ok := o.(*ssa.Call); ok && strings.HasSuffix(core.CalleeName(cl), ").GetAlgorithm") {
				return true
			}
		}
		return false
	}
	n := 0
	for _, rs := range core.Returns(fn, 0) {
		same := false
		for _, o := range core.Origins(rs.Val) {
			if o == ssa.Value(fn.Params[0]) {
				same = true
			}
		}
		if !same {
			continue
		}
		n++
		okN := hasGuard(rs.Ret, func(g core.Guard) bool { return relHolds(g, token.EQL, isAlg, isConstInt(none)) })
		c.Check(okN, rule, core.FnName(fn), "the input context is handed back only for NONE", core.InstrPos(rs.Ret),
			"reached only through the outcome Algorithm == NONE", "CompressWire can hand back its input context - write the stream uncompressed - for an algorithm other than NONE (because of the quality, say): the header announces that algorithm, DecompressWire applies its decompressor, and the stream cannot be read back")
	}
	c.Floor(rule, "pass-through returns of CompressWire", n, 1)
}

// wrapperMethods: if v is (a pointer to) a freshly made value of a struct type declared in the module,
// the methods of that type that have bodies.
func wrapperMethods(c *core.Ctx, v ssa.Value) []*ssa.Function {
	v = core.StripConv(v)
	if mi, ok := v.(*ssa.MakeInterface); ok {
		v = core.StripConv(mi.X)
	}
	al, ok := v.(*ssa.Alloc)
	if !ok {
		return nil
	}
	pt, ok := al.Type().(*types.Pointer)
	if !ok {
		return nil
	}
	nt, ok := pt.Elem().(*types.Named)
	if !ok || nt.Obj().Pkg() == nil || !strings.HasPrefix(nt.Obj().Pkg().Path(), core.Mod) {
		return nil
	}
	var out []*ssa.Function
	ms := c.P.SSA.MethodSets.MethodSet(pt)
	for i := 0; i < ms.Len(); i++ {
		if m := c.P.SSA.MethodValue(ms.At(i)); m != nil && m.Blocks != nil {
			out = append(out, m)
		}
	}
	return out
}

// ruleWrappedStreamIsFinished (R13.13): when a registered compressor hands back a wrapper type of the
// module instead of the codec's own writer, closing the wrapper finishes the codec's stream whether or
// not anything was written: the wrapper has a Close method and every success return of it lies behind a
// call of a Close method outside the module (the codec's). A wrapper that makes its encoder on the first
// Write and whose Close does nothing when there is none writes zero bytes for the empty message
// sequence: the reader gets 'unexpected EOF' instead of a clean end of stream.
func ruleWrappedStreamIsFinished(c *core.Ctx, rule string, apply *ssa.Function) {
	c.Rule(rule, "closing what a registered compressor hands back finishes the codec's stream, written to or not")
	for _, rs := range core.Returns(apply, 0) {
		for _, o := range core.Origins(rs.Val) {
			ms := wrapperMethods(c, o)
			if ms == nil {
				continue
			}
			var closeFn *ssa.Function
			for _, m := range ms {
				if m.Name() == "Close" {
					closeFn = m
				}
			}
			if closeFn == nil {
				c.Bad(rule, core.FnName(apply), "wrapper returned by the compressor has a Close method", core.InstrPos(rs.Ret),
					"the compressor hands back a type of the module that has no Close method: WriteContext.Close cannot finish the compressed stream, which then lacks its final block")
				continue
			}
			innerClose := func(in ssa.Instruction) bool {
				cl, ok := in.(ssa.CallInstruction)
				if !ok {
					return false
				}
				if cl.Common().IsInvoke() {
					return cl.Common().Method.Name() == "Close"
				}
				f := cl.Common().StaticCallee()
				return f != nil && f.Name() == "Close" && !strings.HasPrefix(core.PkgPathOf(f), core.Mod)
			}
			// an "already closed" flag that Close itself sets may short-cut a second call
			flagSet := map[string]bool{}
			core.Instrs(closeFn, func(in ssa.Instruction) {
				if st, ok := in.(*ssa.Store); ok {
					if b, isB := core.ConstBool(st.Val); isB && b {
						if _, n, ok := core.FieldOf(st.Addr); ok {
							flagSet[n] = true
						}
					}
				}
			})
			skip := func(b, s2 *ssa.BasicBlock) bool {
				if len(b.Instrs) == 0 {
					return false
				}
				ifi, ok := b.Instrs[len(b.Instrs)-1].(*ssa.If)
				if !ok || b.Succs[0] != s2 {
					return false
				}
				if ld, ok := ifi.Cond.(*ssa.UnOp); ok && ld.Op == token.MUL {
					if _, n, ok := core.FieldOf(ld.X); ok && flagSet[n] {
						return true
					}
				}
				return false
			}
			n := 0
			for _, sr := range successReturns(closeFn) {
				n++
				p := core.FindPathSkipping(closeFn, nil, isInstr(sr.Ret), innerClose, skip)
				c.Check(p == nil, rule, core.FnName(closeFn), "success return behind the codec's Close", core.InstrPos(sr.Ret),
					"every path to this return calls the Close of what the wrapper wraps", "the wrapper's Close can succeed without closing the codec's writer (when none was made yet, say): a compressed stream through which no message went is then zero bytes long instead of an empty, finished stream, and reading it back fails with 'unexpected EOF' where the uncompressed wire reports a clean end").Path = c.P.PathStrings(p)
			}
			if n == 0 {
				c.Bad(rule, core.FnName(closeFn), "wrapper Close has a success return", closeFn.Pos(), "no success return found")
			}
		}
	}
}

// originsAcrossLiterals: the origins of v; where an origin is a result of calling a function literal of
// the same family (a helper the normaliser expanded in place), the origins of what that literal returns.
func originsAcrossLiterals(v ssa.Value, _ *ssa.Function) []ssa.Value {
	var out []ssa.Value
	seen := map[ssa.Value]bool{}
	var walk func(v ssa.Value, d int)
	walk = func(v ssa.Value, d int) {
		if d > 6 {
			return
		}
		for _, o := range core.Origins(v) {
			if seen[o] {
				continue
			}
			seen[o] = true
			if ex, ok := o.(*ssa.Extract); ok {
				if cl, ok := ex.Tuple.(*ssa.Call); ok {
					if lit := calledLiteral(cl); lit != nil {
						for _, rs := range core.Returns(lit, ex.Index) {
							walk(rs.Val, d+1)
						}
						continue
					}
				}
			}
			if cl, ok := o.(*ssa.Call); ok {
				if lit := calledLiteral(cl); lit != nil {
					for _, rs := range core.Returns(lit, 0) {
						walk(rs.Val, d+1)
					}
					continue
				}
			}
			out = append(out, o)
		}
	}
	walk(v, 0)
	return out
}

func calledLiteral(cl *ssa.Call) *ssa.Function {
	switch x := cl.Call.Value.(type) {
	case *ssa.MakeClosure:
		if f, ok := x.Fn.(*ssa.Function); ok {
			return f
		}
	case *ssa.Function:
		if x.Parent() != nil {
			return x
		}
	}
	return nil
}


// ssaFieldKey gives loads of the same-named field one identity (two loads of w.frame are two values in SSA form).
type fieldKeyValue struct {
	ssa.Value
	name string
}

var fieldKeys = map[string]*fieldKeyValue{}

func ssaFieldKey(name string) ssa.Value {
	if k, ok := fieldKeys[name]; ok {
		return k
	}
	k := &fieldKeyValue{name: name}
	fieldKeys[name] = k
	return k
}
