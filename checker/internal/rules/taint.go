package rules

// Wire-taint with field-validated typestate (analysis A3, DESIGN §3.1).
//
// Sparse forward dataflow over SSA values of all module functions, iterated to a
// global fixpoint: integer fields loaded from objects that are filled by
// ReadMessage are labelled; labels flow through copies, phis, local cells,
// struct values (per field), heap fields (field-based), maps (site/field-based),
// calls (parameters/results, context-insensitive) and are dropped ("washed")
// at a flow point when range facts established by dominating branch outcomes
// hold there.  Surviving labels at index/slice/make/divide/pool-call sinks are
// violations.

import (
	"fmt"
	"go/token"
	"go/types"
	"sort"
	"strings"

	"golang.org/x/tools/go/callgraph"
	"golang.org/x/tools/go/ssa"

	"wharfverif/checker/internal/core"
)

// ---- abstract values -------------------------------------------------------------

type tLabel struct {
	key    string // stable identity
	origin string // human description of the wire source
	via    string // last hop (for diagnostics)
}

// T is the abstract value: labels of a scalar, or per-field values of a struct
// (also used for pointers to structs: the pointee's fields).
type T struct {
	labels map[string]*tLabel // unvalidated wire-derived
	washed map[string]*tLabel // wire-derived but validated on the way (evidence only)
	fields map[int]*T
}

func newT() *T { return &T{} }

func (t *T) empty() bool {
	if t == nil {
		return true
	}
	if len(t.labels) > 0 || len(t.washed) > 0 {
		return false
	}
	for _, f := range t.fields {
		if !f.empty() {
			return false
		}
	}
	return true
}

func (t *T) tainted() bool {
	if t == nil {
		return false
	}
	if len(t.labels) > 0 {
		return true
	}
	for _, f := range t.fields {
		if f.tainted() {
			return true
		}
	}
	return false
}

// join merges o into t; reports whether t changed.
func (t *T) join(o *T) bool {
	if o == nil {
		return false
	}
	ch := false
	for k, l := range o.labels {
		if t.labels == nil {
			t.labels = map[string]*tLabel{}
		}
		if _, ok := t.labels[k]; !ok {
			t.labels[k] = l
			ch = true
		}
	}
	for k, l := range o.washed {
		if t.washed == nil {
			t.washed = map[string]*tLabel{}
		}
		if _, ok := t.washed[k]; !ok {
			t.washed[k] = l
			ch = true
		}
	}
	for i, f := range o.fields {
		if f.empty() {
			continue
		}
		if t.fields == nil {
			t.fields = map[int]*T{}
		}
		if t.fields[i] == nil {
			t.fields[i] = newT()
		}
		if t.fields[i].join(f) {
			ch = true
		}
	}
	return ch
}

func (t *T) field(i int) *T {
	if t == nil || t.fields == nil {
		return nil
	}
	return t.fields[i]
}

// scalar flattens a T to its own labels plus those of all fields.
func (t *T) allLabels() []*tLabel {
	var out []*tLabel
	var walk func(t *T)
	walk = func(t *T) {
		if t == nil {
			return
		}
		for _, l := range t.labels {
			out = append(out, l)
		}
		for _, f := range t.fields {
			walk(f)
		}
	}
	walk(t)
	sort.Slice(out, func(i, j int) bool { return out[i].key < out[j].key })
	return out
}

func (t *T) washedOnly() *T {
	// a copy in which every label has been moved to washed
	if t == nil {
		return nil
	}
	n := newT()
	for k, l := range t.labels {
		if n.washed == nil {
			n.washed = map[string]*tLabel{}
		}
		n.washed[k] = l
	}
	for k, l := range t.washed {
		if n.washed == nil {
			n.washed = map[string]*tLabel{}
		}
		n.washed[k] = l
	}
	for i, f := range t.fields {
		if n.fields == nil {
			n.fields = map[int]*T{}
		}
		n.fields[i] = f.washedOnly()
	}
	return n
}

// ---- facts ---------------------------------------------------------------------------

type factBits uint8

const (
	fLB factBits = 1 << iota
	fUB
	fEQ
	fNZ
)

func (f factBits) indexSafe() bool { return f&fEQ != 0 || (f&fLB != 0 && f&fUB != 0) }

// ---- configuration ---------------------------------------------------------------

// TaintConfig parameterises the engine (the same engine runs on the fixtures).
type TaintConfig struct {
	// IsReadCall returns the index (in Common().Args, receiver included for
	// static method calls; for invoke calls the receiver is not in Args) of the
	// message argument if c fills a message from the wire, else -1.
	IsReadCall func(c ssa.CallInstruction) int
	// ExcludedMsgType: message types that are trusted by the property's precondition.
	ExcludedMsgType func(t types.Type) bool
	// ExternalSinkArgs returns the argument indices (in Common().Args) that an
	// external callee uses as an unguarded container index.
	ExternalSinkArgs func(c ssa.CallInstruction) []int
	// Precise: use the VTA call graph for dynamic/interface calls.
	Precise bool
}

// TaintSink is a sink site with the abstract value that reached it.
type TaintSink struct {
	Fn    *ssa.Function
	Instr ssa.Instruction
	Kind  string // index, slice, make, divide, pool-call
	Expr  string
	Val   ssa.Value
	T     *T
	Facts factBits
}

type heapKey struct {
	typ   string
	field int
}

type taintEngine struct {
	p   *core.Prog
	cfg TaintConfig
	cg  *callgraph.Graph

	fns       []*ssa.Function
	vals      map[ssa.Value]*T
	params    map[*ssa.Parameter]*T
	rets      map[*ssa.Function][]*T
	heap      map[heapKey]*T
	mapKey    map[string]*T
	mapVal    map[string]*T
	readInto  map[*ssa.Function]map[ssa.Value]bool // per function family: origins passed to a read call
	readCalls map[*ssa.Function][]readCall
	summaries map[sumKey][]sumFact
	sumBusy   map[sumKey]bool
	changed   bool

	Sinks          []*TaintSink
	UnresolvedDyn  int
	ReadCallSites  int
	WireObjects    map[string]bool
	TaintedLoads   map[string]bool
	factsCache     map[factsKey]factBits
	wireVec        map[ssa.Value]*T
	readArgs       map[ssa.Value]bool
	calleesOfCache map[ssa.CallInstruction][]*ssa.Function
}

type readCall struct {
	call ssa.CallInstruction
	objs []ssa.Value // origins of the message argument
}

type factsKey struct {
	v  ssa.Value
	at ssa.Instruction
}

func family(fn *ssa.Function) *ssa.Function {
	for fn.Parent() != nil {
		fn = fn.Parent()
	}
	return fn
}

// RunTaint runs the analysis over fns.
func RunTaint(p *core.Prog, fns []*ssa.Function, cfg TaintConfig) *taintEngine {
	e := &taintEngine{p: p, cfg: cfg, fns: fns,
		vals: map[ssa.Value]*T{}, params: map[*ssa.Parameter]*T{}, rets: map[*ssa.Function][]*T{},
		heap: map[heapKey]*T{}, mapKey: map[string]*T{}, mapVal: map[string]*T{},
		readInto: map[*ssa.Function]map[ssa.Value]bool{}, readCalls: map[*ssa.Function][]readCall{},
		summaries: map[sumKey][]sumFact{}, sumBusy: map[sumKey]bool{},
		WireObjects: map[string]bool{}, TaintedLoads: map[string]bool{},
		wireVec:    map[ssa.Value]*T{},
		readArgs:   map[ssa.Value]bool{},
		factsCache: map[factsKey]factBits{}, calleesOfCache: map[ssa.CallInstruction][]*ssa.Function{}}
	e.cg = p.CallGraph(cfg.Precise)
	inScope := map[*ssa.Function]bool{}
	for _, fn := range fns {
		inScope[fn] = true
	}
	// 1. read calls and wire objects
	for _, fn := range fns {
		core.Instrs(fn, func(in ssa.Instruction) {
			c, ok := in.(ssa.CallInstruction)
			if !ok {
				return
			}
			idx := cfg.IsReadCall(c)
			if idx < 0 || idx >= len(c.Common().Args) {
				return
			}
			arg := c.Common().Args[idx]
			st := core.StripConv(arg)
			if cfg.ExcludedMsgType != nil && cfg.ExcludedMsgType(st.Type()) {
				return
			}
			e.ReadCallSites++
			fam := family(fn)
			if e.readInto[fam] == nil {
				e.readInto[fam] = map[ssa.Value]bool{}
			}
			rc := readCall{call: c}
			e.readArgs[st] = true
			for _, o := range core.Origins(arg) {
				o = core.CellRoot(o)
				e.readInto[fam][o] = true
				rc.objs = append(rc.objs, o)
				e.WireObjects[core.FnName(fam)+":"+core.Describe(o)+":"+core.TypeName(o.Type())] = true
			}
			e.readCalls[fam] = append(e.readCalls[fam], rc)
		})
	}
	// 2. fixpoint
	for round := 0; round < 40; round++ {
		e.changed = false
		e.factsCache = map[factsKey]factBits{}
		e.summaries = map[sumKey][]sumFact{}
		for _, fn := range fns {
			e.transferFn(fn)
		}
		if !e.changed {
			break
		}
	}
	// 3. sinks (facts recomputed against the final state)
	e.factsCache = map[factsKey]factBits{}
	e.summaries = map[sumKey][]sumFact{}
	for _, fn := range fns {
		e.collectSinks(fn)
	}
	return e
}

func (e *taintEngine) get(v ssa.Value) *T {
	var t *T
	switch x := v.(type) {
	case *ssa.Const, *ssa.Global, *ssa.Function, *ssa.Builtin:
		return nil
	case *ssa.Parameter:
		t = e.params[x]
	default:
		t = e.vals[v]
	}
	// a pointer to an object that is filled from the wire carries the labels of
	// all its integer fields (so that they travel with the pointer into callees)
	if w := e.wireVector(v); w != nil {
		n := newT()
		n.join(t)
		n.join(w)
		return n
	}
	return t
}

func (e *taintEngine) wireVector(v ssa.Value) *T {
	if w, ok := e.wireVec[v]; ok {
		return w
	}
	var w *T
	if _, isPtr := v.Type().Underlying().(*types.Pointer); isPtr {
		if st := structOf(v.Type()); st != nil {
			var fn *ssa.Function
			switch x := v.(type) {
			case ssa.Instruction:
				fn = x.Parent()
			case *ssa.Parameter:
				fn = x.Parent()
			case *ssa.FreeVar:
				fn = x.Parent()
			}
			if fn != nil && e.isDirectWireObj(fn, v) {
				w = newT()
				w.fields = map[int]*T{}
				for i := 0; i < st.NumFields(); i++ {
					if isIntegral(st.Field(i).Type()) {
						w.fields[i] = &T{labels: map[string]*tLabel{}}
						l := e.wireLabel(fn, v.Type(), i)
						w.fields[i].labels[l.key] = l
					}
				}
			}
		}
	}
	e.wireVec[v] = w
	return w
}

func (e *taintEngine) wireLabel(fn *ssa.Function, objType types.Type, field int) *tLabel {
	st := structOf(objType)
	fname := fmt.Sprint(field)
	if st != nil {
		fname = st.Field(field).Name()
	}
	k := "wire:" + core.TypeName(objType) + "." + fname + "@" + core.FnName(family(fn))
	return &tLabel{key: k, origin: core.TypeName(objType) + "." + fname + " (read from the stream in " + core.FnName(family(fn)) + ")"}
}

func (e *taintEngine) setJoin(v ssa.Value, t *T) {
	if t.empty() {
		return
	}
	cur := e.vals[v]
	if cur == nil {
		cur = newT()
		e.vals[v] = cur
	}
	if cur.join(t) {
		e.changed = true
	}
}

func (e *taintEngine) joinInto(dst **T, t *T) {
	if t.empty() {
		return
	}
	if *dst == nil {
		*dst = newT()
	}
	if (*dst).join(t) {
		e.changed = true
	}
}

func (e *taintEngine) joinMap(m map[string]*T, k string, t *T) {
	if t.empty() {
		return
	}
	if m[k] == nil {
		m[k] = newT()
	}
	if m[k].join(t) {
		e.changed = true
	}
}

func (e *taintEngine) joinHeap(k heapKey, t *T) {
	if t.empty() {
		return
	}
	if e.heap[k] == nil {
		e.heap[k] = newT()
	}
	if e.heap[k].join(t) {
		e.changed = true
	}
}

func isIntegral(t types.Type) bool {
	b, ok := t.Underlying().(*types.Basic)
	return ok && b.Info()&types.IsInteger != 0
}

func isUnsigned(t types.Type) bool {
	b, ok := t.Underlying().(*types.Basic)
	return ok && b.Info()&types.IsUnsigned != 0
}

func structOf(t types.Type) *types.Struct {
	if p, ok := t.Underlying().(*types.Pointer); ok {
		t = p.Elem()
	}
	s, _ := t.Underlying().(*types.Struct)
	return s
}

// allocTargets returns the allocs a pointer value may denote and whether every
// origin is an alloc.
func allocTargets(x ssa.Value) (allocs []*ssa.Alloc, others []ssa.Value) {
	for _, o := range core.Origins(x) {
		o = core.CellRoot(o)
		if a, ok := o.(*ssa.Alloc); ok {
			allocs = append(allocs, a)
		} else {
			others = append(others, o)
		}
	}
	return
}

// flow returns the part of v's abstract value that survives the facts holding
// at instruction `at` (labels validated there are moved to washed).
func (e *taintEngine) flow(v ssa.Value, at ssa.Instruction) *T {
	t := e.get(v)
	if t.empty() {
		return nil
	}
	if !t.tainted() {
		return t
	}
	out := newT()
	// own labels
	if len(t.labels) > 0 {
		if e.factsFor(v, at).indexSafe() {
			out.join(&T{washed: t.labels})
		} else {
			out.join(&T{labels: t.labels})
		}
	}
	out.join(&T{washed: t.washed})
	// fields of a pointed-to / by-value struct
	if len(t.fields) > 0 {
		isPtr := false
		if _, ok := v.Type().Underlying().(*types.Pointer); ok {
			isPtr = true
		}
		for i, f := range t.fields {
			if f.empty() {
				continue
			}
			nf := f
			if isPtr && f.tainted() && len(f.labels) > 0 {
				if e.factsForPath(v, i, at, nil).indexSafe() {
					nf = f.washedOnly()
				}
			}
			if out.fields == nil {
				out.fields = map[int]*T{}
			}
			if out.fields[i] == nil {
				out.fields[i] = newT()
			}
			out.fields[i].join(nf)
		}
	}
	return out
}

// isDirectWireObj: x itself (not a phi or copy merging several objects) is an
// object that a read call fills, or is the very value passed to a read call.
func (e *taintEngine) isDirectWireObj(fn *ssa.Function, x ssa.Value) bool {
	ri := e.readInto[family(fn)]
	if ri == nil {
		return false
	}
	x = core.StripConv(x)
	if ri[core.CellRoot(x)] || e.readArgs[x] {
		return true
	}
	// a load of a local pointer variable that only ever holds one object
	if _, isPhi := x.(*ssa.Phi); isPhi {
		return false
	}
	os := core.Origins(x)
	return len(os) == 1 && ri[core.CellRoot(os[0])]
}

func (e *taintEngine) isWireObj(fn *ssa.Function, x ssa.Value) bool {
	ri := e.readInto[family(fn)]
	if ri == nil {
		return false
	}
	for _, o := range core.Origins(x) {
		if ri[core.CellRoot(o)] {
			return true
		}
	}
	return false
}

// callees resolves the module-internal callees of a call.
func (e *taintEngine) callees(c ssa.CallInstruction) []*ssa.Function {
	if r, ok := e.calleesOfCache[c]; ok {
		return r
	}
	var out []*ssa.Function
	cc := c.Common()
	if fn := cc.StaticCallee(); fn != nil {
		out = append(out, fn)
	} else if !cc.IsInvoke() {
		// function value: closures reaching it by copies
		res := false
		for _, o := range core.Origins(cc.Value) {
			switch f := o.(type) {
			case *ssa.MakeClosure:
				out = append(out, f.Fn.(*ssa.Function))
				res = true
			case *ssa.Function:
				out = append(out, f)
				res = true
			}
		}
		if !res {
			out = append(out, e.cgCallees(c)...)
		}
	} else {
		out = append(out, e.cgCallees(c)...)
	}
	e.calleesOfCache[c] = out
	return out
}

func (e *taintEngine) cgCallees(c ssa.CallInstruction) []*ssa.Function {
	var out []*ssa.Function
	n := e.cg.Nodes[c.Parent()]
	if n == nil {
		return nil
	}
	for _, ed := range n.Out {
		if ed.Site == c && ed.Callee != nil && ed.Callee.Func != nil {
			out = append(out, ed.Callee.Func)
		}
	}
	return out
}

func (e *taintEngine) mapObj(fn *ssa.Function, m ssa.Value) string {
	// field-based if the map lives in (or is stored into) a struct field, else
	// site-based, else type-based.
	var keys []string
	for _, o := range core.Origins(m) {
		o = core.CellRoot(o)
		switch x := o.(type) {
		case *ssa.MakeMap:
			k := "site:" + core.FnName(x.Parent()) + ":" + core.Describe(x) + fmt.Sprintf("#%d", x.Block().Index)
			// stored into a field?
			if refs := x.Referrers(); refs != nil {
				for _, r := range *refs {
					if st, ok := r.(*ssa.Store); ok && st.Val == x {
						if fa, ok := st.Addr.(*ssa.FieldAddr); ok {
							k = "field:" + core.TypeName(fa.X.Type()) + "." + fmt.Sprint(fa.Field)
						}
					}
				}
			}
			keys = append(keys, k)
		case *ssa.UnOp:
			if fa, ok := x.X.(*ssa.FieldAddr); ok && x.Op == token.MUL {
				keys = append(keys, "field:"+core.TypeName(fa.X.Type())+"."+fmt.Sprint(fa.Field))
			} else {
				keys = append(keys, "type:"+types.TypeString(m.Type(), nil))
			}
		default:
			keys = append(keys, "type:"+types.TypeString(m.Type(), nil))
		}
	}
	sort.Strings(keys)
	if len(keys) == 0 {
		return "type:" + types.TypeString(m.Type(), nil)
	}
	return keys[0]
}

func (e *taintEngine) transferFn(fn *ssa.Function) {
	for _, b := range fn.Blocks {
		for _, in := range b.Instrs {
			e.transfer(fn, in)
		}
	}
}

func (e *taintEngine) transfer(fn *ssa.Function, in ssa.Instruction) {
	switch x := in.(type) {
	case *ssa.Phi:
		for i, ed := range x.Edges {
			pred := x.Block().Preds[i]
			at := pred.Instrs[len(pred.Instrs)-1]
			e.setJoin(x, e.flow(ed, at))
		}
	case *ssa.Convert:
		e.setJoin(x, e.get(x.X))
	case *ssa.ChangeType:
		e.setJoin(x, e.get(x.X))
	case *ssa.ChangeInterface:
		e.setJoin(x, e.get(x.X))
	case *ssa.MakeInterface:
		e.setJoin(x, e.get(x.X))
	case *ssa.TypeAssert:
		e.setJoin(x, e.get(x.X))
	case *ssa.BinOp:
		switch x.Op {
		case token.ADD, token.SUB, token.MUL, token.QUO, token.REM, token.SHL, token.SHR, token.AND, token.OR, token.XOR, token.AND_NOT:
			if !isIntegral(x.Type()) {
				return
			}
			tx, ty := e.flow(x.X, x), e.flow(x.Y, x)
			if tx.tainted() || ty.tainted() {
				var from []string
				for _, l := range append(tx.allLabels(), ty.allLabels()...) {
					from = append(from, l.origin)
				}
				k := "derived:" + core.FnName(fn) + ":" + core.Describe(x)
				e.setJoin(x, &T{labels: map[string]*tLabel{k: {key: k, origin: "arithmetic " + core.Describe(x) + " in " + core.FnName(fn) + " on " + strings.Join(dedup(from), ", ")}}})
			} else {
				w := newT()
				w.join(tx)
				w.join(ty)
				e.setJoin(x, w.washedOnly())
			}
		}
	case *ssa.UnOp:
		switch x.Op {
		case token.MUL:
			e.transferLoad(fn, x)
		case token.SUB, token.XOR:
			e.setJoin(x, e.get(x.X))
		}
	case *ssa.Field:
		e.setJoin(x, e.get(x.X).field(x.Field))
	case *ssa.Extract:
		switch tup := x.Tuple.(type) {
		case *ssa.Call:
			for _, cal := range e.callees(tup) {
				if rs := e.rets[cal]; x.Index < len(rs) {
					e.setJoin(x, rs[x.Index])
				}
			}
		case *ssa.Next:
			if rng, ok := tup.Iter.(*ssa.Range); ok {
				if _, ok := rng.X.Type().Underlying().(*types.Map); ok {
					mo := e.mapObj(fn, rng.X)
					switch x.Index {
					case 1:
						e.setJoin(x, e.mapKey[mo])
					case 2:
						e.setJoin(x, e.mapVal[mo])
					}
				}
			}
		case *ssa.Lookup:
			if x.Index == 0 {
				e.setJoin(x, e.get(tup))
			}
		case *ssa.TypeAssert:
			if x.Index == 0 {
				e.setJoin(x, e.get(tup.X))
			}
		}
	case *ssa.Lookup:
		if _, ok := x.X.Type().Underlying().(*types.Map); ok {
			e.setJoin(x, e.mapVal[e.mapObj(fn, x.X)])
		}
	case *ssa.MapUpdate:
		mo := e.mapObj(fn, x.Map)
		e.joinMap(e.mapKey, mo, e.flow(x.Key, x))
		e.joinMap(e.mapVal, mo, e.flow(x.Value, x))
	case *ssa.Store:
		e.transferStore(fn, x)
	case *ssa.Call:
		e.transferCall(fn, x)
		if x.Type() != nil {
			if _, isTuple := x.Type().(*types.Tuple); !isTuple {
				for _, cal := range e.callees(x) {
					if rs := e.rets[cal]; len(rs) > 0 {
						e.setJoin(x, rs[0])
					}
				}
			}
		}
	case *ssa.Go:
		e.transferCall(fn, x)
	case *ssa.Defer:
		e.transferCall(fn, x)
	case *ssa.Return:
		rs := e.rets[fn]
		if rs == nil {
			rs = make([]*T, len(x.Results))
			e.rets[fn] = rs
		}
		for i, r := range x.Results {
			if i < len(rs) {
				e.joinInto(&rs[i], e.flow(r, x))
			}
		}
	}
}

func dedup(xs []string) []string {
	seen := map[string]bool{}
	var out []string
	for _, x := range xs {
		if !seen[x] {
			seen[x] = true
			out = append(out, x)
		}
	}
	sort.Strings(out)
	return out
}

func (e *taintEngine) transferLoad(fn *ssa.Function, ld *ssa.UnOp) {
	switch a := ld.X.(type) {
	case *ssa.FieldAddr:
		// object field load
		if e.isDirectWireObj(fn, a.X) && isIntegral(ld.Type()) {
			l := e.wireLabel(fn, a.X.Type(), a.Field)
			e.TaintedLoads[l.key] = true
			e.setJoin(ld, &T{labels: map[string]*tLabel{l.key: l}})
		}
		allocs, others := allocTargets(a.X)
		for _, al := range allocs {
			e.setJoin(ld, e.vals[al].field(a.Field))
		}
		if len(others) > 0 || len(allocs) == 0 {
			for _, o := range others {
				e.setJoin(ld, e.get(o).field(a.Field))
			}
			e.setJoin(ld, e.get(a.X).field(a.Field))
			e.setJoin(ld, e.heap[heapKey{core.TypeName(a.X.Type()), a.Field}])
		}
	default:
		// load of a cell (local variable, captured variable, named result) or unknown pointer
		root := core.CellRoot(ld.X)
		if al, ok := root.(*ssa.Alloc); ok {
			e.setJoin(ld, e.vals[al])
			return
		}
		// pointer to struct held in a value: *p (whole struct copy)
		if structOf(ld.X.Type()) != nil {
			e.setJoin(ld, e.get(ld.X))
		}
	}
}

func (e *taintEngine) transferStore(fn *ssa.Function, st *ssa.Store) {
	switch a := st.Addr.(type) {
	case *ssa.FieldAddr:
		t := e.flow(st.Val, st)
		if t.empty() {
			return
		}
		if t.tainted() && e.validatedAfterStore(fn, st, a) {
			t = t.washedOnly()
		}
		allocs, _ := allocTargets(a.X)
		for _, al := range allocs {
			e.setJoin(al, &T{fields: map[int]*T{a.Field: t}})
		}
		// messages filled from the wire are not heap cells of their type: a writer
		// storing into its own message must not taint every reader's message.
		e.joinHeap(heapKey{core.TypeName(a.X.Type()), a.Field}, t)
	default:
		root := core.CellRoot(st.Addr)
		if al, ok := root.(*ssa.Alloc); ok {
			e.setJoin(al, e.flow(st.Val, st))
		}
	}
}

// validatedAfterStore recognises the "assign, then validate, else reset" idiom
// (lruFile.Seek): a tainted value is stored into o.F and every return reachable
// afterwards either sees range facts on o.F or is dominated by a later store of
// an untainted value into o.F.
func (e *taintEngine) validatedAfterStore(fn *ssa.Function, st *ssa.Store, fa *ssa.FieldAddr) bool {
	okAll := true
	n := 0
	for _, b := range fn.Blocks {
		if len(b.Instrs) == 0 {
			continue
		}
		ret, ok := b.Instrs[len(b.Instrs)-1].(*ssa.Return)
		if !ok {
			continue
		}
		// reachable from st?
		if core.FindPath(fn, st, func(in ssa.Instruction) bool { return in == ret }, nil) == nil {
			continue
		}
		n++
		if e.factsForPath(fa.X, fa.Field, ret, st).indexSafe() {
			continue
		}
		// a dominating later clean store
		clean := false
		core.Instrs(fn, func(in ssa.Instruction) {
			s2, ok := in.(*ssa.Store)
			if !ok || s2 == st {
				return
			}
			f2, ok := s2.Addr.(*ssa.FieldAddr)
			if !ok || f2.Field != fa.Field || !sameObj(f2.X, fa.X) {
				return
			}
			if !core.InstrDominates(s2, ret) {
				return
			}
			if e.flow(s2.Val, s2).tainted() {
				return
			}
			// s2 must come after st: st must not be reachable from s2
			if core.FindPath(fn, s2, func(in ssa.Instruction) bool { return in == st }, nil) != nil {
				return
			}
			clean = true
		})
		if !clean {
			okAll = false
		}
	}
	return okAll && n > 0
}

func (e *taintEngine) transferCall(fn *ssa.Function, c ssa.CallInstruction) {
	cc := c.Common()
	for _, cal := range e.callees(c) {
		if cal.Blocks == nil {
			continue
		}
		args := cc.Args
		params := cal.Params
		off := 0
		if cc.IsInvoke() {
			off = 1 // receiver is params[0]
		}
		for i, a := range args {
			pi := i + off
			if pi >= len(params) {
				break
			}
			t := e.flow(a, c.(ssa.Instruction))
			if t.empty() {
				continue
			}
			p := params[pi]
			if e.params[p] == nil {
				e.params[p] = newT()
			}
			if e.params[p].join(t) {
				e.changed = true
			}
		}
	}
}

// ---- facts from dominating branch outcomes ---------------------------------------------

func sameObj(a, b ssa.Value) bool {
	oa, ob := core.Origins(a), core.Origins(b)
	if len(oa) != 1 || len(ob) != 1 {
		return core.StripConv(a) == core.StripConv(b)
	}
	return core.CellRoot(oa[0]) == core.CellRoot(ob[0])
}

// fieldLoad decomposes v (through conversions) into a load of obj.field.
func fieldLoad(v ssa.Value) (obj ssa.Value, field int, ok bool) {
	v = core.StripConv(v)
	ld, isLd := v.(*ssa.UnOp)
	if !isLd || ld.Op != token.MUL {
		if f, isF := v.(*ssa.Field); isF {
			return f.X, f.Field, true
		}
		return nil, 0, false
	}
	fa, isFa := ld.X.(*ssa.FieldAddr)
	if !isFa {
		return nil, 0, false
	}
	return fa.X, fa.Field, true
}

// factsFor returns the range facts known about value v at instruction at.
func (e *taintEngine) factsFor(v ssa.Value, at ssa.Instruction) factBits {
	k := factsKey{v, at}
	if f, ok := e.factsCache[k]; ok {
		return f
	}
	e.factsCache[k] = 0 // cycle guard
	var bits factBits
	if isUnsigned(v.Type()) {
		bits |= fLB
	}
	sv := core.StripConv(v)
	if isUnsigned(sv.Type()) {
		bits |= fLB
	}
	match := func(g ssa.Value) bool { return core.StripConv(g) == sv }
	bits |= e.guardFacts(at, match, nil, -1, nil)
	if obj, f, ok := fieldLoad(v); ok {
		bits |= e.factsForPath(obj, f, at, nil)
	}
	e.factsCache[k] = bits
	return bits
}

// factsForPath returns the facts known about obj.field at instruction at.
// `after`, when non-nil, restricts to guards that come after that instruction.
func (e *taintEngine) factsForPath(obj ssa.Value, field int, at ssa.Instruction, after ssa.Instruction) factBits {
	match := func(g ssa.Value) bool {
		o, f, ok := fieldLoad(g)
		return ok && f == field && sameObj(o, obj)
	}
	return e.guardFacts(at, match, obj, field, after)
}

// killsBetween reports whether obj.field may be overwritten on a path from the
// guard instruction g to at that does not re-evaluate g.
func (e *taintEngine) killedBetween(fn *ssa.Function, g ssa.Instruction, at ssa.Instruction, obj ssa.Value, field int) bool {
	isKill := func(in ssa.Instruction) bool {
		switch x := in.(type) {
		case *ssa.Store:
			if fa, ok := x.Addr.(*ssa.FieldAddr); ok && fa.Field == field && sameObj(fa.X, obj) {
				return true
			}
		case ssa.CallInstruction:
			if idx := e.cfg.IsReadCall(x); idx >= 0 && idx < len(x.Common().Args) {
				if sameObj(x.Common().Args[idx], obj) {
					return true
				}
			}
			cc := x.Common()
			if !cc.IsInvoke() {
				if sc := cc.StaticCallee(); sc != nil && sc.Name() == "Reset" && len(cc.Args) > 0 && sameObj(cc.Args[0], obj) {
					return true
				}
			}
		}
		return false
	}
	// is there a kill k reachable from g (without passing g again) from which at is reachable (without passing g)?
	var kills []ssa.Instruction
	core.Instrs(fn, func(in ssa.Instruction) {
		if isKill(in) {
			kills = append(kills, in)
		}
	})
	notG := func(in ssa.Instruction) bool { return in == g }
	for _, k := range kills {
		if k == at {
			continue
		}
		p1 := core.FindPath(fn, g, func(in ssa.Instruction) bool { return in == k }, notG)
		if p1 == nil {
			continue
		}
		p2 := core.FindPath(fn, k, func(in ssa.Instruction) bool { return in == at }, notG)
		if p2 != nil {
			return true
		}
	}
	return false
}

func (e *taintEngine) guardFacts(at ssa.Instruction, match func(ssa.Value) bool, obj ssa.Value, field int, after ssa.Instruction) factBits {
	fn := at.Parent()
	var bits factBits
	for _, g := range core.Guards(at) {
		if after != nil {
			// the guard must be evaluated after `after`: reachable from it, and not the other way round
			isIf := func(in ssa.Instruction) bool { return in == ssa.Instruction(g.If) }
			isAfter := func(in ssa.Instruction) bool { return in == after }
			if core.FindPath(fn, after, isIf, nil) == nil || core.FindPath(fn, g.If, isAfter, nil) != nil {
				continue
			}
		}
		b := e.condFacts(fn, g.Cond, g.Val, g.If, at, match, obj, field)
		bits |= b
	}
	return bits
}

func (e *taintEngine) condFacts(fn *ssa.Function, cond ssa.Value, val bool, ifi ssa.Instruction, at ssa.Instruction, match func(ssa.Value) bool, obj ssa.Value, field int) factBits {
	switch c := cond.(type) {
	case *ssa.UnOp:
		if c.Op == token.NOT {
			return e.condFacts(fn, c.X, !val, ifi, at, match, obj, field)
		}
	case *ssa.BinOp:
		op := c.Op
		var other ssa.Value
		left := false
		if match(c.X) {
			other, left = c.Y, true
		} else if match(c.Y) {
			other = c.X
		} else {
			// validator with error result: `err != nil` on a call result
			if (op == token.NEQ || op == token.EQL) && (core.IsNilConst(c.X) || core.IsNilConst(c.Y)) {
				ev := c.X
				if core.IsNilConst(c.X) {
					ev = c.Y
				}
				nilEdge := (op == token.EQL) == val
				if nilEdge {
					return e.callResultFacts(fn, ev, modeErr, ifi, at, match, obj, field)
				}
			}
			return 0
		}
		if !left {
			switch op {
			case token.LSS:
				op = token.GTR
			case token.LEQ:
				op = token.GEQ
			case token.GTR:
				op = token.LSS
			case token.GEQ:
				op = token.LEQ
			}
		}
		// the other side must not itself be unvalidated wire data
		if e.flow(other, ifi).tainted() {
			return 0
		}
		if obj != nil && e.killedBetween(fn, ifi, at, obj, field) {
			return 0
		}
		cn, isConst := core.ConstInt(other)
		var b factBits
		switch op {
		case token.LSS: // v < n
			if val {
				b |= fUB
			} else {
				b |= fLB
				if isConst && cn > 0 {
					b |= fNZ
				}
			}
		case token.LEQ: // v <= n
			if val {
				b |= fUB
			} else {
				b |= fLB
				if isConst && cn >= 0 {
					b |= fNZ
				}
			}
		case token.GTR: // v > n
			if val {
				b |= fLB
				if isConst && cn >= 0 {
					b |= fNZ
				}
			} else {
				b |= fUB
			}
		case token.GEQ: // v >= n
			if val {
				b |= fLB
				if isConst && cn > 0 {
					b |= fNZ
				}
			} else {
				b |= fUB
			}
		case token.EQL:
			if val {
				b |= fEQ
				if isConst && cn != 0 {
					b |= fNZ
				}
			} else if isConst && cn == 0 {
				b |= fNZ
			}
		case token.NEQ:
			if !val {
				b |= fEQ
				if isConst && cn != 0 {
					b |= fNZ
				}
			} else if isConst && cn == 0 {
				b |= fNZ
			}
		}
		return b
	case *ssa.Call:
		if val {
			return e.callResultFacts(fn, c, modeBool, ifi, at, match, obj, field)
		}
	}
	return 0
}

// ---- validator summaries -----------------------------------------------------------------

const (
	modeBool = 0
	modeErr  = 1
)

type sumKey struct {
	fn   *ssa.Function
	res  int
	mode int
}

type sumFact struct {
	param int
	field int // -1: the parameter value itself
	bits  factBits
}

// callResultFacts: the guard says "result of call is true" / "error result is
// nil"; translate the callee's validator summary to facts about the matched value.
func (e *taintEngine) callResultFacts(fn *ssa.Function, rv ssa.Value, mode int, ifi ssa.Instruction, at ssa.Instruction, match func(ssa.Value) bool, obj ssa.Value, field int) factBits {
	var call *ssa.Call
	res := 0
	switch x := rv.(type) {
	case *ssa.Call:
		call = x
	case *ssa.Extract:
		if c, ok := x.Tuple.(*ssa.Call); ok {
			call, res = c, x.Index
		}
	case *ssa.UnOp:
		// error spilled into a cell (named result captured by a defer): *t0 where the
		// dominating store in the guard's block stored a call result
		if x.Op == token.MUL {
			if al, ok := core.CellRoot(x.X).(*ssa.Alloc); ok {
				b := x.Block()
				for i := len(b.Instrs) - 1; i >= 0; i-- {
					if st, ok := b.Instrs[i].(*ssa.Store); ok && st.Addr == al && core.InstrDominates(st, x) {
						return e.callResultFacts(fn, st.Val, mode, ifi, at, match, obj, field)
					}
				}
			}
		}
	}
	if call == nil {
		return 0
	}
	cals := e.callees(call)
	if len(cals) != 1 || cals[0].Blocks == nil || !core.InModule(cals[0]) && !strings.Contains(core.PkgPathOf(cals[0]), "fixtures") {
		return 0
	}
	sum := e.summary(sumKey{cals[0], res, mode})
	var bits factBits
	args := call.Common().Args
	off := 0
	if call.Common().IsInvoke() {
		off = 1
	}
	for _, sf := range sum {
		ai := sf.param - off
		if ai < 0 || ai >= len(args) {
			continue
		}
		arg := args[ai]
		if sf.field < 0 {
			if match(arg) {
				if obj != nil && e.killedBetween(fn, call, at, obj, field) {
					continue
				}
				bits |= sf.bits
			}
		} else if obj != nil && sf.field == field && sameObj(arg, obj) {
			if !e.killedBetween(fn, call, at, obj, field) {
				bits |= sf.bits
			}
		}
	}
	return bits
}

func (e *taintEngine) summary(k sumKey) []sumFact {
	if s, ok := e.summaries[k]; ok {
		return s
	}
	if e.sumBusy[k] {
		return nil
	}
	e.sumBusy[k] = true
	defer func() { e.sumBusy[k] = false }()
	fn := k.fn
	type pf struct{ p, f int }
	acc := map[pf]factBits{}
	first := true
	// virtual returns: a boolean result that is a phi (`return a && b`) or a comparison
	// (`return x < n`) is true only on the edges / outcomes that make it true
	type vret struct {
		at    ssa.Instruction
		val   ssa.Value
		extra []core.Guard
	}
	var vrets []vret
	for _, rs := range core.Returns(fn, k.res) {
		if rs.Val == nil {
			continue
		}
		if k.mode == modeBool {
			var expand func(v ssa.Value, at ssa.Instruction, extra []core.Guard, d int)
			expand = func(v ssa.Value, at ssa.Instruction, extra []core.Guard, d int) {
				if ph, ok := v.(*ssa.Phi); ok && d < 4 {
					for i, ed := range ph.Edges {
						pred := ph.Block().Preds[i]
						term := pred.Instrs[len(pred.Instrs)-1]
						ex := append([]core.Guard{}, extra...)
						if ifi, ok := term.(*ssa.If); ok && pred.Succs[0] != pred.Succs[1] {
							ex = append(ex, core.Guard{Cond: ifi.Cond, Val: pred.Succs[0] == ph.Block(), If: ifi})
						}
						expand(ed, term, ex, d+1)
					}
					return
				}
				if b, isC := core.ConstBool(v); isC {
					if b {
						vrets = append(vrets, vret{at, v, extra})
					}
					return
				}
				// the value itself must be true
				ex := append(append([]core.Guard{}, extra...), core.Guard{Cond: v, Val: true})
				vrets = append(vrets, vret{at, v, ex})
			}
			expand(rs.Val, rs.Ret, nil, 0)
			continue
		}
		vrets = append(vrets, vret{rs.Ret, rs.Val, nil})
	}
	for _, vr := range vrets {
		rs := struct {
			Ret ssa.Instruction
			Val ssa.Value
		}{vr.at, vr.val}
		qualifies := true
		if k.mode == modeErr {
			if np, known := core.MayBeNil(rs.Val); known && !np {
				qualifies = false
			}
			// `return err` on the `err != nil` edge
			for _, g := range core.Guards(rs.Ret) {
				if bo, ok := g.Cond.(*ssa.BinOp); ok && (bo.Op == token.NEQ || bo.Op == token.EQL) {
					if (core.IsNilConst(bo.Y) && sameVal(bo.X, rs.Val)) || (core.IsNilConst(bo.X) && sameVal(bo.Y, rs.Val)) {
						if (bo.Op == token.NEQ) == g.Val {
							qualifies = false
						}
					}
				}
			}
		}
		if !qualifies {
			continue
		}
		extraFacts := func(match func(ssa.Value) bool, obj ssa.Value, field int) factBits {
			var b factBits
			for _, g := range vr.extra {
				b |= e.condFacts(fn, g.Cond, g.Val, rs.Ret, rs.Ret, match, obj, field)
			}
			return b
		}
		cur := map[pf]factBits{}
		for pi, p := range fn.Params {
			if isIntegral(p.Type()) {
				pp := p
				b := e.factsFor(p, rs.Ret) | extraFacts(func(g ssa.Value) bool { return core.StripConv(g) == ssa.Value(pp) }, nil, -1)
				if b != 0 {
					cur[pf{pi, -1}] = b
				}
			}
			if st := structOf(p.Type()); st != nil {
				if _, isPtr := p.Type().Underlying().(*types.Pointer); isPtr {
					for fi := 0; fi < st.NumFields(); fi++ {
						if isIntegral(st.Field(fi).Type()) {
							pp, ff := p, fi
							b := e.factsForPath(p, fi, rs.Ret, nil) | extraFacts(func(g ssa.Value) bool {
								o, f, ok := fieldLoad(g)
								return ok && f == ff && sameObj(o, pp)
							}, p, fi)
							if b != 0 {
								cur[pf{pi, fi}] = b
							}
						}
					}
				}
			}
		}
		if first {
			acc = cur
			first = false
		} else {
			for key, b := range acc {
				acc[key] = b & cur[key]
			}
		}
	}
	var out []sumFact
	if !first {
		for key, b := range acc {
			if b != 0 {
				out = append(out, sumFact{key.p, key.f, b})
			}
		}
	}
	sort.Slice(out, func(i, j int) bool {
		if out[i].param != out[j].param {
			return out[i].param < out[j].param
		}
		return out[i].field < out[j].field
	})
	e.summaries[k] = out
	return out
}

func sameVal(a, b ssa.Value) bool {
	if core.StripConv(a) == core.StripConv(b) {
		return true
	}
	// two loads of the same cell
	la, ok1 := a.(*ssa.UnOp)
	lb, ok2 := b.(*ssa.UnOp)
	if ok1 && ok2 && la.Op == token.MUL && lb.Op == token.MUL {
		return core.CellRoot(la.X) == core.CellRoot(lb.X)
	}
	return false
}

// ---- sinks ------------------------------------------------------------------------------

func (e *taintEngine) sink(fn *ssa.Function, in ssa.Instruction, kind string, expr string, v ssa.Value, need func(factBits) bool) {
	t := e.get(v)
	if t.empty() {
		return
	}
	// only own labels matter for scalars
	own := &T{labels: t.labels, washed: t.washed}
	if own.empty() {
		return
	}
	facts := e.factsFor(v, in)
	res := newT()
	if len(own.labels) > 0 && need(facts) {
		res.join(own.washedOnly())
	} else {
		res.join(own)
	}
	e.Sinks = append(e.Sinks, &TaintSink{Fn: fn, Instr: in, Kind: kind, Expr: expr, Val: v, T: res, Facts: facts})
}

func (e *taintEngine) collectSinks(fn *ssa.Function) {
	idx := func(f factBits) bool { return f.indexSafe() }
	core.Instrs(fn, func(in ssa.Instruction) {
		switch x := in.(type) {
		case *ssa.IndexAddr:
			e.sink(fn, in, "index", core.Describe(x), x.Index, idx)
		case *ssa.Index:
			if _, isMap := x.X.Type().Underlying().(*types.Map); !isMap {
				e.sink(fn, in, "index", core.Describe(x), x.Index, idx)
			}
		case *ssa.Slice:
			for _, b := range []ssa.Value{x.Low, x.High, x.Max} {
				if b != nil {
					e.sink(fn, in, "slice", core.Describe(x), b, idx)
				}
			}
		case *ssa.MakeSlice:
			e.sink(fn, in, "make", core.Describe(x), x.Len, idx)
			e.sink(fn, in, "make", core.Describe(x), x.Cap, idx)
		case *ssa.BinOp:
			if (x.Op == token.QUO || x.Op == token.REM) && isIntegral(x.Type()) {
				e.sink(fn, in, "divide", core.Describe(x), x.Y, func(f factBits) bool { return f&fNZ != 0 })
			}
		case *ssa.If:
			// the exit test of a loop: a counter compared with a value from the stream makes the number of
			// iterations the stream's choice ("never ... loop forever": 2^62 iterations is for ever)
			b := x.Block()
			isHeader := false
			for _, p := range b.Preds {
				if b.Dominates(p) {
					isHeader = true
				}
			}
			if !isHeader {
				return
			}
			if cmp, ok := x.Cond.(*ssa.BinOp); ok {
				switch cmp.Op {
				case token.LSS, token.LEQ, token.GTR, token.GEQ, token.NEQ:
					for i, side := range []ssa.Value{cmp.X, cmp.Y} {
						if cmp.Op == token.NEQ {
							// x != constant tests for a marker value; it is a bound only against a counter
							other := cmp.Y
							if i == 1 {
								other = cmp.X
							}
							if _, isK := core.StripConv(other).(*ssa.Const); isK {
								continue
							}
						}
						if isIntegral(side.Type()) {
							e.sink(fn, in, "loop-bound", core.Describe(cmp), side, func(f factBits) bool { return f&fEQ != 0 || f&fUB != 0 })
						}
					}
				}
			}
		case ssa.CallInstruction:
			if e.cfg.ExternalSinkArgs != nil {
				for _, ai := range e.cfg.ExternalSinkArgs(x) {
					if ai < len(x.Common().Args) {
						e.sink(fn, in, "pool-call", core.CalleeName(x)+"("+core.Describe(x.Common().Args[ai])+")", x.Common().Args[ai], idx)
					}
				}
			}
			if x.Common().StaticCallee() == nil && !x.Common().IsInvoke() {
				if _, isB := x.Common().Value.(*ssa.Builtin); !isB && len(e.callees(x)) == 0 {
					e.UnresolvedDyn++
				}
			}
		}
	})
}
