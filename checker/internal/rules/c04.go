package rules

import (
	"fmt"
	"go/token"
	"sort"
	"strings"

	"golang.org/x/tools/go/ssa"

	"wharfverif/checker/internal/core"
)

func init() {
	register(&Property{
		ID: "C04",
		Explanation: `R04.1 the signature producer (CreateSignature), the stream reader (ReadSignature) and the grouping (ComputeHashInfo) agree on 'an empty file occupies exactly one hash': all three special-case zero (contradiction rule over the three siblings); ` +
			`R04.2 the non-loop prefix written to the signature stream (magic, SignatureHeader, compression point, container = the new build's) equals the prefix ReadSignature reads, and the same for the patch stream across its writers (WritePatch, Optimize) and readers (patcher.New, rediff analyzePatch/Optimize, genie.ParseHeader); ` +
			`R04.3 one read, two consumers: the diff and the signature of a file read from two Reader()s of the same multiread whose upstream is pool.GetReader(fileIndex), and the signature is computed for that same index; ` +
			`R04.4 symlink destinations read from disk are compared with / created from the signed Dest modulo filepath.FromSlash only (tlc records Readlink verbatim). ` +
			`R04.6 also: the strong hash written does not come out of a variable that survives from one block to the next (captured variable, field, package variable, map). ` +
			`R13.10 (shared) ReadMessage fails on a decoded length beyond a constant only if WriteMessage fails beyond a constant that is not larger (the container is one message). ` +
			`R13.12 (shared) CompressWire hands back its input context only through the outcome Algorithm == NONE. R04.7 every string-keyed map in package pwr whose key derives from an entry's Path (ComputeHashInfo's path-to-index map, WritePatch's) is keyed by the path itself or a one-to-one image (separators converted, Clean, a constant added) - never through ToLower/Base/Trim/a slice. R08.7 (shared) the block split function returns data[:blockSize], or data where len(data) >= blockSize is known not to hold. R04.8 no buffer handed to HashBlock / uniqueHash / the weak hash is cut at the count a single Read returned (io.ReadFull / ReadAtLeast counts and scanner tokens are what the producers use); R04.5 also accepts the count of a read into a buffer cut at a length tested short. R15.7 (shared) nothing that belongs to a pooled object is used after the object was put back (the signer and the differ write through their own wire contexts, concurrently). NOT decided: block boundaries under re-chunking, hash values, that validating a pristine copy reports nothing.`,
		Run: runC04,
	})
}

// streamEvents extracts, for each stream (identified by the parameter / field the wire context is
// rooted in), the ordered non-loop sequence of framing events in fn.
type streamEvent struct {
	kind string // magic:<const> | msg:<type> | codec
	in   ssa.Instruction
	arg  ssa.Value
}

func streamRoot(v ssa.Value, depth int) string {
	if depth > 8 {
		return "?"
	}
	for _, o := range core.Origins(v) {
		switch x := o.(type) {
		case *ssa.Extract:
			if cl, ok := x.Tuple.(*ssa.Call); ok {
				n := core.CalleeName(cl)
				if n == "pwr.CompressWire" || n == "pwr.DecompressWire" {
					return streamRoot(cl.Call.Args[0], depth+1)
				}
			}
		case *ssa.Call:
			n := core.CalleeName(x)
			if n == "wire.NewWriteContext" || n == "wire.NewReadContext" {
				a := core.StripConv(x.Call.Args[0])
				for _, oo := range core.Origins(a) {
					if p, ok := oo.(*ssa.Parameter); ok {
						return p.Name()
					}
					if _, fn, ok := core.FieldOf(oo); ok {
						return fn
					}
				}
				return core.Describe(a)
			}
		case *ssa.Parameter:
			return x.Name()
		}
		if _, fn, ok := core.FieldOf(o); ok {
			return fn
		}
	}
	return "?"
}

func streamSequences(fn *ssa.Function) map[string][]streamEvent {
	out := map[string][]streamEvent{}
	inLoop := func(in ssa.Instruction) bool { return core.FindPath(fn, in, isInstr(in), nil) != nil }
	core.Instrs(fn, func(in ssa.Instruction) {
		cl, ok := in.(*ssa.Call)
		if !ok || inLoop(in) {
			return
		}
		n := core.CalleeName(cl)
		var ev streamEvent
		var ctx ssa.Value
		switch n {
		case "(*wire.WriteContext).WriteMagic", "(*wire.ReadContext).ExpectMagic":
			k, _ := core.ConstInt(cl.Call.Args[1])
			ev, ctx = streamEvent{kind: fmt.Sprintf("magic:%#x", k), in: in}, cl.Call.Args[0]
		case "(*wire.WriteContext).WriteMessage", "(*wire.ReadContext).ReadMessage":
			a := core.StripConv(cl.Call.Args[1])
			ev, ctx = streamEvent{kind: "msg:" + core.TypeName(a.Type()), in: in, arg: a}, cl.Call.Args[0]
		case "pwr.CompressWire", "pwr.DecompressWire":
			ev, ctx = streamEvent{kind: "codec", in: in}, cl.Call.Args[0]
		default:
			return
		}
		r := streamRoot(ctx, 0)
		out[r] = append(out[r], ev)
	})
	for r := range out {
		evs := out[r]
		sort.SliceStable(evs, func(i, j int) bool { return core.InstrDominates(evs[i].in, evs[j].in) })
		out[r] = evs
	}
	return out
}

func seqString(evs []streamEvent, n int) string {
	var s []string
	for i, e := range evs {
		if i >= n {
			break
		}
		s = append(s, e.kind)
	}
	return strings.Join(s, " ")
}

func runC04(c *core.Ctx) {
	c.Rule("R04.1", "empty-file hash-count agreement (three siblings)")
	c.Rule("R04.2", "stream prefix agreement between writers and readers")
	c.Rule("R04.3", "one read, two consumers")
	c.Rule("R04.4", "symlink destinations compared/created modulo FromSlash only")
	ruleShortSizeIsShort(c, "R04.5")
	ruleSignedHashesAreComputed(c, "R04.6")
	ruleReaderAcceptsWhatWriterWrites(c, "R13.10")
	rulePassThroughOnlyForNone(c, "R13.12")
	ruleSplitTokensAreOneBlock(c, "R08.7")
	ruleHashedBlocksAreReadInFull(c, "R04.8")
	rulePooledNotUsedAfterPut(c, "R15.7")
	rulePathKeysAreOneToOne(c, "R04.7", 4, func(fn *ssa.Function) bool { return strings.HasSuffix(core.PkgPathOf(fn), "/pwr") })
	ruleCopyWritesWhatItRead(c, "R01.6")

	// ---- R04.1
	type sib struct {
		fn      *ssa.Function
		special bool
		what    string
	}
	var sibs []sib
	zeroGuarded := func(in ssa.Instruction, about func(ssa.Value) bool) bool {
		return hasGuard(in, func(g core.Guard) bool {
			bo, ok := g.Cond.(*ssa.BinOp)
			if !ok {
				return false
			}
			z, isC := core.ConstInt(bo.Y)
			if !isC || z != 0 || !about(bo.X) {
				return false
			}
			return (bo.Op == token.EQL && g.Val) || (bo.Op == token.NEQ && !g.Val) || (bo.Op == token.GTR && !g.Val)
		})
	}
	sizeish := func(v ssa.Value) bool {
		for _, o := range core.Origins(v) {
			if _, n, ok := core.FieldOf(o); ok && n == "Size" {
				return true
			}
			if cl, ok := o.(*ssa.Call); ok && core.CalleeName(cl) == "pwr.ComputeNumBlocks" {
				return true
			}
			if ld, ok := o.(*ssa.UnOp); ok && ld.Op == token.MUL {
				if a, ok := core.CellRoot(ld.X).(*ssa.Alloc); ok && strings.Contains(strings.ToLower(a.Comment), "block") {
					return true
				}
			}
			if ph, ok := o.(*ssa.Phi); ok && strings.Contains(strings.ToLower(ph.Comment), "block") {
				return true
			}
		}
		// a counter cell (blockIndex)
		if ld, ok := v.(*ssa.UnOp); ok && ld.Op == token.MUL {
			if a, ok := core.CellRoot(ld.X).(*ssa.Alloc); ok && strings.Contains(strings.ToLower(a.Comment), "block") {
				return true
			}
		}
		return false
	}
	if cs := c.P.Fn("wsync", "Context.CreateSignature"); cs == nil {
		c.Missing("R04.1", "wsync.(*Context).CreateSignature", "not found")
	} else {
		sp := false
		core.Instrs(cs, func(in ssa.Instruction) {
			if cl, ok := in.(*ssa.Call); ok && localCallee(cl) != nil && zeroGuarded(in, sizeish) {
				sp = true
			}
		})
		sibs = append(sibs, sib{cs, sp, "hashes one empty block when no block was produced"})
	}
	if rs := c.P.Fn("pwr", "ReadSignature"); rs == nil {
		c.Missing("R04.1", "pwr.ReadSignature", "not found")
	} else {
		sp := false
		core.Instrs(rs, func(in ssa.Instruction) {
			if cl, ok := in.(ssa.CallInstruction); ok {
				if idx := wireReadCall(cl); idx >= 0 && core.TypeName(core.StripConv(cl.Common().Args[idx]).Type()) == "pwr.BlockHash" && zeroGuarded(in, sizeish) {
					sp = true
				}
			}
		})
		sibs = append(sibs, sib{rs, sp, "reads one hash for a file with zero blocks"})
	}
	if hi := c.P.Fn("pwr", "ComputeHashInfo"); hi == nil {
		c.Missing("R04.1", "pwr.ComputeHashInfo", "not found")
	} else {
		sp := false
		core.Instrs(hi, func(in ssa.Instruction) {
			if bo, ok := in.(*ssa.BinOp); ok && bo.Op == token.ADD {
				if one, isC := core.ConstInt(bo.Y); isC && one == 1 {
					if ph, ok := bo.X.(*ssa.Phi); ok && strings.Contains(strings.ToLower(ph.Comment), "hash") && zeroGuarded(in, sizeish) {
						sp = true
					}
				}
			}
		})
		sibs = append(sibs, sib{hi, sp, "advances the hash index by one for an empty file"})
	}
	if len(sibs) == 3 {
		all := sibs[0].special == sibs[1].special && sibs[1].special == sibs[2].special
		for _, s := range sibs {
			state := "has no empty-file special case"
			if s.special {
				state = s.what
			}
			c.Check(all, "R04.1", core.FnName(s.fn), "agrees with its siblings on how many hashes an empty file occupies", s.fn.Pos(),
				state+" (all three siblings agree)", "the three signature functions disagree on the empty-file hash: this one "+state+", a sibling does the opposite; every file after an empty one is validated against the wrong hashes")
		}
	}

	// ---- R04.2
	type side struct {
		pkg, fn, stream string
		writer          bool
	}
	sigSides := []side{{"pwr", "DiffContext.WritePatch", "signatureWriter", true}, {"pwr", "ReadSignature", "signatureReader", false}}
	patchSides := []side{{"pwr", "DiffContext.WritePatch", "patchWriter", true}, {"pwr/rediff", "context.Optimize", "PatchWriter", true},
		{"pwr/patcher", "New", "patchReader", false}, {"pwr/rediff", "context.analyzePatch", "PatchReader", false}, {"pwr/rediff", "context.Optimize", "PatchReader", false}, {"pwr/genie", "Genie.ParseHeader", "patchReader", false}}
	check := func(rule, what string, sides []side, prefixLen int) {
		var ref string
		var refName string
		n := 0
		for _, sd := range sides {
			fn := c.P.Fn(sd.pkg, sd.fn)
			if fn == nil {
				c.Missing(rule, sd.pkg+"."+sd.fn, "not found")
				continue
			}
			seqs := streamSequences(fn)
			evs, ok := seqs[sd.stream]
			if !ok {
				var ks []string
				for k := range seqs {
					ks = append(ks, k)
				}
				sort.Strings(ks)
				c.Bad(rule, core.FnName(fn), what+" stream rooted in "+sd.stream, fn.Pos(), "no framing events found on a stream rooted in "+sd.stream+" (streams seen: "+strings.Join(ks, ",")+")")
				continue
			}
			n++
			s := seqString(evs, prefixLen)
			if ref == "" {
				ref, refName = s, core.FnName(fn)
				c.Ok(rule, core.FnName(fn), what+" stream prefix (reference)", fn.Pos(), s)
				continue
			}
			c.Check(s == ref, rule, core.FnName(fn), what+" stream prefix agrees with "+refName, fn.Pos(), s,
				"this side frames the "+what+" stream as ["+s+"] but "+refName+" as ["+ref+"]: the reader sees the messages in a different order than they were written")
			// container identity on the writer side
			if sd.writer {
				for _, e := range evs {
					if e.kind == "msg:github.com/itchio/lake/tlc.Container" && what == "signature" {
						_, fnm, ok := core.FieldOf(e.arg)
						c.Check(ok && fnm == "SourceContainer", rule, core.FnName(fn), "the signature describes the new build's container", core.InstrPos(e.in), "SourceContainer", "the container written to the signature stream is not SourceContainer")
					}
				}
			}
		}
		c.Floor(rule, what+" stream sides", n, len(sides))
	}
	check("R04.2", "signature", sigSides, 4)
	check("R04.2", "patch", patchSides, 5)
	// writer side container order of the patch stream: target then source
	if wp := c.P.Fn("pwr", "DiffContext.WritePatch"); wp != nil {
		var names []string
		for _, e := range streamSequences(wp)["patchWriter"] {
			if e.kind == "msg:github.com/itchio/lake/tlc.Container" {
				_, fnm, _ := core.FieldOf(e.arg)
				names = append(names, fnm)
			}
		}
		c.Check(len(names) == 2 && names[0] == "TargetContainer" && names[1] == "SourceContainer", "R04.2", core.FnName(wp), "patch carries the old container, then the new one", wp.Pos(),
			strings.Join(names, ", "), "the patch stream does not carry TargetContainer followed by SourceContainer (got "+strings.Join(names, ", ")+")")
		for _, e := range streamSequences(wp)["signatureWriter"] {
			if e.kind == "msg:github.com/itchio/lake/tlc.Container" {
				_, fnm, ok := core.FieldOf(e.arg)
				c.Check(ok && fnm == "SourceContainer", "R04.2", core.FnName(wp), "the signature describes the new build's container", core.InstrPos(e.in), "SourceContainer", "the container written to the signature stream is not SourceContainer")
			}
		}
	}

	// ---- R04.3
	if wp := c.P.Fn("pwr", "DiffContext.WritePatch"); wp == nil {
		c.Missing("R04.3", "pwr.(*DiffContext).WritePatch", "not found")
	} else {
		var diffCall, signCall *ssa.Call
		for _, f := range core.WithAnons(wp) {
			core.Instrs(f, func(in ssa.Instruction) {
				if cl, ok := in.(*ssa.Call); ok {
					switch core.CalleeName(cl) {
					case "(*wsync.Context).ComputeDiff":
						diffCall = cl
					case "(*wsync.Context).CreateSignature":
						signCall = cl
					}
				}
			})
		}
		if diffCall == nil || signCall == nil {
			c.Bad("R04.3", core.FnName(wp), "ComputeDiff / CreateSignature tasks", wp.Pos(), "WritePatch no longer runs ComputeDiff and CreateSignature")
		} else {
			mrOf := func(v ssa.Value) ssa.Value {
				for _, o := range core.Origins(v) {
					if cl, ok := o.(*ssa.Call); ok && cl.Call.IsInvoke() && cl.Call.Method.Name() == "Reader" {
						for _, oo := range core.Origins(cl.Call.Value) {
							return oo
						}
					}
				}
				return nil
			}
			m1, m2 := mrOf(diffCall.Call.Args[1]), mrOf(signCall.Call.Args[3])
			c.Check(m1 != nil && m1 == m2, "R04.3", core.FnName(wp), "diff and signature read from two Reader()s of the same multiread", core.InstrPos(signCall),
				"same multiread value", "the diff and the signature do not read from the same multiread: the signature can describe different bytes than the patch was made from")
			upstreamOK := false
			if mc, ok := m1.(*ssa.Call); ok && core.CalleeName(mc) == "multiread.New" {
				// upstream -> counter.NewReaderCallback(_, sourceReader) -> pool.GetReader(int64(fileIndex))
				var walk func(v ssa.Value, d int)
				walk = func(v ssa.Value, d int) {
					if d > 6 {
						return
					}
					for _, o := range core.Origins(v) {
						switch x := o.(type) {
						case *ssa.Call:
							if x.Call.IsInvoke() && x.Call.Method.Name() == "GetReader" {
								upstreamOK = true
							}
							for _, a := range x.Call.Args {
								walk(a, d+1)
							}
						case *ssa.Extract:
							walk(x.Tuple, d+1)
						}
					}
				}
				walk(mc.Call.Args[0], 0)
			}
			c.Check(upstreamOK, "R04.3", core.FnName(wp), "the shared upstream is pool.GetReader of the file", core.InstrPos(signCall), "multiread.New(… pool.GetReader(…))", "the multiread's upstream does not derive from pool.GetReader")
			// same index: CreateSignature's fileIndex argument and GetReader's argument both derive from the range index
			idxOK := false
			for _, o := range core.Origins(signCall.Call.Args[2]) {
				if cv, ok := o.(*ssa.Convert); ok {
					o = cv.X
				}
				if strings.Contains(core.Describe(o), "rangeindex") || strings.Contains(core.Describe(o), "fileIndex") {
					idxOK = true
				}
			}
			c.Check(idxOK, "R04.3", core.FnName(wp), "signature is computed for the file being diffed", core.InstrPos(signCall), "CreateSignature(ctx, int64(fileIndex), …)", "CreateSignature is not given the loop's file index")
		}
	}

	// ---- R04.4
	nCmp := 0
	for _, fn := range c.P.SrcFuncs() {
		core.Instrs(fn, func(in ssa.Instruction) {
			bo, ok := in.(*ssa.BinOp)
			if !ok || (bo.Op != token.EQL && bo.Op != token.NEQ) {
				return
			}
			isReadlink := func(v ssa.Value) bool {
				for _, o := range core.Origins(v) {
					if ex, ok := o.(*ssa.Extract); ok && ex.Index == 0 {
						if cl, ok := ex.Tuple.(*ssa.Call); ok && strings.HasSuffix(core.CalleeName(cl), ".Readlink") {
							return true
						}
					}
				}
				return false
			}
			var other ssa.Value
			switch {
			case isReadlink(bo.X):
				other = bo.Y
			case isReadlink(bo.Y):
				other = bo.X
			default:
				return
			}
			nCmp++
			okChain, chain := true, ""
			for _, o := range core.Origins(other) {
				v := o
				for {
					if cl, ok := v.(*ssa.Call); ok {
						n := core.CalleeName(cl)
						chain += n + " "
						if n != "path/filepath.FromSlash" {
							okChain = false
						}
						if len(cl.Call.Args) == 0 {
							break
						}
						v = cl.Call.Args[0]
						continue
					}
					break
				}
				if _, n, ok := core.FieldOf(v); !ok || n != "Dest" {
					okChain = false
				}
			}
			c.Check(okChain, "R04.4", core.FnName(fn), "Readlink result compared with the signed Dest modulo FromSlash", core.InstrPos(in),
				"expected destination is filepath.FromSlash(entry.Dest) or entry.Dest", "the expected symlink destination is transformed by ["+strings.TrimSpace(chain)+"] before it is compared with what Readlink returned; the container records Readlink verbatim, so a pristine build with a non-normalised link target is reported as damaged (or a retargeted one as fine)")
		})
	}
	c.Floor("R04.4", "comparisons of Readlink results", nCmp, 2)
}

// ruleShortSizeIsShort (R04.5, shared with C08): BlockHash.ShortSize marks a block that is shorter than the
// block size; full blocks carry 0. Whoever produces a hash - the signer from the bytes it read, the
// signature reader from the file size - must therefore store a value that is strictly below the block size
// by construction: the constant 0, a remainder (x % blockSize), or a length that a dominating test found
// below something. A producer that can store the full block size (ComputeBlockSize of an exact multiple)
// makes a signature whose last block never matches, and the two producers disagree.
func ruleShortSizeIsShort(c *core.Ctx, rule string) {
	c.Rule(rule, "ShortSize is below the block size by construction")
	n := 0
	check := func(fn *ssa.Function, at ssa.Instruction, v ssa.Value) {
		n++
		ok, why := true, ""
		for _, vc := range valueCases(v, at) {
			x := core.StripConv(vc.v)
			if k, isC := core.ConstInt(x); isC && k == 0 {
				continue
			}
			if bo, isB := x.(*ssa.BinOp); isB && bo.Op == token.REM {
				continue
			}
			// a length found short by a test on the way
			isLenX := func(y ssa.Value) bool { return sameVal(core.StripConv(y), x) || sameExpr(core.StripConv(y), x) }
			short := false
			for _, g := range vc.guards {
				if relHolds(g, token.LSS, isLenX, anyVal) {
					short = true
				}
			}
			if short {
				continue
			}
			// the count of a read into a buffer cut at a length that a test on the way found short: it cannot
			// exceed that length
			if ex, isEx := x.(*ssa.Extract); isEx && ex.Index == 0 {
				if rc, isCall := ex.Tuple.(*ssa.Call); isCall {
					nm := core.CalleeName(rc)
					if nm == "io.ReadFull" || nm == "io.ReadAtLeast" || (rc.Call.IsInvoke() && rc.Call.Method.Name() == "Read") {
						var bufArg ssa.Value
						if rc.Call.IsInvoke() {
							if len(rc.Call.Args) == 1 {
								bufArg = rc.Call.Args[0]
							}
						} else if len(rc.Call.Args) >= 2 {
							bufArg = rc.Call.Args[1]
						}
						if sl, isSl := bufArg.(*ssa.Slice); isSl && sl.High != nil {
							hi := core.StripConv(sl.High)
							isHi := func(y ssa.Value) bool { return sameVal(core.StripConv(y), hi) || sameExpr(core.StripConv(y), hi) }
							for _, g := range append(append([]core.Guard{}, vc.guards...), core.Guards(rc)...) {
								if relHolds(g, token.LSS, isHi, anyVal) {
									short = true
								}
							}
						}
					}
				}
			}
			if short {
				continue
			}
			ok, why = false, core.Describe(vc.v)
		}
		c.Check(ok, rule, core.FnName(fn), "value stored to BlockHash.ShortSize", core.InstrPos(at),
			"0, a remainder, or a length tested to be short", "BlockHash.ShortSize can be set to "+why+", which is not below the block size by construction (not 0, not a remainder, not a length a dominating test found short): a full last block gets a non-zero short size and can never be matched")
	}
	for _, fn := range c.P.SrcFuncs() {
		pk := core.PkgPathOf(fn)
		if !strings.HasSuffix(pk, "/wsync") && !strings.HasSuffix(pk, "/pwr") {
			continue
		}
		core.Instrs(fn, func(in ssa.Instruction) {
			st, ok := in.(*ssa.Store)
			if !ok {
				return
			}
			b, name, ok := core.FieldOf(st.Addr)
			if !ok || name != "ShortSize" || core.TypeName(b.Type()) != "wsync.BlockHash" {
				return
			}
			check(fn, in, st.Val)
		})
	}
	c.Floor(rule, "assignments to BlockHash.ShortSize", n, 2)
}

// ruleSignedHashesAreComputed (R04.6): whatever is handed to a signature writer (a wsync.SignatureWriter
// value) is a BlockHash whose strong hash was computed by the hashing context (uniqueHash / HashBlock) - never
// a literal made up on the side. Both producers of a signature must give the same hashes, also for the
// empty block of an empty file.
func ruleSignedHashesAreComputed(c *core.Ctx, rule string) {
	c.Rule(rule, "hashes handed to a signature writer are computed")
	n := 0
	for _, fn := range c.P.SrcFuncs() {
		pk := core.PkgPathOf(fn)
		if !strings.HasSuffix(pk, "/wsync") && !strings.HasSuffix(pk, "/pwr") {
			continue
		}
		core.Instrs(fn, func(in ssa.Instruction) {
			cl, ok := in.(*ssa.Call)
			if !ok || cl.Call.IsInvoke() || cl.Call.StaticCallee() != nil || len(cl.Call.Args) != 1 {
				return
			}
			if core.TypeName(cl.Call.Value.Type()) != "wsync.SignatureWriter" {
				return
			}
			n++
			okHash := false
			for _, o := range core.Origins(cl.Call.Args[0]) {
				if ld, ok := o.(*ssa.UnOp); ok && ld.Op == token.MUL {
					o = ld.X
				}
				a, ok := o.(*ssa.Alloc)
				if !ok {
					continue
				}
				if v, ok := litField(a, "StrongHash"); ok {
					for _, h := range core.Origins(v) {
						var hc *ssa.Call
						switch x := h.(type) {
						case *ssa.Call:
							hc = x
						case *ssa.Extract:
							hc, _ = x.Tuple.(*ssa.Call)
						}
						if hc != nil {
							nm := core.CalleeName(hc)
							if strings.HasSuffix(nm, ".uniqueHash") || strings.HasSuffix(nm, ".HashBlock") {
								okHash = true
							}
						}
					}
				}
			}
			c.Check(okHash, rule, core.FnName(fn), "signature writer is handed a computed hash", core.InstrPos(in),
				"the BlockHash's StrongHash comes from uniqueHash / HashBlock", "a BlockHash whose strong hash was not computed by the hashing context is written to a signature (a literal made up on the side): the signature written while diffing differs from the one computed directly")
			// ... and computed for this block, in this call: not taken out of a variable that lives from one
			// block to the next (a hash remembered for "the same" block belongs to a block of the same length
			// and content, which a memo keyed by less than that does not guarantee)
			remembered := ""
			for _, o := range core.Origins(cl.Call.Args[0]) {
				if ld, ok := o.(*ssa.UnOp); ok && ld.Op == token.MUL {
					o = ld.X
				}
				a, ok := o.(*ssa.Alloc)
				if !ok {
					continue
				}
				v, ok := litField(a, "StrongHash")
				if !ok {
					continue
				}
				seen := map[ssa.Value]bool{}
				var walk func(v ssa.Value)
				walk = func(v ssa.Value) {
					v = core.StoredHere(core.StripConv(v))
					if seen[v] {
						return
					}
					seen[v] = true
					switch x := v.(type) {
					case *ssa.Phi:
						for _, e := range x.Edges {
							walk(e)
						}
					case *ssa.UnOp:
						if x.Op != token.MUL {
							return
						}
						switch r := x.X.(type) {
						case *ssa.FreeVar:
							remembered = "the captured variable " + r.Name()
						case *ssa.FieldAddr:
							_, n, _ := core.FieldOf(r)
							remembered = "the field " + n
						case *ssa.Global:
							remembered = "the package variable " + r.Name()
						case *ssa.Alloc:
							// a local of this call: what was stored into it
							for _, st := range core.CellStores(r) {
								walk(st.Val)
							}
						}
					case *ssa.Lookup:
						remembered = "a map"
					}
				}
				walk(v)
			}
			c.Check(remembered == "", rule, core.FnName(fn), "the hash written is computed for this block in this call", core.InstrPos(in),
				"the StrongHash does not come out of a variable that survives from one block to the next",
				"the strong hash written for a block can come out of "+remembered+", filled in while hashing an earlier block: a remembered hash is the hash of that other block (another length, if nothing else), and the signature then disagrees with the content it signs")
		})
	}
	c.Floor(rule, "calls of a signature writer", n, 1)
}

// rememberedSource: does v (a hash) come out of a variable that lives longer than this call - a field, a
// captured variable, a package variable, a map? Locals of the call are followed to what was stored in them.
func rememberedSource(v ssa.Value) string {
	remembered := ""
	seen := map[ssa.Value]bool{}
	var walk func(v ssa.Value)
	walk = func(v ssa.Value) {
		v = core.StoredHere(core.StripConv(v))
		if seen[v] {
			return
		}
		seen[v] = true
		switch x := v.(type) {
		case *ssa.Phi:
			for _, e := range x.Edges {
				walk(e)
			}
		case *ssa.UnOp:
			if x.Op != token.MUL {
				return
			}
			switch r := x.X.(type) {
			case *ssa.FreeVar:
				remembered = "the captured variable " + r.Name()
			case *ssa.FieldAddr:
				_, n, _ := core.FieldOf(r)
				remembered = "the field " + n
			case *ssa.Global:
				remembered = "the package variable " + r.Name()
			case *ssa.Alloc:
				for _, st := range core.CellStores(r) {
					walk(st.Val)
				}
			}
		case *ssa.Lookup:
			remembered = "a map"
		}
	}
	walk(v)
	return remembered
}

// ruleStrongHashIsComputedEachTime (R18.8): the strong hash the hashing context returns for a block
// (HashBlock's second result, uniqueHash's result) is computed in that call - no return hands back a hash
// out of a field, a captured or package variable, or a map. A hash remembered under a key that is less
// than the content (length and weak hash, say) is the hash of another block: a block that differs from the
// signed one is then found equal to it, and an equal one found different.
func ruleStrongHashIsComputedEachTime(c *core.Ctx, rule string) {
	c.Rule(rule, "the strong hash of a block is computed from the block on every call")
	n := 0
	for _, spec := range []struct {
		name string
		idx  int
	}{{"Context.HashBlock", 1}, {"Context.uniqueHash", 0}} {
		fn := c.P.Fn("wsync", spec.name)
		if fn == nil {
			c.Missing(rule, "wsync.(*"+spec.name+")", "not found")
			continue
		}
		for _, rs := range core.Returns(fn, spec.idx) {
			if rs.Val == nil {
				continue
			}
			n++
			rem := rememberedSource(rs.Val)
			c.Check(rem == "", rule, core.FnName(fn), "the strong hash returned is computed in this call", core.InstrPos(rs.Ret),
				"the value returned does not come out of a variable that outlives the call",
				"the strong hash returned for a block can come out of "+rem+", filled in while hashing an earlier block: whatever key decided that it is 'the same block' is less than the content, so a block that differs from the signed one can be given the signed block's hash (and pass), and a block equal to it another's (and be rejected or reported as a wound)")
		}
	}
	c.Floor(rule, "returns of the strong-hash functions", n, 2)
}
