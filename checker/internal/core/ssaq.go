package core

import (
	"fmt"
	"go/constant"
	"go/token"
	"go/types"
	"strings"

	"golang.org/x/tools/go/ssa"
)

// ---- iteration ----------------------------------------------------------------

// WithAnons returns fn followed by all (transitively) nested function literals.
func WithAnons(fn *ssa.Function) []*ssa.Function {
	if fn == nil {
		return nil
	}
	out := []*ssa.Function{fn}
	for _, a := range fn.AnonFuncs {
		out = append(out, WithAnons(a)...)
	}
	return out
}

// Instrs calls f for every instruction of fn (not of nested literals).
func Instrs(fn *ssa.Function, f func(ssa.Instruction)) {
	if fn == nil {
		return
	}
	for _, b := range fn.Blocks {
		for _, in := range b.Instrs {
			f(in)
		}
	}
}

// idxIn returns the index of in within its block.
func idxIn(in ssa.Instruction) int {
	for i, x := range in.Block().Instrs {
		if x == in {
			return i
		}
	}
	return -1
}

// ---- callee naming --------------------------------------------------------------

func stripMod(s string) string { return strings.ReplaceAll(s, Mod+"/", "") }

// CalleeName names the callee of a call: static functions and methods as
// "(*os.File).Sync", "io.Copy", "pwr.ComputeBlockSize"; interface calls as
// "(github.com/itchio/lake.Pool).GetReader"; calls of closures bound to a local
// as "closure:<Func name>"; other dynamic calls as "dyn:<description>".
func CalleeName(c ssa.CallInstruction) string {
	cc := c.Common()
	if cc.IsInvoke() {
		return stripMod(cc.Method.FullName())
	}
	if fn := cc.StaticCallee(); fn != nil {
		if fn.Parent() != nil {
			return "closure:" + FnName(fn)
		}
		return FnName(fn)
	}
	if b, ok := cc.Value.(*ssa.Builtin); ok {
		return "builtin:" + b.Name()
	}
	return "dyn:" + Describe(cc.Value)
}

// IsCallTo reports whether c calls one of the named callees.
func IsCallTo(c ssa.CallInstruction, names ...string) bool {
	n := CalleeName(c)
	for _, x := range names {
		if n == x {
			return true
		}
	}
	return false
}

// Calls lists the call instructions (call, go, defer) in fn whose callee name is
// one of names; if names is empty, all calls. Nested literals are included when
// deep is set.
func Calls(fn *ssa.Function, deep bool, names ...string) []ssa.CallInstruction {
	var out []ssa.CallInstruction
	fns := []*ssa.Function{fn}
	if deep {
		fns = WithAnons(fn)
	}
	for _, f := range fns {
		Instrs(f, func(in ssa.Instruction) {
			if c, ok := in.(ssa.CallInstruction); ok {
				if len(names) == 0 || IsCallTo(c, names...) {
					out = append(out, c)
				}
			}
		})
	}
	return out
}

// CallsMatching lists calls whose callee name satisfies pred.
func CallsMatching(fn *ssa.Function, deep bool, pred func(name string, c ssa.CallInstruction) bool) []ssa.CallInstruction {
	var out []ssa.CallInstruction
	for _, c := range Calls(fn, deep) {
		if pred(CalleeName(c), c) {
			out = append(out, c)
		}
	}
	return out
}

// ---- description of values ----------------------------------------------------------

// Describe renders a value as a short source-like expression, independent of
// line numbers; used in obligation keys and diagnostics.
func Describe(v ssa.Value) string { return describe(v, 0) }

func describe(v ssa.Value, depth int) string {
	if v == nil {
		return "<nil>"
	}
	if depth > 6 {
		return "…"
	}
	d := func(x ssa.Value) string { return describe(x, depth+1) }
	switch v := v.(type) {
	case *ssa.Parameter:
		return v.Name()
	case *ssa.FreeVar:
		return v.Name()
	case *ssa.Global:
		return stripMod(v.String())
	case *ssa.Function:
		return FnName(v)
	case *ssa.Const:
		if v.Value == nil {
			return "nil"
		}
		return v.Value.String()
	case *ssa.Alloc:
		switch v.Comment {
		case "", "complit", "new", "varargs", "makeslice", "slicelit":
			return "new(" + types.TypeString(deref(v.Type()), shortQual) + ")"
		}
		return v.Comment
	case *ssa.FieldAddr:
		return d(v.X) + "." + fieldName(v.X.Type(), v.Field)
	case *ssa.Field:
		return d(v.X) + "." + fieldName(v.X.Type(), v.Field)
	case *ssa.UnOp:
		switch v.Op {
		case token.MUL:
			return d(v.X)
		case token.ARROW:
			return "<-" + d(v.X)
		}
		return v.Op.String() + d(v.X)
	case *ssa.BinOp:
		return d(v.X) + " " + v.Op.String() + " " + d(v.Y)
	case *ssa.IndexAddr:
		return d(v.X) + "[" + d(v.Index) + "]"
	case *ssa.Index:
		return d(v.X) + "[" + d(v.Index) + "]"
	case *ssa.Lookup:
		return d(v.X) + "[" + d(v.Index) + "]"
	case *ssa.Slice:
		s := d(v.X) + "["
		if v.Low != nil {
			s += d(v.Low)
		}
		s += ":"
		if v.High != nil {
			s += d(v.High)
		}
		return s + "]"
	case *ssa.Convert:
		return d(v.X)
	case *ssa.ChangeType:
		return d(v.X)
	case *ssa.ChangeInterface:
		return d(v.X)
	case *ssa.MakeInterface:
		return d(v.X)
	case *ssa.Extract:
		return d(v.Tuple) + fmt.Sprintf("#%d", v.Index)
	case *ssa.Call:
		return CalleeName(v) + "(…)"
	case *ssa.Phi:
		if v.Comment != "" {
			return v.Comment
		}
		return "phi"
	case *ssa.MakeClosure:
		return "func:" + FnName(v.Fn.(*ssa.Function))
	case *ssa.TypeAssert:
		return d(v.X) + ".(" + types.TypeString(v.AssertedType, shortQual) + ")"
	case *ssa.MakeSlice:
		return "make(" + types.TypeString(v.Type(), shortQual) + ", " + d(v.Len) + ")"
	case *ssa.MakeMap:
		return "make(" + types.TypeString(v.Type(), shortQual) + ")"
	case *ssa.MakeChan:
		return "make(" + types.TypeString(v.Type(), shortQual) + ")"
	case *ssa.Select:
		return "select"
	case *ssa.Range:
		return "range " + d(v.X)
	case *ssa.Next:
		return "next(" + d(v.Iter) + ")"
	}
	return v.Name()
}

func shortQual(p *types.Package) string { return p.Name() }

func deref(t types.Type) types.Type {
	if p, ok := t.Underlying().(*types.Pointer); ok {
		return p.Elem()
	}
	return t
}

func fieldName(t types.Type, i int) string {
	t = deref(t)
	if s, ok := t.Underlying().(*types.Struct); ok && i < s.NumFields() {
		return s.Field(i).Name()
	}
	return fmt.Sprintf("f%d", i)
}

// FieldOf returns (base, field name) when v is a load of / address of / value
// of a struct field; ok is false otherwise.
func FieldOf(v ssa.Value) (base ssa.Value, name string, ok bool) {
	switch x := v.(type) {
	case *ssa.UnOp:
		if x.Op == token.MUL {
			return FieldOf(x.X)
		}
	case *ssa.FieldAddr:
		return x.X, fieldName(x.X.Type(), x.Field), true
	case *ssa.Field:
		return x.X, fieldName(x.X.Type(), x.Field), true
	}
	return nil, "", false
}

// TypeName renders the (pointer-stripped) named type of t as "pkg.Name".
func TypeName(t types.Type) string {
	t = deref(t)
	if n, ok := t.(*types.Named); ok {
		if n.Obj().Pkg() != nil {
			return stripMod(n.Obj().Pkg().Path()) + "." + n.Obj().Name()
		}
		return n.Obj().Name()
	}
	return types.TypeString(t, shortQual)
}

// ---- constants ---------------------------------------------------------------------

// ConstInt returns the integer value of v if v is an integer constant (through
// conversions).
func ConstInt(v ssa.Value) (int64, bool) {
	v = StripConv(v)
	if c, ok := v.(*ssa.Const); ok && c.Value != nil && c.Value.Kind() == constant.Int {
		i, exact := constant.Int64Val(c.Value)
		return i, exact
	}
	return 0, false
}

// IsNilConst reports whether v is the constant nil.
func IsNilConst(v ssa.Value) bool {
	c, ok := v.(*ssa.Const)
	return ok && c.IsNil()
}

// ConstBool returns the value of a boolean constant.
func ConstBool(v ssa.Value) (bool, bool) {
	if c, ok := v.(*ssa.Const); ok && c.Value != nil && c.Value.Kind() == constant.Bool {
		return constant.BoolVal(c.Value), true
	}
	return false, false
}

// StripConv removes value-preserving wrappers: conversions, interface boxing,
// type changes.
func StripConv(v ssa.Value) ssa.Value {
	for {
		switch x := v.(type) {
		case *ssa.Convert:
			v = x.X
		case *ssa.ChangeType:
			v = x.X
		case *ssa.ChangeInterface:
			v = x.X
		case *ssa.MakeInterface:
			v = x.X
		default:
			return v
		}
	}
}

// ---- memory cells (locals captured by closures, named results) ---------------------------

// CellRoot resolves a free variable to the value bound to it in the enclosing
// function (transitively); other values are returned unchanged.
func CellRoot(v ssa.Value) ssa.Value {
	for {
		fv, ok := v.(*ssa.FreeVar)
		if !ok {
			return v
		}
		fn := fv.Parent()
		idx := -1
		for i, f := range fn.FreeVars {
			if f == fv {
				idx = i
			}
		}
		par := fn.Parent()
		if par == nil || idx < 0 {
			return v
		}
		var bound ssa.Value
		Instrs(par, func(in ssa.Instruction) {
			if mc, ok := in.(*ssa.MakeClosure); ok && mc.Fn == fn && idx < len(mc.Bindings) {
				bound = mc.Bindings[idx]
			}
		})
		if bound == nil {
			return v
		}
		v = bound
	}
}

// CellUses returns every instruction, in the defining function and in all
// closures that capture it, that refers to the cell root (an *ssa.Alloc or other
// pointer value) directly.
func CellUses(root ssa.Value) []ssa.Instruction {
	var out []ssa.Instruction
	var visit func(v ssa.Value)
	seen := map[ssa.Value]bool{}
	visit = func(v ssa.Value) {
		if seen[v] {
			return
		}
		seen[v] = true
		refs := v.Referrers()
		if refs == nil {
			return
		}
		for _, in := range *refs {
			if mc, ok := in.(*ssa.MakeClosure); ok {
				for i, b := range mc.Bindings {
					if b == v {
						visit(mc.Fn.(*ssa.Function).FreeVars[i])
					}
				}
				continue
			}
			out = append(out, in)
		}
	}
	visit(root)
	return out
}

// CellStores returns the values stored directly into the cell (flow-insensitive).
func CellStores(root ssa.Value) []*ssa.Store {
	var out []*ssa.Store
	for _, in := range CellUses(root) {
		if st, ok := in.(*ssa.Store); ok && CellRoot(st.Addr) == root {
			out = append(out, st)
		}
	}
	return out
}

// Origins expands v to the set of values it may be a copy of: through
// conversions, phis, and loads of local cells (all values ever stored, flow-
// insensitively). The result contains no Phi, Convert or local-cell loads.
func Origins(v ssa.Value) []ssa.Value {
	var out []ssa.Value
	seen := map[ssa.Value]bool{}
	var walk func(v ssa.Value)
	walk = func(v ssa.Value) {
		v = StripConv(v)
		if seen[v] {
			return
		}
		seen[v] = true
		switch x := v.(type) {
		case *ssa.Phi:
			for _, e := range x.Edges {
				walk(e)
			}
			return
		case *ssa.UnOp:
			if x.Op == token.MUL {
				root := CellRoot(x.X)
				if a, ok := root.(*ssa.Alloc); ok {
					sts := CellStores(a)
					if len(sts) > 0 {
						for _, st := range sts {
							walk(st.Val)
						}
						return
					}
				}
			}
		}
		out = append(out, v)
	}
	walk(v)
	return out
}

// ---- dominance, guards, reachability -----------------------------------------------------

// InstrDominates reports whether a is executed before b on every path to b.
func InstrDominates(a, b ssa.Instruction) bool {
	if a.Block() == b.Block() {
		return idxIn(a) < idxIn(b)
	}
	return a.Block().Dominates(b.Block())
}

// Guard is a branch outcome that every path to some point has taken.
type Guard struct {
	Cond ssa.Value
	Val  bool // the outcome of Cond on the dominating edge
	If   *ssa.If
}

type fnInfo struct {
	// unreach[ifBlockIndex*2+side] = set of blocks unreachable when that edge is removed
	edgeCut map[*ssa.BasicBlock][2]map[*ssa.BasicBlock]bool
}

var fnInfos = map[*ssa.Function]*fnInfo{}

func reachableFromEntry(fn *ssa.Function, cutFrom, cutTo *ssa.BasicBlock) map[*ssa.BasicBlock]bool {
	seen := map[*ssa.BasicBlock]bool{}
	if len(fn.Blocks) == 0 {
		return seen
	}
	stack := []*ssa.BasicBlock{fn.Blocks[0]}
	seen[fn.Blocks[0]] = true
	for len(stack) > 0 {
		b := stack[len(stack)-1]
		stack = stack[:len(stack)-1]
		for _, s := range b.Succs {
			if b == cutFrom && s == cutTo {
				continue
			}
			if !seen[s] {
				seen[s] = true
				stack = append(stack, s)
			}
		}
	}
	return seen
}

func infoOf(fn *ssa.Function) *fnInfo {
	if fi, ok := fnInfos[fn]; ok {
		return fi
	}
	fi := &fnInfo{edgeCut: map[*ssa.BasicBlock][2]map[*ssa.BasicBlock]bool{}}
	all := reachableFromEntry(fn, nil, nil)
	for _, b := range fn.Blocks {
		if len(b.Instrs) == 0 {
			continue
		}
		if _, ok := b.Instrs[len(b.Instrs)-1].(*ssa.If); !ok {
			continue
		}
		var sides [2]map[*ssa.BasicBlock]bool
		for s := 0; s < 2; s++ {
			sides[s] = map[*ssa.BasicBlock]bool{}
			if b.Succs[0] == b.Succs[1] {
				continue
			}
			r := reachableFromEntry(fn, b, b.Succs[s])
			for x := range all {
				if !r[x] {
					sides[s][x] = true
				}
			}
		}
		fi.edgeCut[b] = sides
	}
	fnInfos[fn] = fi
	return fi
}

// BlockGuards returns the branch outcomes that dominate block b (edge dominance:
// b is unreachable from the entry once that edge is removed).
func BlockGuards(b *ssa.BasicBlock) []Guard {
	fi := infoOf(b.Parent())
	var out []Guard
	for _, d := range b.Parent().Blocks {
		sides, ok := fi.edgeCut[d]
		if !ok {
			continue
		}
		ifi := d.Instrs[len(d.Instrs)-1].(*ssa.If)
		if sides[0][b] {
			out = append(out, Guard{Cond: ifi.Cond, Val: true, If: ifi})
		}
		if sides[1][b] {
			out = append(out, Guard{Cond: ifi.Cond, Val: false, If: ifi})
		}
	}
	return out
}

// Guards returns the branch outcomes that dominate instruction in.
func Guards(in ssa.Instruction) []Guard { return BlockGuards(in.Block()) }

// FindPath searches a control-flow path inside one function from instruction
// `from` (exclusive; nil means the function entry) to an instruction satisfying
// `to`, never stepping over an instruction satisfying `avoid`. It returns the
// blocks of one such path, or nil if none exists.
func FindPath(fn *ssa.Function, from ssa.Instruction, to, avoid func(ssa.Instruction) bool) []ssa.Instruction {
	return FindPathSkipping(fn, from, to, avoid, nil)
}

// FindPathSkipping is FindPath on the CFG with the edges for which skipEdge
// returns true removed.
func FindPathSkipping(fn *ssa.Function, from ssa.Instruction, to, avoid func(ssa.Instruction) bool, skipEdge func(from, to *ssa.BasicBlock) bool) []ssa.Instruction {
	type node struct {
		b    *ssa.BasicBlock
		prev *node
		hit  ssa.Instruction
	}
	if len(fn.Blocks) == 0 {
		return nil
	}
	scan := func(b *ssa.BasicBlock, start int) (found ssa.Instruction, blocked bool) {
		for i := start; i < len(b.Instrs); i++ {
			in := b.Instrs[i]
			if to(in) {
				return in, false
			}
			if avoid != nil && avoid(in) {
				return nil, true
			}
		}
		return nil, false
	}
	var start *node
	seen := map[*ssa.BasicBlock]bool{}
	var queue []*node
	if from == nil {
		start = &node{b: fn.Blocks[0]}
		seen[fn.Blocks[0]] = true
		if f, blocked := scan(start.b, 0); f != nil {
			return []ssa.Instruction{f}
		} else if blocked {
			return nil
		}
	} else {
		start = &node{b: from.Block()}
		if f, blocked := scan(start.b, idxIn(from)+1); f != nil {
			return []ssa.Instruction{from, f}
		} else if blocked {
			return nil
		}
	}
	queue = append(queue, start)
	for len(queue) > 0 {
		n := queue[0]
		queue = queue[1:]
		for _, s := range n.b.Succs {
			if seen[s] {
				continue
			}
			if skipEdge != nil && skipEdge(n.b, s) {
				continue
			}
			seen[s] = true
			nn := &node{b: s, prev: n}
			f, blocked := scan(s, 0)
			if f != nil {
				var path []ssa.Instruction
				path = append(path, f)
				for x := nn; x != nil; x = x.prev {
					if len(x.b.Instrs) > 0 && x != nn {
						path = append(path, x.b.Instrs[len(x.b.Instrs)-1])
					}
				}
				// reverse
				for i, j := 0, len(path)-1; i < j; i, j = i+1, j-1 {
					path[i], path[j] = path[j], path[i]
				}
				return path
			}
			if blocked {
				continue
			}
			queue = append(queue, nn)
		}
	}
	return nil
}

// PathStrings renders a path for diagnostics.
func (p *Prog) PathStrings(path []ssa.Instruction) []string {
	var out []string
	for _, in := range path {
		out = append(out, fmt.Sprintf("%s: %s", p.Pos(InstrPos(in)), in.String()))
	}
	return out
}

// InstrPos returns the best available source position for an instruction.
func InstrPos(in ssa.Instruction) token.Pos {
	if in == nil {
		return token.NoPos
	}
	if p := in.Pos(); p.IsValid() {
		return p
	}
	// fall back to operands / neighbours in the block
	if v, ok := in.(ssa.Value); ok {
		_ = v
	}
	b := in.Block()
	i := idxIn(in)
	for j := i; j >= 0; j-- {
		if p := b.Instrs[j].Pos(); p.IsValid() {
			return p
		}
	}
	for j := i; j < len(b.Instrs); j++ {
		if p := b.Instrs[j].Pos(); p.IsValid() {
			return p
		}
	}
	return in.Parent().Pos()
}

// ---- returns -----------------------------------------------------------------------------

// ReturnSite describes one return instruction with the value of one result as
// it was assigned right before the return (named results that are spilled to a
// cell because a deferred closure captures them are resolved to the value
// stored in the returning block when there is one).
type ReturnSite struct {
	Ret *ssa.Return
	Val ssa.Value // nil if the function has no such result
	// Spilled is true when the result lives in a cell that deferred closures can
	// rewrite after this point.
	Spilled bool
}

// Returns lists the return sites of fn for result index k (negative k counts
// from the end: -1 is the last result, typically the error).
func Returns(fn *ssa.Function, k int) []ReturnSite {
	var out []ReturnSite
	n := fn.Signature.Results().Len()
	if k < 0 {
		k = n + k
	}
	for _, b := range fn.Blocks {
		if len(b.Instrs) == 0 {
			continue
		}
		ret, ok := b.Instrs[len(b.Instrs)-1].(*ssa.Return)
		if !ok {
			continue
		}
		rs := ReturnSite{Ret: ret}
		if k >= 0 && k < len(ret.Results) {
			v := ret.Results[k]
			rs.Val = v
			if ld, ok := v.(*ssa.UnOp); ok && ld.Op == token.MUL {
				if a, ok := ld.X.(*ssa.Alloc); ok {
					rs.Spilled = true
					// last store to the cell in this block before the return
					for i := len(b.Instrs) - 1; i >= 0; i-- {
						if st, ok := b.Instrs[i].(*ssa.Store); ok && st.Addr == a {
							rs.Val = st.Val
							break
						}
					}
				}
			}
		}
		out = append(out, rs)
	}
	return out
}

// MayBeNil reports whether the (error) value v can be nil as far as a purely
// local inspection can tell: constant nil, or a phi / cell with a nil source.
// Values produced by calls are treated as non-nil only when they are direct
// results of the usual error constructors; anything else is "unknown" and
// reported as may-be-nil = unknown (second result false).
func MayBeNil(v ssa.Value) (nilPossible bool, known bool) {
	if v == nil {
		return false, true
	}
	all := Origins(v)
	anyUnknown := false
	for _, o := range all {
		if IsNilConst(o) {
			return true, true
		}
		if c, ok := o.(*ssa.Call); ok {
			n := CalleeName(c)
			if strings.HasPrefix(n, "github.com/pkg/errors.") || n == "fmt.Errorf" || n == "errors.New" {
				// errors.WithStack(nil) is nil, but it is only ever called on the error path here;
				// callers that care inspect the argument themselves.
				continue
			}
		}
		switch x := o.(type) {
		case *ssa.Global, *ssa.Alloc, *ssa.MakeClosure, *ssa.Function:
			continue
		case *ssa.UnOp:
			// a package-level error variable (werrors.ErrCancelled, ErrStop, io.EOF)
			if _, ok := x.X.(*ssa.Global); ok && x.Op == token.MUL {
				continue
			}
		}
		anyUnknown = true
	}
	if anyUnknown {
		return true, false
	}
	return false, true
}
