package rules

import (
	"fmt"
	"path/filepath"
	"sort"
	"strings"

	"wharfverif/checker/internal/core"
)

// RunFixtures is the fixture guard for rule families whose expected count on a
// healthy tree is zero: the analysis is run on /verif/fixtures/<pkg>; every
// function whose name starts with "Bad" must be reported and every function
// whose name starts with "Good" must stay silent. A misbehaving fixture means
// the checker is broken (exit 2), never a verdict about /repo.
func RunFixtures(c *core.Ctx, pr *Property, verif string) error {
	if pr.Fixtures == nil {
		return nil
	}
	dir := filepath.Join(verif, "fixtures")
	fp, err := core.Load(dir, 1)
	if err != nil {
		return err
	}
	fc := core.NewCtx(fp, c.Prop, c.Tier)
	reported := pr.Fixtures(fc)
	var bad, good int
	var problems []string
	for _, fn := range fp.SrcFuncs() {
		if fn.Parent() != nil {
			continue
		}
		if !strings.HasSuffix(core.PkgPathOf(fn), "/"+pr.FixturePkg) {
			continue
		}
		name := fn.Name()
		switch {
		case strings.HasPrefix(name, "Bad"):
			bad++
			if !reported[name] {
				problems = append(problems, "fixture "+name+" was NOT reported")
			}
		case strings.HasPrefix(name, "Good"):
			good++
			if reported[name] {
				problems = append(problems, "fixture "+name+" was reported but must stay silent")
			}
		}
	}
	if bad == 0 || good == 0 {
		problems = append(problems, fmt.Sprintf("fixture package %s has %d bad / %d good examples", pr.FixturePkg, bad, good))
	}
	sort.Strings(problems)
	c.Stats["fixtures.bad_reported"] = bad
	c.Stats["fixtures.good_silent"] = good
	if len(problems) > 0 {
		return fmt.Errorf("%s", strings.Join(problems, "; "))
	}
	c.Notes = append(c.Notes, fmt.Sprintf("fixture guard: %d bad examples reported, %d good examples silent (fixtures/%s)", bad, good, pr.FixturePkg))
	return nil
}
