package rules

// Index-space consistency (R02.6 / R10.space): wharf passes two kinds of file
// indices around as plain int64 — indices into the NEW build's file list
// ("source" in wharf's vocabulary) and into the OLD build's ("target"). A value
// that flows both into a use as a new-build index and into a use as an
// old-build index is a confusion of the two spaces. Unification-based inference
// over SSA values, struct fields (field-based), slice elements and map
// keys/values; the spaces are seeded from uses whose container/pool is named
// after the build (…source…/…output… = new, …target… = old), from fields named
// SourceIndex/TargetIndex, and through helper functions that relate an index
// parameter to a container parameter.

import (
	"fmt"
	"go/token"
	"go/types"
	"sort"
	"strings"

	"golang.org/x/tools/go/ssa"

	"wharfverif/checker/internal/core"
)

type isNode interface{}

type isSeed struct {
	space string // "new" | "old"
	why   string
	pos   token.Pos
	fn    *ssa.Function
}

type indexSpace struct {
	p      *core.Prog
	parent map[isNode]isNode
	seeds  map[isNode][]isSeed
	// relations discovered in helpers: fn -> (index param, container param)
	rel map[*ssa.Function][][2]int
}

func (s *indexSpace) find(n isNode) isNode {
	for {
		p, ok := s.parent[n]
		if !ok || p == n {
			return n
		}
		// path halving
		if gp, ok := s.parent[p]; ok {
			s.parent[n] = gp
		}
		n = p
	}
}

func (s *indexSpace) union(a, b isNode) {
	if a == nil || b == nil {
		return
	}
	ra, rb := s.find(a), s.find(b)
	if ra == rb {
		return
	}
	s.parent[ra] = rb
	s.seeds[rb] = append(s.seeds[rb], s.seeds[ra]...)
	delete(s.seeds, ra)
}

func (s *indexSpace) seed(n isNode, sp, why string, in ssa.Instruction) {
	if n == nil || sp == "" {
		return
	}
	r := s.find(n)
	s.seeds[r] = append(s.seeds[r], isSeed{sp, why, core.InstrPos(in), in.Parent()})
}

func isIndexInt(t types.Type) bool {
	b, ok := t.Underlying().(*types.Basic)
	return ok && b.Info()&types.IsInteger != 0 && b.Kind() != types.Uint8 && b.Kind() != types.Int8
}

// spaceOfName classifies an identifier by wharf's vocabulary.
func spaceOfName(n string) string {
	l := strings.ToLower(n)
	switch {
	case strings.Contains(l, "source") || strings.Contains(l, "output"):
		return "new"
	case strings.Contains(l, "target"):
		return "old"
	}
	return ""
}

// containerName returns the identifying name of a container/pool expression: the
// innermost field/parameter name that says which build it is; for locals, the
// name of a field the object is stored into.
func containerName(v ssa.Value, depth int) (name string, param *ssa.Parameter) {
	if depth > 6 || v == nil {
		return "", nil
	}
	for _, o := range core.Origins(v) {
		switch x := o.(type) {
		case *ssa.Parameter:
			if spaceOfName(x.Name()) != "" {
				return x.Name(), nil
			}
			return "", x
		case *ssa.UnOp:
			if x.Op == token.MUL {
				if b, n, ok := core.FieldOf(x); ok {
					if spaceOfName(n) != "" {
						return n, nil
					}
					if n == "Files" || n == "Container" {
						return containerName(b, depth+1)
					}
					return "", nil
				}
			}
		case *ssa.Alloc:
			// a local object: the field it is stored into names it
			if refs := x.Referrers(); refs != nil {
				for _, r := range *refs {
					if st, ok := r.(*ssa.Store); ok && st.Val == ssa.Value(x) {
						if _, n, ok := core.FieldOf(st.Addr); ok && spaceOfName(n) != "" {
							return n, nil
						}
					}
				}
			}
		case *ssa.Call:
			// fspool.New(container, folder): named by its container
			if strings.HasSuffix(core.CalleeName(x), "fspool.New") && len(x.Call.Args) > 0 {
				return containerName(x.Call.Args[0], depth+1)
			}
		case *ssa.FreeVar:
			if spaceOfName(x.Name()) != "" {
				return x.Name(), nil
			}
		}
	}
	return "", nil
}

func (s *indexSpace) fieldCell(t types.Type, field string) isNode {
	return "F:" + core.TypeName(t) + "." + field
}

// elemCell: the abstract cell for the elements of a slice value.
func (s *indexSpace) elemCell(v ssa.Value) isNode { return s.elemCellD(v, 0) }

func (s *indexSpace) elemCellD(v ssa.Value, depth int) isNode {
	if depth > 4 {
		return elemOf{v}
	}
	for _, o := range core.Origins(v) {
		for {
			if sl, ok := o.(*ssa.Slice); ok {
				o = sl.X
				continue
			}
			break
		}
		if b, n, ok := core.FieldOf(o); ok {
			return "E:" + core.TypeName(b.Type()) + "." + n
		}
		if cl, ok := o.(*ssa.Call); ok {
			if bi, ok := cl.Call.Value.(*ssa.Builtin); ok && bi.Name() == "append" {
				if core.StripConv(cl.Call.Args[0]) == v {
					continue
				}
				return s.elemCellD(cl.Call.Args[0], depth+1)
			}
		}
		return elemOf{o}
	}
	return nil
}

type elemOf struct{ v ssa.Value }
type mapKeyOf struct{ id string }
type mapValOf struct{ id string }

func (s *indexSpace) mapID(fn *ssa.Function, m ssa.Value) string {
	for _, o := range core.Origins(m) {
		if b, n, ok := core.FieldOf(o); ok {
			return "field:" + core.TypeName(b.Type()) + "." + n
		}
		if mm, ok := o.(*ssa.MakeMap); ok {
			// stored into a field?
			if refs := mm.Referrers(); refs != nil {
				for _, r := range *refs {
					if st, ok := r.(*ssa.Store); ok && st.Val == ssa.Value(mm) {
						if b, n, ok := core.FieldOf(st.Addr); ok {
							return "field:" + core.TypeName(b.Type()) + "." + n
						}
					}
				}
			}
			return fmt.Sprintf("make:%s:%p", core.FnName(mm.Parent()), mm)
		}
		return fmt.Sprintf("val:%p", o)
	}
	return "?"
}

func indexSpaces(c *core.Ctx, rule string) {
	s := &indexSpace{p: c.P, parent: map[isNode]isNode{}, seeds: map[isNode][]isSeed{}, rel: map[*ssa.Function][][2]int{}}
	var fns []*ssa.Function
	for _, fn := range c.P.SrcFuncs() {
		pp := core.PkgPathOf(fn)
		if strings.HasSuffix(pp, "/pwr/bowl") || strings.HasSuffix(pp, "/pwr/patcher") || strings.HasSuffix(pp, "/pwr/rediff") {
			fns = append(fns, fn)
		}
		// in package pwr only the differ speaks of two builds; the healer and CopyContainer use
		// "source"/"target" for the two ends of a copy of ONE build (same container, same indices)
		if strings.HasSuffix(pp, "/pwr") && strings.HasSuffix(c.P.Fset.Position(fn.Pos()).Filename, "/pwr/diff.go") {
			fns = append(fns, fn)
		}
	}
	inScope := map[*ssa.Function]bool{}
	for _, f := range fns {
		inScope[f] = true
	}
	node := func(v ssa.Value) isNode {
		v = core.StripConv(v)
		if _, isC := v.(*ssa.Const); isC {
			return nil
		}
		if !isIndexInt(v.Type()) {
			return nil
		}
		// loads of local cells: the cell
		if ld, ok := v.(*ssa.UnOp); ok && ld.Op == token.MUL {
			if a, ok := core.CellRoot(ld.X).(*ssa.Alloc); ok {
				if _, isFA := ld.X.(*ssa.FieldAddr); !isFA {
					if _, isIA := ld.X.(*ssa.IndexAddr); !isIA {
						return a
					}
				}
			}
		}
		return v
	}
	// seeding helper for "idx is an index into E.Files / argument of pool E"
	seedUse := func(fn *ssa.Function, idx ssa.Value, container ssa.Value, in ssa.Instruction, how string) {
		n := node(idx)
		if n == nil {
			return
		}
		name, param := containerName(container, 0)
		if name != "" {
			s.seed(n, spaceOfName(name), how+" "+name, in)
			return
		}
		if param != nil {
			// relation between two parameters of a helper
			f := param.Parent()
			ci, ii := -1, -1
			for i, q := range f.Params {
				if q == param {
					ci = i
				}
				for _, o := range core.Origins(idx) {
					if core.StripConv(o) == ssa.Value(q) {
						ii = i
					}
				}
			}
			if ci >= 0 && ii >= 0 {
				s.rel[f] = append(s.rel[f], [2]int{ii, ci})
			}
		}
	}
	nSeedSites := 0
	for _, fn := range fns {
		rets := map[int][]ssa.Value{}
		core.Instrs(fn, func(in ssa.Instruction) {
			if r, ok := in.(*ssa.Return); ok {
				for i, v := range r.Results {
					rets[i] = append(rets[i], v)
				}
			}
		})
		core.Instrs(fn, func(in ssa.Instruction) {
			switch x := in.(type) {
			case *ssa.Convert:
				s.union(node(x), node(x.X))
			case *ssa.Phi:
				for _, e := range x.Edges {
					s.union(node(x), node(e))
				}
			case *ssa.BinOp:
				switch x.Op {
				case token.ADD, token.SUB:
					if _, isC := core.ConstInt(x.Y); isC {
						s.union(node(x), node(x.X))
					}
				case token.EQL, token.NEQ:
					if isIndexInt(x.X.Type()) {
						s.union(node(x.X), node(x.Y))
					}
				case token.LSS, token.LEQ, token.GTR, token.GEQ:
					// comparison with len(E.Files)
					for _, pair := range [][2]ssa.Value{{x.X, x.Y}, {x.Y, x.X}} {
						if cl, ok := core.StripConv(pair[1]).(*ssa.Call); ok {
							if b, ok := cl.Call.Value.(*ssa.Builtin); ok && b.Name() == "len" {
								if _, n, ok := core.FieldOf(cl.Call.Args[0]); ok && n == "Files" {
									nSeedSites++
									seedUse(fn, pair[0], cl.Call.Args[0], in, "compared with the length of")
								}
							}
						}
					}
				}
			case *ssa.Store:
				if fa, ok := x.Addr.(*ssa.FieldAddr); ok {
					_, name, _ := core.FieldOf(fa)
					if isIndexInt(x.Val.Type()) {
						s.union(s.fieldCell(fa.X.Type(), name), node(x.Val))
					} else if _, isSl := x.Val.Type().Underlying().(*types.Slice); isSl {
						s.union("E:"+core.TypeName(fa.X.Type())+"."+name, s.elemCell(x.Val))
					}
				} else if a, ok := core.CellRoot(x.Addr).(*ssa.Alloc); ok {
					if _, isIA := x.Addr.(*ssa.IndexAddr); isIA {
						if isIndexInt(x.Val.Type()) {
							s.union(s.elemCell(x.Addr.(*ssa.IndexAddr).X), node(x.Val))
						}
					} else if isIndexInt(x.Val.Type()) {
						s.union(a, node(x.Val))
					} else if _, isSl := x.Val.Type().Underlying().(*types.Slice); isSl {
						s.union(elemOf{a}, s.elemCell(x.Val))
					}
				}
			case *ssa.UnOp:
				if x.Op != token.MUL || !isIndexInt(x.Type()) {
					return
				}
				switch a := x.X.(type) {
				case *ssa.FieldAddr:
					_, name, _ := core.FieldOf(a)
					s.union(node(x), s.fieldCell(a.X.Type(), name))
				case *ssa.IndexAddr:
					s.union(node(x), s.elemCell(a.X))
				}
			case *ssa.Field:
				if isIndexInt(x.Type()) {
					_, name, _ := core.FieldOf(x)
					s.union(node(x), s.fieldCell(x.X.Type(), name))
				}
			case *ssa.IndexAddr:
				if _, n, ok := core.FieldOf(x.X); ok && n == "Files" {
					nSeedSites++
					seedUse(fn, x.Index, x.X, in, "index into the file list of")
				} else {
					// through a local copy of the file list
					for _, o := range core.Origins(x.X) {
						if _, n, ok := core.FieldOf(o); ok && n == "Files" {
							nSeedSites++
							seedUse(fn, x.Index, o, in, "index into the file list of")
						}
					}
				}
			case *ssa.MapUpdate:
				id := s.mapID(fn, x.Map)
				if isIndexInt(x.Key.Type()) {
					s.union(mapKeyOf{id}, node(x.Key))
				}
				if isIndexInt(x.Value.Type()) {
					s.union(mapValOf{id}, node(x.Value))
				}
			case *ssa.Lookup:
				if _, isMap := x.X.Type().Underlying().(*types.Map); isMap {
					id := s.mapID(fn, x.X)
					if isIndexInt(x.Index.Type()) {
						s.union(mapKeyOf{id}, node(x.Index))
					}
					if isIndexInt(x.Type()) {
						s.union(mapValOf{id}, node(x))
					}
				}
			case *ssa.Extract:
				switch t := x.Tuple.(type) {
				case *ssa.Lookup:
					if x.Index == 0 && isIndexInt(x.Type()) {
						s.union(mapValOf{s.mapID(fn, t.X)}, node(x))
					}
				case *ssa.Next:
					if rg, ok := t.Iter.(*ssa.Range); ok {
						if _, isMap := rg.X.Type().Underlying().(*types.Map); isMap && isIndexInt(x.Type()) {
							id := s.mapID(fn, rg.X)
							if x.Index == 1 {
								s.union(mapKeyOf{id}, node(x))
							} else if x.Index == 2 {
								s.union(mapValOf{id}, node(x))
							}
						}
					}
				case *ssa.Call:
					if sc := t.Call.StaticCallee(); sc != nil && inScope[sc] && isIndexInt(x.Type()) {
						core.Instrs(sc, func(y ssa.Instruction) {
							if r, ok := y.(*ssa.Return); ok && x.Index < len(r.Results) {
								s.union(node(x), node(r.Results[x.Index]))
							}
						})
					}
				}
			case ssa.CallInstruction:
				cc := x.Common()
				// pool calls
				m := ""
				var recv ssa.Value
				var args []ssa.Value
				if cc.IsInvoke() {
					m, recv, args = cc.Method.Name(), cc.Value, cc.Args
				} else if sc := cc.StaticCallee(); sc != nil && sc.Signature.Recv() != nil && len(cc.Args) > 0 {
					m, recv, args = sc.Name(), cc.Args[0], cc.Args[1:]
				}
				if poolIndexMethods[m] && len(args) == 1 && isIndexInt(args[0].Type()) {
					tn := core.TypeName(recv.Type())
					if strings.Contains(tn, "lake") && strings.Contains(strings.ToLower(tn), "pool") {
						nSeedSites++
						seedUse(fn, args[0], recv, in, "argument of "+m+" on pool")
					}
				}
				// static module callees: parameters
				if sc := cc.StaticCallee(); sc != nil && inScope[sc] {
					for i, a := range cc.Args {
						if i < len(sc.Params) && isIndexInt(a.Type()) {
							s.union(node(a), node(sc.Params[i]))
						}
					}
					if v, ok := in.(ssa.Value); ok && isIndexInt(v.Type()) {
						core.Instrs(sc, func(y ssa.Instruction) {
							if r, ok := y.(*ssa.Return); ok && len(r.Results) == 1 {
								s.union(node(v), node(r.Results[0]))
							}
						})
					}
				}
				// closures called through a local
				if cl, ok := in.(*ssa.Call); ok {
					if lc := localCallee(cl); lc != nil {
						for i, a := range cl.Call.Args {
							if i < len(lc.Params) && isIndexInt(a.Type()) {
								s.union(node(a), node(lc.Params[i]))
							}
						}
					}
					if b, ok := cl.Call.Value.(*ssa.Builtin); ok && b.Name() == "append" && len(cl.Call.Args) == 2 {
						// append(s, v...) : variadic elements were stored into a varargs array
						s.union(s.elemCell(cl.Call.Args[0]), s.elemCell(cl.Call.Args[1]))
					}
				}
			}
		})
		_ = rets
	}
	// field-name seeds
	for _, fn := range fns {
		core.Instrs(fn, func(in ssa.Instruction) {
			fa, ok := in.(*ssa.FieldAddr)
			if !ok {
				return
			}
			_, name, _ := core.FieldOf(fa)
			if name == "TargetIndex" || name == "SourceIndex" {
				st := structOf(fa.X.Type())
				if st != nil && isIndexInt(st.Field(fa.Field).Type()) {
					s.seed(s.fieldCell(fa.X.Type(), name), spaceOfName(name), "field named", in)
				}
			}
		})
	}
	// relations of helpers applied at call sites
	nRel := 0
	for _, fn := range fns {
		core.Instrs(fn, func(in ssa.Instruction) {
			cl, ok := in.(ssa.CallInstruction)
			if !ok {
				return
			}
			sc := cl.Common().StaticCallee()
			if sc == nil {
				return
			}
			for _, r := range s.rel[sc] {
				if r[0] < len(cl.Common().Args) && r[1] < len(cl.Common().Args) {
					name, _ := containerName(cl.Common().Args[r[1]], 0)
					if name != "" {
						nRel++
						s.seed(node(cl.Common().Args[r[0]]), spaceOfName(name), "checked by "+core.FnName(sc)+" against", in)
					}
				}
			}
		})
	}
	// conflicts
	type cls struct {
		root  isNode
		seeds []isSeed
	}
	var classes []cls
	for r, sd := range s.seeds {
		if s.find(r) != r || len(sd) == 0 {
			continue
		}
		classes = append(classes, cls{r, sd})
	}
	nClasses, nBad := 0, 0
	sort.Slice(classes, func(i, j int) bool {
		return c.P.Pos(classes[i].seeds[0].pos) < c.P.Pos(classes[j].seeds[0].pos)
	})
	for _, k := range classes {
		var nw, old []isSeed
		for _, sd := range k.seeds {
			if sd.space == "new" {
				nw = append(nw, sd)
			} else {
				old = append(old, sd)
			}
		}
		nClasses++
		desc := func(sd isSeed) string {
			return fmt.Sprintf("%s at %s in %s", sd.why, c.P.Pos(sd.pos), core.FnName(sd.fn))
		}
		if len(nw) > 0 && len(old) > 0 {
			nBad++
			sort.Slice(nw, func(i, j int) bool { return c.P.Pos(nw[i].pos) < c.P.Pos(nw[j].pos) })
			sort.Slice(old, func(i, j int) bool { return c.P.Pos(old[i].pos) < c.P.Pos(old[j].pos) })
			o := c.Bad(rule, core.FnName(old[0].fn), "file index used in both index spaces ("+old[0].why+" / "+nw[0].why+")", old[0].pos,
				"the same integer flows into a use as an OLD-build file index ("+desc(old[0])+") and into a use as a NEW-build file index ("+desc(nw[0])+"): the two lists are ordered independently, so it addresses the wrong file whenever the file's position differs between the builds")
			o.Sites = len(k.seeds)
		} else {
			sp := "new"
			if len(old) > 0 {
				sp = "old"
			}
			o := c.Ok(rule, core.FnName(k.seeds[0].fn), fmt.Sprintf("index class seeded at %s (%s)", c.P.Pos(k.seeds[0].pos)[strings.LastIndex(c.P.Pos(k.seeds[0].pos), "/")+1:], k.seeds[0].why), k.seeds[0].pos,
				fmt.Sprintf("%d uses, all in the %s build's index space", len(k.seeds), sp))
			o.Sites = len(k.seeds)
		}
	}
	c.Floor(rule, "index uses that identify a space", nSeedSites, 12)
	c.Floor(rule, "index classes", nClasses, 3)
	c.Stats[rule+".helper_relations_applied"] = nRel
}

// ruleIndexSpaces is R02.6 / R10.space.
func ruleIndexSpaces(c *core.Ctx, rule string) { indexSpaces(c, rule) }
