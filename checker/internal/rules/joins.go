package rules

import (
	"go/token"
	"go/types"
	"sort"
	"strings"

	"golang.org/x/tools/go/ssa"

	"wharfverif/checker/internal/core"
)

// ---- no join before release (R16.8) --------------------------------------------------------------
//
// A function that starts a helper goroutine and later waits for it (a plain receive on a channel only the
// helper sends on or closes) must first have told the helper to stop: closed a channel the helper receives
// from, or cancelled a context the helper watches. A wait placed in a deferred call runs on *every* exit of
// the function - early error returns included - and before any deferred call registered earlier (a
// `defer cancel()` at the top runs last). The rule looks at waits in the function body and in deferred
// literals; waits inside select statements with other cases are not joins.

type helperGo struct {
	goInstr *ssa.Go
	code    map[*ssa.Function]bool
	done    map[interface{}]bool // channels the helper sends on or closes
	inputs  map[interface{}]bool // channels the helper receives from (or hands to code we cannot see)
	ctxs    map[ssa.Value]bool   // context.WithCancel/WithTimeout calls whose context the helper watches
	name    string
}

type chanSubst map[*ssa.Parameter][]interface{}

func substRoots(v ssa.Value, sub chanSubst) []interface{} {
	var out []interface{}
	for _, r := range chanRoots(v) {
		if p, ok := r.(*ssa.Parameter); ok {
			if rs, ok := sub[p]; ok {
				out = append(out, rs...)
				continue
			}
		}
		out = append(out, r)
	}
	return out
}

// ctxSources resolves a context value to the cancellable-context constructor calls it comes from; sub
// maps the parameters of the function being looked at to the (already resolved) sources of the arguments.
func ctxSources(v ssa.Value, sub map[*ssa.Parameter][]ssa.Value) []ssa.Value {
	var out []ssa.Value
	for _, o := range core.Origins(v) {
		switch x := o.(type) {
		case *ssa.Extract:
			if cl, ok := x.Tuple.(*ssa.Call); ok && x.Index == 0 {
				switch core.CalleeName(cl) {
				case "context.WithCancel", "context.WithTimeout", "context.WithDeadline":
					out = append(out, cl)
				}
			}
		case *ssa.Parameter:
			out = append(out, sub[x]...)
		}
	}
	return out
}

func isChanType(t types.Type) bool {
	_, ok := t.Underlying().(*types.Chan)
	return ok
}

func isCtxType(t types.Type) bool {
	return core.TypeName(t) == "context.Context"
}

func collectHelper(h *helperGo, fn *ssa.Function, csub chanSubst, xsub map[*ssa.Parameter][]ssa.Value, depth int) {
	if h.code[fn] {
		return
	}
	h.code[fn] = true
	add := func(m map[interface{}]bool, v ssa.Value) {
		for _, r := range substRoots(v, csub) {
			m[r] = true
		}
	}
	core.Instrs(fn, func(in ssa.Instruction) {
		switch x := in.(type) {
		case *ssa.Send:
			add(h.done, x.Chan)
		case *ssa.UnOp:
			if x.Op == token.ARROW {
				add(h.inputs, x.X)
			}
		case *ssa.Select:
			for _, st := range x.States {
				if st.Dir == types.SendOnly {
					add(h.done, st.Chan)
				} else {
					// a receive from ctx.Done() is a watch, not an input
					watched := false
					for _, o := range core.Origins(st.Chan) {
						if cl, ok := o.(*ssa.Call); ok && cl.Call.IsInvoke() && cl.Call.Method.Name() == "Done" && isCtxType(cl.Call.Value.Type()) {
							watched = true
							for _, s := range ctxSources(cl.Call.Value, xsub) {
								h.ctxs[s] = true
							}
						}
					}
					if !watched {
						add(h.inputs, st.Chan)
					}
				}
			}
		case *ssa.MakeClosure:
			// literals defined by the helper run as part of it (deferred, called, or handed on)
			collectHelper(h, x.Fn.(*ssa.Function), csub, xsub, depth)
		case ssa.CallInstruction:
			com := x.Common()
			if b, ok := com.Value.(*ssa.Builtin); ok && b.Name() == "close" && len(com.Args) == 1 {
				add(h.done, com.Args[0])
				return
			}
			if com.IsInvoke() && com.Method.Name() == "Done" && isCtxType(com.Value.Type()) {
				for _, s := range ctxSources(com.Value, xsub) {
					h.ctxs[s] = true
				}
				return
			}
			cal := com.StaticCallee()
			if cal != nil && cal.Blocks != nil && strings.HasPrefix(core.PkgPathOf(cal), core.Mod) && depth > 0 {
				ncs, nxs := chanSubst{}, map[*ssa.Parameter][]ssa.Value{}
				args := com.Args
				for i, p := range cal.Params {
					if i >= len(args) {
						break
					}
					if isChanType(p.Type()) {
						ncs[p] = substRoots(args[i], csub)
					}
					if isCtxType(p.Type()) {
						nxs[p] = ctxSources(args[i], xsub)
					}
				}
				collectHelper(h, cal, ncs, nxs, depth-1)
				return
			}
			// a call we cannot see into: channels handed to it may be read by it, contexts watched
			for _, a := range com.Args {
				if isChanType(a.Type()) {
					add(h.inputs, a)
				}
				if isCtxType(a.Type()) {
					for _, s := range ctxSources(a, xsub) {
						h.ctxs[s] = true
					}
				}
			}
		}
	})
}

// cancelledEdge recognises the branch taken because a context the helper watches (or the parent that
// context was derived from) is done: on that edge the helper has been told to stop by whoever cancelled.
func cancelledEdge(h *helperGo) func(from, to *ssa.BasicBlock) bool {
	watched := func(ctx ssa.Value) bool {
		for _, s := range ctxSources(ctx, nil) {
			if h.ctxs[s] {
				return true
			}
		}
		// the parent of a watched context
		for src := range h.ctxs {
			if cl, ok := src.(*ssa.Call); ok && len(cl.Call.Args) > 0 {
				for _, a := range core.Origins(cl.Call.Args[0]) {
					for _, b := range core.Origins(ctx) {
						if a == b {
							return true
						}
					}
				}
			}
		}
		return false
	}
	return func(from, to *ssa.BasicBlock) bool {
		iff, ok := from.Instrs[len(from.Instrs)-1].(*ssa.If)
		if !ok || len(from.Succs) != 2 || from.Succs[0] != to {
			return false
		}
		bo, ok := iff.Cond.(*ssa.BinOp)
		if !ok || bo.Op != token.EQL {
			return false
		}
		ex, ok := bo.X.(*ssa.Extract)
		if !ok || ex.Index != 0 {
			return false
		}
		sel, ok := ex.Tuple.(*ssa.Select)
		if !ok {
			return false
		}
		k, isC := core.ConstInt(bo.Y)
		if !isC || int(k) >= len(sel.States) || k < 0 {
			return false
		}
		for _, o := range core.Origins(sel.States[k].Chan) {
			if cl, ok := o.(*ssa.Call); ok && cl.Call.IsInvoke() && cl.Call.Method.Name() == "Done" && watched(cl.Call.Value) {
				return true
			}
		}
		return false
	}
}

type joinSite struct {
	in   ssa.Instruction
	fn   *ssa.Function
	ch   ssa.Value
	what string
}

func ruleNoJoinBeforeRelease(c *core.Ctx, rule string, minGo, minChecked int, pkgSuffixes ...string) {
	c.Rule(rule, "a helper goroutine is waited for only after it was told to stop")
	nGo, nJoin, nChecked := 0, 0, 0
	for _, top := range c.P.SrcFuncs() {
		if top.Parent() != nil {
			continue
		}
		in := false
		for _, sfx := range pkgSuffixes {
			if strings.HasSuffix(core.PkgPathOf(top), sfx) {
				in = true
			}
		}
		if !in {
			continue
		}
		family := core.WithAnons(top)
		var helpers []*helperGo
		for _, f := range family {
			core.Instrs(f, func(ins ssa.Instruction) {
				g, ok := ins.(*ssa.Go)
				if !ok {
					return
				}
				h := &helperGo{goInstr: g, code: map[*ssa.Function]bool{}, done: map[interface{}]bool{}, inputs: map[interface{}]bool{}, ctxs: map[ssa.Value]bool{}}
				var entry *ssa.Function
				csub, xsub := chanSubst{}, map[*ssa.Parameter][]ssa.Value{}
				for _, o := range core.Origins(g.Call.Value) {
					if mc, ok := o.(*ssa.MakeClosure); ok {
						entry = mc.Fn.(*ssa.Function)
					}
				}
				if entry == nil {
					if sc := g.Call.StaticCallee(); sc != nil && sc.Blocks != nil {
						entry = sc
					}
				}
				if entry == nil {
					return
				}
				for i, p := range entry.Params {
					if i >= len(g.Call.Args) {
						break
					}
					if isChanType(p.Type()) {
						csub[p] = chanRoots(g.Call.Args[i])
					}
					if isCtxType(p.Type()) {
						xsub[p] = ctxSources(g.Call.Args[i], nil)
					}
				}
				h.name = core.FnName(entry)
				collectHelper(h, entry, csub, xsub, 3)
				helpers = append(helpers, h)
				nGo++
			})
		}
		if len(helpers) == 0 {
			continue
		}
		inHelper := func(f *ssa.Function) bool {
			for _, h := range helpers {
				if h.code[f] {
					return true
				}
			}
			return false
		}
		// who else sends on / closes a channel
		outsideSenders := map[interface{}]bool{}
		for _, f := range family {
			if inHelper(f) {
				continue
			}
			core.Instrs(f, func(ins ssa.Instruction) {
				switch x := ins.(type) {
				case *ssa.Send:
					for _, r := range chanRoots(x.Chan) {
						outsideSenders[r] = true
					}
				case *ssa.Select:
					for _, st := range x.States {
						if st.Dir == types.SendOnly {
							for _, r := range chanRoots(st.Chan) {
								outsideSenders[r] = true
							}
						}
					}
				case ssa.CallInstruction:
					if b, ok := x.Common().Value.(*ssa.Builtin); ok && b.Name() == "close" {
						for _, r := range chanRoots(x.Common().Args[0]) {
							outsideSenders[r] = true
						}
					}
				}
			})
		}
		releaseOf := func(h *helperGo) ipred {
			var self ipred
			self = func(ins ssa.Instruction) bool {
				cl, ok := ins.(ssa.CallInstruction)
				if !ok {
					return false
				}
				com := cl.Common()
				if b, ok := com.Value.(*ssa.Builtin); ok && b.Name() == "close" && len(com.Args) == 1 {
					for _, r := range chanRoots(com.Args[0]) {
						if h.inputs[r] {
							return true
						}
					}
					return false
				}
				// cancel()
				for _, o := range core.Origins(com.Value) {
					if ex, ok := o.(*ssa.Extract); ok && ex.Index == 1 && h.ctxs[ex.Tuple] {
						return true
					}
				}
				// a deferred or called literal that always releases
				if d, ok := ins.(*ssa.Defer); ok {
					for _, f := range deferCallees(d) {
						if !inHelper(f) && core.FindPath(f, nil, isReturn, self) == nil {
							return true
						}
					}
				}
				if call, ok := ins.(*ssa.Call); ok {
					if f := localCallee(call); f != nil && !inHelper(f) && f.Blocks != nil && core.FindPath(f, nil, isReturn, self) == nil {
						return true
					}
				}
				return false
			}
			return self
		}
		for _, f := range family {
			if inHelper(f) {
				continue
			}
			// which defer registers f, if any
			var regs []*ssa.Defer
			if f.Parent() != nil {
				core.Instrs(f.Parent(), func(ins ssa.Instruction) {
					if d, ok := ins.(*ssa.Defer); ok {
						for _, df := range deferCallees(d) {
							if df == f {
								regs = append(regs, d)
							}
						}
					}
				})
			}
			// or which calls in the top function run it synchronously
			var callSites []ssa.Instruction
			if f != top && len(regs) == 0 {
				core.Instrs(top, func(ins ssa.Instruction) {
					cl, ok := ins.(*ssa.Call)
					if !ok {
						return
					}
					for _, o := range core.Origins(cl.Call.Value) {
						if mc, ok := o.(*ssa.MakeClosure); ok && mc.Fn == ssa.Value(f) {
							callSites = append(callSites, ins)
						}
					}
				})
				if len(callSites) == 0 {
					continue // a literal that is stored or handed on: its waits are judged where R16.4 looks
				}
			}
			core.Instrs(f, func(ins ssa.Instruction) {
				u, ok := ins.(*ssa.UnOp)
				if !ok || u.Op != token.ARROW {
					return
				}
				roots := chanRoots(u.X)
				for _, h := range helpers {
					hit := false
					for _, r := range roots {
						if h.done[r] && !outsideSenders[r] {
							hit = true
						}
					}
					if !hit {
						continue
					}
					nJoin++
					if len(h.inputs) == 0 && len(h.ctxs) == 0 {
						continue // the helper waits for nothing this function controls
					}
					nChecked++
					rel := releaseOf(h)
					construct := "wait for " + h.name + " on " + core.Describe(u.X)
					if f == top {
						p := core.FindPathSkipping(f, h.goInstr, isInstr(ins), rel, cancelledEdge(h))
						if h.goInstr.Parent() != f {
							p = core.FindPathSkipping(f, nil, isInstr(ins), rel, cancelledEdge(h))
						}
						c.Check(p == nil, rule, core.FnName(top), construct, core.InstrPos(ins),
							"every path from starting the helper to this wait closes one of its inputs or cancels its context",
							"the function waits for its helper goroutine without having told it to stop: the helper is still blocked on its input (or on the context) and the wait never ends").Path = c.P.PathStrings(p)
						continue
					}
					if len(callSites) > 0 {
						// in a literal the top function calls: judged at the calls
						if core.FindPath(f, nil, isInstr(ins), rel) == nil {
							c.Check(true, rule, core.FnName(top), construct+" (in a called literal)", core.InstrPos(ins), "the literal releases the helper before waiting", "")
							continue
						}
						var bad []ssa.Instruction
						for _, cs := range callSites {
							p := core.FindPathSkipping(top, h.goInstr, isInstr(cs), rel, cancelledEdge(h))
							if h.goInstr.Parent() != top {
								p = core.FindPathSkipping(top, nil, isInstr(cs), rel, cancelledEdge(h))
							}
							if p != nil {
								bad = p
							}
						}
						c.Check(bad == nil, rule, core.FnName(top), construct+" (in a called literal)", core.InstrPos(ins),
							"every path from starting the helper to a call of this literal closes one of its inputs or cancels its context",
							"the function waits for its helper goroutine without having told it to stop: the helper is still blocked on its input (or on the context) and the wait never ends").Path = c.P.PathStrings(bad)
						continue
					}
					// in a deferred literal
					pin := core.FindPath(f, nil, isInstr(ins), rel)
					if pin == nil {
						c.Check(true, rule, core.FnName(top), construct+" (deferred)", core.InstrPos(ins), "the deferred call releases the helper before waiting", "")
						continue
					}
					var bad []ssa.Instruction
					for _, d := range regs {
						if p := core.FindPathSkipping(f.Parent(), d, isReturn, rel, cancelledEdge(h)); p != nil {
							bad = p
						}
					}
					c.Check(bad == nil, rule, core.FnName(top), construct+" (deferred)", core.InstrPos(ins),
						"on every path from the defer statement to a return the helper is released (in the body, or by a deferred call registered later, which runs earlier)",
						"a deferred call waits for the helper goroutine on every exit of the function, early error returns included, and nothing has told the helper to stop by then (deferred calls registered before this one, such as a cancel at the top, run after it): the function never returns").Path = c.P.PathStrings(bad)
				}
			})
		}
	}
	c.Stats[rule+".go_statements"] = nGo
	c.Stats[rule+".joins"] = nJoin
	c.Stats[rule+".joins_checked"] = nChecked
	c.Floor(rule, "go statements in scope", nGo, minGo)
	c.Floor(rule, "waits for a helper that depends on its starter", nChecked, minChecked)
}

var _ = sort.Strings

// ---- one result, one receive -------------------------------------------------------------------------

// onlySelectCase keeps, of the dispatch that follows a select statement, the edges of case idx only.
func onlySelectCase(sel *ssa.Select, idx int) func(from, to *ssa.BasicBlock) bool {
	return func(from, to *ssa.BasicBlock) bool {
		if len(from.Instrs) == 0 || len(from.Succs) != 2 {
			return false
		}
		iff, ok := from.Instrs[len(from.Instrs)-1].(*ssa.If)
		if !ok {
			return false
		}
		bo, ok := iff.Cond.(*ssa.BinOp)
		if !ok || bo.Op != token.EQL {
			return false
		}
		ex, ok := bo.X.(*ssa.Extract)
		if !ok || ex.Tuple != ssa.Value(sel) || ex.Index != 0 {
			return false
		}
		k, isC := core.ConstInt(bo.Y)
		if !isC {
			return false
		}
		if int(k) == idx {
			return to == from.Succs[1] // skip 'not this case'
		}
		return to == from.Succs[0] // skip 'another case'
	}
}

// ruleOneResultOneReceive (R16.9): in top (a wounds consumer's Do), a channel made there on which a goroutine
// started there sends its single result is received from at most once on any path: a function literal that
// receives from it (in a select case, say) leaves with a non-nil error on every path from that receive, the
// caller returns on that error before it can receive again, and a receive in top itself is followed by no
// other. A second receive waits for a result that never comes.
func ruleOneResultOneReceive(c *core.Ctx, rule string, top *ssa.Function) {
	c.Rule(rule, "the single result of a helper goroutine is received at most once on any path")
	if top == nil {
		c.Missing(rule, "wounds consumer Do", "not found")
		return
	}
	// result channels: made in top, sent on by a literal started with go
	goLits := map[*ssa.Function]bool{}
	core.Instrs(top, func(in ssa.Instruction) {
		if g, ok := in.(*ssa.Go); ok {
			if mc, ok := g.Call.Value.(*ssa.MakeClosure); ok {
				if f, ok := mc.Fn.(*ssa.Function); ok {
					goLits[f] = true
				}
			}
		}
	})
	chanRoot := func(v ssa.Value) ssa.Value {
		v = core.CellRoot(v)
		if ld, ok := v.(*ssa.UnOp); ok && ld.Op == token.MUL {
			r := core.CellRoot(ld.X)
			if a, ok := r.(*ssa.Alloc); ok {
				for _, st := range core.CellStores(a) {
					if mk, ok := st.Val.(*ssa.MakeChan); ok {
						return mk
					}
				}
			}
			return r
		}
		return v
	}
	results := map[ssa.Value]bool{}
	for lit := range goLits {
		sends := 0
		var ch ssa.Value
		core.Instrs(lit, func(in ssa.Instruction) {
			if s, ok := in.(*ssa.Send); ok {
				sends++
				ch = chanRoot(s.Chan)
			}
		})
		if sends == 1 && ch != nil {
			if _, isMk := ch.(*ssa.MakeChan); isMk {
				results[ch] = true
			}
		}
	}
	type recv struct {
		fn  *ssa.Function
		in  ssa.Instruction
		sel *ssa.Select
		idx int
	}
	var recvs []recv
	for _, f := range core.WithAnons(top) {
		if goLits[f] {
			continue
		}
		core.Instrs(f, func(in ssa.Instruction) {
			switch x := in.(type) {
			case *ssa.UnOp:
				if x.Op == token.ARROW && results[chanRoot(x.X)] {
					recvs = append(recvs, recv{f, in, nil, -1})
				}
			case *ssa.Select:
				for i, st := range x.States {
					if st.Dir == types.RecvOnly && results[chanRoot(st.Chan)] {
						recvs = append(recvs, recv{f, in, x, i})
					}
				}
			}
		})
	}
	isRecvOrCallOfReceiver := func(self ssa.Instruction) ipred {
		return func(in ssa.Instruction) bool {
			if self != nil && in == self {
				return false
			}
			for _, r := range recvs {
				if r.in == in {
					return true
				}
			}
			if cl, ok := in.(*ssa.Call); ok {
				for _, r := range recvs {
					if r.fn != top && calledFunc(cl) == r.fn {
						return true
					}
				}
			}
			return false
		}
	}
	for _, r := range recvs {
		var skip func(from, to *ssa.BasicBlock) bool
		if r.sel != nil {
			skip = onlySelectCase(r.sel, r.idx)
		}
		if r.fn == top {
			p := core.FindPathSkipping(top, r.in, isRecvOrCallOfReceiver(r.in), nil, skip)
			c.Check(p == nil, rule, core.FnName(top), "no second receive after the result was taken", core.InstrPos(r.in),
				"no path from this receive reaches another receive of the same result", "after this receive the function can receive from the result channel again: the goroutine sends once, the second receive blocks for ever").Path = c.P.PathStrings(p)
			continue
		}
		// in a literal: can it hand back nil after taking the result?
		success := map[*ssa.Return]bool{}
		for _, rs := range successReturns(r.fn) {
			success[rs.Ret] = true
		}
		var mayNil []ssa.Instruction
		for ret := range success {
			if p := core.FindPathSkipping(r.fn, r.in, isInstr(ret), nil, skip); p != nil {
				mayNil = p
			}
		}
		// its caller: after the call no further receive of the result is reached - on any outcome when the
		// literal can return nil after the receive, on the non-nil outcome otherwise (the nil outcome then
		// means the literal left through a path that did not take the result)
		nCalls := 0
		core.Instrs(top, func(in ssa.Instruction) {
			cl, ok := in.(*ssa.Call)
			if !ok || calledFunc(cl) != r.fn {
				return
			}
			nCalls++
			var skipNil func(b, s2 *ssa.BasicBlock) bool
			if mayNil == nil {
				skipNil = func(b, s2 *ssa.BasicBlock) bool { return nilOutcomeEdge(cl, b, s2) }
			}
			p := core.FindPathSkipping(top, cl, isRecvOrCallOfReceiver(nil), nil, skipNil)
			o := c.Check(p == nil, rule, core.FnName(top), "no further receive of the result after the call of the literal that takes it", core.InstrPos(cl),
				"the literal leaves with an error once it has taken the result and the caller returns on it (or the caller returns whatever the literal hands back)",
				"a literal called here can take the helper goroutine's result and the caller can still come to receive it again (the literal can return nil after the receive - the goroutine reports nil when its context is cancelled - or the caller goes on after the literal's error): the goroutine sends once, so that receive waits for ever and Do, and with it the validation, never returns")
			if p != nil {
				o.Path = append(c.P.PathStrings(mayNil), c.P.PathStrings(p)...)
			}
		})
		if nCalls == 0 {
			c.Bad(rule, core.FnName(r.fn), "literal that receives the result is called from "+core.FnName(top), core.InstrPos(r.in), "a literal receives the helper goroutine's result but no call of it was found in the function that started the goroutine")
		}
	}
	c.Floor(rule, "receives of a helper goroutine's single result in "+core.FnName(top), len(recvs), 2)
}

// calledFunc: the function literal (or function) a call invokes, through a closure value or a local that holds it.
func calledFunc(cl *ssa.Call) *ssa.Function {
	for _, o := range core.Origins(cl.Call.Value) {
		switch x := o.(type) {
		case *ssa.MakeClosure:
			if f, ok := x.Fn.(*ssa.Function); ok {
				return f
			}
		case *ssa.Function:
			return x
		}
	}
	return nil
}
