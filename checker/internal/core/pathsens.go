package core

import (
	"fmt"
	"go/token"
	"sort"
	"strings"

	"golang.org/x/tools/go/ssa"
)

// Path sensitivity for flag-like variables. A variable that is set on some
// paths and tested later (`var op *SyncOp; if fresh { op = read() } ... if op
// == nil`, `ok := false ... if ok`, a merged `err`) is a phi in SSA form; a
// search that forgets which way it came reports paths that cannot happen. The
// walk therefore remembers, for every phi that some branch of the function
// tests (as a boolean, or against nil), over which incoming edge it was last
// entered, and follows only the feasible outcome of a later test when the
// incoming value decides it (a constant, a constant nil, a known non-nil
// error, or a value tested on the way in).

// The same is done for a local variable that lives in a memory cell only because a function literal reads it
// (`op` captured by a `readOp := func() error {...}`): when every store to the cell is in the function itself
// and its address goes nowhere else, the walk remembers which store it passed last (0: the zero value the
// cell was made with) and decides a later `if op == nil` from that.

type binds map[ssa.Value]int

type cellEvent struct {
	cell *ssa.Alloc
	idx  int // 0: the cell is made (zero value); k > 0: cellVals[cell][k] is stored
	at   int // index of the instruction in its block
}

type phiInfo struct {
	order   map[*ssa.Phi]int
	byBlock map[*ssa.BasicBlock][]*ssa.Phi
	// tracked cells
	cellOrder map[*ssa.Alloc]int
	cellVals  map[*ssa.Alloc][]ssa.Value
	cellEv    map[*ssa.BasicBlock][]cellEvent
}

var phiInfos = map[*ssa.Function]*phiInfo{}

// StoredHere resolves a load of a local cell (a named result or a variable
// that a closure captures) to the value stored into the same cell earlier in
// the same block, when nothing in between can have changed it; other values are
// returned unchanged. `err = f(); if err != nil` on a captured err is
// store-then-load in SSA form.
func StoredHere(v ssa.Value) ssa.Value {
	ld, ok := v.(*ssa.UnOp)
	if !ok || ld.Op != token.MUL {
		return v
	}
	if _, isAlloc := ld.X.(*ssa.Alloc); !isAlloc {
		if _, isFV := ld.X.(*ssa.FreeVar); !isFV {
			return v
		}
	}
	b := ld.Block()
	if b == nil {
		return v
	}
	i := idxIn(ld)
	for j := i - 1; j >= 0; j-- {
		switch x := b.Instrs[j].(type) {
		case *ssa.Store:
			if x.Addr == ld.X {
				return x.Val
			}
			if _, isAlloc := x.Addr.(*ssa.Alloc); isAlloc {
				continue // a store to a different local cell
			}
			if _, isFV := x.Addr.(*ssa.FreeVar); isFV {
				continue
			}
			switch x.Addr.(type) {
			case *ssa.FieldAddr, *ssa.IndexAddr:
				continue // a field or element, not a whole variable
			}
			return v
		case *ssa.Call, *ssa.Defer, *ssa.Go, *ssa.RunDefers, *ssa.Select, *ssa.Send:
			return v // may run code that assigns the variable
		}
	}
	return v
}

func phiInfoOf(fn *ssa.Function) *phiInfo {
	if pi, ok := phiInfos[fn]; ok {
		return pi
	}
	pi := &phiInfo{order: map[*ssa.Phi]int{}, byBlock: map[*ssa.BasicBlock][]*ssa.Phi{}}
	phiInfos[fn] = pi
	var mark func(v ssa.Value)
	mark = func(v ssa.Value) {
		v = StoredHere(v)
		phi, ok := v.(*ssa.Phi)
		if !ok {
			return
		}
		if _, done := pi.order[phi]; done {
			return
		}
		pi.order[phi] = len(pi.order)
		pi.byBlock[phi.Block()] = append(pi.byBlock[phi.Block()], phi)
		for _, e := range phi.Edges {
			mark(e)
		}
	}
	var root func(c ssa.Value)
	root = func(c ssa.Value) {
		switch c := c.(type) {
		case *ssa.Phi:
			mark(c)
		case *ssa.UnOp:
			if c.Op == token.NOT {
				root(c.X)
			}
		case *ssa.BinOp:
			if c.Op == token.EQL || c.Op == token.NEQ {
				if IsNilConst(c.Y) {
					mark(c.X)
				} else if IsNilConst(c.X) {
					mark(c.Y)
				}
			}
		}
	}
	for _, b := range fn.Blocks {
		if len(b.Instrs) == 0 {
			continue
		}
		if ifi, ok := b.Instrs[len(b.Instrs)-1].(*ssa.If); ok {
			root(ifi.Cond)
		}
	}
	// cells that a branch tests against nil
	pi.cellOrder = map[*ssa.Alloc]int{}
	pi.cellVals = map[*ssa.Alloc][]ssa.Value{}
	pi.cellEv = map[*ssa.BasicBlock][]cellEvent{}
	cand := map[*ssa.Alloc]bool{}
	for _, b := range fn.Blocks {
		if len(b.Instrs) == 0 {
			continue
		}
		ifi, ok := b.Instrs[len(b.Instrs)-1].(*ssa.If)
		if !ok {
			continue
		}
		c := ifi.Cond
		if u, ok := c.(*ssa.UnOp); ok && u.Op == token.NOT {
			c = u.X
		}
		bo, ok := c.(*ssa.BinOp)
		if !ok || (bo.Op != token.EQL && bo.Op != token.NEQ) {
			continue
		}
		var other ssa.Value
		if IsNilConst(bo.Y) {
			other = bo.X
		} else if IsNilConst(bo.X) {
			other = bo.Y
		} else {
			continue
		}
		if ld, ok := other.(*ssa.UnOp); ok && ld.Op == token.MUL {
			if a, ok := ld.X.(*ssa.Alloc); ok && a.Heap && a.Parent() == fn {
				cand[a] = true
			}
		}
	}
	for a := range cand {
		ok := true
		for _, u := range CellUses(a) {
			switch x := u.(type) {
			case *ssa.UnOp:
				if x.Op != token.MUL {
					ok = false
				}
			case *ssa.Store:
				if CellRoot(x.Addr) != ssa.Value(a) || x.Parent() != fn {
					ok = false // the address is stored somewhere, or a literal assigns the variable
				}
			case *ssa.DebugRef:
			default:
				ok = false
			}
		}
		if !ok {
			continue
		}
		pi.cellOrder[a] = len(pi.cellOrder)
		pi.cellVals[a] = []ssa.Value{nil}
	}
	if len(pi.cellOrder) > 0 {
		for _, b := range fn.Blocks {
			for i, in := range b.Instrs {
				switch x := in.(type) {
				case *ssa.Alloc:
					if _, tracked := pi.cellOrder[x]; tracked {
						pi.cellEv[b] = append(pi.cellEv[b], cellEvent{x, 0, i})
					}
				case *ssa.Store:
					if a, isA := x.Addr.(*ssa.Alloc); isA {
						if _, tracked := pi.cellOrder[a]; tracked {
							pi.cellVals[a] = append(pi.cellVals[a], x.Val)
							pi.cellEv[b] = append(pi.cellEv[b], cellEvent{a, len(pi.cellVals[a]) - 1, i})
						}
					}
				}
			}
		}
	}
	return pi
}

var (
	bindIDs  = map[string]int{"": 0}
	bindSets = []binds{nil}
	stepMemo = map[stepKey]int{}
)

type stepKey struct {
	id       int
	from, to *ssa.BasicBlock
}

// bindID interns a set of bindings.
func bindID(fn *ssa.Function, bd binds) int {
	if len(bd) == 0 {
		return 0
	}
	pi := phiInfoOf(fn)
	parts := make([]string, 0, len(bd))
	for p, i := range bd {
		switch k := p.(type) {
		case *ssa.Phi:
			parts = append(parts, fmt.Sprintf("%04d:%d", pi.order[k], i))
		case *ssa.Alloc:
			parts = append(parts, fmt.Sprintf("c%04d:%d", pi.cellOrder[k], i))
		}
	}
	sort.Strings(parts)
	k := fmt.Sprintf("%p|", fn) + strings.Join(parts, ",")
	if id, ok := bindIDs[k]; ok {
		return id
	}
	if len(bindSets) > 200000 {
		return 0 // budget exhausted: forget (sound: more paths)
	}
	id := len(bindSets)
	bindSets = append(bindSets, bd)
	bindIDs[k] = id
	return id
}

// stepBinds returns the bindings after control passes from block from to to.
func stepBinds(bk int, from, to *ssa.BasicBlock) int {
	fn := to.Parent()
	pi := phiInfoOf(fn)
	phis := pi.byBlock[to]
	evs := pi.cellEv[from]
	if len(phis) == 0 && len(evs) == 0 {
		return bk
	}
	sk := stepKey{bk, from, to}
	if id, ok := stepMemo[sk]; ok {
		return id
	}
	old := bindSets[bk]
	nb := make(binds, len(old)+len(phis)+len(evs))
	for k, v := range old {
		nb[k] = v
	}
	// the block that is left has run to its end: the last store to each tracked cell in it counts
	for _, ev := range evs {
		nb[ev.cell] = ev.idx
	}
	idx, n := -1, 0
	for i, pr := range to.Preds {
		if pr == from {
			idx = i
			n++
		}
	}
	for _, phi := range phis {
		if n == 1 && idx < len(phi.Edges) {
			nb[phi] = idx
		} else {
			delete(nb, phi)
		}
	}
	id := bindID(fn, nb)
	stepMemo[sk] = id
	return id
}

// evalCondBinds evaluates a branch condition under the bindings, if they decide it.
func evalCondBinds(c ssa.Value, bd binds, depth int) (val, known bool) {
	if depth > 6 {
		return false, false
	}
	c = StoredHere(c)
	switch c := c.(type) {
	case *ssa.Const:
		return ConstBool(c)
	case *ssa.Phi:
		idx, ok := bd[c]
		if !ok {
			return false, false
		}
		in := c.Edges[idx]
		if ph, isPhi := in.(*ssa.Phi); isPhi && ph.Block() == c.Block() {
			return false, false // simultaneous assignment: the other phi's previous value
		}
		if v, known := evalCondBinds(in, bd, depth+1); known {
			return v, true
		}
		// tested on the way in
		pred := c.Block().Preds[idx]
		for _, g := range append(directGuardsOfEdge(pred, c.Block()), plainGuards(pred)...) {
			if g.Cond == in {
				return g.Val, true
			}
		}
		return false, false
	case *ssa.UnOp:
		if c.Op == token.NOT {
			v, ok := evalCondBinds(c.X, bd, depth+1)
			return !v, ok
		}
	case *ssa.BinOp:
		if c.Op != token.EQL && c.Op != token.NEQ {
			return false, false
		}
		var other ssa.Value
		if IsNilConst(c.Y) {
			other = c.X
		} else if IsNilConst(c.X) {
			other = c.Y
		} else {
			return false, false
		}
		isNil, known := nilnessBinds(other, bd, depth+1)
		if !known {
			return false, false
		}
		return (c.Op == token.EQL) == isNil, true
	}
	return false, false
}

func nilnessBinds(v ssa.Value, bd binds, depth int) (isNil, known bool) {
	if depth > 6 {
		return false, false
	}
	// a load of a tracked cell: the last store before it in its block, else the store the walk passed last
	if ld, ok := v.(*ssa.UnOp); ok && ld.Op == token.MUL {
		if a, ok := ld.X.(*ssa.Alloc); ok && a.Parent() != nil {
			pi := phiInfoOf(a.Parent())
			if vals, tracked := pi.cellVals[a]; tracked && ld.Block() != nil {
				idx, have := -1, false
				at := idxIn(ld)
				for _, ev := range pi.cellEv[ld.Block()] {
					if ev.cell == a && ev.at < at {
						idx, have = ev.idx, true
					}
				}
				if !have {
					idx, have = bd[a]
				}
				if !have || idx < 0 || idx >= len(vals) {
					return false, false
				}
				if idx == 0 {
					return true, true // the zero value the cell was made with
				}
				sv := vals[idx]
				if IsNilConst(sv) {
					return true, true
				}
				switch sv.(type) {
				case *ssa.Alloc, *ssa.MakeInterface, *ssa.MakeClosure, *ssa.MakeMap, *ssa.MakeChan, *ssa.MakeSlice, *ssa.FieldAddr, *ssa.IndexAddr:
					return false, true
				}
				if possible, known := MayBeNil(sv); known && !possible {
					return false, true
				}
				return false, false
			}
		}
	}
	v = StoredHere(v)
	if IsNilConst(v) {
		return true, true
	}
	phi, ok := v.(*ssa.Phi)
	if !ok {
		return false, false
	}
	idx, ok := bd[phi]
	if !ok {
		return false, false
	}
	in := phi.Edges[idx]
	if IsNilConst(in) {
		return true, true
	}
	if ph, isPhi := in.(*ssa.Phi); isPhi {
		if ph.Block() == phi.Block() {
			return false, false
		}
		return nilnessBinds(ph, bd, depth+1)
	}
	if possible, known := MayBeNil(in); known && !possible {
		return false, true
	}
	switch in.(type) {
	case *ssa.Alloc, *ssa.MakeInterface, *ssa.MakeClosure, *ssa.MakeMap, *ssa.MakeChan, *ssa.MakeSlice, *ssa.FieldAddr, *ssa.IndexAddr:
		return false, true // addresses and freshly made values are not nil
	}
	pred := phi.Block().Preds[idx]
	for _, g := range append(directGuardsOfEdge(pred, phi.Block()), plainGuards(pred)...) {
		bo, ok := g.Cond.(*ssa.BinOp)
		if !ok || (bo.Op != token.EQL && bo.Op != token.NEQ) {
			continue
		}
		var t ssa.Value
		if IsNilConst(bo.Y) {
			t = bo.X
		} else if IsNilConst(bo.X) {
			t = bo.Y
		}
		if t != nil && t == in {
			return (bo.Op == token.EQL) == g.Val, true
		}
	}
	return false, false
}
