package rules

import (
	"fmt"
	"go/token"
	"go/types"
	"sort"
	"strings"

	"golang.org/x/tools/go/ssa"

	"wharfverif/checker/internal/core"
)

func init() {
	register(&Property{
		ID: "C05",
		Explanation: `R05.1 the block validator declares a block healthy (CLOSED_FILE / nil) only under blockIndex < len(hashGroup) and bytes.Equal(signed strong hash, hash of the data), in both sibling functions; ` +
			`R05.2 every FILE/CLOSED_FILE Wound literal has Start <= End by construction (Start zero, End = Start + block size, or an ordering guard on the same two operands); ` +
			`R05.3 after a successful copy a comparison of the copied byte count with file.Size controls a FILE wound for both 'shorter' and 'longer'; ` +
			`R05.4 the aggregator never loses a wound: on every path through its loop body the incoming wound is kept, merged or forwarded, the pending wound is forwarded before it is replaced, and flushed before close; ` +
			`R05.5 the dir / symlink / file passes contain the deviation tests the property enumerates, each controlling a wound emission; ` +
			`R05.6 every success return of the per-file check has passed a FILE wound emission or the copy of the file into the validating writer (no shortcut declares content valid unseen). ` +
			`R05.8 Wound.Healthy() answers true only where Kind == CLOSED_FILE holds (every consumer skips healthy wounds). ` +
			`R05.3 also: on each outcome of the size test after the copy every path to a success return emits a FILE wound and the wound made there spans [copied, size) resp. [size, copied) with those very values; R18.7 (shared) each file's hash group ends with the file's last block. ` +
			`R05.9 HasWounds answers from a field that Do sets (a flag, or a counter increased by a positive constant) on every path from the outcome !Healthy(). R18.2 (shared) the validating pool's block index advances once on every accepting path of the validate closure (in wound mode it decides which range a wound names). R18.8 (shared) the strong hash the hashing context returns is computed in that call, never taken out of a field, captured or package variable, or map. R05.10 the aggregator merges an incoming wound into the pending one only behind a test that fixes the incoming kind to ONE constant - the same that guards every assignment of the pending wound - or with the two kinds compared equal. NOT decided: that wounds cover every differing offset (block-size arithmetic, drip boundaries), interplay of last-block and size checks.`,
		Assumptions: []string{"wound emission sites are sends (plain or in a select) on ValidatorContext.Wounds, directly or through a local closure that sends unconditionally"},
		Run:         runC05,
	})
}

// woundKinds returns name -> value of the pwr.WoundKind constants.
func woundKinds(p *core.Prog) map[string]int64 {
	out := map[string]int64{}
	pk := p.Pkg("pwr")
	if pk == nil {
		return out
	}
	for _, n := range pk.Types.Scope().Names() {
		if k, ok := pk.Types.Scope().Lookup(n).(*types.Const); ok && strings.HasPrefix(n, "WoundKind_") {
			if v, ok := constInt64(k); ok {
				out[strings.TrimPrefix(n, "WoundKind_")] = v
			}
		}
	}
	return out
}

// litField returns the value stored into field `name` of the struct allocated
// by a (complit / new), and whether a store was found.
func litField(a *ssa.Alloc, name string) (ssa.Value, bool) {
	var val ssa.Value
	found := false
	if refs := a.Referrers(); refs != nil {
		for _, r := range *refs {
			fa, ok := r.(*ssa.FieldAddr)
			if !ok {
				continue
			}
			if _, n, _ := core.FieldOf(fa); n != name {
				continue
			}
			if frefs := fa.Referrers(); frefs != nil {
				for _, fr := range *frefs {
					if st, ok := fr.(*ssa.Store); ok && st.Addr == fa {
						val, found = st.Val, true
					}
				}
			}
		}
	}
	return val, found
}

// woundLits lists the allocations of pwr.Wound in fn with their constant Kind (-1 if not constant; 0 if unset).
type woundLit struct {
	fn    *ssa.Function
	alloc *ssa.Alloc
	kind  int64
}

func woundLits(p *core.Prog) []woundLit {
	var out []woundLit
	for _, fn := range p.SrcFuncs() {
		if strings.HasSuffix(fn.Name(), "_test") {
			continue
		}
		core.Instrs(fn, func(in ssa.Instruction) {
			a, ok := in.(*ssa.Alloc)
			if !ok || core.TypeName(a.Type()) != "pwr.Wound" {
				return
			}
			// skip parameter spills
			if !isLitAlloc(a) {
				return
			}
			if v, ok := litField(a, "Kind"); ok {
				// one entry per constant the kind can be (a constant, or chosen among constants)
				cs := constCases(v, a)
				if len(cs) == 0 {
					// a local literal that takes the kind as a parameter: the kinds its callers pass
					if prm, ok := core.StripConv(v).(*ssa.Parameter); ok && fn.Parent() != nil {
						idx := -1
						for i, q := range fn.Params {
							if q == prm {
								idx = i
							}
						}
						for _, g := range core.WithAnons(family(fn)) {
							core.Instrs(g, func(x ssa.Instruction) {
								cl, ok := x.(*ssa.Call)
								if !ok || localCallee(cl) != fn || idx < 0 || idx >= len(cl.Call.Args) {
									return
								}
								cs = append(cs, constCases(cl.Call.Args[idx], cl)...)
							})
						}
					}
				}
				if len(cs) == 0 {
					out = append(out, woundLit{fn, a, -1})
				}
				done := map[int64]bool{}
				for _, x := range cs {
					if !done[x.k] {
						done[x.k] = true
						out = append(out, woundLit{fn, a, x.k})
					}
				}
				return
			}
			out = append(out, woundLit{fn, a, 0})
		})
	}
	return out
}

func runC05(c *core.Ctx) {
	c.Rule("R05.1", "healthy verdict only under index-in-range and strong-hash equality (both siblings)")
	c.Rule("R05.2", "FILE/CLOSED_FILE wound literals have Start <= End by construction")
	c.Rule("R05.3", "size mismatch after a successful copy controls a FILE wound, both directions")
	c.Rule("R05.4", "aggregation loses no wound")
	c.Rule("R05.5", "classification table: each enumerated deviation test controls a wound emission")
	c.Rule("R05.6", "no file is passed unseen")
	ruleWoundsAreOwnedByTheMessage(c, "R05.7")
	kinds := woundKinds(c.P)
	if len(kinds) < 4 {
		c.Missing("R05", "pwr.WoundKind_*", "wound kind constants not found")
		return
	}

	ruleHealthyVerdict(c, kinds, false)
	ruleOnlyMarkersAreHealthy(c, "R05.8", kinds)
	ruleHasWoundsCountsEveryWound(c, "R05.9")
	ruleHashGroupsHaveTheirLength(c, "R18.7")

	// ---- R05.2
	nLits := 0
	for _, wl := range woundLits(c.P) {
		if wl.kind != kinds["FILE"] && wl.kind != kinds["CLOSED_FILE"] {
			continue
		}
		nLits++
		start, hasStart := litField(wl.alloc, "Start")
		end, hasEnd := litField(wl.alloc, "End")
		construct := fmt.Sprintf("Wound{Start: %s, End: %s}", describeOr(start, hasStart, "0"), describeOr(end, hasEnd, "0"))
		ok, why := false, ""
		if !hasStart {
			ok, why = true, "Start is zero"
		} else if z, isC := core.ConstInt(start); isC && z == 0 {
			ok, why = true, "Start is the constant 0"
		}
		if !ok && hasEnd {
			if bo, isB := core.StripConv(end).(*ssa.BinOp); isB && bo.Op == token.ADD {
				for _, pair := range [][2]ssa.Value{{bo.X, bo.Y}, {bo.Y, bo.X}} {
					if sameExpr(pair[0], start) && isBlockSizeValue(pair[1]) {
						ok, why = true, "End = Start + a block size"
					}
				}
			}
		}
		if !ok && hasEnd {
			ok = hasGuard(wl.alloc, func(g core.Guard) bool {
				bo, isB := g.Cond.(*ssa.BinOp)
				if !isB {
					return false
				}
				lt := func(a, b ssa.Value) bool { return sameExpr(a, start) && sameExpr(b, end) } // a < b
				switch bo.Op {
				case token.LSS, token.LEQ:
					return (g.Val && lt(bo.X, bo.Y)) || (!g.Val && bo.Op == token.LSS && lt(bo.Y, bo.X))
				case token.GTR, token.GEQ:
					return (g.Val && lt(bo.Y, bo.X)) || (!g.Val && bo.Op == token.GTR && lt(bo.X, bo.Y))
				}
				return false
			})
			why = "dominated by an ordering guard on the same two operands"
		}
		c.Check(ok, "R05.2", core.FnName(wl.fn), construct, core.InstrPos(wl.alloc), why,
			"nothing orders Start and End of this wound (a != guard does not): the range can have Start > End")
	}
	c.Floor("R05.2", "FILE/CLOSED_FILE wound literals", nLits, 2)

	ruleDeviationTable(c, kinds)
	ruleAggregationLosesNothing(c, kinds)
	ruleMergedWoundsShareAKind(c, "R05.10")
	ruleBlockIndexAdvances(c)
	ruleStrongHashIsComputedEachTime(c, "R18.8")
}

func describeOr(v ssa.Value, has bool, def string) string {
	if !has {
		return def
	}
	return core.Describe(v)
}

// isBlockSizeValue: result of ComputeBlockSize or of a method that returns it.
func isBlockSizeValue(v ssa.Value) bool {
	for _, o := range core.Origins(v) {
		cl, ok := o.(*ssa.Call)
		if !ok {
			return false
		}
		n := core.CalleeName(cl)
		if n == "pwr.ComputeBlockSize" {
			continue
		}
		// wrapper: a module function whose every return is a ComputeBlockSize result
		var f *ssa.Function
		if sc := cl.Call.StaticCallee(); sc != nil {
			f = sc
		} else if cl.Call.IsInvoke() && cl.Call.Method.Name() == "BlockSize" {
			continue // BlockValidator.BlockSize: checked where it is implemented (below)
		}
		if f == nil || f.Blocks == nil {
			return false
		}
		for _, rs := range core.Returns(f, 0) {
			for _, ro := range core.Origins(rs.Val) {
				rc, ok := ro.(*ssa.Call)
				if !ok || core.CalleeName(rc) != "pwr.ComputeBlockSize" {
					return false
				}
			}
		}
	}
	return true
}

// guardTokens classifies a branch outcome by the API results it tests.
func guardTokens(g core.Guard) []string {
	var out []string
	var originCall func(v ssa.Value) string
	originCall = func(v ssa.Value) string {
		for _, o := range core.Origins(v) {
			if ex, ok := o.(*ssa.Extract); ok {
				if cl, ok := ex.Tuple.(*ssa.Call); ok {
					return core.CalleeName(cl)
				}
			}
			if cl, ok := o.(*ssa.Call); ok {
				n := core.CalleeName(cl)
				// the cause of an error is that error, as far as its origin goes
				if (n == "github.com/pkg/errors.Cause" || n == "errors.Unwrap") && len(cl.Call.Args) == 1 {
					return originCall(cl.Call.Args[0])
				}
				return n
			}
		}
		return ""
	}
	switch x := g.Cond.(type) {
	case *ssa.Call:
		n := core.CalleeName(x)
		switch {
		case x.Call.IsInvoke() && x.Call.Method.Name() == "IsDir":
			if g.Val {
				out = append(out, "IsDir")
			} else {
				out = append(out, "!IsDir")
			}
		case n == "pwr.isMissing" || n == "pwr.IsNotExist" || n == "os.IsNotExist":
			if g.Val && len(x.Call.Args) == 1 {
				src := originCall(x.Call.Args[0])
				switch {
				case strings.HasSuffix(src, "os.Lstat"):
					out = append(out, "missing(Lstat)")
				case strings.HasSuffix(src, "os.Readlink"):
					out = append(out, "missing(Readlink)")
				}
			}
		}
	case *ssa.BinOp:
		// Mode()&ModeSymlink ==/!= 0
		if and, ok := x.X.(*ssa.BinOp); ok && and.Op == token.AND && (x.Op == token.EQL || x.Op == token.NEQ) {
			if z, isC := core.ConstInt(x.Y); isC && z == 0 {
				if m, isM := core.ConstInt(and.Y); isM && m == int64(1<<27) {
					eq := (x.Op == token.EQL) == g.Val
					if eq {
						out = append(out, "ModeSymlink==0")
					} else {
						out = append(out, "ModeSymlink!=0")
					}
				}
			}
		}
		if (x.Op == token.NEQ || x.Op == token.EQL) && core.IsNilConst(x.Y) {
			if (x.Op == token.NEQ) == g.Val {
				if src := originCall(x.X); strings.HasSuffix(src, ".GetReader") {
					out = append(out, "openerr")
				}
			}
		}
		if x.Op == token.NEQ && g.Val || x.Op == token.EQL && !g.Val {
			for _, pair := range [][2]ssa.Value{{x.X, x.Y}, {x.Y, x.X}} {
				if strings.HasSuffix(originCall(pair[0]), "os.Readlink") && strings.HasSuffix(originCall(pair[1]), "filepath.FromSlash") {
					out = append(out, "dest!=")
				}
			}
		}
		// copied vs size
		isCopied := func(v ssa.Value) bool { return strings.HasSuffix(originCall(v), "io.Copy") }
		isSize := func(v ssa.Value) bool { _, n, ok := core.FieldOf(v); return ok && n == "Size" }
		var op token.Token
		switch {
		case isCopied(x.X) && isSize(x.Y):
			op = x.Op
		case isSize(x.X) && isCopied(x.Y):
			switch x.Op {
			case token.LSS:
				op = token.GTR
			case token.GTR:
				op = token.LSS
			case token.LEQ:
				op = token.GEQ
			case token.GEQ:
				op = token.LEQ
			default:
				op = x.Op
			}
		}
		switch {
		case op == token.LSS && g.Val, op == token.GEQ && !g.Val:
			out = append(out, "copied<size")
		case op == token.GTR && g.Val, op == token.LEQ && !g.Val:
			out = append(out, "copied>size")
		case op == token.NEQ && g.Val, op == token.EQL && !g.Val:
			out = append(out, "copied!=size")
		}
	}
	return out
}

// ruleWoundsAreOwnedByTheMessage (R05.7, shared with C06): a *Wound sent on a channel is read later, by
// another goroutine (the aggregator keeps the pointer until the next wound arrives). The object must
// therefore be the message's own: allocated in the sending function and allocated anew before the send can
// happen again - not a variable that outlives the call (captured from an enclosing function) or is reused
// across iterations, which the sender overwrites while the receiver still holds it.
func ruleWoundsAreOwnedByTheMessage(c *core.Ctx, rule string) {
	c.Rule(rule, "a wound that is sent is not a variable the sender overwrites later")
	n := 0
	for _, fn := range c.P.SrcFuncs() {
		if !strings.HasSuffix(core.PkgPathOf(fn), "/pwr") {
			continue
		}
		core.Instrs(fn, func(in ssa.Instruction) {
			var sent []ssa.Value
			switch x := in.(type) {
			case *ssa.Send:
				sent = append(sent, x.X)
			case *ssa.Select:
				for _, st := range x.States {
					if st.Send != nil {
						sent = append(sent, st.Send)
					}
				}
			}
			for _, v := range sent {
				if core.TypeName(v.Type()) != "pwr.Wound" {
					continue
				}
				if _, isPtr := v.Type().Underlying().(*types.Pointer); !isPtr {
					continue
				}
				for _, o := range core.Origins(v) {
					switch a := o.(type) {
					case *ssa.Alloc:
						n++
						own := a.Parent() == fn
						fresh := own && core.FindPath(fn, in, isInstr(in), isInstr(a)) == nil
						c.Check(own && fresh, rule, core.FnName(fn), "sent wound is a fresh object: "+core.Describe(v), core.InstrPos(in),
							"allocated in the sending function, anew before every send", "the wound that is sent is a variable that the sender can overwrite while the receiver still holds the pointer (it outlives the call, or is reused across iterations): the aggregator forwards whatever the variable holds by then")
					case *ssa.FreeVar:
						n++
						c.Bad(rule, core.FnName(fn), "sent wound is a fresh object: "+core.Describe(v), core.InstrPos(in),
							"the address of a variable captured from an enclosing function is sent: the next call overwrites it while the receiver still holds the pointer")
					}
				}
			}
		})
	}
	c.Floor(rule, "sends of the address of a local wound", n, 1)
}

// ruleHealthyVerdict is R05.1 (shared with C18: what the validating pool reports rests on these verdicts).
// emptyOnlyBeyond: whether an empty buffer excuses the verdict only beyond the signed block count (C09: the
// safekeeper hands the validator an empty buffer for a file cut on a block boundary) or anywhere (the
// validating pool's drip writer never validates an empty buffer, so there the path is dead).
func ruleHealthyVerdict(c *core.Ctx, kinds map[string]int64, emptyOnlyBeyond bool) {
	// ---- R05.1
	for _, name := range []string{"blockValidator.ValidateAsWound", "blockValidator.ValidateAsError"} {
		fn := c.P.Fn("pwr", name)
		if fn == nil {
			c.Missing("R05.1", "pwr."+name, "not found")
			continue
		}
		// a healthy verdict: a program point with the branch outcomes that hold there
		type verdict struct {
			at     ssa.Instruction
			guards []core.Guard
		}
		var healthy []verdict
		if strings.HasSuffix(name, "AsError") {
			for _, rs := range successReturns(fn) {
				healthy = append(healthy, verdict{rs.Ret, core.Guards(rs.Ret)})
			}
		} else {
			for _, rs := range core.Returns(fn, 0) {
				os := core.Origins(rs.Val)
				// a value built in place in a result temporary (an expanded helper's `__r = Wound{...}; return __r`):
				// what is returned is the load of that cell
				if len(rs.Ret.Results) > 0 && rs.Ret.Results[0] != rs.Val {
					os = append(os, rs.Ret.Results[0])
				}
				for _, o := range os {
					if ld, ok := o.(*ssa.UnOp); ok && ld.Op == token.MUL {
						o = ld.X
					}
					if a, ok := o.(*ssa.Alloc); ok {
						if v, ok := litField(a, "Kind"); ok {
							// the kind is a constant, or chosen among constants on the way here
							for _, cs := range constCases(v, rs.Ret) {
								if cs.k == kinds["CLOSED_FILE"] {
									healthy = append(healthy, verdict{rs.Ret, cs.guards})
								}
							}
						}
					}
					// the wound is made by a local literal that takes the kind as a parameter
					if cl, ok := o.(*ssa.Call); ok {
						if lit := localCallee(cl); lit != nil && lit.Parent() == fn {
							for _, lrs := range core.Returns(lit, 0) {
								for _, lo := range core.Origins(lrs.Val) {
									if ld, ok := lo.(*ssa.UnOp); ok && ld.Op == token.MUL {
										lo = ld.X
									}
									la, ok := lo.(*ssa.Alloc)
									if !ok {
										continue
									}
									kv, ok := litField(la, "Kind")
									if !ok {
										continue
									}
									for i, prm := range lit.Params {
										if core.StripConv(kv) == ssa.Value(prm) && i < len(cl.Call.Args) {
											for _, cs := range constCases(cl.Call.Args[i], rs.Ret) {
												if cs.k == kinds["CLOSED_FILE"] {
													healthy = append(healthy, verdict{rs.Ret, cs.guards})
												}
											}
										}
									}
								}
							}
						}
					}
				}
			}
		}
		if len(healthy) == 0 {
			c.Bad("R05.1", core.FnName(fn), "healthy verdict", fn.Pos(), "no healthy return found (anchor changed shape)")
			continue
		}
		dataParam := fn.Params[len(fn.Params)-1]
		for _, vd := range healthy {
			ret := vd.at
			hasGuard := func(_ ssa.Instruction, pred func(core.Guard) bool) bool {
				for _, g := range vd.guards {
					if pred(g) {
						return true
					}
				}
				return false
			}
			strong := hasGuard(ret, func(g core.Guard) bool {
				cl, ok := g.Cond.(*ssa.Call)
				if !ok || !g.Val || core.CalleeName(cl) != "bytes.Equal" {
					return false
				}
				var signed, computed bool
				for _, a := range cl.Call.Args {
					if _, n, ok := core.FieldOf(a); ok && n == "StrongHash" {
						signed = true
					}
					for _, o := range core.Origins(a) {
						if ex, ok := o.(*ssa.Extract); ok {
							if hc, ok := ex.Tuple.(*ssa.Call); ok && strings.HasSuffix(core.CalleeName(hc), ".HashBlock") {
								if len(hc.Call.Args) > 0 && hc.Call.Args[len(hc.Call.Args)-1] == ssa.Value(dataParam) {
									computed = true
								}
							}
						}
					}
				}
				return signed && computed
			})
			inRange := hasGuard(ret, func(g core.Guard) bool {
				bo, ok := g.Cond.(*ssa.BinOp)
				if !ok {
					return false
				}
				isLen := func(v ssa.Value) bool {
					cl, ok := core.StripConv(v).(*ssa.Call)
					if !ok {
						return false
					}
					b, ok := cl.Call.Value.(*ssa.Builtin)
					return ok && b.Name() == "len"
				}
				isIdx := func(v ssa.Value) bool { return core.StripConv(v) == ssa.Value(fn.Params[2]) }
				switch {
				case bo.Op == token.GEQ && isIdx(bo.X) && isLen(bo.Y):
					return !g.Val
				case bo.Op == token.LSS && isIdx(bo.X) && isLen(bo.Y):
					return g.Val
				case bo.Op == token.LEQ && isLen(bo.X) && isIdx(bo.Y):
					return !g.Val
				case bo.Op == token.GTR && isLen(bo.X) && isIdx(bo.Y):
					return g.Val
				}
				return false
			})
			// an EMPTY block beyond the signed count carries no data that could differ (a read at EOF of a file whose
			// size is a block multiple): declaring it healthy is not a violation
			emptyData := hasGuard(ret, func(g core.Guard) bool {
				bo, ok := g.Cond.(*ssa.BinOp)
				if !ok {
					return false
				}
				cl, ok := bo.X.(*ssa.Call)
				if !ok {
					return false
				}
				b, ok := cl.Call.Value.(*ssa.Builtin)
				z, isC := core.ConstInt(bo.Y)
				if !ok || b.Name() != "len" || cl.Call.Args[0] != ssa.Value(dataParam) || !isC || z != 0 {
					return false
				}
				return (bo.Op == token.EQL && g.Val) || (bo.Op == token.NEQ && !g.Val) || (bo.Op == token.GTR && !g.Val)
			})
			beyond := hasGuard(ret, func(g core.Guard) bool {
				bo, ok := g.Cond.(*ssa.BinOp)
				if !ok {
					return false
				}
				isLen := func(v ssa.Value) bool {
					cl, ok := core.StripConv(v).(*ssa.Call)
					if !ok {
						return false
					}
					b, ok := cl.Call.Value.(*ssa.Builtin)
					return ok && b.Name() == "len"
				}
				isIdx := func(v ssa.Value) bool { return core.StripConv(v) == ssa.Value(fn.Params[2]) }
				switch {
				case bo.Op == token.GEQ && isIdx(bo.X) && isLen(bo.Y):
					return g.Val
				case bo.Op == token.LSS && isIdx(bo.X) && isLen(bo.Y):
					return !g.Val
				case bo.Op == token.LEQ && isLen(bo.X) && isIdx(bo.Y):
					return g.Val
				case bo.Op == token.GTR && isLen(bo.X) && isIdx(bo.Y):
					return !g.Val
				}
				return false
			})
			// only there: an empty buffer where the signature has a block is a file that ends too early
			// (the safekeeper hands exactly that to the validator when a file is cut on a block boundary)
			if emptyData && (beyond || !emptyOnlyBeyond) {
				inRange, strong = true, true
			}
			c.Check(inRange, "R05.1", core.FnName(fn), "healthy verdict requires blockIndex < len(hashGroup)", core.InstrPos(ret),
				"return is control-dependent on the block index being inside the signed hash group",
				"a block beyond the signed block count can be declared healthy")
			c.Check(strong, "R05.1", core.FnName(fn), "healthy verdict requires strong-hash equality", core.InstrPos(ret),
				"return is control-dependent on bytes.Equal(signed StrongHash, HashBlock(data)) being true",
				"a block can be declared healthy without its strong hash having been compared with the signed one")
		}
	}

}

// ruleOnlyMarkersAreHealthy is R05.8: every consumer (guardian, writer, printer, the healer's tally) skips
// the wounds for which Healthy() is true. A DIR, SYMLINK or FILE wound is a reported deviation whatever its
// range - a missing file that was signed as empty is the FILE wound [0,0) - so Healthy() may answer true
// only for the kind that is a progress marker.
func ruleOnlyMarkersAreHealthy(c *core.Ctx, rule string, kinds map[string]int64) {
	c.Rule(rule, "only progress markers are healthy")
	fn := c.P.Fn("pwr", "Wound.Healthy")
	if fn == nil {
		c.Missing(rule, "pwr.(*Wound).Healthy", "not found")
		return
	}
	closed, ok := kinds["CLOSED_FILE"]
	if !ok {
		c.Missing(rule, "pwr.WoundKind_CLOSED_FILE", "not found")
		return
	}
	isKind := func(v ssa.Value) bool {
		for _, o := range core.Origins(v) {
			if _, n, ok := core.FieldOf(o); ok && n == "Kind" {
				return true
			}
		}
		return false
	}
	n := 0
	for _, rs := range core.Returns(fn, 0) {
		if rs.Val == nil {
			continue
		}
		for _, vc := range valueCases(rs.Val, rs.Ret) {
			n++
			if k, isB := core.ConstBool(vc.v); isB && !k {
				continue
			}
			okV := false
			// the comparison itself
			if condHolds(vc.v, true, token.EQL, isKind, isConstInt(closed)) {
				okV = true
			}
			for _, g := range vc.guards {
				if relHolds(g, token.EQL, isKind, isConstInt(closed)) {
					okV = true
				}
			}
			// a conjunction the comparison is part of: a && b is a phi in SSA form, handled by the case guards
			c.Check(okV, rule, core.FnName(fn), "a true answer implies Kind == CLOSED_FILE: "+core.Describe(vc.v), core.InstrPos(rs.Ret),
				"the value returned is the comparison of Kind with CLOSED_FILE, false, or is returned only where that comparison holds",
				"Healthy() can answer true for a wound of another kind: the consumers skip it, so a reported deviation (a missing file signed as empty is the FILE wound [0,0)) is neither printed, written, counted nor fatal in fail-fast mode")
		}
	}
	c.Floor(rule, "values returned by Healthy", n, 1)
}

// ruleDeviationTable is R05.5 / R05.3 / R05.6 (shared with C06: the healer repairs what the validator reports).
func ruleDeviationTable(c *core.Ctx, kinds map[string]int64) {
	c.Rule("R05.3", "size mismatch after a successful copy controls a FILE wound, both directions")
	c.Rule("R05.5", "classification table: each enumerated deviation test controls a wound emission")
	c.Rule("R05.6", "no file is passed unseen")
	// ---- R05.5 / R05.3: emission sites with their guard tokens
	validateFn := c.P.Fn("pwr", "ValidatorContext.Validate")
	worker := c.P.Fn("pwr", "ValidatorContext.validate")
	if validateFn == nil || worker == nil {
		c.Missing("R05.5", "pwr.(*ValidatorContext).Validate/validate", "not found")
		return
	}
	isWounds := func(v ssa.Value) bool {
		for _, r := range chanRoots(v) {
			if s, ok := r.(string); ok && s == "field:pwr.ValidatorContext.Wounds" {
				return true
			}
		}
		return false
	}
	kindOfVal := func(v ssa.Value) int64 {
		for _, o := range core.Origins(v) {
			if a, ok := o.(*ssa.Alloc); ok && core.TypeName(a.Type()) == "pwr.Wound" {
				if kv, ok := litField(a, "Kind"); ok {
					if k, isC := core.ConstInt(kv); isC {
						return k
					}
				}
				return 0
			}
		}
		return -1
	}
	// emitter closures: literals whose every path sends a wound
	emitter := map[*ssa.Function]int64{}
	sendsIn := func(f *ssa.Function) (kinds []int64, instrs []ssa.Instruction) {
		core.Instrs(f, func(in ssa.Instruction) {
			switch x := in.(type) {
			case *ssa.Send:
				if isWounds(x.Chan) {
					kinds = append(kinds, kindOfVal(x.X))
					instrs = append(instrs, in)
				}
			case *ssa.Select:
				for _, st := range x.States {
					if st.Dir == types.SendOnly && isWounds(st.Chan) {
						kinds = append(kinds, kindOfVal(st.Send))
						instrs = append(instrs, in)
					}
				}
			}
		})
		return
	}
	all := append(core.WithAnons(validateFn), core.WithAnons(worker)...)
	for _, f := range all {
		if f.Parent() == nil || len(f.Params) != 0 {
			continue
		}
		ks, ins := sendsIn(f)
		if len(ins) == 1 && core.FindPath(f, nil, isReturn, isInstr(ins[0])) == nil {
			emitter[f] = ks[0]
		}
	}
	type site struct {
		fn   *ssa.Function
		in   ssa.Instruction
		kind int64
	}
	var sites []site
	for _, f := range all {
		if _, isEm := emitter[f]; isEm {
			continue
		}
		ks, ins := sendsIn(f)
		for i := range ins {
			sites = append(sites, site{f, ins[i], ks[i]})
		}
		core.Instrs(f, func(in ssa.Instruction) {
			if cl, ok := in.(*ssa.Call); ok {
				if cal := localCallee(cl); cal != nil {
					if k, ok := emitter[cal]; ok {
						sites = append(sites, site{f, in, k})
					}
				}
			}
		})
	}
	tokensOf := func(in ssa.Instruction) map[string]bool {
		out := map[string]bool{}
		for _, g := range core.Guards(in) {
			for _, t := range guardTokens(g) {
				out[t] = true
			}
		}
		return out
	}
	found := map[int64]map[string]bool{}
	for _, s := range sites {
		if found[s.kind] == nil {
			found[s.kind] = map[string]bool{}
		}
		for t := range tokensOf(s.in) {
			found[s.kind][t] = true
		}
	}
	// a wound built under a test and sent later (`if wound != nil { send }`): the tests that control the
	// construction of the literal control the emission, provided the literal reaches an emission site
	for _, wl := range woundLits(c.P) {
		if wl.fn != validateFn && wl.fn != worker && family(wl.fn) != validateFn && family(wl.fn) != worker {
			continue
		}
		reaches := false
		for _, s := range sites {
			var sent []ssa.Value
			switch x := s.in.(type) {
			case *ssa.Send:
				sent = append(sent, x.X)
			case *ssa.Select:
				for _, st := range x.States {
					if st.Send != nil {
						sent = append(sent, st.Send)
					}
				}
			}
			for _, v := range sent {
				for _, o := range core.Origins(v) {
					if o == ssa.Value(wl.alloc) {
						reaches = true
					}
				}
			}
		}
		if !reaches {
			continue
		}
		if found[wl.kind] == nil {
			found[wl.kind] = map[string]bool{}
		}
		for t := range tokensOf(wl.alloc) {
			found[wl.kind][t] = true
		}
	}
	// a deviation test also controls an emission when every way on from its deviating outcome - to the next
	// iteration or to a return - passes an emission of that kind (tests merged with || do not dominate the
	// emission, but still always lead to it)
	for _, f := range all {
		var ifs []*ssa.If
		core.Instrs(f, func(in ssa.Instruction) {
			if ifi, ok := in.(*ssa.If); ok {
				ifs = append(ifs, ifi)
			}
		})
		for _, ifi := range ifs {
			b := ifi.Block()
			if len(b.Succs) != 2 || b.Succs[0] == b.Succs[1] {
				continue
			}
			for side := 0; side < 2; side++ {
				toks := guardTokens(core.Guard{Cond: ifi.Cond, Val: side == 0, If: ifi})
				if len(toks) == 0 {
					continue
				}
				other := b.Succs[1-side]
				onlySide := func(x, y *ssa.BasicBlock) bool { return x == b && y == other }
				byKind := map[int64][]ssa.Instruction{}
				for _, st := range sites {
					if st.fn == f {
						byKind[st.kind] = append(byKind[st.kind], st.in)
					}
				}
				for k, ins := range byKind {
					isEm := func(x ssa.Instruction) bool {
						for _, e := range ins {
							if e == x {
								return true
							}
						}
						return false
					}
					if core.FindPathSkipping(f, ifi, isEm, nil, onlySide) == nil {
						continue
					}
					if core.FindPathSkipping(f, ifi, anyOf(isReturn, isInstr(ifi)), isEm, onlySide) != nil {
						continue
					}
					if found[k] == nil {
						found[k] = map[string]bool{}
					}
					for _, t := range toks {
						found[k][t] = true
					}
				}
			}
		}
	}
	expect := []struct {
		kind   string
		tokens []string
		why    map[string]string
	}{
		{"DIR", []string{"missing(Lstat)", "!IsDir"}, nil},
		{"SYMLINK", []string{"IsDir", "ModeSymlink==0", "missing(Readlink)", "dest!="}, nil},
		{"FILE", []string{"IsDir", "ModeSymlink!=0", "openerr", "copied<size", "copied>size"}, nil},
	}
	nTok := 0
	for _, e := range expect {
		for _, t := range e.tokens {
			nTok++
			rule := "R05.5"
			if strings.HasPrefix(t, "copied") {
				rule = "R05.3"
			}
			have := found[kinds[e.kind]][t]
			if !have && strings.HasPrefix(t, "copied") {
				have = found[kinds[e.kind]]["copied!=size"]
			}
			var got []string
			for x := range found[kinds[e.kind]] {
				got = append(got, x)
			}
			sort.Strings(got)
			c.Check(have, rule, core.FnName(validateFn), e.kind+" wound controlled by test "+t, validateFn.Pos(),
				"a "+e.kind+" wound emission is control-dependent on this deviation test",
				"no "+e.kind+" wound emission is controlled by the deviation test "+t+" (tests found for this kind: "+strings.Join(got, ", ")+"): that deviation is no longer reported")
		}
	}
	c.Floor("R05.5", "wound emission sites", len(sites), 3)

	// ---- R05.6: the per-file check says "nothing to report" only after the content went through the validating
	// writer: every success return has passed a FILE wound emission or the copy into the validator
	{
		isCopy := callTo("io.Copy", "io.CopyBuffer", "io.CopyN")
		nPF := 0
		for _, f := range all {
			if firstInstr(f, isCopy) == nil {
				continue
			}
			isEm := func(x ssa.Instruction) bool {
				for _, st := range sites {
					if st.fn == f && st.in == x && st.kind == kinds["FILE"] {
						return true
					}
				}
				return false
			}
			for _, rs := range successReturns(f) {
				nPF++
				p := core.FindPath(f, nil, isInstr(rs.Ret), anyOf(isEm, isCopy))
				c.Check(p == nil, "R05.6", core.FnName(f), "a file is passed only after a wound or a full pass through the validator", core.InstrPos(rs.Ret),
					"every path to this success return emits a FILE wound or copies the file into the validating writer",
					"the per-file check can return success without having emitted a wound and without having copied the file through the validating writer: some file content is declared valid unseen").Path = c.P.PathStrings(p)
			}
		}
		c.Floor("R05.6", "success returns of the per-file check", nPF, 1)
	}
	// ---- R05.3, continued: what the size test reports. Under copied < size the missing tail is [copied, size);
	// under copied > size the excess is [size, copied). (1) On the outcome of the test every path to a success
	// return emits a FILE wound - no further condition decides whether the deviation is reported. (2) The
	// bounds of the wound made there are the count copied and the signed size themselves, not values
	// computed from them (rounding the start up to a block boundary loses the first missing block of a file
	// cut on a boundary, which no block validation ever sees).
	{
		isCopied := func(v ssa.Value) bool {
			for _, o := range core.Origins(v) {
				ex, ok := o.(*ssa.Extract)
				if !ok || ex.Index != 0 {
					return false
				}
				cl, ok := ex.Tuple.(*ssa.Call)
				if !ok || !callTo("io.Copy", "io.CopyBuffer", "io.CopyN")(cl) {
					return false
				}
			}
			return len(core.Origins(v)) > 0
		}
		isSize := func(v ssa.Value) bool {
			os := core.Origins(v)
			for _, o := range os {
				if _, n, ok := core.FieldOf(o); !ok || n != "Size" {
					return false
				}
			}
			return len(os) > 0
		}
		nBr := 0
		for _, f := range all {
			for _, b := range f.Blocks {
				if len(b.Instrs) == 0 || len(b.Succs) != 2 {
					continue
				}
				ifi, ok := b.Instrs[len(b.Instrs)-1].(*ssa.If)
				if !ok {
					continue
				}
				for _, dir := range []struct {
					op          token.Token
					name        string
					start, end_ func(ssa.Value) bool
				}{{token.LSS, "copied<size", isCopied, isSize}, {token.GTR, "copied>size", isSize, isCopied}} {
					for si, succ := range b.Succs {
						if !condHolds(ifi.Cond, si == 0, dir.op, isCopied, isSize) {
							continue
						}
						// not when the same edge also establishes the opposite (copied != size handled as one test)
						nBr++
						isEm := func(x ssa.Instruction) bool {
							for _, st := range sites {
								if st.fn == f && st.in == x && st.kind == kinds["FILE"] {
									return true
								}
							}
							return false
						}
						only := func(from, to *ssa.BasicBlock) bool { return from == b && to != succ }
						var bad []ssa.Instruction
						for _, rs := range successReturns(f) {
							if p := core.FindPathSkipping(f, ifi, isInstr(rs.Ret), isEm, only); p != nil {
								bad = p
							}
						}
						c.Check(bad == nil, "R05.3", core.FnName(f), "on "+dir.name+" a FILE wound is emitted on every path", core.InstrPos(ifi),
							"every path from this outcome of the size test to a success return emits a FILE wound",
							"the size deviation "+dir.name+" is found and then, on some path, not reported: a further condition decides whether the wound is made").Path = c.P.PathStrings(bad)
						// bounds of the literals made under this outcome
						for _, wl := range woundLits(c.P) {
							if wl.fn != f || wl.kind != kinds["FILE"] {
								continue
							}
							under := false
							for _, g := range core.Guards(wl.alloc) {
								if g.If == ifi && g.Val == (si == 0) {
									under = true
								}
							}
							if !under {
								continue
							}
							st, hasS := litField(wl.alloc, "Start")
							en, hasE := litField(wl.alloc, "End")
							okB := hasS && hasE && dir.start(st) && dir.end_(en)
							c.Check(okB, "R05.3", core.FnName(f), "the wound made on "+dir.name+" spans from "+map[bool]string{true: "the count copied to the signed size", false: "the signed size to the count copied"}[dir.op == token.LSS], wl.alloc.Pos(),
								"Start and End are the copied count and the signed size themselves",
								"the range reported for "+dir.name+" is computed from the copied count / the signed size instead of being them (Start: "+describeOr(st, hasS, "unset")+", End: "+describeOr(en, hasE, "unset")+"): part of the differing range is outside every reported wound")
						}
						_ = succ
					}
				}
			}
		}
		c.Floor("R05.3", "outcomes of the size test after the copy", nBr, 2)
	}
	c.Stats["R05.5.deviation_tests"] = nTok

}

// ruleAggregationLosesNothing is R05.4 (shared with C18: in wound mode the pieces tile the written range).
func ruleAggregationLosesNothing(c *core.Ctx, kinds map[string]int64) {
	c.Rule("R05.4", "aggregation loses no wound")
	// ---- R05.4 (on the naive SSA form: the pending wound is a variable with loads and stores whether or
	// not it is captured by the goroutine literal)
	agg0 := c.P.Fn("pwr", "AggregateWounds")
	if agg0 == nil || len(agg0.AnonFuncs) != 1 {
		c.Missing("R05.4", "pwr.AggregateWounds", "function or goroutine literal not found")
		return
	}
	agg := c.P.Naive(agg0)
	if agg == nil || len(agg.AnonFuncs) != 1 {
		c.Missing("R05.4", "pwr.AggregateWounds", "naive-form twin not found")
		return
	}
	lit := agg.AnonFuncs[0]
	litName := core.FnName(agg0.AnonFuncs[0])
	// the output channel: the parameter of AggregateWounds (a variable in this form)
	var outVar ssa.Value
	core.Instrs(agg, func(in ssa.Instruction) {
		if st, ok := in.(*ssa.Store); ok && st.Val == ssa.Value(agg.Params[0]) {
			outVar = st.Addr
		}
	})
	isOut := func(v ssa.Value) bool {
		if v == ssa.Value(agg.Params[0]) {
			return true
		}
		ld, ok := v.(*ssa.UnOp)
		return ok && ld.Op == token.MUL && outVar != nil && core.CellRoot(ld.X) == outVar
	}
	var recv *ssa.UnOp
	core.Instrs(lit, func(in ssa.Instruction) {
		if u, ok := in.(*ssa.UnOp); ok && u.Op == token.ARROW && u.CommaOk {
			recv = u
		}
	})
	if recv == nil {
		c.Missing("R05.4", litName, "range-receive not found")
		return
	}
	// the incoming wound: the variable the received value is stored into
	var incoming ssa.Value
	if refs := recv.Referrers(); refs != nil {
		for _, r := range *refs {
			if ex, ok := r.(*ssa.Extract); ok && ex.Index == 0 {
				if xr := ex.Referrers(); xr != nil {
					for _, u := range *xr {
						if st, ok := u.(*ssa.Store); ok && st.Val == ssa.Value(ex) {
							incoming = core.CellRoot(st.Addr)
						}
					}
				}
			}
		}
	}
	loadOf := func(v ssa.Value, cell ssa.Value) bool {
		ld, ok := v.(*ssa.UnOp)
		return ok && ld.Op == token.MUL && cell != nil && core.CellRoot(ld.X) == cell
	}
	// the pending wound: the *Wound variable that is both assigned in the literal and forwarded to the output
	var pending ssa.Value
	core.Instrs(lit, func(in ssa.Instruction) {
		snd, ok := in.(*ssa.Send)
		if !ok || !isOut(snd.Chan) {
			return
		}
		ld, ok := snd.X.(*ssa.UnOp)
		if !ok || ld.Op != token.MUL {
			return
		}
		cell := core.CellRoot(ld.X)
		if cell == incoming {
			return
		}
		if len(core.CellStores(cell)) > 0 && core.TypeName(ld.Type()) == "pwr.Wound" {
			pending = cell
		}
	})
	if incoming == nil || pending == nil {
		c.Missing("R05.4", litName, "incoming wound / pending-wound variable not found")
		return
	}
	isPendingLoad := func(v ssa.Value) bool { return loadOf(v, pending) }
	isIncomingLoad := func(v ssa.Value) bool { return loadOf(v, incoming) }
	consumes := func(in ssa.Instruction) bool {
		switch x := in.(type) {
		case *ssa.Send:
			return isOut(x.Chan) && isIncomingLoad(x.X)
		case *ssa.Store:
			if core.CellRoot(x.Addr) == pending && isIncomingLoad(x.Val) {
				return true
			}
			// merge: pending.End = incoming.End
			if fa, ok := x.Addr.(*ssa.FieldAddr); ok && isPendingLoad(fa.X) {
				if _, n, _ := core.FieldOf(fa); n == "End" {
					if b, n2, ok := core.FieldOf(x.Val); ok && n2 == "End" && isIncomingLoad(b) {
						return true
					}
				}
			}
		}
		return false
	}
	// every path from the receive back to the receive (next iteration) or to the return consumes the incoming wound
	bodyEntry := recv.Block().Succs[0]
	skipExit := func(b, s *ssa.BasicBlock) bool { return b == recv.Block() && s != bodyEntry }
	p := core.FindPathSkipping(lit, recv, anyOf(isInstr(recv), isReturn), consumes, skipExit)
	o := c.Check(p == nil, "R05.4", litName, "incoming wound is kept, merged or forwarded on every path through the loop body", core.InstrPos(recv),
		"every path through the loop body stores the incoming wound as pending, merges it into the pending wound, or forwards it",
		"a path through the aggregation loop drops the incoming wound: the damaged range it covers is never reported")
	o.Path = c.P.PathStrings(p)
	// every overwrite of pending (by the incoming wound or nil) is preceded by forwarding the old pending wound, unless pending was nil
	isForwardPending := func(in ssa.Instruction) bool {
		s, ok := in.(*ssa.Send)
		return ok && isOut(s.Chan) && isPendingLoad(s.X)
	}
	nOver := 0
	core.Instrs(lit, func(in ssa.Instruction) {
		st, ok := in.(*ssa.Store)
		if !ok || core.CellRoot(st.Addr) != pending {
			return
		}
		nOver++
		pendingNil := hasGuard(in, func(g core.Guard) bool {
			return relHolds(g, token.EQL, isPendingLoad, core.IsNilConst)
		})
		okk := pendingNil
		if !okk {
			// forwarded since the start of this iteration
			pp := core.FindPathSkipping(lit, recv, isInstr(in), isForwardPending, skipExit)
			okk = pp == nil
		}
		c.Check(okk, "R05.4", litName, "pending wound forwarded before it is replaced by "+core.Describe(st.Val), core.InstrPos(in),
			"the pending wound is nil here or was forwarded earlier in the iteration",
			"the pending wound is overwritten without having been forwarded: its range is lost")
	})
	c.Floor("R05.4", "stores to the pending wound", nOver, 2)
	// flush before close: every path from loop exit to close(out) forwards pending unless nil
	var cl ssa.Instruction
	core.Instrs(lit, func(in ssa.Instruction) {
		if call, ok := in.(*ssa.Call); ok {
			if b, ok := call.Call.Value.(*ssa.Builtin); ok && b.Name() == "close" && isOut(call.Call.Args[0]) {
				cl = in
			}
		}
	})
	if cl == nil {
		c.Bad("R05.4", litName, "close(outWounds)", lit.Pos(), "the aggregator no longer closes its output")
	} else {
		nilEdge := func(b, s *ssa.BasicBlock) bool {
			return outcomeEdge(b, s, token.EQL, isPendingLoad, core.IsNilConst)
		}
		pp := core.FindPathSkipping(lit, recv, isInstr(cl), isForwardPending, func(b, s *ssa.BasicBlock) bool {
			return (b == recv.Block() && s == bodyEntry) || nilEdge(b, s)
		})
		o := c.Check(pp == nil, "R05.4", litName, "pending wound flushed before close(outWounds)", core.InstrPos(cl),
			"after the input closes, a non-nil pending wound is forwarded before the output is closed",
			"the output can be closed while a pending wound has not been forwarded: the last damaged range of a file is lost")
		o.Path = c.P.PathStrings(pp)
	}
}

// ruleHasWoundsCountsEveryWound is R05.9: in the modes that do not fail fast Validate returns nil whatever it
// found; the verdict is the consumer's HasWounds(). A missing directory, a missing or retargeted symlink and a
// missing file that was signed as empty are wounds of size 0, so "has wounds" cannot be derived from the
// number of corrupted bytes: HasWounds answers from a field that Do sets (a flag set true, or a counter
// increased by a positive constant) on every path on which a wound was found not healthy.
func ruleHasWoundsCountsEveryWound(c *core.Ctx, rule string) {
	c.Rule(rule, "HasWounds is about wounds, not about bytes")
	n := 0
	for _, tn := range []string{"WoundsGuardian", "WoundsWriter", "WoundsPrinter", "ArchiveHealer"} {
		hw := c.P.Fn("pwr", tn+".HasWounds")
		do := c.P.Fn("pwr", tn+".Do")
		if hw == nil || do == nil {
			continue
		}
		n++
		// the field(s) the answer is read from
		fields := map[string]bool{}
		direct := true
		for _, rs := range core.Returns(hw, 0) {
			var walk func(v ssa.Value, d int)
			walk = func(v ssa.Value, d int) {
				if d > 5 || v == nil {
					return
				}
				for _, o := range core.Origins(v) {
					if _, nme, ok := core.FieldOf(o); ok {
						fields[nme] = true
						continue
					}
					if bo, ok := o.(*ssa.BinOp); ok {
						walk(bo.X, d+1)
						walk(bo.Y, d+1)
					}
				}
			}
			walk(rs.Val, 0)
		}
		_ = direct
		// stores in Do that record "a wound": true, or +k with k a positive constant
		isRecord := func(in ssa.Instruction) bool {
			st, ok := in.(*ssa.Store)
			if !ok {
				return false
			}
			_, nme, ok := core.FieldOf(st.Addr)
			if !ok || !fields[nme] {
				return false
			}
			if b, isB := core.ConstBool(st.Val); isB && b {
				return true
			}
			if bo, ok := st.Val.(*ssa.BinOp); ok && bo.Op == token.ADD {
				if k, isC := core.ConstInt(bo.Y); isC && k > 0 {
					return true
				}
			}
			return false
		}
		// the outcomes "not healthy"
		nEdges := 0
		var bad []ssa.Instruction
		for _, f := range core.WithAnons(do) {
			for _, b := range f.Blocks {
				if len(b.Instrs) == 0 || len(b.Succs) != 2 {
					continue
				}
				ifi, ok := b.Instrs[len(b.Instrs)-1].(*ssa.If)
				if !ok {
					continue
				}
				cond, neg := ifi.Cond, false
				for {
					if u, ok := cond.(*ssa.UnOp); ok && u.Op == token.NOT {
						cond, neg = u.X, !neg
						continue
					}
					break
				}
				cl, ok := cond.(*ssa.Call)
				if !ok || !strings.HasSuffix(core.CalleeName(cl), "pwr.Wound).Healthy") {
					continue
				}
				unhealthy := b.Succs[1]
				if neg {
					unhealthy = b.Succs[0]
				}
				nEdges++
				only := func(from, to *ssa.BasicBlock) bool { return from == b && to != unhealthy }
				// to any return, or back to this test (the next wound)
				target := func(in ssa.Instruction) bool { return isReturn(in) || in == ssa.Instruction(ifi) }
				if p := core.FindPathSkipping(f, ifi, target, isRecord, only); p != nil {
					bad = p
				}
			}
		}
		okk := len(fields) > 0 && nEdges > 0 && bad == nil
		c.Check(okk, rule, "(*pwr."+tn+").Do", "every wound found not healthy is recorded where HasWounds looks", do.Pos(),
			"on every path from the outcome !Healthy() a flag HasWounds reads is set (or a counter it reads is increased by a positive constant)",
			"HasWounds() of this consumer does not answer from something that every non-healthy wound sets: wounds of size 0 - a missing directory, a missing or retargeted symlink, a missing file signed as empty - leave it false, and a damaged directory is declared valid in the modes that do not fail fast").Path = c.P.PathStrings(bad)
	}
	c.Floor(rule, "wound consumers with HasWounds", n, 3)
}
