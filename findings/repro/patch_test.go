package probe

import (
	"bytes"
	"context"
	"fmt"
	"io"
	"os"
	"path/filepath"
	"testing"
	"time"

	"github.com/itchio/headway/state"
	"github.com/itchio/lake"
	"github.com/itchio/lake/tlc"
	"github.com/itchio/savior/seeksource"
	"github.com/itchio/wharf/bsdiff"
	"github.com/itchio/wharf/pwr"
	"github.com/itchio/wharf/pwr/bowl"
	"github.com/itchio/wharf/pwr/patcher"
	"github.com/itchio/wharf/pwr/rediff"
	"github.com/itchio/wharf/wire"
	"github.com/golang/protobuf/proto"
)

type nopPool struct{ c *tlc.Container }

func (p *nopPool) GetSize(i int64) int64                     { return p.c.Files[i].Size }
func (p *nopPool) GetReader(i int64) (io.Reader, error)      { return bytes.NewReader(nil), nil }
func (p *nopPool) GetReadSeeker(i int64) (io.ReadSeeker, error) { return bytes.NewReader(nil), nil }
func (p *nopPool) Close() error                              { return nil }

var _ lake.Pool = (*nopPool)(nil)

func mkContainer(n int, size int64) *tlc.Container {
	c := &tlc.Container{}
	off := int64(0)
	for i := 0; i < n; i++ {
		c.Files = append(c.Files, &tlc.File{Path: fmt.Sprintf("f%05d", i), Mode: 0o644, Size: size, Offset: off})
		off += size
	}
	c.Size = off
	return c
}

func stream(t *testing.T, target, source *tlc.Container, msgs ...proto.Message) []byte {
	buf := new(bytes.Buffer)
	w := wire.NewWriteContext(buf)
	must(t, w.WriteMagic(pwr.PatchMagic))
	must(t, w.WriteMessage(&pwr.PatchHeader{Compression: &pwr.CompressionSettings{Algorithm: pwr.CompressionAlgorithm_NONE}}))
	must(t, w.WriteMessage(target))
	must(t, w.WriteMessage(source))
	for _, m := range msgs {
		must(t, w.WriteMessage(m))
	}
	return buf.Bytes()
}

func hey() *pwr.SyncOp { return &pwr.SyncOp{Type: pwr.SyncOp_HEY_YOU_DID_IT} }

// C17: skipping a bsdiff series whose target index is 2049
func TestSkipBsdiff2049(t *testing.T) {
	for _, ti := range []int64{2048, 2049} {
		target := mkContainer(2050, 1)
		source := mkContainer(2, 3)
		patch := stream(t, target, source,
			&pwr.SyncHeader{Type: pwr.SyncHeader_BSDIFF, FileIndex: 0},
			&pwr.BsdiffHeader{TargetIndex: ti},
			&bsdiff.Control{Add: []byte{1}, Copy: []byte{2, 3}, Seek: 0},
			&bsdiff.Control{Eof: true},
			hey(),
			&pwr.SyncHeader{Type: pwr.SyncHeader_RSYNC, FileIndex: 1},
			&pwr.SyncOp{Type: pwr.SyncOp_DATA, Data: []byte{1, 2, 3}},
			hey(),
		)
		p, err := patcher.New(seeksource.FromBytes(patch), &state.Consumer{})
		must(t, err)
		p.SetSourceIndexWhitelist(map[int64]bool{})
		b, err := bowl.NewDryBowl(&bowl.DryBowlParams{SourceContainer: p.GetSourceContainer(), TargetContainer: p.GetTargetContainer()})
		must(t, err)
		err = p.Resume(nil, &nopPool{target}, b)
		t.Logf("targetIndex=%d skip-all Resume err = %v", ti, err)
	}
}

func recoverErr(f func() error) (err error, panicked interface{}) {
	defer func() { panicked = recover() }()
	err = f()
	return
}

// C10: out-of-range file index in a block range op
func TestMalformedIndex(t *testing.T) {
	target := mkContainer(1, 64*1024)
	source := mkContainer(1, 64*1024)
	patch := stream(t, target, source,
		&pwr.SyncHeader{Type: pwr.SyncHeader_RSYNC, FileIndex: 0},
		&pwr.SyncOp{Type: pwr.SyncOp_BLOCK_RANGE, FileIndex: 99, BlockIndex: 0, BlockSpan: 1},
		hey(),
	)
	err, pan := recoverErr(func() error {
		p, err := patcher.New(seeksource.FromBytes(patch), &state.Consumer{})
		if err != nil {
			return err
		}
		b, _ := bowl.NewDryBowl(&bowl.DryBowlParams{SourceContainer: p.GetSourceContainer(), TargetContainer: p.GetTargetContainer()})
		return p.Resume(nil, &nopPool{target}, b)
	})
	t.Logf("patcher: err=%v panic=%v", err, pan)

	err, pan = recoverErr(func() error {
		_, err := rediff.NewContext(rediff.Params{PatchReader: seeksource.FromBytes(patch), Consumer: &state.Consumer{}})
		return err
	})
	t.Logf("rediff: err=%v panic=%v", err, pan)

	// block index 1 (not full-file) with bad file index: reaches ApplySingleFull -> pool
	patch2 := stream(t, target, source,
		&pwr.SyncHeader{Type: pwr.SyncHeader_RSYNC, FileIndex: 0},
		&pwr.SyncOp{Type: pwr.SyncOp_DATA, Data: []byte{1}},
		&pwr.SyncOp{Type: pwr.SyncOp_BLOCK_RANGE, FileIndex: -5, BlockIndex: 1, BlockSpan: 1},
		hey(),
	)
	err, pan = recoverErr(func() error {
		p, err := patcher.New(seeksource.FromBytes(patch2), &state.Consumer{})
		if err != nil {
			return err
		}
		b, _ := bowl.NewDryBowl(&bowl.DryBowlParams{SourceContainer: p.GetSourceContainer(), TargetContainer: p.GetTargetContainer()})
		return p.Resume(nil, &nopPool{target}, b)
	})
	t.Logf("patcher(apply): err=%v panic=%v", err, pan)

	// bsdiff header with bad target index
	patch3 := stream(t, target, source,
		&pwr.SyncHeader{Type: pwr.SyncHeader_BSDIFF, FileIndex: 0},
		&pwr.BsdiffHeader{TargetIndex: 77},
		&bsdiff.Control{Eof: true},
		hey(),
	)
	err, pan = recoverErr(func() error {
		p, err := patcher.New(seeksource.FromBytes(patch3), &state.Consumer{})
		if err != nil {
			return err
		}
		b, _ := bowl.NewDryBowl(&bowl.DryBowlParams{SourceContainer: p.GetSourceContainer(), TargetContainer: p.GetTargetContainer()})
		return p.Resume(nil, &nopPool{target}, b)
	})
	t.Logf("patcher(bsdiff): err=%v panic=%v", err, pan)
}

// C10: fewer hashes than the container needs
func TestShortSignature(t *testing.T) {
	c := mkContainer(1, 10*64*1024)
	sb := sigBytes(t, c, nil)
	err, pan := recoverErr(func() error {
		src := seeksource.FromBytes(sb)
		if _, err := src.Resume(nil); err != nil {
			return err
		}
		si, err := pwr.ReadSignature(context.Background(), src)
		if err != nil {
			return err
		}
		_, err = pwr.ComputeHashInfo(si)
		return err
	})
	t.Logf("short signature: err=%v panic=%v", err, pan)
}

// C07/C12: new file shorter than the partition count
func TestBsdiffTinyNew(t *testing.T) {
	err, pan := recoverErr(func() error {
		dc := &bsdiff.DiffContext{Partitions: 4}
		return dc.Do(bytes.NewReader(randBytes(3, 100)), bytes.NewReader([]byte{1, 2, 3}), func(m proto.Message) error { return nil }, &state.Consumer{})
	})
	t.Logf("bsdiff tiny: err=%v panic=%v", err, pan)
}

// C15: optimizer mapping depends on map iteration order
func TestRediffNondeterminism(t *testing.T) {
	target := mkContainer(2, 64*1024)
	source := &tlc.Container{Files: []*tlc.File{{Path: "c", Mode: 0o644, Size: 128 * 1024}}, Size: 128 * 1024}
	patch := stream(t, target, source,
		&pwr.SyncHeader{Type: pwr.SyncHeader_RSYNC, FileIndex: 0},
		&pwr.SyncOp{Type: pwr.SyncOp_BLOCK_RANGE, FileIndex: 0, BlockIndex: 0, BlockSpan: 1},
		&pwr.SyncOp{Type: pwr.SyncOp_BLOCK_RANGE, FileIndex: 1, BlockIndex: 0, BlockSpan: 1},
		hey(),
	)
	seen := map[int64]int{}
	for i := 0; i < 200; i++ {
		rc, err := rediff.NewContext(rediff.Params{PatchReader: seeksource.FromBytes(patch), Consumer: &state.Consumer{}})
		must(t, err)
		seen[rc.GetDiffMappings()[0].TargetIndex]++
	}
	t.Logf("mapping target index histogram over 200 runs: %v", seen)
}

// C05: file longer than signed -> wound with start > end
func TestLongerFileWound(t *testing.T) {
	dir := t.TempDir()
	build := filepath.Join(dir, "build")
	data := randBytes(5, 100)
	writeFile(t, build, "a", data)
	c, h := sign(t, build)
	// extend inside the last block
	writeFile(t, build, "a", append(append([]byte{}, data...), 1, 2, 3, 4, 5))
	wp := filepath.Join(dir, "wounds.pww")
	v := &pwr.ValidatorContext{WoundsPath: wp, Consumer: &state.Consumer{}}
	must(t, v.Validate(context.Background(), build, &pwr.SignatureInfo{Container: c, Hashes: h}))
	raw, err := os.ReadFile(wp)
	must(t, err)
	src := seeksource.FromBytes(raw)
	_, err = src.Resume(nil)
	must(t, err)
	r := wire.NewReadContext(src)
	must(t, r.ExpectMagic(pwr.WoundsMagic))
	must(t, r.ReadMessage(&pwr.WoundsHeader{}))
	must(t, r.ReadMessage(&tlc.Container{}))
	for {
		w := &pwr.Wound{}
		if err := r.ReadMessage(w); err != nil {
			break
		}
		t.Logf("wound kind=%v index=%d start=%d end=%d", w.Kind, w.Index, w.Start, w.End)
	}
	t.Logf("TotalCorrupted=%d", v.WoundsConsumer.TotalCorrupted())
}

// C16: fail-fast validation with a cancelled context on a damaged dir
func TestCancelledFailFast(t *testing.T) {
	dir := t.TempDir()
	build := filepath.Join(dir, "build")
	writeFile(t, build, "a", randBytes(6, 1000))
	writeFile(t, build, "b", randBytes(7, 1000))
	c, h := sign(t, build)
	writeFile(t, build, "b", randBytes(8, 1000)) // damage last file
	nils := 0
	for i := 0; i < 50; i++ {
		ctx, cancel := context.WithCancel(context.Background())
		cancel()
		v := &pwr.ValidatorContext{FailFast: true, Consumer: &state.Consumer{}}
		done := make(chan error, 1)
		go func() { done <- v.Validate(ctx, build, &pwr.SignatureInfo{Container: c, Hashes: h}) }()
		select {
		case err := <-done:
			if err == nil {
				nils++
			}
		case <-time.After(5 * time.Second):
			t.Fatalf("validate hung")
		}
	}
	t.Logf("cancelled fail-fast validate of a damaged dir returned nil %d/50 times", nils)
}
