package rules

import "wharfverif/checker/internal/core"

func orderedFanIn(c *core.Ctx, rule string) {}
