package rules

import (
	"fmt"
	"go/token"
	"go/types"
	"strings"

	"golang.org/x/tools/go/ssa"

	"wharfverif/checker/internal/core"
)

func init() {
	register(&Property{
		ID: "C09",
		Explanation: `R09.1 in safeKeeperReader.Read the inner reader is read only after validateBlock was called on every path and only on the nil outcome of its result; ` +
			`R09.2 raw readers of the inner pool never escape: they flow only into the rs field of a safeKeeperReader, the pool methods return only *safeKeeperReader, and methods of the rs field are called only from the wrapper's own methods; ` +
			`R09.3 validateBlock restores the reader position (Seek to the offset saved before the first move) on every path after it moved the reader; ` +
			`R09.4 safeKeeperReader.offset mirrors the wrapped reader's position: Seek stores the result of the inner Seek, Read adds the inner Read's count, and every construction site initialises offset from a Seek on the same reader; R09.6 the chunk size of the bsdiff read cache (lrufile.New) is a constant that divides pwr.BlockSize, so that a chunk-aligned chunk read never covers a block the safekeeper's per-offset validation did not check; R09.7 the data validateBlock hands to the block validator is its buffer cut at the count the read into that buffer returned. ` +
			`R09.8 the signed length is enforced: in Read the block validation and the read of the wrapped reader are dominated by a branch on a value computed from the offset and the signed size (so the end of the signed file is an end of file, whatever the block arithmetic says), the buffer handed to the wrapped reader is cut at a bound computed from the signed size, and in validateBlock the error of the read that fills the block buffer is returned only when it is not an end-of-file sentinel (a short block is judged). ` +
			`R05.1 (shared, tightened) the block validator declares a block healthy only under index-in-range and strong-hash equality; an empty buffer excuses that only beyond the signed block count. ` +
			`R18.7 (shared) each file's hash group ends with the file's last block. R09.9 among what decides whether validateBlock judges a block (guards of the ValidateAsError call, followed through merged flags and expanded helpers) there is no <, <=, >, >= on the block index. R18.8 (shared) strong hashes are computed on every call. R07.4 (shared) the safekeeper's GetReader positions the read-seeker it gets from its own GetReadSeeker before handing it out as a plain reader. NOT decided: that every damage is noticed (depends on which blocks a patch reads), the verdict cache, the arithmetic of the remaining-bytes bound.`,
		Assumptions: []string{"the wrapped reader is the field rs of safeKeeperReader; the inner pool is the field inner of safeKeeper"},
		Run:         runC09,
	})
}

func runC09(c *core.Ctx) {
	ruleNoSwallowedLayerErrors(c, "R10.swallow", moduleErrCallee, "/pwr", "/pwr/patcher", "/pwr/bowl", "/pwr/rediff", "/pwr/overlay", "/wire", "/wsync", "/bsdiff", "/bsdiff/lrufile", "/multiread", "/ctxcopy")
	c.Rule("R09.1", "validate before read")
	c.Rule("R09.2", "raw readers do not escape the wrapper")
	c.Rule("R09.3", "position restored after validation")
	c.Rule("R09.4", "offset mirrors the wrapped reader's position")
	c.Rule("R09.6", "cache chunks never straddle validated blocks")
	c.Rule("R09.7", "what is judged is what was read")
	c.Rule("R09.8", "the signed length is enforced, not only the signed blocks")
	c.Rule("R05.1", "healthy verdict only under index-in-range and strong-hash equality (shared: the safekeeper's verdicts are the block validator's)")
	ruleHealthyVerdict(c, woundKinds(c.P), true)
	ruleHashGroupsHaveTheirLength(c, "R18.7")
	ruleNoSharedPackageState(c)
	ruleStrongHashIsComputedEachTime(c, "R18.8")
	ruleVerdictsAreNotExtrapolated(c, "R09.9")
	ruleRewindBeforeLinearRead(c, "R07.4")
	read := c.P.Fn("pwr", "safeKeeperReader.Read")
	seek := c.P.Fn("pwr", "safeKeeperReader.Seek")
	vb := c.P.Fn("pwr", "safeKeeper.validateBlock")
	grs := c.P.Fn("pwr", "safeKeeper.GetReadSeeker")
	gr := c.P.Fn("pwr", "safeKeeper.GetReader")
	for n, f := range map[string]*ssa.Function{"safeKeeperReader.Read": read, "safeKeeperReader.Seek": seek, "safeKeeper.validateBlock": vb, "safeKeeper.GetReadSeeker": grs, "safeKeeper.GetReader": gr} {
		if f == nil {
			c.Missing("R09", "pwr."+n, "not found")
			return
		}
	}
	// reads of the wrapped reader: rs.Read(buf), or io.ReadFull / io.ReadAtLeast over it
	innerRead := anyOf(fieldInvoke("rs", "Read"), func(in ssa.Instruction) bool {
		cl, ok := in.(*ssa.Call)
		if !ok || len(cl.Call.Args) < 2 {
			return false
		}
		if n := core.CalleeName(cl); n != "io.ReadFull" && n != "io.ReadAtLeast" {
			return false
		}
		for _, o := range core.Origins(cl.Call.Args[0]) {
			if mi, ok := o.(*ssa.MakeInterface); ok {
				o = mi.X
			}
			if ci, ok := o.(*ssa.ChangeInterface); ok {
				o = ci.X
			}
			if _, n, ok := core.FieldOf(o); ok && n == "rs" {
				return true
			}
		}
		return false
	})
	innerSeek := fieldInvoke("rs", "Seek")
	isVB := func(in ssa.Instruction) bool {
		cl, ok := in.(*ssa.Call)
		return ok && cl.Call.StaticCallee() == vb
	}
	// ---- R09.1
	nr := 0
	for _, in := range allInstrs(read, innerRead) {
		nr++
		p := core.FindPath(read, nil, isInstr(in), isVB)
		c.Check(p == nil, "R09.1", core.FnName(read), "inner Read preceded by validateBlock", core.InstrPos(in),
			"every path to the inner Read calls sk.validateBlock first",
			"the wrapped reader can be read without validating the block at the current offset: damaged old data flows into the output unnoticed").Path = c.P.PathStrings(p)
		for _, v := range allInstrs(read, isVB) {
			vc := v.(*ssa.Call)
			p2 := ungatedPath(read, vc, in, isVB)
			c.Check(p2 == nil, "R09.1", core.FnName(read), "validateBlock's verdict gates the inner Read", core.InstrPos(v),
				"the inner Read is reachable only through the nil outcome of validateBlock",
				"the inner Read is reachable although validateBlock's result was not found nil").Path = c.P.PathStrings(p2)
		}
	}
	c.Floor("R09.1", "inner Read sites", nr, 1)
	// validateBlock returns the cached/new verdict: its success returns must be loads of the verdict map
	// (a constant nil return would declare blocks valid without looking)
	for _, rs := range core.Returns(vb, -1) {
		if core.IsNilConst(rs.Val) {
			c.Bad("R09.1", core.FnName(vb), "constant nil verdict", core.InstrPos(rs.Ret), "validateBlock returns a constant nil on some path: a block is declared valid without a verdict")
		}
	}

	// ---- R09.2
	for _, f := range []*ssa.Function{grs, gr} {
		for _, rs := range core.Returns(f, 0) {
			ok := true
			var bad string
			for _, o := range core.Origins(rs.Val) {
				switch x := o.(type) {
				case *ssa.Const:
				case *ssa.Alloc:
					if core.TypeName(x.Type()) != "pwr.safeKeeperReader" {
						ok, bad = false, core.Describe(x)
					}
				case *ssa.Extract:
					cl, isCall := x.Tuple.(*ssa.Call)
					if !isCall || (cl.Call.StaticCallee() != grs && cl.Call.StaticCallee() != gr) {
						ok, bad = false, core.Describe(x)
					}
				default:
					ok, bad = false, core.Describe(o)
				}
			}
			c.Check(ok, "R09.2", core.FnName(f), "returns only the validating wrapper", core.InstrPos(rs.Ret),
				"the returned reader is a *safeKeeperReader (or nil)", "the pool can hand out "+bad+", which is not the validating wrapper: reads through it are never checked against the signature")
		}
	}
	// raw reader uses inside the constructor
	core.Instrs(grs, func(in ssa.Instruction) {
		cl, ok := in.(*ssa.Call)
		if !ok || !cl.Call.IsInvoke() || !strings.HasPrefix(cl.Call.Method.Name(), "GetRead") {
			return
		}
		if _, n, ok := core.FieldOf(cl.Call.Value); !ok || n != "inner" {
			return
		}
		var raw ssa.Value
		if refs := cl.Referrers(); refs != nil {
			for _, r := range *refs {
				if ex, ok := r.(*ssa.Extract); ok && ex.Index == 0 {
					raw = ex
				}
			}
		}
		if raw == nil {
			return
		}
		if refs := raw.Referrers(); refs != nil {
			for _, r := range *refs {
				okUse := false
				switch x := r.(type) {
				case *ssa.Store:
					if _, n, ok := core.FieldOf(x.Addr); ok && n == "rs" {
						okUse = true
					}
				case *ssa.Call:
					okUse = x.Call.IsInvoke() && x.Call.Value == raw && x.Call.Method.Name() == "Seek"
				case *ssa.DebugRef:
					okUse = true
				}
				c.Check(okUse, "R09.2", core.FnName(grs), "use of the raw inner reader: "+r.String(), core.InstrPos(r),
					"stored into the wrapper's rs field / positioned with Seek", "the raw reader of the inner pool is used other than by wrapping it")
			}
		}
	})
	allowed := map[*ssa.Function]bool{read: true, seek: true, vb: true}
	for _, fn := range c.P.SrcFuncs() {
		core.Instrs(fn, func(in ssa.Instruction) {
			cl, ok := in.(ssa.CallInstruction)
			if !ok || !cl.Common().IsInvoke() {
				return
			}
			b, n, ok := core.FieldOf(cl.Common().Value)
			if !ok || n != "rs" || core.TypeName(b.Type()) != "pwr.safeKeeperReader" {
				return
			}
			c.Check(allowed[fn], "R09.2", core.FnName(fn), "call of rs."+cl.Common().Method.Name(), core.InstrPos(in),
				"the wrapped reader is touched only by the wrapper's Read/Seek and validateBlock", "the wrapped reader is used outside the wrapper's own methods")
		})
	}

	// ---- R09.3
	var skrParam *ssa.Parameter
	for _, p := range vb.Params {
		if core.TypeName(p.Type()) == "pwr.safeKeeperReader" {
			skrParam = p
		}
	}
	if skrParam == nil {
		c.Missing("R09.3", core.FnName(vb), "validateBlock no longer takes the reader")
		return
	}
	isSavedOffset := func(v ssa.Value) bool {
		for _, o := range core.Origins(v) {
			b, n, ok := core.FieldOf(o)
			if !ok || n != "offset" || b != ssa.Value(skrParam) {
				return false
			}
		}
		return true
	}
	isRestore := func(in ssa.Instruction) bool {
		if !innerSeek(in) {
			return false
		}
		args := in.(*ssa.Call).Call.Args
		if len(args) != 2 || !isSavedOffset(args[0]) {
			return false
		}
		w, isC := core.ConstInt(args[1])
		return isC && w == 0
	}
	isMove := func(in ssa.Instruction) bool { return (innerSeek(in) && !isRestore(in)) || innerRead(in) }
	nm := 0
	for _, mv := range allInstrs(vb, isMove) {
		nm++
		p := core.FindPath(vb, mv, isReturn, isRestore)
		c.Check(p == nil, "R09.3", core.FnName(vb), "position restored after "+core.CalleeName(mv.(*ssa.Call))+"("+core.Describe(mv.(*ssa.Call).Call.Args[0])+")", core.InstrPos(mv),
			"every path from this move of the wrapped reader to a return seeks back to the saved offset",
			"validateBlock can return with the wrapped reader left at the block start / after the block: the caller's next Read returns bytes from the wrong position").Path = c.P.PathStrings(p)
	}
	c.Floor("R09.3", "moves of the wrapped reader in validateBlock", nm, 2)
	// the saved offset is read before the first move: the load feeding the restore seeks must not be reachable from a move
	for _, rsk := range allInstrs(vb, isRestore) {
		for _, o := range core.Origins(rsk.(*ssa.Call).Call.Args[0]) {
			if ld, ok := o.(*ssa.UnOp); ok {
				stale := false
				for _, mv := range allInstrs(vb, isMove) {
					if core.FindPath(vb, mv, isInstr(ld), nil) != nil {
						stale = true
					}
				}
				c.Check(!stale, "R09.3", core.FnName(vb), "offset saved before the first move", core.InstrPos(ld),
					"skr.offset is read before the reader is moved", "the offset used for restoring is read after the reader was already moved")
			}
		}
	}

	// ---- R09.4
	// Seek: offset = result of inner Seek, on every path
	for _, sk := range allInstrs(seek, innerSeek) {
		isStore := func(in ssa.Instruction) bool {
			st, ok := in.(*ssa.Store)
			if !ok {
				return false
			}
			if _, n, ok := core.FieldOf(st.Addr); !ok || n != "offset" {
				return false
			}
			for _, o := range core.Origins(st.Val) {
				if ex, ok := o.(*ssa.Extract); ok && ex.Tuple == ssa.Value(sk.(*ssa.Call)) && ex.Index == 0 {
					return true
				}
			}
			return false
		}
		// demanded on the success outcome only: after a failed Seek the position is whatever the wrapped
		// reader says it is, and not recording the returned value there is not wrong
		skc := sk.(*ssa.Call)
		errEdge := func(b, s *ssa.BasicBlock) bool {
			ifi, ok := b.Instrs[len(b.Instrs)-1].(*ssa.If)
			if !ok {
				return false
			}
			bo, ok := ifi.Cond.(*ssa.BinOp)
			if !ok || !core.IsNilConst(bo.Y) || !extractOf(bo.X, skc, 1) {
				return false
			}
			return (bo.Op == token.NEQ && s == b.Succs[0]) || (bo.Op == token.EQL && s == b.Succs[1])
		}
		p := core.FindPathSkipping(seek, sk, isReturn, isStore, errEdge)
		c.Check(p == nil, "R09.4", core.FnName(seek), "offset = result of the inner Seek", core.InstrPos(sk),
			"the wrapper records the position reported by the wrapped reader", "Seek does not record the wrapped reader's new position on every path: validateBlock then checks the wrong block").Path = c.P.PathStrings(p)
	}
	for _, rd := range allInstrs(read, innerRead) {
		isAdd := func(in ssa.Instruction) bool {
			st, ok := in.(*ssa.Store)
			if !ok {
				return false
			}
			if _, n, ok := core.FieldOf(st.Addr); !ok || n != "offset" {
				return false
			}
			bo, ok := st.Val.(*ssa.BinOp)
			if !ok || bo.Op != token.ADD {
				return false
			}
			for _, side := range []ssa.Value{bo.X, bo.Y} {
				for _, o := range core.Origins(side) {
					if ex, ok := o.(*ssa.Extract); ok && ex.Tuple == ssa.Value(rd.(*ssa.Call)) && ex.Index == 0 {
						return true
					}
				}
			}
			return false
		}
		p := core.FindPath(read, rd, isReturn, isAdd)
		c.Check(p == nil, "R09.4", core.FnName(read), "offset += count of the inner Read", core.InstrPos(rd),
			"the wrapper advances its offset by what the wrapped reader returned", "Read does not advance the offset by the inner Read's count on every path").Path = c.P.PathStrings(p)
	}
	// construction sites
	nc := 0
	for _, fn := range c.P.SrcFuncs() {
		core.Instrs(fn, func(in ssa.Instruction) {
			a, ok := in.(*ssa.Alloc)
			if !ok || core.TypeName(a.Type()) != "pwr.safeKeeperReader" || !isLitAlloc(a) {
				return
			}
			nc++
			rsv, hasRs := litField(a, "rs")
			off, hasOff := litField(a, "offset")
			ok2 := false
			if hasRs && hasOff {
				for _, o := range core.Origins(off) {
					if ex, ok := o.(*ssa.Extract); ok && ex.Index == 0 {
						if cl, ok := ex.Tuple.(*ssa.Call); ok && cl.Call.IsInvoke() && cl.Call.Method.Name() == "Seek" && sameVal(cl.Call.Value, rsv) {
							ok2 = true
						}
					}
				}
			}
			if hasRs && !hasOff {
				// offset left zero: the reader must have been rewound to the start before wrapping
				core.Instrs(fn, func(x ssa.Instruction) {
					if cl, ok := x.(*ssa.Call); ok && cl.Call.IsInvoke() && cl.Call.Method.Name() == "Seek" && sameVal(cl.Call.Value, rsv) {
						z, isC := core.ConstInt(cl.Call.Args[0])
						w, isW := core.ConstInt(cl.Call.Args[1])
						if isC && isW && z == 0 && w == 0 && core.InstrDominates(x, a) {
							ok2 = true
						}
					}
				})
			}
			c.Check(ok2, "R09.4", core.FnName(fn), "construction of safeKeeperReader initialises offset from the wrapped reader", core.InstrPos(a),
				"offset is the result of a Seek on the wrapped reader (or the reader was rewound)",
				"the wrapper starts with offset 0 around a reader whose position is unknown (pools cache and re-issue readers): the wrong blocks are validated and stale positions are read")
		})
	}
	c.Floor("R09.4", "construction sites of safeKeeperReader", nc, 1)

	// ---- R09.7: what is judged is what was read: the data handed to the block validator is the buffer
	// cut at the count the read returned (the buffer is shared by all validations and never cleared)
	{
		nv := 0
		core.Instrs(vb, func(in ssa.Instruction) {
			cl, ok := in.(*ssa.Call)
			if !ok || !cl.Call.IsInvoke() || !strings.HasPrefix(cl.Call.Method.Name(), "ValidateAs") || len(cl.Call.Args) == 0 {
				return
			}
			nv++
			data := cl.Call.Args[len(cl.Call.Args)-1]
			okData := false
			for _, o := range core.Origins(data) {
				sl, ok := o.(*ssa.Slice)
				if !ok || sl.High == nil {
					continue
				}
				if sl.Low != nil {
					if z, isC := core.ConstInt(sl.Low); !isC || z != 0 {
						continue
					}
				}
				// High is the count (#0) of a read into the sliced buffer
				for _, h := range core.Origins(sl.High) {
					ex, ok := h.(*ssa.Extract)
					if !ok || ex.Index != 0 {
						continue
					}
					rc, ok := ex.Tuple.(*ssa.Call)
					if !ok {
						continue
					}
					var bufArg ssa.Value
					switch {
					case rc.Call.IsInvoke() && rc.Call.Method.Name() == "Read" && len(rc.Call.Args) == 1:
						bufArg = rc.Call.Args[0]
					case (core.CalleeName(rc) == "io.ReadFull" || core.CalleeName(rc) == "io.ReadAtLeast") && len(rc.Call.Args) >= 2:
						bufArg = rc.Call.Args[1]
					}
					if bufArg != nil && (sameVal(bufArg, sl.X) || sameExpr(bufArg, sl.X)) {
						okData = true
					}
				}
			}
			c.Check(okData, "R09.7", core.FnName(vb), "the validated data is the buffer cut at the count read", core.InstrPos(in),
				"data = buf[:n], n the count returned by the read into buf", "the block validator is handed bytes that were not read by this validation (the shared buffer beyond the count read, or another slice): stale bytes of a previously validated block can make a truncated or damaged block pass")
		})
		c.Floor("R09.7", "block validations in validateBlock", nv, 1)
	}

	ruleSignedLength(c, read, vb, innerRead, isVB)

	// ---- R09.6: the safekeeper's Read checks the one block that holds the current offset and then forwards the
	// caller's whole buffer. Its large reads come from the bsdiff cache in front of the old file, in chunks at
	// chunk-aligned offsets; a chunk must therefore never straddle two signed blocks.
	blockSize := int64(-1)
	if k, ok := c.P.LookupObj("pwr", "BlockSize").(*types.Const); ok {
		blockSize, _ = constInt64(k)
	}
	nChunk := 0
	for _, fn := range c.P.SrcFuncs() {
		core.Instrs(fn, func(in ssa.Instruction) {
			cl, ok := in.(*ssa.Call)
			if !ok || core.CalleeName(cl) != "bsdiff/lrufile.New" || len(cl.Call.Args) < 1 {
				return
			}
			nChunk++
			k, isC := core.ConstInt(cl.Call.Args[0])
			c.Check(isC && k > 0 && blockSize > 0 && blockSize%k == 0, "R09.6", core.FnName(fn), "cache chunk size divides the signed block size", core.InstrPos(in),
				fmt.Sprintf("chunk size %d divides BlockSize %d: a chunk-aligned chunk read lies within one validated block", k, blockSize),
				fmt.Sprintf("the cache in front of the old file reads chunks of %d bytes (constant: %v) while blocks are validated %d bytes at a time: a chunk read covers blocks the safekeeper did not check, and damage in them flows into the output", k, isC, blockSize))
		})
	}
	c.Floor("R09.6", "constructions of the old-file cache", nChunk, 1)
}

// ruleSignedLength is R09.8. The signature vouches for size bytes of each file; block hashes alone do not
// notice a file that ends early on a block boundary, carries extra bytes inside its last block, or - for a
// size that is a multiple of the block size - has no block at all at the position where its end is read.
// (a) Read decides what to do from its position relative to the signed size: the validation and the read of
//
//	the wrapped reader are dominated by a branch on a value computed from both the offset and the signed size;
//
// (b) the buffer handed to the wrapped reader is cut at a bound computed from the signed size;
// (c) in validateBlock the error of the read that fills the block buffer is returned only when it is not an
//
//	end of file: a block that comes back short is judged (and fails), it does not end the stream cleanly.
func ruleSignedLength(c *core.Ctx, read, vb *ssa.Function, innerRead, isVB ipred) {
	rname := core.FnName(read)
	retSize := map[*ssa.Function]bool{}
	var signedDep func(v ssa.Value, depth int, seen map[ssa.Value]bool) bool
	signedDep = func(v ssa.Value, depth int, seen map[ssa.Value]bool) bool {
		if v == nil || seen[v] {
			return false
		}
		seen[v] = true
		for _, o := range core.Origins(v) {
			if seen[o] && o != v {
				continue
			}
			seen[o] = true
			if _, n, ok := core.FieldOf(o); ok && n == "Size" {
				return true
			}
			switch x := o.(type) {
			case *ssa.BinOp:
				if signedDep(x.X, depth, seen) || signedDep(x.Y, depth, seen) {
					return true
				}
			case *ssa.UnOp:
				if signedDep(x.X, depth, seen) {
					return true
				}
			case *ssa.Extract:
				if signedDep(x.Tuple, depth, seen) {
					return true
				}
			case *ssa.Call:
				if x.Call.IsInvoke() && x.Call.Method.Name() == "GetSize" {
					return true // the size the pool's container declares for the file
				}
				if cal := x.Call.StaticCallee(); cal != nil && cal.Blocks != nil && depth > 0 && strings.HasPrefix(core.PkgPathOf(cal), core.Mod) {
					if done, ok := retSize[cal]; ok {
						if done {
							return true
						}
						continue
					}
					retSize[cal] = false
					for _, rs := range core.Returns(cal, 0) {
						if rs.Val != nil && signedDep(rs.Val, depth-1, map[ssa.Value]bool{}) {
							retSize[cal] = true
						}
					}
					if retSize[cal] {
						return true
					}
				}
			}
		}
		return false
	}
	var offsetDep func(v ssa.Value, seen map[ssa.Value]bool) bool
	offsetDep = func(v ssa.Value, seen map[ssa.Value]bool) bool {
		if v == nil || seen[v] {
			return false
		}
		seen[v] = true
		for _, o := range core.Origins(v) {
			if _, n, ok := core.FieldOf(o); ok && n == "offset" {
				return true
			}
			switch x := o.(type) {
			case *ssa.BinOp:
				if offsetDep(x.X, seen) || offsetDep(x.Y, seen) {
					return true
				}
			case *ssa.UnOp:
				if x.Op != token.MUL && offsetDep(x.X, seen) {
					return true
				}
			}
		}
		return false
	}
	isCmp := func(v ssa.Value) (*ssa.BinOp, bool) {
		bo, ok := v.(*ssa.BinOp)
		if !ok {
			return nil, false
		}
		switch bo.Op {
		case token.LSS, token.LEQ, token.GTR, token.GEQ, token.EQL, token.NEQ:
			return bo, true
		}
		return nil, false
	}
	positionGuard := func(in ssa.Instruction) bool {
		return hasGuard(in, func(g core.Guard) bool {
			bo, ok := isCmp(g.Cond)
			if !ok {
				return false
			}
			sd := signedDep(bo.X, 2, map[ssa.Value]bool{}) || signedDep(bo.Y, 2, map[ssa.Value]bool{})
			od := offsetDep(bo.X, map[ssa.Value]bool{}) || offsetDep(bo.Y, map[ssa.Value]bool{})
			return sd && od
		})
	}
	n := 0
	for _, in := range append(allInstrs(read, innerRead), allInstrs(read, isVB)...) {
		n++
		what := "read of the wrapped reader"
		if isVB(in) {
			what = "block validation"
		}
		c.Check(positionGuard(in), "R09.8", rname, what+" decided by the position relative to the signed size", core.InstrPos(in),
			"dominated by a branch on a value computed from the reader's offset and the signed size of the file",
			"Read never compares its position with the size the signature records: at the end of a file whose size is a multiple of the block size it asks for the validation of a block that does not exist (an undamaged file is rejected), and nothing stops it at the signed end of a file that has grown")
	}
	c.Floor("R09.8", "validations and wrapped reads in Read", n, 2)
	for _, in := range allInstrs(read, innerRead) {
		cl := in.(*ssa.Call)
		buf := cl.Call.Args[len(cl.Call.Args)-1]
		if core.CalleeName(cl) == "io.ReadFull" || core.CalleeName(cl) == "io.ReadAtLeast" {
			buf = cl.Call.Args[1]
		}
		cut := false
		for _, o := range core.Origins(buf) {
			if sl, ok := o.(*ssa.Slice); ok && sl.High != nil && signedDep(sl.High, 2, map[ssa.Value]bool{}) {
				cut = true
			}
		}
		if !cut {
			// or: the read happens only where the caller's buffer was found to fit
			cut = hasGuard(in, func(g core.Guard) bool {
				bo, ok := isCmp(g.Cond)
				if !ok {
					return false
				}
				isLen := func(v ssa.Value) bool {
					found := false
					var walk func(v ssa.Value, d int)
					walk = func(v ssa.Value, d int) {
						if d > 4 || v == nil {
							return
						}
						switch x := v.(type) {
						case *ssa.Call:
							if b, ok := x.Call.Value.(*ssa.Builtin); ok && b.Name() == "len" {
								found = true
							}
						case *ssa.Convert:
							walk(x.X, d+1)
						case *ssa.BinOp:
							walk(x.X, d+1)
							walk(x.Y, d+1)
						}
					}
					walk(v, 0)
					return found
				}
				return (isLen(bo.X) && signedDep(bo.Y, 2, map[ssa.Value]bool{})) || (isLen(bo.Y) && signedDep(bo.X, 2, map[ssa.Value]bool{}))
			})
		}
		c.Check(cut, "R09.8", rname, "the buffer handed to the wrapped reader ends at the signed size", core.InstrPos(in),
			"the buffer is cut at a bound computed from the signed size (or the read is conditional on the buffer fitting)",
			"the caller's whole buffer is handed to the wrapped reader: bytes a damaged file carries past its signed size, inside the last block, are returned although no hash covers them (a whole-file copy then produces a longer file, silently)")
	}
	// (c)
	isEOFGuard := func(ret ssa.Instruction, call *ssa.Call, name string) bool {
		return hasGuard(ret, func(g core.Guard) bool {
			bo, ok := g.Cond.(*ssa.BinOp)
			if !ok || (bo.Op != token.EQL && bo.Op != token.NEQ) {
				return false
			}
			if (bo.Op == token.NEQ) != g.Val {
				return false
			}
			isSentinel := func(v ssa.Value) bool {
				ld, ok := v.(*ssa.UnOp)
				if !ok || ld.Op != token.MUL {
					return false
				}
				gl, ok := ld.X.(*ssa.Global)
				return ok && strings.HasSuffix(gl.String(), name)
			}
			return (isSentinel(bo.X) && isResultOf(bo.Y, call)) || (isSentinel(bo.Y) && isResultOf(bo.X, call))
		})
	}
	nb := 0
	for _, in := range allInstrs(vb, innerRead) {
		cl := in.(*ssa.Call)
		nb++
		full := core.CalleeName(cl) == "io.ReadFull" || core.CalleeName(cl) == "io.ReadAtLeast"
		okAll := true
		var where ssa.Instruction
		for _, rs := range core.Returns(vb, -1) {
			if rs.Val == nil || !isResultOf(rs.Val, cl) {
				continue
			}
			if core.FindPath(vb, cl, isInstr(rs.Ret), nil) == nil {
				continue
			}
			// a return of the verdict map's entry is not a return of this error even if both live in `err`
			direct := false
			for _, o := range core.Origins(core.StoredHere(rs.Val)) {
				if ex, ok := o.(*ssa.Extract); ok && ex.Tuple == ssa.Value(cl) {
					direct = true
				}
			}
			if !direct {
				continue
			}
			g := isEOFGuard(rs.Ret, cl, "io.EOF")
			if full {
				g = g && isEOFGuard(rs.Ret, cl, "io.ErrUnexpectedEOF")
			}
			if !g {
				okAll, where = false, rs.Ret
			}
		}
		o := c.Check(okAll, "R09.8", core.FnName(vb), "a block that comes back short is judged, not taken for the end of the file", core.InstrPos(in),
			"the error of the read that fills the block buffer is returned only when it is neither io.EOF nor (for a full read) io.ErrUnexpectedEOF",
			"validateBlock returns the block read's error as it is: when the file ends where a signed block should begin the error is io.EOF, Read passes it on, and the consumer takes a truncated file for a complete one")
		if where != nil {
			o.Detail += " (returned at " + c.P.Pos(where.Pos()) + ")"
		}
	}
	c.Floor("R09.8", "reads that fill the block buffer in validateBlock", nb, 1)
}
