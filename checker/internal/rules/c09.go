package rules

import (
	"fmt"
	"go/token"
	"go/types"
	"strings"

	"golang.org/x/tools/go/ssa"

	"wharfverif/checker/internal/core"
)

func init() {
	register(&Property{
		ID: "C09",
		Explanation: `R09.1 in safeKeeperReader.Read the inner reader is read only after validateBlock was called on every path and only on the nil outcome of its result; ` +
			`R09.2 raw readers of the inner pool never escape: they flow only into the rs field of a safeKeeperReader, the pool methods return only *safeKeeperReader, and methods of the rs field are called only from the wrapper's own methods; ` +
			`R09.3 validateBlock restores the reader position (Seek to the offset saved before the first move) on every path after it moved the reader; ` +
			`R09.4 safeKeeperReader.offset mirrors the wrapped reader's position: Seek stores the result of the inner Seek, Read adds the inner Read's count, and every construction site initialises offset from a Seek on the same reader; R09.6 the chunk size of the bsdiff read cache (lrufile.New) is a constant that divides pwr.BlockSize, so that a chunk-aligned chunk read never covers a block the safekeeper's per-offset validation did not check; R09.7 the data validateBlock hands to the block validator is its buffer cut at the count the read into that buffer returned. ` +
			`NOT decided: that every damage is noticed (depends on which blocks a patch reads), the verdict cache, reads at EOF of a file whose size is a multiple of 64KiB (defect F13, arithmetic).`,
		Assumptions: []string{"the wrapped reader is the field rs of safeKeeperReader; the inner pool is the field inner of safeKeeper"},
		Run:         runC09,
	})
}

func runC09(c *core.Ctx) {
	c.Rule("R09.1", "validate before read")
	c.Rule("R09.2", "raw readers do not escape the wrapper")
	c.Rule("R09.3", "position restored after validation")
	c.Rule("R09.4", "offset mirrors the wrapped reader's position")
	c.Rule("R09.6", "cache chunks never straddle validated blocks")
	c.Rule("R09.7", "what is judged is what was read")
	read := c.P.Fn("pwr", "safeKeeperReader.Read")
	seek := c.P.Fn("pwr", "safeKeeperReader.Seek")
	vb := c.P.Fn("pwr", "safeKeeper.validateBlock")
	grs := c.P.Fn("pwr", "safeKeeper.GetReadSeeker")
	gr := c.P.Fn("pwr", "safeKeeper.GetReader")
	for n, f := range map[string]*ssa.Function{"safeKeeperReader.Read": read, "safeKeeperReader.Seek": seek, "safeKeeper.validateBlock": vb, "safeKeeper.GetReadSeeker": grs, "safeKeeper.GetReader": gr} {
		if f == nil {
			c.Missing("R09", "pwr."+n, "not found")
			return
		}
	}
	innerRead := fieldInvoke("rs", "Read")
	innerSeek := fieldInvoke("rs", "Seek")
	isVB := func(in ssa.Instruction) bool {
		cl, ok := in.(*ssa.Call)
		return ok && cl.Call.StaticCallee() == vb
	}
	// ---- R09.1
	nr := 0
	for _, in := range allInstrs(read, innerRead) {
		nr++
		p := core.FindPath(read, nil, isInstr(in), isVB)
		c.Check(p == nil, "R09.1", core.FnName(read), "inner Read preceded by validateBlock", core.InstrPos(in),
			"every path to the inner Read calls sk.validateBlock first",
			"the wrapped reader can be read without validating the block at the current offset: damaged old data flows into the output unnoticed").Path = c.P.PathStrings(p)
		for _, v := range allInstrs(read, isVB) {
			vc := v.(*ssa.Call)
			p2 := ungatedPath(read, vc, in, isVB)
			c.Check(p2 == nil, "R09.1", core.FnName(read), "validateBlock's verdict gates the inner Read", core.InstrPos(v),
				"the inner Read is reachable only through the nil outcome of validateBlock",
				"the inner Read is reachable although validateBlock's result was not found nil").Path = c.P.PathStrings(p2)
		}
	}
	c.Floor("R09.1", "inner Read sites", nr, 1)
	// validateBlock returns the cached/new verdict: its success returns must be loads of the verdict map
	// (a constant nil return would declare blocks valid without looking)
	for _, rs := range core.Returns(vb, -1) {
		if core.IsNilConst(rs.Val) {
			c.Bad("R09.1", core.FnName(vb), "constant nil verdict", core.InstrPos(rs.Ret), "validateBlock returns a constant nil on some path: a block is declared valid without a verdict")
		}
	}

	// ---- R09.2
	for _, f := range []*ssa.Function{grs, gr} {
		for _, rs := range core.Returns(f, 0) {
			ok := true
			var bad string
			for _, o := range core.Origins(rs.Val) {
				switch x := o.(type) {
				case *ssa.Const:
				case *ssa.Alloc:
					if core.TypeName(x.Type()) != "pwr.safeKeeperReader" {
						ok, bad = false, core.Describe(x)
					}
				case *ssa.Extract:
					cl, isCall := x.Tuple.(*ssa.Call)
					if !isCall || (cl.Call.StaticCallee() != grs && cl.Call.StaticCallee() != gr) {
						ok, bad = false, core.Describe(x)
					}
				default:
					ok, bad = false, core.Describe(o)
				}
			}
			c.Check(ok, "R09.2", core.FnName(f), "returns only the validating wrapper", core.InstrPos(rs.Ret),
				"the returned reader is a *safeKeeperReader (or nil)", "the pool can hand out "+bad+", which is not the validating wrapper: reads through it are never checked against the signature")
		}
	}
	// raw reader uses inside the constructor
	core.Instrs(grs, func(in ssa.Instruction) {
		cl, ok := in.(*ssa.Call)
		if !ok || !cl.Call.IsInvoke() || !strings.HasPrefix(cl.Call.Method.Name(), "GetRead") {
			return
		}
		if _, n, ok := core.FieldOf(cl.Call.Value); !ok || n != "inner" {
			return
		}
		var raw ssa.Value
		if refs := cl.Referrers(); refs != nil {
			for _, r := range *refs {
				if ex, ok := r.(*ssa.Extract); ok && ex.Index == 0 {
					raw = ex
				}
			}
		}
		if raw == nil {
			return
		}
		if refs := raw.Referrers(); refs != nil {
			for _, r := range *refs {
				okUse := false
				switch x := r.(type) {
				case *ssa.Store:
					if _, n, ok := core.FieldOf(x.Addr); ok && n == "rs" {
						okUse = true
					}
				case *ssa.Call:
					okUse = x.Call.IsInvoke() && x.Call.Value == raw && x.Call.Method.Name() == "Seek"
				case *ssa.DebugRef:
					okUse = true
				}
				c.Check(okUse, "R09.2", core.FnName(grs), "use of the raw inner reader: "+r.String(), core.InstrPos(r),
					"stored into the wrapper's rs field / positioned with Seek", "the raw reader of the inner pool is used other than by wrapping it")
			}
		}
	})
	allowed := map[*ssa.Function]bool{read: true, seek: true, vb: true}
	for _, fn := range c.P.SrcFuncs() {
		core.Instrs(fn, func(in ssa.Instruction) {
			cl, ok := in.(ssa.CallInstruction)
			if !ok || !cl.Common().IsInvoke() {
				return
			}
			b, n, ok := core.FieldOf(cl.Common().Value)
			if !ok || n != "rs" || core.TypeName(b.Type()) != "pwr.safeKeeperReader" {
				return
			}
			c.Check(allowed[fn], "R09.2", core.FnName(fn), "call of rs."+cl.Common().Method.Name(), core.InstrPos(in),
				"the wrapped reader is touched only by the wrapper's Read/Seek and validateBlock", "the wrapped reader is used outside the wrapper's own methods")
		})
	}

	// ---- R09.3
	var skrParam *ssa.Parameter
	for _, p := range vb.Params {
		if core.TypeName(p.Type()) == "pwr.safeKeeperReader" {
			skrParam = p
		}
	}
	if skrParam == nil {
		c.Missing("R09.3", core.FnName(vb), "validateBlock no longer takes the reader")
		return
	}
	isSavedOffset := func(v ssa.Value) bool {
		for _, o := range core.Origins(v) {
			b, n, ok := core.FieldOf(o)
			if !ok || n != "offset" || b != ssa.Value(skrParam) {
				return false
			}
		}
		return true
	}
	isRestore := func(in ssa.Instruction) bool {
		if !innerSeek(in) {
			return false
		}
		args := in.(*ssa.Call).Call.Args
		if len(args) != 2 || !isSavedOffset(args[0]) {
			return false
		}
		w, isC := core.ConstInt(args[1])
		return isC && w == 0
	}
	isMove := func(in ssa.Instruction) bool { return (innerSeek(in) && !isRestore(in)) || innerRead(in) }
	nm := 0
	for _, mv := range allInstrs(vb, isMove) {
		nm++
		p := core.FindPath(vb, mv, isReturn, isRestore)
		c.Check(p == nil, "R09.3", core.FnName(vb), "position restored after "+core.CalleeName(mv.(*ssa.Call))+"("+core.Describe(mv.(*ssa.Call).Call.Args[0])+")", core.InstrPos(mv),
			"every path from this move of the wrapped reader to a return seeks back to the saved offset",
			"validateBlock can return with the wrapped reader left at the block start / after the block: the caller's next Read returns bytes from the wrong position").Path = c.P.PathStrings(p)
	}
	c.Floor("R09.3", "moves of the wrapped reader in validateBlock", nm, 2)
	// the saved offset is read before the first move: the load feeding the restore seeks must not be reachable from a move
	for _, rsk := range allInstrs(vb, isRestore) {
		for _, o := range core.Origins(rsk.(*ssa.Call).Call.Args[0]) {
			if ld, ok := o.(*ssa.UnOp); ok {
				stale := false
				for _, mv := range allInstrs(vb, isMove) {
					if core.FindPath(vb, mv, isInstr(ld), nil) != nil {
						stale = true
					}
				}
				c.Check(!stale, "R09.3", core.FnName(vb), "offset saved before the first move", core.InstrPos(ld),
					"skr.offset is read before the reader is moved", "the offset used for restoring is read after the reader was already moved")
			}
		}
	}

	// ---- R09.4
	// Seek: offset = result of inner Seek, on every path
	for _, sk := range allInstrs(seek, innerSeek) {
		isStore := func(in ssa.Instruction) bool {
			st, ok := in.(*ssa.Store)
			if !ok {
				return false
			}
			if _, n, ok := core.FieldOf(st.Addr); !ok || n != "offset" {
				return false
			}
			for _, o := range core.Origins(st.Val) {
				if ex, ok := o.(*ssa.Extract); ok && ex.Tuple == ssa.Value(sk.(*ssa.Call)) && ex.Index == 0 {
					return true
				}
			}
			return false
		}
		// demanded on the success outcome only: after a failed Seek the position is whatever the wrapped
		// reader says it is, and not recording the returned value there is not wrong
		skc := sk.(*ssa.Call)
		errEdge := func(b, s *ssa.BasicBlock) bool {
			ifi, ok := b.Instrs[len(b.Instrs)-1].(*ssa.If)
			if !ok {
				return false
			}
			bo, ok := ifi.Cond.(*ssa.BinOp)
			if !ok || !core.IsNilConst(bo.Y) || !extractOf(bo.X, skc, 1) {
				return false
			}
			return (bo.Op == token.NEQ && s == b.Succs[0]) || (bo.Op == token.EQL && s == b.Succs[1])
		}
		p := core.FindPathSkipping(seek, sk, isReturn, isStore, errEdge)
		c.Check(p == nil, "R09.4", core.FnName(seek), "offset = result of the inner Seek", core.InstrPos(sk),
			"the wrapper records the position reported by the wrapped reader", "Seek does not record the wrapped reader's new position on every path: validateBlock then checks the wrong block").Path = c.P.PathStrings(p)
	}
	for _, rd := range allInstrs(read, innerRead) {
		isAdd := func(in ssa.Instruction) bool {
			st, ok := in.(*ssa.Store)
			if !ok {
				return false
			}
			if _, n, ok := core.FieldOf(st.Addr); !ok || n != "offset" {
				return false
			}
			bo, ok := st.Val.(*ssa.BinOp)
			if !ok || bo.Op != token.ADD {
				return false
			}
			for _, side := range []ssa.Value{bo.X, bo.Y} {
				for _, o := range core.Origins(side) {
					if ex, ok := o.(*ssa.Extract); ok && ex.Tuple == ssa.Value(rd.(*ssa.Call)) && ex.Index == 0 {
						return true
					}
				}
			}
			return false
		}
		p := core.FindPath(read, rd, isReturn, isAdd)
		c.Check(p == nil, "R09.4", core.FnName(read), "offset += count of the inner Read", core.InstrPos(rd),
			"the wrapper advances its offset by what the wrapped reader returned", "Read does not advance the offset by the inner Read's count on every path").Path = c.P.PathStrings(p)
	}
	// construction sites
	nc := 0
	for _, fn := range c.P.SrcFuncs() {
		core.Instrs(fn, func(in ssa.Instruction) {
			a, ok := in.(*ssa.Alloc)
			if !ok || core.TypeName(a.Type()) != "pwr.safeKeeperReader" || (a.Comment != "complit" && a.Comment != "new") {
				return
			}
			nc++
			rsv, hasRs := litField(a, "rs")
			off, hasOff := litField(a, "offset")
			ok2 := false
			if hasRs && hasOff {
				for _, o := range core.Origins(off) {
					if ex, ok := o.(*ssa.Extract); ok && ex.Index == 0 {
						if cl, ok := ex.Tuple.(*ssa.Call); ok && cl.Call.IsInvoke() && cl.Call.Method.Name() == "Seek" && sameVal(cl.Call.Value, rsv) {
							ok2 = true
						}
					}
				}
			}
			if hasRs && !hasOff {
				// offset left zero: the reader must have been rewound to the start before wrapping
				core.Instrs(fn, func(x ssa.Instruction) {
					if cl, ok := x.(*ssa.Call); ok && cl.Call.IsInvoke() && cl.Call.Method.Name() == "Seek" && sameVal(cl.Call.Value, rsv) {
						z, isC := core.ConstInt(cl.Call.Args[0])
						w, isW := core.ConstInt(cl.Call.Args[1])
						if isC && isW && z == 0 && w == 0 && core.InstrDominates(x, a) {
							ok2 = true
						}
					}
				})
			}
			c.Check(ok2, "R09.4", core.FnName(fn), "construction of safeKeeperReader initialises offset from the wrapped reader", core.InstrPos(a),
				"offset is the result of a Seek on the wrapped reader (or the reader was rewound)",
				"the wrapper starts with offset 0 around a reader whose position is unknown (pools cache and re-issue readers): the wrong blocks are validated and stale positions are read")
		})
	}
	c.Floor("R09.4", "construction sites of safeKeeperReader", nc, 1)

	// ---- R09.7: what is judged is what was read: the data handed to the block validator is the buffer
	// cut at the count the read returned (the buffer is shared by all validations and never cleared)
	{
		nv := 0
		core.Instrs(vb, func(in ssa.Instruction) {
			cl, ok := in.(*ssa.Call)
			if !ok || !cl.Call.IsInvoke() || !strings.HasPrefix(cl.Call.Method.Name(), "ValidateAs") || len(cl.Call.Args) == 0 {
				return
			}
			nv++
			data := cl.Call.Args[len(cl.Call.Args)-1]
			okData := false
			for _, o := range core.Origins(data) {
				sl, ok := o.(*ssa.Slice)
				if !ok || sl.High == nil {
					continue
				}
				if sl.Low != nil {
					if z, isC := core.ConstInt(sl.Low); !isC || z != 0 {
						continue
					}
				}
				// High is the count (#0) of a read into the sliced buffer
				for _, h := range core.Origins(sl.High) {
					ex, ok := h.(*ssa.Extract)
					if !ok || ex.Index != 0 {
						continue
					}
					rc, ok := ex.Tuple.(*ssa.Call)
					if !ok {
						continue
					}
					var bufArg ssa.Value
					switch {
					case rc.Call.IsInvoke() && rc.Call.Method.Name() == "Read" && len(rc.Call.Args) == 1:
						bufArg = rc.Call.Args[0]
					case (core.CalleeName(rc) == "io.ReadFull" || core.CalleeName(rc) == "io.ReadAtLeast") && len(rc.Call.Args) >= 2:
						bufArg = rc.Call.Args[1]
					}
					if bufArg != nil && (sameVal(bufArg, sl.X) || sameExpr(bufArg, sl.X)) {
						okData = true
					}
				}
			}
			c.Check(okData, "R09.7", core.FnName(vb), "the validated data is the buffer cut at the count read", core.InstrPos(in),
				"data = buf[:n], n the count returned by the read into buf", "the block validator is handed bytes that were not read by this validation (the shared buffer beyond the count read, or another slice): stale bytes of a previously validated block can make a truncated or damaged block pass")
		})
		c.Floor("R09.7", "block validations in validateBlock", nv, 1)
	}

	// ---- R09.6: the safekeeper's Read checks the one block that holds the current offset and then forwards the
	// caller's whole buffer. Its large reads come from the bsdiff cache in front of the old file, in chunks at
	// chunk-aligned offsets; a chunk must therefore never straddle two signed blocks.
	blockSize := int64(-1)
	if k, ok := c.P.LookupObj("pwr", "BlockSize").(*types.Const); ok {
		blockSize, _ = constInt64(k)
	}
	nChunk := 0
	for _, fn := range c.P.SrcFuncs() {
		core.Instrs(fn, func(in ssa.Instruction) {
			cl, ok := in.(*ssa.Call)
			if !ok || core.CalleeName(cl) != "bsdiff/lrufile.New" || len(cl.Call.Args) < 1 {
				return
			}
			nChunk++
			k, isC := core.ConstInt(cl.Call.Args[0])
			c.Check(isC && k > 0 && blockSize > 0 && blockSize%k == 0, "R09.6", core.FnName(fn), "cache chunk size divides the signed block size", core.InstrPos(in),
				fmt.Sprintf("chunk size %d divides BlockSize %d: a chunk-aligned chunk read lies within one validated block", k, blockSize),
				fmt.Sprintf("the cache in front of the old file reads chunks of %d bytes (constant: %v) while blocks are validated %d bytes at a time: a chunk read covers blocks the safekeeper did not check, and damage in them flows into the output", k, isC, blockSize))
		})
	}
	c.Floor("R09.6", "constructions of the old-file cache", nChunk, 1)
}
