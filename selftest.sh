#!/bin/bash
# Thorough tier: (1) checker self-test — every source-level variant under mutants/<prop>/ and every
# seeded change under seeded/*/ that names <prop> and is marked static-detectable is applied to a
# scratch copy of /repo (outside /repo and /verif, removed immediately), analysed in a separate
# process and must be reported at the expected obligation; every *.benign.patch must stay silent;
# (2) the property is decided on /repo's current tree with the precise (VTA) call graph; that verdict
# alone determines exit 0/1; a self-test miss is exit 2 ("checker broken").
set -u
cd "$(dirname "$0")"
VERIF="$(pwd)"
PROP="$1"
BIN="$VERIF/.bin/wharfcheck"
REPO="${WHARF_REPO:-/repo}"
TMPBASE="${TMPDIR:-/tmp}"
RESULTS="$(mktemp "$TMPBASE/wharf-selftest-XXXXXX.json")"
trap 'rm -f "$RESULTS"' EXIT
echo '[' > "$RESULTS"
first=1
fail=0
run_variant() {  # $1 patch file, $2 kind (mutant|benign|seeded), $3 expect substring
  local pf="$1" kind="$2" expect="$3" name
  name="$(basename "$(dirname "$pf")")/$(basename "$pf")"
  local scratch
  scratch="$(mktemp -d "$TMPBASE/wharf-mut-XXXXXX")"
  rsync -a --exclude .git "$REPO/" "$scratch/"
  local verdict="ok" detail=""
  if ! (cd "$scratch" && patch -p1 -s --no-backup-if-mismatch < "$pf" >/dev/null 2>&1); then
    verdict="stale"; detail="patch no longer applies to the current tree (skipped)"
  else
    local out rc
    out="$("$BIN" -prop "$PROP" -tier quick -repo "$scratch" -verif "$VERIF" -no-evidence -no-fixtures 2>&1)"; rc=$?
    if [ "$kind" = benign ]; then
      if [ $rc -ne 0 ]; then verdict="FAIL"; detail="benign variant raised an alarm (rc=$rc)"; fi
    else
      if [ $rc -ne 1 ]; then verdict="FAIL"; detail="variant not reported (rc=$rc)";
      elif [ -n "$expect" ] && ! grep -qF -- "$expect" <<<"$out"; then verdict="FAIL"; detail="reported, but not at the expected obligation: $expect"; fi
    fi
    if [ "$verdict" = FAIL ]; then echo "SELFTEST-FAIL $name: $detail" >&2; echo "$out" | tail -15 >&2; fail=1; fi
  fi
  rm -rf "$scratch"
  [ $first -eq 1 ] || echo ',' >> "$RESULTS"
  first=0
  python3 -c 'import json,sys; print(json.dumps({"variant":sys.argv[1],"kind":sys.argv[2],"expect":sys.argv[3],"result":sys.argv[4],"detail":sys.argv[5]}))' "$name" "$kind" "$expect" "$verdict" "$detail" >> "$RESULTS"
  echo "selftest $kind $name: $verdict $detail"
}
shopt -s nullglob
for pf in "$VERIF"/mutants/"$PROP"/*.patch; do
  expect="$(grep -m1 '^# expect:' "$pf" | sed 's/^# expect: *//')"
  case "$pf" in
    *.benign.patch) run_variant "$pf" benign "" ;;
    *) run_variant "$pf" mutant "$expect" ;;
  esac
done
# behaviour-preserving refactoring bundles: every property must stay silent on each
for pf in "$VERIF"/benign_all/*.benign.patch; do
  run_variant "$pf" benign ""
done
for meta in "$VERIF"/seeded/*/meta.json; do
  d="$(dirname "$meta")"
  if python3 - "$meta" "$PROP" <<'PY'
import json,sys
m=json.load(open(sys.argv[1]))
sys.exit(0 if (m.get("property")==sys.argv[2] and m.get("static_detected")) else 1)
PY
  then
    expect="$(python3 -c 'import json,sys; print(json.load(open(sys.argv[1])).get("expect",""))' "$meta")"
    run_variant "$d/patch.diff" seeded "$expect"
  fi
done
echo ']' >> "$RESULTS"
"$BIN" -prop "$PROP" -tier thorough -repo "$REPO" -verif "$VERIF" -selftest "$RESULTS" ${VERIF_VERBOSE:+-v}
rc=$?
if [ $fail -ne 0 ] && [ $rc -ne 1 ]; then
  echo "BROKEN: checker self-test failed (see SELFTEST-FAIL lines)" >&2
  exit 2
fi
exit $rc
