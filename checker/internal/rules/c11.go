package rules

import (
	"go/token"
	"go/types"
	"strings"

	"golang.org/x/tools/go/ssa"

	"wharfverif/checker/internal/core"
)

func init() {
	register(&Property{
		ID: "C11",
		Explanation: `R11.1 block ranges name library blocks: every OpBlockRange built in ComputeDiff takes FileIndex and BlockIndex from the block findUniqueHash returned and BlockSpan 1; the only other writer of BlockSpan is the merge in enqueue, which is control-dependent on equal file and contiguity; ` +
			`R11.2 the pending range is flushed before any data op (in enqueue) and by a deferred closure on every return; R11.3 every operation leaves ComputeDiff through the cleaner returned by makeOperationCleaner, which forwards an empty data op only as the first op; ` +
			`R11.4 every data-op payload is bounded by MaxDataOp by construction: its slice bounds are the pair the size-limit flush controls, a constant extent, or dominated by an explicit bound check; R11.5 every assignment to the start of the hash window (the low bound of βhash's argument) is followed, before the next such assignment or a return, by an assignment to the end of the pending-data window (the pair R11.4 identifies); R01.1 (shared) match acceptance incl. empty windows never match. ` +
			`R11.6 a data op after which the scan can continue is made only under low < high (an empty one would flush the pending block range and be dropped). R11.7 every assignment to the end of the hash window (High bound of the weak hash's argument) is a min(...), a value merged from operands of the ordering comparison on their way in, or a store followed at once by an ordering test of the field (the clamp idioms). R11.8 nothing in package wsync is computed as x & (n-1) with n a value of the run (the block size is the caller's choice; the mask is a remainder only for powers of two). NOT decided: replay equality, merge completeness, wrap-around bookkeeping; the exhaustive small-alphabet enumeration the property describes belongs to a dynamic family.`,
		Run: runC11,
	})
	register(&Property{
		ID: "C08",
		Explanation: `R08.1 accounting: every op written by the diff's op writer updates exactly one of FreshBytes/ReusedBytes before the write; R08.2 both sides use the same weak (βhash) and strong (uniqueHash) hash functions; ` +
			`R08.3 after a match the rolling state is reset and the library lookup is skipped only while rolling with an unchanged hash; R08.4 library completeness: NewBlockLibrary inserts every hash, and findUniqueHash gives up (returns nil) only after its fallback loop exhausted the whole bucket. ` +
			`R08.6 every way round the loop from the rolling-checksum update back to it slides the hash window by one byte (or restarts the hash from scratch). ` +
			`R01.8 (shared) every file announced in the patch went through the differ (no per-file shortcut that looks blocks up by its own conventions). R08.7 every token the block split function hands to the signer is at most one block: data[:blockSize], or data where len(data) >= blockSize does not hold. R04.7 (shared) WritePatch's path-to-index map is keyed by the path itself. R08.3 also: from the branch that hashes the window from scratch, the next turn of the loop (or a success return) is reached only through the library lookup, whatever form a bypass takes. NOT decided (numerical): that the rolling update equals βhash at every offset, the per-edit bound, the values of FreshBytes/ReusedBytes.`,
		Run:        runC08,
		Fixtures:   fixturesAlias,
		FixturePkg: "aliasfx",
	})
}

func runC11(c *core.Ctx) {
	ruleNoMaskForRuntimeModulo(c, "R11.8")
	c.Rule("R11.1", "block ranges name library blocks; merge guarded by contiguity")
	c.Rule("R11.2", "pending range flushed before data and at the end")
	c.Rule("R11.3", "cleaner is on every emit path")
	c.Rule("R11.5", "the pending data window follows the hash window")
	c.Rule("R11.4", "data-op payloads are bounded by MaxDataOp by construction")
	c.Rule("R01.1", "match acceptance (shared)")
	cd := c.P.Fn("wsync", "Context.ComputeDiff")
	fuh := c.P.Fn("wsync", "Context.findUniqueHash")
	mk := c.P.Fn("wsync", "makeOperationCleaner")
	if cd == nil || fuh == nil || mk == nil {
		c.Missing("R11", "wsync.ComputeDiff/findUniqueHash/makeOperationCleaner", "not found")
		return
	}
	opType := func(name string) int64 {
		if k, ok := c.P.Pkg("wsync").Types.Scope().Lookup(name).(*types.Const); ok {
			v, _ := constInt64(k)
			return v
		}
		return -1
	}
	opBR, opData := opType("OpBlockRange"), opType("OpData")
	maxData := opType("MaxDataOp")
	// operation literals in ComputeDiff
	type opLit struct {
		a    *ssa.Alloc
		kind int64
	}
	var lits []opLit
	for _, f := range core.WithAnons(cd) {
		core.Instrs(f, func(in ssa.Instruction) {
			a, ok := in.(*ssa.Alloc)
			if !ok || core.TypeName(a.Type()) != "wsync.Operation" || !isLitAlloc(a) {
				return
			}
			k := int64(0)
			if v, ok := litField(a, "Type"); ok {
				if n, isC := core.ConstInt(v); isC {
					k = n
				} else {
					k = -1
				}
			}
			lits = append(lits, opLit{a, k})
		})
	}
	// ---- R11.1
	nBR := 0
	for _, l := range lits {
		if l.kind != opBR {
			continue
		}
		nBR++
		fi, ok1 := litField(l.a, "FileIndex")
		bi, ok2 := litField(l.a, "BlockIndex")
		bs, ok3 := litField(l.a, "BlockSpan")
		fromMatch := func(v ssa.Value, field string) (ssa.Value, bool) {
			b, n, ok := core.FieldOf(v)
			if !ok || n != field {
				return nil, false
			}
			for _, o := range core.Origins(b) {
				if core.IsNilConst(o) {
					continue
				}
				cl, ok := o.(*ssa.Call)
				if !ok || cl.Call.StaticCallee() != fuh {
					return nil, false
				}
			}
			return b, true
		}
		b1, okF := fromMatch(fi, "FileIndex")
		b2, okB := fromMatch(bi, "BlockIndex")
		one, isC := core.ConstInt(bs)
		c.Check(ok1 && ok2 && okF && okB && sameVal(b1, b2), "R11.1", core.FnName(l.a.Parent()), "block range takes FileIndex/BlockIndex from the matched library block", core.InstrPos(l.a),
			"both fields are loads of the block returned by findUniqueHash", "a block range is built from something other than the library block that matched: it can address blocks that do not exist in the named old file")
		c.Check(ok3 && isC && one == 1, "R11.1", core.FnName(l.a.Parent()), "a fresh block range spans exactly one block", core.InstrPos(l.a), "BlockSpan: 1", "a block range is created with a span other than 1 for a single matched block")
	}
	c.Floor("R11.1", "OpBlockRange literals", nBR, 1)
	// other writers of BlockSpan in package wsync: the merge
	nMerge := 0
	for _, fn := range c.P.SrcFuncs() {
		if !strings.HasSuffix(core.PkgPathOf(fn), "/wsync") {
			continue
		}
		core.Instrs(fn, func(in ssa.Instruction) {
			st, ok := in.(*ssa.Store)
			if !ok {
				return
			}
			b, n, ok := core.FieldOf(st.Addr)
			if !ok || n != "BlockSpan" || core.TypeName(b.Type()) != "wsync.Operation" {
				return
			}
			if a, isA := core.CellRoot(b).(*ssa.Alloc); isA && isLitAlloc(a) {
				return // literal initialisation, handled above / by the patcher
			}
			nMerge++
			var sameFile, contiguous bool
			isSum := func(v ssa.Value) bool {
				add, ok := v.(*ssa.BinOp)
				if !ok || add.Op != token.ADD {
					return false
				}
				return (isField("BlockIndex")(add.X) && isField("BlockSpan")(add.Y)) || (isField("BlockSpan")(add.X) && isField("BlockIndex")(add.Y))
			}
			for _, g := range core.Guards(in) {
				if relHolds(g, token.EQL, isField("FileIndex"), isField("FileIndex")) {
					sameFile = true
				}
				if relHolds(g, token.EQL, isSum, isField("BlockIndex")) {
					contiguous = true
				}
			}
			c.Check(sameFile && contiguous, "R11.1", core.FnName(fn), "range merge only for the same file and contiguous blocks", core.InstrPos(in),
				"guarded by equal FileIndex and prev.BlockIndex+prev.BlockSpan == op.BlockIndex", "a block range is extended without checking same file and contiguity: the merged range addresses blocks that were never matched")
		})
	}
	c.Floor("R11.1", "BlockSpan merges", nMerge, 1)

	// ---- R11.2
	var enq *ssa.Function
	var prevCell ssa.Value
	for _, lit := range cd.AnonFuncs {
		if len(lit.Params) == 1 && core.TypeName(lit.Params[0].Type()) == "wsync.Operation" {
			enq = lit
		}
	}
	core.Instrs(cd, func(in ssa.Instruction) {
		if a, ok := in.(*ssa.Alloc); ok && a.Comment == "prevOp" {
			prevCell = a
		}
	})
	if enq == nil {
		c.Missing("R11.2", core.FnName(cd), "enqueue closure not found")
	} else {
		// the pending cell: a captured *Operation variable
		if prevCell == nil {
			core.Instrs(enq, func(in ssa.Instruction) {
				if st, ok := in.(*ssa.Store); ok && core.IsNilConst(st.Val) {
					prevCell = core.CellRoot(st.Addr)
				}
			})
		}
		isPendingLoad := func(v ssa.Value) bool {
			for _, o := range []ssa.Value{v} {
				ld, ok := o.(*ssa.UnOp)
				if ok && ld.Op == token.MUL {
					if ld2, ok := ld.X.(*ssa.UnOp); ok && ld2.Op == token.MUL && core.CellRoot(ld2.X) == prevCell {
						return true
					}
				}
			}
			return false
		}
		isEmit := func(in ssa.Instruction) bool {
			cl, ok := in.(*ssa.Call)
			return ok && !cl.Call.IsInvoke() && cl.Call.StaticCallee() == nil && len(cl.Call.Args) == 1 && core.TypeName(cl.Call.Args[0].Type()) == "wsync.Operation"
		}
		isEmitPending := func(in ssa.Instruction) bool { return isEmit(in) && isPendingLoad(in.(*ssa.Call).Call.Args[0]) }
		nData := 0
		for _, in := range allInstrs(enq, func(in ssa.Instruction) bool { return isEmit(in) && !isPendingLoad(in.(*ssa.Call).Call.Args[0]) }) {
			nData++
			// every path to emitting the incoming op goes through "pending == nil" or an emit of the pending op
			nilEdge := func(b, s *ssa.BasicBlock) bool { return false }
			p := core.FindPathSkipping(enq, nil, isInstr(in), isEmitPending, func(b, s *ssa.BasicBlock) bool {
				ifi, ok := b.Instrs[len(b.Instrs)-1].(*ssa.If)
				if !ok {
					return nilEdge(b, s)
				}
				bo, ok := ifi.Cond.(*ssa.BinOp)
				if !ok || !core.IsNilConst(bo.Y) {
					return false
				}
				ld, ok := bo.X.(*ssa.UnOp)
				if !ok || ld.Op != token.MUL || core.CellRoot(ld.X) != prevCell {
					return false
				}
				// drop the "pending is nil" outcome: there is nothing to flush on it
				return (bo.Op == token.NEQ && s == b.Succs[1]) || (bo.Op == token.EQL && s == b.Succs[0])
			})
			c.Check(p == nil, "R11.2", core.FnName(enq), "pending range flushed before the incoming op is emitted", core.InstrPos(in),
				"with a pending range, it is emitted before the incoming (data) op", "an op can be emitted while an earlier block range is still pending: operations reach the writer out of order").Path = c.P.PathStrings(p)
		}
		c.Floor("R11.2", "direct emits in enqueue", nData, 1)
		// deferred flush in ComputeDiff
		deferred := false
		core.Instrs(cd, func(in ssa.Instruction) {
			if d, ok := in.(*ssa.Defer); ok {
				for _, cal := range deferCallees(d) {
					if firstInstr(cal, isEmitPending) != nil {
						// must be registered before any return can happen
						if core.FindPath(cd, nil, isReturn, isInstr(in)) == nil {
							deferred = true
						}
					}
				}
			}
		})
		c.Check(deferred, "R11.2", core.FnName(cd), "deferred flush of the pending range on every return", cd.Pos(),
			"a deferred closure registered before any return emits the pending range", "no deferred flush of the pending block range covers every return of ComputeDiff: the last range of a file can be lost")
	}

	// ---- R11.3
	// ops is reassigned to the cleaner before any use; every dynamic call with an Operation inside ComputeDiff (and closures) loads the same cell
	var opsParam *ssa.Parameter
	for _, p := range cd.Params {
		if core.TypeName(p.Type()) == "wsync.OperationWriter" {
			opsParam = p
		}
	}
	okClean := false
	var opsCell ssa.Value
	core.Instrs(cd, func(in ssa.Instruction) {
		if st, ok := in.(*ssa.Store); ok {
			if cl, ok := st.Val.(*ssa.Call); ok && cl.Call.StaticCallee() == mk {
				opsCell = core.CellRoot(st.Addr)
				if core.FindPath(cd, nil, func(x ssa.Instruction) bool {
					c2, ok := x.(*ssa.Call)
					return ok && !c2.Call.IsInvoke() && c2.Call.StaticCallee() == nil && len(c2.Call.Args) == 1 && core.TypeName(c2.Call.Args[0].Type()) == "wsync.Operation"
				}, isInstr(in)) == nil {
					okClean = true
				}
			}
		}
	})
	c.Check(okClean && opsParam != nil, "R11.3", core.FnName(cd), "ops is replaced by makeOperationCleaner(ops) before any emit", cd.Pos(),
		"the cleaner is installed first", "operations can be emitted before (or without) installing the cleaner")
	nEmit := 0
	for _, f := range core.WithAnons(cd) {
		core.Instrs(f, func(in ssa.Instruction) {
			cl, ok := in.(*ssa.Call)
			if !ok || cl.Call.IsInvoke() || cl.Call.StaticCallee() != nil || len(cl.Call.Args) != 1 || core.TypeName(cl.Call.Args[0].Type()) != "wsync.Operation" {
				return
			}
			// calls of the local enqueue closure are fine (static callee is nil for closures bound to locals? they resolve through Origins)
			if lc := localCallee(cl); lc != nil {
				return
			}
			nEmit++
			ld, isLd := cl.Call.Value.(*ssa.UnOp)
			viaCell := isLd && ld.Op == token.MUL && opsCell != nil && core.CellRoot(ld.X) == opsCell
			c.Check(viaCell, "R11.3", core.FnName(f), "emit goes through the cleaner", core.InstrPos(in),
				"the callee is the cleaned ops variable", "an operation is handed to a writer other than the cleaner (e.g. the raw ops parameter): empty non-leading data ops are no longer dropped")
		})
	}
	c.Floor("R11.3", "emits inside ComputeDiff", nEmit, 1)
	// cleaner: forwarding an empty data op requires sendCount == 0
	// the cleaner is whatever function value makeOperationCleaner returns: a literal, or a method of a small state struct
	var cleaners []*ssa.Function
	for _, rs := range core.Returns(mk, 0) {
		for _, o := range core.Origins(rs.Val) {
			mc, ok := o.(*ssa.MakeClosure)
			if !ok {
				continue
			}
			w, ok := mc.Fn.(*ssa.Function)
			if !ok {
				continue
			}
			if w.Synthetic != "" {
				core.Instrs(w, func(x ssa.Instruction) {
					if cc, ok := x.(ssa.CallInstruction); ok {
						if sc := cc.Common().StaticCallee(); sc != nil && len(sc.Blocks) > 0 {
							cleaners = append(cleaners, sc)
						}
					}
				})
			} else {
				cleaners = append(cleaners, w)
			}
		}
	}
	if len(cleaners) != 1 {
		c.Missing("R11.3", core.FnName(mk), "cleaner closure not found")
	} else {
		cl := cleaners[0]
		// the discard return: nil return without forwarding; must be exactly when sendCount > 0 && type == data && len == 0
		fwd := firstInstr(cl, func(in ssa.Instruction) bool {
			c2, ok := in.(*ssa.Call)
			if !ok || c2.Call.IsInvoke() || c2.Call.StaticCallee() != nil {
				return false
			}
			_, isBuiltin := c2.Call.Value.(*ssa.Builtin)
			return !isBuiltin && len(c2.Call.Args) == 1 && core.TypeName(c2.Call.Args[0].Type()) == "wsync.Operation"
		})
		if fwd == nil {
			c.Bad("R11.3", core.FnName(cl), "forward", cl.Pos(), "the cleaner does not forward operations")
		} else {
			// on the path that bypasses the forward, guards must include len(op.Data)==0, Type==OpData, sendCount>0
			var lenZero, isData, notFirst bool
			for _, rs := range core.Returns(cl, 0) {
				if core.FindPath(cl, nil, isInstr(rs.Ret), isInstr(fwd)) == nil {
					continue // passes the forward
				}
				isLen := func(v ssa.Value) bool {
					lc, ok := v.(*ssa.Call)
					if !ok {
						return false
					}
					b, ok := lc.Call.Value.(*ssa.Builtin)
					return ok && b.Name() == "len"
				}
				isCounter := func(v ssa.Value) bool { // a load of the counter: a captured variable or a field of the state struct
					ld, ok := v.(*ssa.UnOp)
					return ok && ld.Op == token.MUL && !isField("Type")(v)
				}
				for _, g := range core.Guards(rs.Ret) {
					if relHolds(g, token.EQL, isLen, isConstInt(0)) {
						lenZero = true
					}
					if relHolds(g, token.EQL, isField("Type"), isConstInt(opData)) {
						isData = true
					}
					if relHolds(g, token.GTR, isCounter, isConstInt(0)) || relHolds(g, token.NEQ, isCounter, isConstInt(0)) || relHolds(g, token.GEQ, isCounter, isConstInt(1)) {
						notFirst = true
					}
				}
			}
			c.Check(lenZero && isData && notFirst, "R11.3", core.FnName(cl), "only empty, non-leading data ops are dropped", cl.Pos(),
				"the drop is guarded by sendCount > 0, Type == OpData and len(Data) == 0", "the cleaner's drop condition is not exactly 'empty data op that is not the first op': a leading empty op (empty file) is lost or non-empty/other ops are dropped")
			// sendCount++ on the forwarding path
			inc := firstInstr(cl, func(in ssa.Instruction) bool {
				st, ok := in.(*ssa.Store)
				if !ok {
					return false
				}
				bo, ok := st.Val.(*ssa.BinOp)
				return ok && bo.Op == token.ADD
			})
			c.Check(inc != nil && core.FindPath(cl, nil, isInstr(fwd), isInstr(inc)) == nil, "R11.3", core.FnName(cl), "sendCount counts forwarded ops", cl.Pos(),
				"incremented before forwarding", "the cleaner does not count forwarded ops, so it cannot tell a leading op from a later one")
		}
	}

	// ---- R11.4
	// the controlled pair: If cond (Y - X) >= MaxDataOp
	var pairLo, pairHi ssa.Value
	for _, f := range core.WithAnons(cd) {
		core.Instrs(f, func(in ssa.Instruction) {
			bo, ok := in.(*ssa.BinOp)
			if !ok || bo.Op != token.GEQ {
				return
			}
			sub, ok := bo.X.(*ssa.BinOp)
			k, isC := core.ConstInt(bo.Y)
			if ok && sub.Op == token.SUB && isC && k == maxData {
				pairHi, pairLo = sub.X, sub.Y
			}
		})
	}
	nD := 0
	for _, l := range lits {
		if l.kind != opData {
			continue
		}
		dv, ok := litField(l.a, "Data")
		if !ok {
			continue
		}
		sl, ok := dv.(*ssa.Slice)
		if !ok || sl.Low == nil || sl.High == nil {
			c.Bad("R11.4", core.FnName(l.a.Parent()), "data payload "+core.Describe(dv), core.InstrPos(l.a), "payload is not a two-sided slice of the buffer: its size cannot be bounded")
			continue
		}
		nD++
		okB, why := false, ""
		if pairLo != nil && sameExpr(sl.Low, pairLo) && sameExpr(sl.High, pairHi) {
			okB, why = true, "bounds are the pair (data.tail, data.head) that the MaxDataOp flush controls"
		}
		if !okB {
			if add, isAdd := sl.High.(*ssa.BinOp); isAdd && add.Op == token.ADD && sameExpr(add.X, sl.Low) {
				if k, isC := core.ConstInt(add.Y); isC && k <= maxData {
					okB, why = true, "constant extent <= MaxDataOp"
				}
			}
		}
		if !okB {
			okB = hasGuard(l.a, func(g core.Guard) bool {
				bo, ok := g.Cond.(*ssa.BinOp)
				if !ok {
					return false
				}
				sub, ok := bo.X.(*ssa.BinOp)
				k, isC := core.ConstInt(bo.Y)
				if !ok || sub.Op != token.SUB || !isC || k != maxData || !sameExpr(sub.X, sl.High) || !sameExpr(sub.Y, sl.Low) {
					return false
				}
				return (bo.Op == token.GTR && !g.Val) || (bo.Op == token.LEQ && g.Val) || (bo.Op == token.LSS && g.Val)
			})
			why = "dominated by an explicit (high - low) <= MaxDataOp check"
		}
		c.Check(okB, "R11.4", core.FnName(l.a.Parent()), "data payload "+core.Describe(dv)+" is bounded by MaxDataOp", core.InstrPos(l.a), why,
			"this data op's payload is sliced with bounds that neither are the pair the MaxDataOp flush controls, nor have a constant extent, nor are checked against MaxDataOp: the op can exceed the 4MiB limit (the final flush of a file ending in a fresh run of more than 4MiB does)")
	}
	c.Floor("R11.4", "OpData literals", nD, 1)

	// ---- R11.6: a data op sent while the scan goes on is not empty. Sending any op first sends the pending
	// block range; the cleaner then drops an empty data op. An empty data op in mid-stream therefore ends the
	// pending range for nothing, and the consecutive blocks that follow start a new one: "consecutive ranges
	// of the same file are merged" no longer holds. Where the scan can continue after the literal, the literal
	// is made only under low < high.
	c.Rule("R11.6", "data ops sent in mid-stream are not empty")
	{
		nMid := 0
		for _, l := range lits {
			if l.kind != opData || l.a.Parent() != cd {
				continue
			}
			dv, ok := litField(l.a, "Data")
			if !ok {
				continue
			}
			sl, ok := dv.(*ssa.Slice)
			if !ok || sl.Low == nil || sl.High == nil {
				continue
			}
			// can the scan continue: is the library lookup (or the refill) reachable from here
			var again ssa.Instruction
			core.Instrs(cd, func(in ssa.Instruction) {
				if lk, ok := in.(*ssa.Lookup); ok {
					if _, n, ok := core.FieldOf(lk.X); ok && n == "hashLookup" {
						again = in
					}
				}
			})
			if again == nil || core.FindPath(cd, l.a, isInstr(again), nil) == nil {
				continue
			}
			nMid++
			nonEmpty := hasGuard(l.a, func(g core.Guard) bool {
				if relHolds(g, token.LSS, func(v ssa.Value) bool { return sameExpr(v, sl.Low) }, func(v ssa.Value) bool { return sameExpr(v, sl.High) }) {
					return true
				}
				// high - low >= k (k >= 1) or > k (k >= 0) says the same
				bo, ok := g.Cond.(*ssa.BinOp)
				if !ok {
					return false
				}
				diff, ok := core.StripConv(bo.X).(*ssa.BinOp)
				if !ok || diff.Op != token.SUB || !sameExpr(diff.X, sl.High) || !sameExpr(diff.Y, sl.Low) {
					return false
				}
				k, isK := core.ConstInt(bo.Y)
				if !isK {
					return false
				}
				switch bo.Op {
				case token.GEQ:
					return g.Val && k >= 1
				case token.GTR:
					return g.Val && k >= 0
				case token.LSS:
					return !g.Val && k >= 1
				case token.LEQ:
					return !g.Val && k >= 0
				}
				return false
			})
			c.Check(nonEmpty, "R11.6", core.FnName(cd), "mid-stream data op "+core.Describe(dv)+" is made only when non-empty", core.InstrPos(l.a),
				"dominated by low < high", "a data op that may be empty is sent while the scan goes on: it flushes the pending block range and is then dropped by the cleaner, so a run of consecutive matching blocks comes out as several ranges")
		}
		c.Floor("R11.6", "data ops after which the scan can continue", nMid, 1)
	}

	// ---- R11.7: the hash window never reaches past the data that was read. Every assignment to the window's end
	// (the High bound of the slice handed to βhash) is a min(…) of something with the end of the valid data, or is
	// made where it is known not to exceed something. A window that is simply 'start + block size' takes in a stale
	// byte of the buffer on the last turn, when fewer bytes are left than a block.
	c.Rule("R11.7", "the hash window's end is clamped whenever it is set")
	{
		var hashHigh ssa.Value
		for _, f := range core.WithAnons(cd) {
			core.Instrs(f, func(in ssa.Instruction) {
				if cl, ok := in.(*ssa.Call); ok && core.CalleeName(cl) == "wsync.βhash" && len(cl.Call.Args) == 1 {
					if sl, ok := cl.Call.Args[0].(*ssa.Slice); ok && sl.High != nil {
						hashHigh = sl.High
					}
				}
			})
		}
		hb, hf, okHH := core.FieldOf(hashHigh)
		if hashHigh == nil || !okHH {
			c.Missing("R11.7", core.FnName(cd), "the end of the hash window (High bound of βhash's argument) is not a struct field")
		} else {
			root := core.CellRoot(hb)
			nSt := 0
			core.Instrs(cd, func(in ssa.Instruction) {
				st, ok := in.(*ssa.Store)
				if !ok {
					return
				}
				b, n, ok := core.FieldOf(st.Addr)
				if !ok || n != hf || core.CellRoot(b) != root {
					return
				}
				nSt++
				clamped := true
				// `e := start + size; if e > limit { e = limit }` merges two values, each of which took part in the
				// comparison on its way in: a clamp written with an if
				if ph, isPhi := core.StripConv(st.Val).(*ssa.Phi); isPhi {
					ifClamp := true
					for i, e := range ph.Edges {
						ev := core.StripConv(e)
						took := false
						for _, g := range core.EdgeGuards(ph.Block().Preds[i], ph.Block()) {
							if bo, isB := g.Cond.(*ssa.BinOp); isB {
								switch bo.Op {
								case token.LSS, token.LEQ, token.GTR, token.GEQ:
									if sameExpr(bo.X, ev) || sameExpr(bo.Y, ev) {
										took = true
									}
								}
							}
						}
						if !took {
							ifClamp = false
						}
					}
					if ifClamp {
						c.Ok("R11.7", core.FnName(cd), "the end of the hash window is set to a clamped value", core.InstrPos(in), "a value clamped with an if: each merged value was an operand of the comparison on its way in")
						return
					}
				}
				// the value itself is an operand of an ordering comparison that leads here (`if end >= limit { end = limit }`)
				whole := core.StripConv(st.Val)
				if hasGuard(in, func(g core.Guard) bool {
					bo, isB := g.Cond.(*ssa.BinOp)
					if !isB {
						return false
					}
					switch bo.Op {
					case token.LSS, token.LEQ, token.GTR, token.GEQ:
						return sameExpr(bo.X, whole) || sameExpr(bo.Y, whole)
					}
					return false
				}) {
					c.Ok("R11.7", core.FnName(cd), "the end of the hash window is set to a clamped value", core.InstrPos(in), "set to an operand of the ordering comparison that leads here")
					return
				}
				// `end = start + size; if end >= limit { end = limit }`: the block that stores ends in an ordering test of
				// the field just stored
				if blk := in.Block(); len(blk.Instrs) > 0 {
					if ifi, isIf := blk.Instrs[len(blk.Instrs)-1].(*ssa.If); isIf {
						if bo, isB := ifi.Cond.(*ssa.BinOp); isB {
							switch bo.Op {
							case token.LSS, token.LEQ, token.GTR, token.GEQ:
								reads := func(v ssa.Value) bool {
									ld, ok := core.StripConv(v).(*ssa.UnOp)
									if !ok || ld.Op != token.MUL {
										return false
									}
									b2, n2, ok := core.FieldOf(ld.X)
									return ok && n2 == hf && core.CellRoot(b2) == root
								}
								if reads(bo.X) || reads(bo.Y) {
									c.Ok("R11.7", core.FnName(cd), "the end of the hash window is set to a clamped value", core.InstrPos(in), "stored, then tested against a bound right away (clamp written as store + if)")
									return
								}
							}
						}
					}
				}
				for _, o := range core.Origins(st.Val) {
					if cl, isCall := o.(*ssa.Call); isCall {
						if bi, isB := cl.Call.Value.(*ssa.Builtin); isB && bi.Name() == "min" {
							continue
						}
						if f := cl.Call.StaticCallee(); f != nil && f.Name() == "min" {
							continue
						}
					}
					ov := o
					bounded := hasGuard(in, func(g core.Guard) bool {
						bo, isB := g.Cond.(*ssa.BinOp)
						if !isB {
							return false
						}
						switch {
						case sameExpr(bo.X, ov):
							return (bo.Op == token.LEQ && g.Val) || (bo.Op == token.LSS && g.Val) || (bo.Op == token.GTR && !g.Val) || (bo.Op == token.GEQ && !g.Val)
						case sameExpr(bo.Y, ov):
							return (bo.Op == token.GEQ && g.Val) || (bo.Op == token.GTR && g.Val) || (bo.Op == token.LSS && !g.Val) || (bo.Op == token.LEQ && !g.Val)
						}
						return false
					})
					if !bounded {
						clamped = false
					}
				}
				c.Check(clamped, "R11.7", core.FnName(cd), "the end of the hash window is set to a clamped value", core.InstrPos(in),
					"min(…) or a value known not to exceed a bound", "the end of the hash window is set to an unclamped value (start + block size): on the last turn, with less than a block left, the window takes in bytes beyond the data that was read - left there by an earlier diff on the same context, or zero - and if that happens to equal a block of the old build a block range is emitted for content the new file does not have")
			})
			c.Floor("R11.7", "assignments to the end of the hash window", nSt, 1)
		}
	}

	// ---- R11.5: the pending-data window ends where the hash window begins. Whenever the scan moves the start of
	// the hash window, the end of the pending data follows before the window is moved again (or the function
	// returns): bytes the scan slid over without a match are in [data.tail, data.head) when the next flush comes.
	if pairHi != nil {
		dataBase, dataField, okD := core.FieldOf(pairHi)
		var hashLow ssa.Value
		for _, f := range core.WithAnons(cd) {
			core.Instrs(f, func(in ssa.Instruction) {
				if cl, ok := in.(*ssa.Call); ok && core.CalleeName(cl) == "wsync.βhash" && len(cl.Call.Args) == 1 {
					if sl, ok := cl.Call.Args[0].(*ssa.Slice); ok && sl.Low != nil {
						hashLow = sl.Low
					}
				}
			})
		}
		var hashBase ssa.Value
		hashField := ""
		okH := false
		if hashLow != nil {
			hashBase, hashField, okH = core.FieldOf(hashLow)
		}
		if !okD || !okH {
			c.Missing("R11.5", core.FnName(cd), "the hash window (argument of βhash) or the pending-data window is not a pair of struct fields")
		} else {
			isStoreTo := func(base ssa.Value, field string) ipred {
				root := core.CellRoot(base)
				return func(in ssa.Instruction) bool {
					st, ok := in.(*ssa.Store)
					if !ok {
						return false
					}
					b, n, ok := core.FieldOf(st.Addr)
					return ok && n == field && core.CellRoot(b) == root
				}
			}
			moveHash := isStoreTo(hashBase, hashField)
			moveData := isStoreTo(dataBase, dataField)
			nMv := 0
			core.Instrs(cd, func(in ssa.Instruction) {
				if !moveHash(in) {
					return
				}
				nMv++
				p := core.FindPath(cd, in, anyOf(moveHash, isReturn), moveData)
				c.Check(p == nil, "R11.5", core.FnName(cd), "moving the hash window's start moves the pending data's end", core.InstrPos(in),
					"every path from this assignment to the next one (or to a return) assigns the end of the pending data",
					"the start of the hash window is moved, and can be moved again or the function can return, without the end of the pending data having followed: the bytes slid over are missing from the next data op").Path = c.P.PathStrings(p)
			})
			c.Floor("R11.5", "assignments to the start of the hash window", nMv, 2)
		}
	}
	// buffer sized for it
	okBuf := false
	core.Instrs(cd, func(in ssa.Instruction) {
		if bo, ok := in.(*ssa.BinOp); ok && bo.Op == token.ADD {
			if k, isC := core.ConstInt(bo.Y); isC && k == maxData {
				if mul, ok := bo.X.(*ssa.BinOp); ok && mul.Op == token.MUL {
					okBuf = true
				}
			}
		}
	})
	c.Check(okBuf, "R11.4", core.FnName(cd), "buffer holds 2 blocks + MaxDataOp", cd.Pos(), "minBufferSize = 2*blockSize + MaxDataOp", "the diff buffer is no longer sized as two blocks plus MaxDataOp")

	ruleMatchAcceptance(c, "R01.1")
}

func runC08(c *core.Ctx) {
	c.Rule("R08.1", "fresh/reused accounting: exactly one counter update before each op write")
	c.Rule("R08.2", "same weak and strong hash functions on both sides")
	c.Rule("R08.3", "re-synchronisation after a match")
	c.Rule("R08.4", "library completeness")
	ruleEveryFileThroughTheDiffer(c)
	ruleSplitTokensAreOneBlock(c, "R08.7")
	rulePathKeysAreOneToOne(c, "R04.7", 2, func(fn *ssa.Function) bool { return strings.HasSuffix(core.FnName(fn), ".WritePatch") })
	ruleShortSizeIsShort(c, "R04.5")
	ruleNoAppendToInteriorSubslice(c, "R08.5", "/wsync", "/pwr", "/bsdiff", "/pwr/bowl", "/pwr/patcher", "/pwr/rediff")
	// ---- R08.1
	mow := c.P.Fn("pwr", "makeOpsWriter")
	if mow == nil || len(mow.AnonFuncs) != 1 {
		c.Missing("R08.1", "pwr.makeOpsWriter", "function or closure not found")
	} else {
		lit := mow.AnonFuncs[0]
		isUpd := func(in ssa.Instruction) bool {
			st, ok := in.(*ssa.Store)
			if !ok {
				return false
			}
			_, n, ok := core.FieldOf(st.Addr)
			return ok && (n == "FreshBytes" || n == "ReusedBytes")
		}
		isW := callTo("(*wire.WriteContext).WriteMessage")
		n := 0
		for _, w := range allInstrs(lit, isW) {
			n++
			p := core.FindPath(lit, nil, isInstr(w), isUpd)
			c.Check(p == nil, "R08.1", core.FnName(lit), "op write preceded by a FreshBytes/ReusedBytes update", core.InstrPos(w),
				"every path to the write counts the op", "an op can be written to the patch without being counted as fresh or reused: the reported counts no longer add up to the size of the new build").Path = c.P.PathStrings(p)
		}
		c.Floor("R08.1", "op writes", n, 1)
		ob, _ := pathEventBounds(lit, func(in ssa.Instruction) int {
			if isUpd(in) {
				return 1
			}
			return 0
		}, 0)
		c.Check(ob.max <= 1, "R08.1", core.FnName(lit), "at most one counter update per op", lit.Pos(), fmtBounds(ob), "an op can be counted twice ("+fmtBounds(ob)+")")
		// what is added: len(op.Data) for data ops
		okFresh := false
		core.Instrs(lit, func(in ssa.Instruction) {
			st, ok := in.(*ssa.Store)
			if !ok {
				return
			}
			if _, n, ok := core.FieldOf(st.Addr); !ok || n != "FreshBytes" {
				return
			}
			if bo, ok := st.Val.(*ssa.BinOp); ok && bo.Op == token.ADD {
				if cl, ok := core.StripConv(bo.Y).(*ssa.Call); ok {
					if b, ok := cl.Call.Value.(*ssa.Builtin); ok && b.Name() == "len" {
						if _, n, ok := core.FieldOf(cl.Call.Args[0]); ok && n == "Data" {
							okFresh = true
						}
					}
				}
			}
		})
		c.Check(okFresh, "R08.1", core.FnName(lit), "FreshBytes += len(op.Data)", lit.Pos(), "fresh bytes are the data op's payload length", "FreshBytes is not increased by the payload length of data ops")
	}
	// ---- R08.2
	cd := c.P.Fn("wsync", "Context.ComputeDiff")
	cs := c.P.Fn("wsync", "Context.CreateSignature")
	hb := c.P.Fn("wsync", "Context.HashBlock")
	if cd == nil || cs == nil || hb == nil {
		c.Missing("R08.2", "wsync.ComputeDiff/CreateSignature/HashBlock", "not found")
	} else {
		callsIn := func(f *ssa.Function, name string) bool { return callsTransitively(f, name) }
		c.Check(callsIn(cd, "wsync.βhash"), "R08.2", core.FnName(cd), "from-scratch weak hash is βhash", cd.Pos(), "ComputeDiff calls βhash", "the differ's from-scratch weak hash is no longer βhash")
		c.Check(callsIn(cs, "wsync.βhash") && callsIn(cs, "(*wsync.Context).uniqueHash"), "R08.2", core.FnName(cs), "signing uses βhash and uniqueHash", cs.Pos(), "both called", "CreateSignature no longer hashes blocks with βhash and uniqueHash")
		c.Check(callsIn(hb, "wsync.βhash") && callsIn(hb, "(*wsync.Context).uniqueHash"), "R08.2", core.FnName(hb), "HashBlock uses βhash and uniqueHash", hb.Pos(), "both called", "HashBlock no longer uses βhash and uniqueHash")
		// ---- R08.3
		// `rolling` cell: the bool cell stored false on the match path; find stores of false/true
		var lookup ssa.Instruction
		core.Instrs(cd, func(in ssa.Instruction) {
			if lk, ok := in.(*ssa.Lookup); ok {
				if _, n, ok := core.FieldOf(lk.X); ok && n == "hashLookup" {
					lookup = in
				}
			}
		})
		if lookup == nil {
			c.Bad("R08.3", core.FnName(cd), "library lookup", cd.Pos(), "ComputeDiff no longer looks the weak hash up in the library")
		} else {
			// the match branch: block guarded by blockHash != nil that emits an OpBlockRange; `rolling` is an SSA phi (bool) set to false there
			// shape check: the phi feeding the `if rolling` test has a constant-false incoming edge from a block guarded by (match != nil)
			var rollIf *ssa.If
			core.Instrs(cd, func(in ssa.Instruction) {
				if ifi, ok := in.(*ssa.If); ok {
					if ph, ok := ifi.Cond.(*ssa.Phi); ok && ph.Comment == "rolling" && ifi.Block().Dominates(lookup.Block()) {
						rollIf = ifi
					}
				}
			})
			if rollIf == nil {
				c.Bad("R08.3", core.FnName(cd), "rolling state", cd.Pos(), "no branch on the rolling flag found")
			} else {
				ph := rollIf.Cond.(*ssa.Phi)
				resetOnMatch := false
				var walk func(v ssa.Value, b *ssa.BasicBlock, d int)
				seen := map[ssa.Value]bool{}
				walk = func(v ssa.Value, pred *ssa.BasicBlock, d int) {
					if d > 8 {
						return
					}
					if cb, isC := core.ConstBool(v); isC && !cb && pred != nil {
						for _, g := range core.BlockGuards(pred) {
							if bo, ok := g.Cond.(*ssa.BinOp); ok && bo.Op == token.NEQ && g.Val && core.IsNilConst(bo.Y) && core.TypeName(bo.X.Type()) == "wsync.BlockHash" {
								resetOnMatch = true
							}
						}
					}
					if p2, ok := v.(*ssa.Phi); ok && !seen[v] {
						seen[v] = true
						for i, e := range p2.Edges {
							walk(e, p2.Block().Preds[i], d+1)
						}
					}
				}
				walk(ph, nil, 0)
				c.Check(resetOnMatch, "R08.3", core.FnName(cd), "rolling = false after a match", core.InstrPos(rollIf),
					"the rolling flag is reset on the match branch, so the next window is hashed from scratch", "after a match the rolling hash is not restarted: the weak hash of the next window is computed from stale state and unchanged data after a match is sent again")
				// lookup skipped only on the rolling branch: the guard that bypasses the lookup must be control-dependent on rolling
				skipOK := true
				for _, g := range core.Guards(lookup) {
					if ph2, ok := g.Cond.(*ssa.Phi); ok && ph2.Comment == "skip" {
						// every true-valued incoming edge of skip must come from a block guarded by rolling == true
						for i, e := range ph2.Edges {
							if cb, isC := core.ConstBool(e); isC && cb {
								onRolling := false
								for _, gg := range core.BlockGuards(ph2.Block().Preds[i]) {
									if gg.If == rollIf && gg.Val {
										onRolling = true
									}
								}
								if !onRolling {
									skipOK = false
								}
							}
						}
					}
				}
				c.Check(skipOK, "R08.3", core.FnName(cd), "library lookup skipped only while rolling", core.InstrPos(lookup),
					"the skip flag is set only on the rolling branch", "the library lookup can be skipped for a window hashed from scratch: matches right after a match or at the start are missed")
				// ... whatever form the bypass takes: from the branch that hashes the window from scratch, the
				// next turn of the loop (or a return) is reached only through the lookup
				if fresh := rollIf.Block().Succs[1]; len(fresh.Instrs) > 0 {
					succ := map[ssa.Instruction]bool{}
					for _, rs := range successReturns(cd) {
						succ[rs.Ret] = true
					}
					// (a failing return before the lookup is not a bypass)
					p := core.FindPath(cd, fresh.Instrs[0], func(in ssa.Instruction) bool { return in == ssa.Instruction(rollIf) || succ[in] }, isInstr(lookup))
					c.Check(p == nil, "R08.3", core.FnName(cd), "a window hashed from scratch is looked up", core.InstrPos(fresh.Instrs[0]),
						"every path from the from-scratch hash to the next turn of the loop passes the library lookup", "a window whose hash was computed from scratch (at the start, or right after a match) can go round the loop without being looked up in the library: the block that follows a match is sent as fresh data although the old build has it (the same block twice in a row, a run of zeroes)").Path = c.P.PathStrings(p)
				}
				// ---- R08.6: one rolling update per slide. The update replaces the byte that left the window by
				// the byte that entered it; applied twice to a window that has not moved it yields a sum that
				// belongs to no window, every later update inherits the error, and the differ never finds a
				// match again. Between two rolling updates the window start must have advanced.
				c.Rule("R08.6", "one rolling update per slide of the window")
				if upd := rollIf.Block().Succs[0]; len(upd.Instrs) > 0 {
					// the window: the struct whose tail/head fields bound the slice hashed from scratch
					var window ssa.Value
					core.Instrs(cd, func(in ssa.Instruction) {
						cl, ok := in.(*ssa.Call)
						if !ok || !strings.HasSuffix(core.CalleeName(cl), "wsync.βhash") || len(cl.Call.Args) == 0 {
							return
						}
						for _, o := range core.Origins(cl.Call.Args[0]) {
							if sl, ok := o.(*ssa.Slice); ok && sl.Low != nil {
								if b, n, ok := core.FieldOf(sl.Low); ok && n == "tail" {
									window = b
								}
							}
						}
					})
					if window == nil {
						c.Missing("R08.6", core.FnName(cd), "the hash window (the struct whose tail bounds the slice given to βhash) was not found")
					} else {
						isSlide := func(in ssa.Instruction) bool {
							st, ok := in.(*ssa.Store)
							if !ok {
								return false
							}
							b, n, ok := core.FieldOf(st.Addr)
							if !ok || n != "tail" || b != window {
								return false
							}
							bo, ok := st.Val.(*ssa.BinOp)
							if !ok || bo.Op != token.ADD {
								return false
							}
							k, isC := core.ConstInt(bo.Y)
							return isC && k == 1
						}
						nSl := len(allInstrs(cd, isSlide))
						c.Floor("R08.6", "one-byte slides of the hash window", nSl, 1)
						x := upd.Instrs[0]
						p := core.FindPath(cd, x, isInstr(x), isSlide)
						c.Check(p == nil, "R08.6", core.FnName(cd), "the window slides between two rolling updates", core.InstrPos(x),
							"every way round the loop from the rolling update back to it advances the window start by one (or restarts the hash from scratch)",
							"an iteration can end without sliding the window and the next one applies the rolling update again: the weak hash no longer belongs to any window, nothing matches from there on, and everything after that point is sent as fresh data").Path = c.P.PathStrings(p)
					}
				}
			}
		}
	}
	// ---- R08.4
	nbl := c.P.Fn("wsync", "NewBlockLibrary")
	if nbl == nil {
		c.Missing("R08.4", "wsync.NewBlockLibrary", "not found")
	} else {
		// every path from the loop body entry back to the loop header passes a MapUpdate
		var hdr *ssa.If
		core.Instrs(nbl, func(in ssa.Instruction) {
			if ifi, ok := in.(*ssa.If); ok && strings.HasPrefix(ifi.Block().Comment, "rangeindex.loop") {
				hdr = ifi
			}
		})
		if hdr == nil {
			c.Bad("R08.4", core.FnName(nbl), "loop over the hashes", nbl.Pos(), "no range loop over the input hashes")
		} else {
			p := core.FindPathSkipping(nbl, hdr, isInstr(hdr), func(in ssa.Instruction) bool { _, ok := in.(*ssa.MapUpdate); return ok },
				func(b, s *ssa.BasicBlock) bool { return b == hdr.Block() && s == b.Succs[1] })
			c.Check(p == nil, "R08.4", core.FnName(nbl), "every input hash is inserted", core.InstrPos(hdr),
				"each iteration updates the lookup map", "an iteration of the library construction can skip inserting its hash: blocks of the old build are invisible to the differ and their data is sent again").Path = c.P.PathStrings(p)
		}
	}
	fuh := c.P.Fn("wsync", "Context.findUniqueHash")
	if fuh == nil {
		c.Missing("R08.4", "wsync.(*Context).findUniqueHash", "not found")
	} else {
		var hhParam *ssa.Parameter
		for _, p := range fuh.Params {
			if sl, ok := p.Type().Underlying().(*types.Slice); ok && core.TypeName(sl.Elem()) == "wsync.BlockHash" {
				hhParam = p
			}
		}
		n := 0
		for _, rs := range core.Returns(fuh, 0) {
			mayNil := false
			for _, o := range core.Origins(rs.Val) {
				if core.IsNilConst(o) {
					mayNil = true
				}
			}
			if !mayNil {
				continue
			}
			// the empty-window return is fine
			emptyGuard := hasGuard(rs.Ret, func(g core.Guard) bool {
				isLen := func(v ssa.Value) bool {
					cl, ok := v.(*ssa.Call)
					if !ok {
						return false
					}
					b, ok := cl.Call.Value.(*ssa.Builtin)
					return ok && b.Name() == "len"
				}
				return relHolds(g, token.EQL, isLen, isConstInt(0)) || relHolds(g, token.LEQ, isLen, isConstInt(0)) || relHolds(g, token.LSS, isLen, isConstInt(1))
			})
			if emptyGuard {
				continue
			}
			n++
			exhausted := hasGuard(rs.Ret, func(g core.Guard) bool {
				bo, ok := g.Cond.(*ssa.BinOp)
				if !ok || bo.Op != token.LSS || g.Val {
					return false
				}
				cl, ok := core.StripConv(bo.Y).(*ssa.Call)
				if !ok {
					return false
				}
				b, ok := cl.Call.Value.(*ssa.Builtin)
				return ok && b.Name() == "len" && hhParam != nil && cl.Call.Args[0] == ssa.Value(hhParam)
			})
			c.Check(exhausted, "R08.4", core.FnName(fuh), "gives up only after the whole bucket was searched", core.InstrPos(rs.Ret),
				"a nil (or possibly nil) result is returned only through the exhaustion edge of a loop over the whole bucket", "findUniqueHash can return 'no match' without having looked at every block of the bucket (early exit): content that exists in another old file is sent again as fresh data")
		}
		c.Floor("R08.4", "give-up returns of findUniqueHash", n, 1)
	}
}

func fixturesAlias(fc *core.Ctx) map[string]bool {
	rep := map[string]bool{}
	for _, fn := range fc.P.SrcFuncs() {
		if !strings.HasSuffix(core.PkgPathOf(fn), "/aliasfx") {
			continue
		}
		core.Instrs(fn, func(in ssa.Instruction) {
			if cl, ok := in.(*ssa.Call); ok && len(interiorSubslices(cl)) > 0 {
				rep[family(fn).Name()] = true
			}
		})
	}
	return rep
}
