package probe

import (
	"bytes"
	"os"
	"path/filepath"
	"sync"
	"testing"

	"github.com/itchio/headway/state"
	"github.com/itchio/wharf/archiver"
)

// C19: with two workers the resume marker is the index of the entry that
// finished last, not a high-water mark of completed entries.
func TestZipResumeMarkerOutOfOrder(t *testing.T) {
	dir := t.TempDir()
	build := filepath.Join(dir, "build")
	writeFile(t, build, "a_big", randBytes(1, 64<<20)) // entry 0: slow
	writeFile(t, build, "b_small", []byte("x"))        // entry 1: fast
	zipBuf := new(bytes.Buffer)
	_, err := archiver.CompressZip(zipBuf, build, &state.Consumer{})
	must(t, err)

	out := filepath.Join(dir, "out")
	resume := filepath.Join(dir, "resume")
	var mu sync.Mutex
	bigDone := false
	var markerWhenSmallDone string
	var bigDoneWhenSmallDone bool
	_, err = archiver.ExtractZip(bytes.NewReader(zipBuf.Bytes()), int64(zipBuf.Len()), out, archiver.ExtractSettings{
		Consumer:    &state.Consumer{},
		Concurrency: 2,
		ResumeFrom:  resume,
		OnEntryDone: func(p string) {
			mu.Lock()
			defer mu.Unlock()
			if p == "a_big" {
				bigDone = true
			}
			if p == "b_small" {
				b, _ := os.ReadFile(resume)
				markerWhenSmallDone = string(b)
				bigDoneWhenSmallDone = bigDone
			}
		},
	})
	must(t, err)
	t.Logf("when entry 1 (b_small) completed: marker=%q, entry 0 (a_big) completed=%v", markerWhenSmallDone, bigDoneWhenSmallDone)

	// simulate the restart after an interruption at that instant
	out2 := filepath.Join(dir, "out2")
	must(t, os.WriteFile(resume, []byte(markerWhenSmallDone), 0o644))
	_, err = archiver.ExtractZip(bytes.NewReader(zipBuf.Bytes()), int64(zipBuf.Len()), out2, archiver.ExtractSettings{
		Consumer: &state.Consumer{}, Concurrency: 2, ResumeFrom: resume,
	})
	must(t, err)
	_, e0 := os.Stat(filepath.Join(out2, "a_big"))
	_, e1 := os.Stat(filepath.Join(out2, "b_small"))
	t.Logf("after restart into the (interrupted) output: a_big present=%v b_small present=%v (a fresh dir stands for 'a_big was still being written')", e0 == nil, e1 == nil)
}
