#!/bin/bash
# tools/trydevall.sh <patchfile> : all properties with the development binary /tmp/wc-dev
set -u
PF="$(realpath "$1")"
VERIF="$(cd "$(dirname "$0")/.." && pwd)"
S="$(mktemp -d /tmp/wharf-try-XXXXXX)"
trap 'rm -rf "$S"' EXIT
rsync -a --exclude .git /repo/ "$S/"
(cd "$S" && patch -p1 -s --no-backup-if-mismatch < "$PF") || { echo "patch failed"; exit 3; }
"${WCDEV:-/tmp/wc-dev}" -prop all -repo "$S" -verif "$VERIF" 2>&1 | grep -v "^== .*not-discharged=0$"
echo "rc=${PIPESTATUS[0]}"
