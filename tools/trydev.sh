#!/bin/bash
# tools/trydev.sh <patchfile> <prop>... : like trypatch.sh but with the development binary /tmp/wc-dev (not rebuilt here)
set -u
PF="$(realpath "$1")"; shift
VERIF="$(cd "$(dirname "$0")/.." && pwd)"
S="$(mktemp -d /tmp/wharf-try-XXXXXX)"
trap 'rm -rf "$S"' EXIT
rsync -a --exclude .git /repo/ "$S/"
if [ "$PF" != "$(realpath /dev/null)" ]; then (cd "$S" && patch -p1 -s --no-backup-if-mismatch < "$PF") || { echo "patch failed"; exit 1; }; fi
for P in "$@"; do
  /tmp/wc-dev -prop "$P" -tier quick -repo "$S" -verif "$VERIF" -no-evidence -no-fixtures 2>&1 | grep -v "^property=" | head -12
  echo "== $P rc=${PIPESTATUS[0]}"
done
