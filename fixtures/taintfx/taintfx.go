// Package taintfx holds positive and negative examples for the wire-taint
// analysis (C10). Functions named Bad* must be reported, Good* must stay silent.
package taintfx

import (
	"errors"

	"github.com/itchio/lake/tlc"
	"github.com/itchio/wharf/pwr"
	"github.com/itchio/wharf/wire"
	"github.com/itchio/wharf/wsync"
)

type holder struct {
	files []string
	pos   int64
}

// BadDirectIndex indexes with a field straight off the wire.
func BadDirectIndex(r *wire.ReadContext, files []string) (string, error) {
	op := &pwr.SyncOp{}
	if err := r.ReadMessage(op); err != nil {
		return "", err
	}
	return files[op.FileIndex], nil
}

// GoodTwoSided has the plain two-sided guard.
func GoodTwoSided(r *wire.ReadContext, files []string) (string, error) {
	op := &pwr.SyncOp{}
	if err := r.ReadMessage(op); err != nil {
		return "", err
	}
	if op.FileIndex < 0 || op.FileIndex >= int64(len(files)) {
		return "", errors.New("out of range")
	}
	return files[op.FileIndex], nil
}

// BadOneSided only checks the upper bound.
func BadOneSided(r *wire.ReadContext, files []string) (string, error) {
	op := &pwr.SyncOp{}
	if err := r.ReadMessage(op); err != nil {
		return "", err
	}
	if op.FileIndex >= int64(len(files)) {
		return "", errors.New("out of range")
	}
	return files[op.FileIndex], nil
}

// BadGuardThenReread validates, reads the next message into the same object and
// then uses the field: the guard is stale.
func BadGuardThenReread(r *wire.ReadContext, files []string) (string, error) {
	op := &pwr.SyncOp{}
	if err := r.ReadMessage(op); err != nil {
		return "", err
	}
	if op.FileIndex < 0 || op.FileIndex >= int64(len(files)) {
		return "", errors.New("out of range")
	}
	if err := r.ReadMessage(op); err != nil {
		return "", err
	}
	return files[op.FileIndex], nil
}

// GoodSwitchForm uses a switch-form guard on a copied local.
func GoodSwitchForm(r *wire.ReadContext, files []string) (string, error) {
	op := &pwr.SyncOp{}
	if err := r.ReadMessage(op); err != nil {
		return "", err
	}
	idx := op.FileIndex
	switch {
	case idx < 0:
		return "", errors.New("negative")
	case idx >= int64(len(files)):
		return "", errors.New("too large")
	}
	return files[idx], nil
}

// GoodEquality compares with trusted data (the sync-header shape).
func GoodEquality(r *wire.ReadContext, files []string, expected int64) (string, error) {
	sh := &pwr.SyncHeader{}
	if err := r.ReadMessage(sh); err != nil {
		return "", err
	}
	if sh.FileIndex != expected {
		return "", errors.New("unexpected file")
	}
	return files[sh.FileIndex], nil
}

func checkIndex(op *pwr.SyncOp, n int) error {
	if op.FileIndex < 0 || op.FileIndex >= int64(n) {
		return errors.New("out of range")
	}
	return nil
}

// GoodValidatorHelper moves the guard into a helper returning an error.
func GoodValidatorHelper(r *wire.ReadContext, files []string) (string, error) {
	op := &pwr.SyncOp{}
	if err := r.ReadMessage(op); err != nil {
		return "", err
	}
	if err := checkIndex(op, len(files)); err != nil {
		return "", err
	}
	return files[op.FileIndex], nil
}

func inRange(op *pwr.SyncOp, n int) bool {
	if op.FileIndex < 0 || op.FileIndex >= int64(n) {
		return false
	}
	return op.BlockSpan > 0
}

// GoodBoolValidator uses a boolean validator on the true edge.
func GoodBoolValidator(r *wire.ReadContext, files []string) (string, error) {
	op := &pwr.SyncOp{}
	if err := r.ReadMessage(op); err != nil {
		return "", err
	}
	if inRange(op, len(files)) {
		return files[op.FileIndex], nil
	}
	return "", nil
}

// BadBoolValidatorFalseEdge uses the value where the validator said no.
func BadBoolValidatorFalseEdge(r *wire.ReadContext, files []string) (string, error) {
	op := &pwr.SyncOp{}
	if err := r.ReadMessage(op); err != nil {
		return "", err
	}
	if !inRange(op, len(files)) {
		return files[op.FileIndex], nil
	}
	return "", nil
}

func convert(op *pwr.SyncOp) wsync.Operation {
	return wsync.Operation{Type: wsync.OpBlockRange, FileIndex: op.FileIndex, BlockIndex: op.BlockIndex, BlockSpan: op.BlockSpan}
}

// ViaStructByValue sends the field through a struct value and a callee.
func ViaStructByValue(r *wire.ReadContext, files []string) (string, error) {
	op := &pwr.SyncOp{}
	if err := r.ReadMessage(op); err != nil {
		return "", err
	}
	return BadHelperUse(convert(op), files), nil
}

// BadHelperUse is where the struct-by-value flow lands.
func BadHelperUse(w wsync.Operation, files []string) string {
	return files[w.FileIndex]
}

func convertChecked(op *pwr.SyncOp, n int) (wsync.Operation, error) {
	if op.FileIndex < 0 || op.FileIndex >= int64(n) {
		return wsync.Operation{}, errors.New("out of range")
	}
	return wsync.Operation{Type: wsync.OpBlockRange, FileIndex: op.FileIndex}, nil
}

// GoodStructByValueChecked: the converter validates before copying.
func GoodStructByValueChecked(r *wire.ReadContext, files []string) (string, error) {
	op := &pwr.SyncOp{}
	if err := r.ReadMessage(op); err != nil {
		return "", err
	}
	w, err := convertChecked(op, len(files))
	if err != nil {
		return "", err
	}
	return goodHelperUse(w, files), nil
}

func goodHelperUse(w wsync.Operation, files []string) string {
	return files[w.FileIndex]
}

// BadViaMap stores the field as a map key and ranges over it later.
func BadViaMap(r *wire.ReadContext, files []string) (string, error) {
	op := &pwr.SyncOp{}
	seen := make(map[int64]int64)
	for i := 0; i < 3; i++ {
		if err := r.ReadMessage(op); err != nil {
			return "", err
		}
		seen[op.FileIndex] += op.BlockSpan
	}
	best := ""
	for idx := range seen {
		best = files[idx]
	}
	return best, nil
}

// BadDivide divides by a wire value.
func BadDivide(r *wire.ReadContext, total int64) (int64, error) {
	op := &pwr.SyncOp{}
	if err := r.ReadMessage(op); err != nil {
		return 0, err
	}
	return total / op.BlockSpan, nil
}

// GoodDivide checks the divisor.
func GoodDivide(r *wire.ReadContext, total int64) (int64, error) {
	op := &pwr.SyncOp{}
	if err := r.ReadMessage(op); err != nil {
		return 0, err
	}
	if op.BlockSpan <= 0 {
		return 0, errors.New("bad span")
	}
	return total / op.BlockSpan, nil
}

// BadArithmetic guards the operands but indexes with their sum.
func BadArithmetic(r *wire.ReadContext, blocks []int) (int, error) {
	op := &pwr.SyncOp{}
	if err := r.ReadMessage(op); err != nil {
		return 0, err
	}
	if op.BlockIndex < 0 {
		return 0, errors.New("neg")
	}
	return blocks[op.BlockIndex+1], nil
}

// GoodSeekIdiom stores, validates and resets (the lrufile.Seek idiom).
func (h *holder) GoodSeekIdiom(r *wire.ReadContext) error {
	op := &pwr.SyncOp{}
	if err := r.ReadMessage(op); err != nil {
		return err
	}
	h.pos = op.BlockIndex
	if h.pos < 0 || h.pos > int64(len(h.files)) {
		h.pos = 0
		return errors.New("invalid position")
	}
	return nil
}

// GoodUseAfterSeekIdiom relies on holder.pos being clean.
func (h *holder) GoodUseAfterSeekIdiom() string {
	return h.files[h.pos:][0]
}

// GoodInProcessMessage builds the message itself: same type, not from the wire.
func GoodInProcessMessage(files []string, i int) string {
	w := &pwr.Wound{Index: int64(i % len(files))}
	return files[w.Index]
}

// GoodMapLookupOnly uses the field only as a map key.
func GoodMapLookupOnly(r *wire.ReadContext, wl map[int64]bool) (bool, error) {
	sh := &pwr.SyncHeader{}
	if err := r.ReadMessage(sh); err != nil {
		return false, err
	}
	return wl[sh.FileIndex], nil
}

func hasEntry(files []string, index int64) bool {
	return index >= 0 && index < int64(len(files))
}

// GoodBoolHelperOnValue: the guard is a boolean helper over the value (return a && b).
func GoodBoolHelperOnValue(r *wire.ReadContext, files []string) (string, error) {
	op := &pwr.SyncOp{}
	if err := r.ReadMessage(op); err != nil {
		return "", err
	}
	if !hasEntry(files, op.FileIndex) {
		return "", errors.New("out of range")
	}
	return files[op.FileIndex], nil
}

func hasEntryUpper(files []string, index int64) bool {
	return index < int64(len(files))
}

// BadBoolHelperOneSided: the helper only checks the upper bound.
func BadBoolHelperOneSided(r *wire.ReadContext, files []string) (string, error) {
	op := &pwr.SyncOp{}
	if err := r.ReadMessage(op); err != nil {
		return "", err
	}
	if !hasEntryUpper(files, op.FileIndex) {
		return "", errors.New("out of range")
	}
	return files[op.FileIndex], nil
}

// ---- allocations sized by a declared size (R10.alloc)

// BadPreallocFromDeclaredSize sizes a slice by what the container says the build weighs.
func BadPreallocFromDeclaredSize(c *tlc.Container) []wsync.BlockHash {
	n := pwr.ComputeNumBlocks(c.Size) + int64(len(c.Files))
	return make([]wsync.BlockHash, 0, n)
}

// GoodPreallocBounded bounds the hint first.
func GoodPreallocBounded(c *tlc.Container) []wsync.BlockHash {
	n := pwr.ComputeNumBlocks(c.Size) + int64(len(c.Files))
	if n > 1<<16 {
		n = 1 << 16
	}
	if n <= 1<<16 {
		return make([]wsync.BlockHash, 0, n)
	}
	return nil
}

// GoodPreallocFromCount sizes by how many entries were actually decoded.
func GoodPreallocFromCount(c *tlc.Container) []int64 {
	return make([]int64, 0, len(c.Files))
}

// BadLoopBoundFromWire iterates as many times as the stream says.
func BadLoopBoundFromWire(r *wire.ReadContext) (int64, error) {
	op := &pwr.SyncOp{}
	if err := r.ReadMessage(op); err != nil {
		return 0, err
	}
	var total int64
	for i := int64(0); i < op.BlockSpan; i++ {
		total += pwr.BlockSize
	}
	return total, nil
}

// GoodLoopBoundChecked bounds the span against trusted data first.
func GoodLoopBoundChecked(r *wire.ReadContext, numBlocks int64) (int64, error) {
	op := &pwr.SyncOp{}
	if err := r.ReadMessage(op); err != nil {
		return 0, err
	}
	if op.BlockSpan < 0 || op.BlockSpan > numBlocks {
		return 0, errors.New("out of range")
	}
	var total int64
	for i := int64(0); i < op.BlockSpan; i++ {
		total += pwr.BlockSize
	}
	return total, nil
}
