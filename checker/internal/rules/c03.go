package rules

import (
	"fmt"
	"go/token"
	"go/types"
	"sort"
	"strings"

	"golang.org/x/tools/go/ssa"

	"wharfverif/checker/internal/core"
)

func init() {
	register(&Property{
		ID: "C03",
		Explanation: `R03.1 save/restore symmetry: every field of every checkpoint struct is both written and read in non-test code, and for each Bowl/EntryWriter implementation every checkpoint field its Save writes is read by its own Resume; ` +
			`R03.2 the checkpoint literal handed to SaveConsumer.Save sets all position fields and the complete series sub-checkpoint; ` +
			`R03.3 durable before reported: an entry writer that owns an *os.File returns a checkpoint only after a checked Sync (overlay: Flush before Sync, offsets read after Flush); ` +
			`R03.4 reopening never truncates (O_CREATE|O_WRONLY, no O_TRUNC/O_APPEND) and repositions with Seek(checkpoint offset, SeekStart) under tests of the checkpoint only; the overlay writer also repositions the old-file reader and hands both offsets to NewOverlayWriter; ` +
			`R03.5 every successful end of a series reachable from GetWriter passes a checked writer.Finalize(); ` +
			`R03.6 the overlay bowl's work lists are appended to only by markOverlay/markMove/Transpose, each after a completed search for the same key; ` +
			`R03.7 every concrete type stored in an interface-typed checkpoint field is gob-registered; ` +
			`R03.8 both series loops consult ShouldSave inside the loop, request and pop a reader checkpoint on that edge, and offer the popped checkpoint; ` +
			`R03.9 every path from reading a SyncOp / bsdiff Control to SaveConsumer.Save passes the application of that message (a checkpoint never sits between consuming a message and writing its bytes). ` +
			`R03.3 also demands that every other field of an entry writer that has a Flush method (a bufio.Writer between Write and the file) is flushed, error checked, before the Sync in Save. ` +
			`R03.10 the slices the overlay bowl's Save stores in its checkpoint are the bowl's own lists or complete copies of them; R01.9 (shared) entry writers hand every byte on. R14.9 (shared; replaces the former shape test inside R03.4) every path to NewOverlayWriter(r, readOffset, ...) passes a Seek(x, SeekStart) on r with x one of the values merging into readOffset; R03.4 keeps: each offset handed over is the checkpoint's field of that name, or zero. R14.3 (shared) the overlay's magic is written only under overlayOffset == 0 (the writer is made anew for every session). R03.8/R03.9 see a message read through a local function literal (readOp := func() error {...}). NOT decided: that the four layers agree at every interruption point, content equality after resume, savior's decompressor checkpoints.`,
		Assumptions: []string{"checkpoint types are those reachable from patcher.Checkpoint inside the module plus the payload types stored into BowlCheckpoint.Data / WriterCheckpoint.Data"},
		Run:         runC03,
	})
}

type fieldRef struct{ typ, field string }

// fieldAccesses scans fns for field stores (non-zero values) and loads.
func fieldAccesses(fns []*ssa.Function) (written, read map[fieldRef][]ssa.Instruction) {
	written, read = map[fieldRef][]ssa.Instruction{}, map[fieldRef][]ssa.Instruction{}
	for _, fn := range fns {
		core.Instrs(fn, func(in ssa.Instruction) {
			switch x := in.(type) {
			case *ssa.FieldAddr:
				_, name, _ := core.FieldOf(x)
				k := fieldRef{core.TypeName(x.X.Type()), name}
				if refs := x.Referrers(); refs != nil {
					for _, r := range *refs {
						switch y := r.(type) {
						case *ssa.Store:
							if y.Addr == ssa.Value(x) && !isZeroConst(y.Val) {
								written[k] = append(written[k], y)
							}
						case *ssa.UnOp:
							if y.Op == token.MUL {
								read[k] = append(read[k], y)
							}
						}
					}
				}
			case *ssa.Field:
				_, name, _ := core.FieldOf(x)
				k := fieldRef{core.TypeName(x.X.Type()), name}
				read[k] = append(read[k], x)
			}
		})
	}
	return
}

func isZeroConst(v ssa.Value) bool {
	c, ok := v.(*ssa.Const)
	if !ok {
		return false
	}
	if c.IsNil() || c.Value == nil {
		return true
	}
	if n, isInt := core.ConstInt(c); isInt {
		return n == 0
	}
	return false
}

func runC03(c *core.Ctx) {
	ruleNoSwallowedLayerErrors(c, "R10.swallow", moduleErrCallee, "/pwr", "/pwr/patcher", "/pwr/bowl", "/pwr/rediff", "/pwr/overlay", "/wire", "/wsync", "/bsdiff", "/bsdiff/lrufile", "/multiread", "/ctxcopy")
	ruleNoDroppedLayerErrors(c, "R10.err", "/pwr", "/pwr/patcher", "/pwr/bowl", "/pwr/rediff", "/pwr/overlay", "/wire", "/wsync", "/bsdiff", "/multiread", "/ctxcopy")
	c.Rule("R13.2", "reader save protocol (shared with C13): the message checkpoint is one of the layers")
	ruleSaveProtocol(c)
	rulePerFileStateCleared(c, "R17.6")
	for id, d := range map[string]string{
		"R03.1": "save/restore field symmetry (type level and per implementation)",
		"R03.2": "checkpoint literal completeness at Save sites",
		"R03.3": "durable before reported (Flush, checked Sync, then offsets)",
		"R03.4": "reopen never truncates and repositions from the checkpoint",
		"R03.5": "finalize on success",
		"R03.6": "work-list ownership and de-duplication",
		"R03.7": "gob registration of checkpoint payload types",
		"R03.8": "checkpoints are requested inside the series loops and offered when popped",
		"R03.9": "no checkpoint between reading a message and applying it",
	} {
		c.Rule(id, d)
	}
	var nonTest []*ssa.Function
	for _, fn := range c.P.SrcFuncs() {
		if strings.HasSuffix(core.PkgPathOf(fn), "/wtest") {
			continue
		}
		nonTest = append(nonTest, fn)
	}
	written, read := fieldAccesses(nonTest)

	// ---- R03.1 type level
	ckTypes := [][2]string{{"pwr/patcher", "Checkpoint"}, {"pwr/patcher", "RsyncCheckpoint"}, {"pwr/patcher", "BsdiffCheckpoint"},
		{"pwr/bowl", "BowlCheckpoint"}, {"pwr/bowl", "WriterCheckpoint"}, {"pwr/bowl", "OverlayBowlCheckpoint"}, {"pwr/bowl", "OverlayEntryWriterCheckpoint"},
		{"wire", "MessageReaderCheckpoint"}}
	nf := 0
	for _, t := range ckTypes {
		nt := c.P.Named(t[0], t[1])
		if nt == nil {
			c.Missing("R03.1", t[0]+"."+t[1], "checkpoint type not found")
			continue
		}
		st, ok := nt.Underlying().(*types.Struct)
		if !ok {
			continue
		}
		for i := 0; i < st.NumFields(); i++ {
			f := st.Field(i)
			if !f.Exported() {
				continue
			}
			nf++
			k := fieldRef{t[0] + "." + t[1], f.Name()}
			w, r := len(written[k]) > 0, len(read[k]) > 0
			detail := ""
			switch {
			case w && !r:
				detail = "the field is saved but never read back: state is dropped on resume"
			case !w && r:
				detail = "the field is read on resume but never saved (with a non-zero value)"
			case !w && !r:
				detail = "the field is neither saved nor restored"
			}
			o := c.Check(w && r, "R03.1", k.typ, "field "+f.Name()+" is written and read", f.Pos(), fmt.Sprintf("written at %d sites, read at %d sites", len(written[k]), len(read[k])), detail)
			o.Sites = len(written[k]) + len(read[k]) + 1
		}
	}
	c.Floor("R03.1", "checkpoint fields", nf, 10)

	// ---- R03.1 per implementation: Save writes ⊆ Resume reads
	bowlPkg := c.P.Pkg("pwr/bowl")
	isCk := map[string]bool{}
	for _, t := range ckTypes {
		isCk[t[0]+"."+t[1]] = true
	}
	nImpl := 0
	if bowlPkg == nil {
		c.Missing("R03.1", "pwr/bowl", "package not found")
	} else {
		sc := bowlPkg.Types.Scope()
		for _, nm := range sc.Names() {
			tn, ok := sc.Lookup(nm).(*types.TypeName)
			if !ok {
				continue
			}
			save := c.P.Fn("pwr/bowl", nm+".Save")
			resume := c.P.Fn("pwr/bowl", nm+".Resume")
			if save == nil || resume == nil || save.Blocks == nil || resume.Blocks == nil {
				continue
			}
			_ = tn
			nImpl++
			sw, _ := fieldAccesses(core.WithAnons(save))
			_, rr := fieldAccesses(core.WithAnons(resume))
			var keys []fieldRef
			for k := range sw {
				if isCk[k.typ] {
					keys = append(keys, k)
				}
			}
			sort.Slice(keys, func(i, j int) bool { return keys[i].typ+keys[i].field < keys[j].typ+keys[j].field })
			for _, k := range keys {
				c.Check(len(rr[k]) > 0, "R03.1", core.FnName(resume), "restores "+k.typ+"."+k.field+" saved by "+nm+".Save", core.InstrPos(sw[k][0]),
					"Resume reads the field that Save writes", nm+".Save stores "+k.typ+"."+k.field+" in the checkpoint but "+nm+".Resume never reads it: that part of the writer's state is lost when resuming from a checkpoint")
			}
		}
	}
	c.Floor("R03.1", "Save/Resume implementation pairs", nImpl, 3)

	// ---- R03.2 / R03.8 / R03.5 in the series loops
	for _, name := range []string{"savingPatcher.processRsync", "savingPatcher.processBsdiff"} {
		fn := c.P.Fn("pwr/patcher", name)
		if fn == nil {
			c.Missing("R03.2", "pwr/patcher."+name, "not found")
			continue
		}
		fname := core.FnName(fn)
		isSave := func(in ssa.Instruction) bool {
			cl, ok := in.(*ssa.Call)
			return ok && cl.Call.IsInvoke() && cl.Call.Method.Name() == "Save" && strings.HasSuffix(core.TypeName(cl.Call.Value.Type()), "patcher.SaveConsumer")
		}
		saves := allInstrs(fn, isSave)
		if len(saves) != 1 {
			c.Bad("R03.2", fname, "SaveConsumer.Save call", fn.Pos(), fmt.Sprintf("expected one SaveConsumer.Save call in the series loop, found %d", len(saves)))
			continue
		}
		save := saves[0].(*ssa.Call)
		var lit *ssa.Alloc
		for _, o := range core.Origins(save.Call.Args[0]) {
			if a, ok := o.(*ssa.Alloc); ok {
				lit = a
			}
		}
		if lit == nil {
			c.Bad("R03.2", fname, "checkpoint literal", core.InstrPos(save), "the argument of SaveConsumer.Save is not a checkpoint literal built in this function")
		} else {
			need := []string{"SyncHeader", "FileIndex", "FileKind", "MessageCheckpoint", "BowlCheckpoint"}
			sub, subNeed := "RsyncCheckpoint", []string{"WriterCheckpoint"}
			if strings.HasSuffix(name, "Bsdiff") {
				sub, subNeed = "BsdiffCheckpoint", []string{"WriterCheckpoint", "OldOffset", "TargetIndex"}
			}
			for _, f := range need {
				v, ok := litField(lit, f)
				c.Check(ok && !isZeroConst(v), "R03.2", fname, "checkpoint literal sets "+f, core.InstrPos(lit), "set", "the saved checkpoint does not carry "+f+": a resumed patcher starts from the wrong position")
			}
			sv, ok := litField(lit, sub)
			var subLit *ssa.Alloc
			if ok {
				for _, o := range core.Origins(sv) {
					if a, isA := o.(*ssa.Alloc); isA {
						subLit = a
					}
				}
			}
			if subLit == nil {
				c.Bad("R03.2", fname, "checkpoint literal sets "+sub, core.InstrPos(lit), "the series sub-checkpoint "+sub+" is not set: resuming restarts the file from its beginning on top of a partly written output")
			} else {
				for _, f := range subNeed {
					v, ok := litField(subLit, f)
					c.Check(ok && !isZeroConst(v), "R03.2", fname, sub+" literal sets "+f, core.InstrPos(subLit), "set", "the saved "+sub+" does not carry "+f)
				}
			}
		}
		// R03.8
		isShould := func(in ssa.Instruction) bool {
			cl, ok := in.(*ssa.Call)
			return ok && cl.Call.IsInvoke() && cl.Call.Method.Name() == "ShouldSave"
		}
		isWant := callLikeInvoke("WantSave")
		isPop := callLikeInvoke("PopCheckpoint")
		should := firstInstr(fn, isShould)
		want := firstInstr(fn, isWant)
		pop := firstInstr(fn, isPop)
		if should == nil || want == nil || pop == nil {
			c.Bad("R03.8", fname, "ShouldSave / WantSave / PopCheckpoint", fn.Pos(), "the series loop no longer asks the save consumer and the reader for checkpoints")
		} else {
			c.Check(hasGuard(want, func(g core.Guard) bool { return g.Cond == ssa.Value(should.(*ssa.Call)) && g.Val }), "R03.8", fname, "WantSave under ShouldSave()", core.InstrPos(want),
				"the reader is asked for a checkpoint when the consumer wants one", "WantSave is not requested on the ShouldSave()==true edge")
			c.Check(core.InstrDominates(want, pop) && hasGuard(pop, func(g core.Guard) bool { return g.Cond == ssa.Value(should.(*ssa.Call)) && g.Val }), "R03.8", fname, "PopCheckpoint after WantSave", core.InstrPos(pop),
				"the checkpoint is popped after it was requested", "PopCheckpoint is not executed after WantSave on the ShouldSave edge")
			c.Check(core.InstrDominates(pop, save) && guardedNonNil(pop.(*ssa.Call), save), "R03.8", fname, "popped checkpoint is offered to SaveConsumer.Save", core.InstrPos(save),
				"Save is called when PopCheckpoint returned a checkpoint", "a popped checkpoint is not handed to the save consumer")
			// every loop iteration asks: from the loop's message read back to itself
			var loopRead ssa.Instruction
			core.Instrs(fn, func(in ssa.Instruction) {
				if wireReadCall2(in) && core.FindPath(fn, in, isInstr(in), nil) != nil && core.FindPath(fn, should, isInstr(in), nil) != nil {
					loopRead = in
				}
			})
			if loopRead == nil {
				c.Bad("R03.8", fname, "series loop", fn.Pos(), "no message read inside a loop after ShouldSave")
			} else {
				// (not demanded on EVERY iteration: asking every n-th message still offers checkpoints eventually)
				onCycle := core.FindPath(fn, loopRead, isInstr(should), nil) != nil && core.FindPath(fn, should, isInstr(loopRead), nil) != nil
				c.Check(onCycle, "R03.8", fname, "ShouldSave is consulted inside the series loop", core.InstrPos(loopRead),
					"the ShouldSave test lies on the loop's cycle, so it is asked again while the series is applied", "ShouldSave is asked outside the series loop only: a consumer that always wants to save is offered at most one checkpoint per file")
			}
		}
		// R03.9: a checkpoint never separates reading a message from applying it
		msgType, applyName := "pwr.SyncOp", "(*wsync.Context).ApplySingle"
		if strings.HasSuffix(name, "Bsdiff") {
			msgType, applyName = "bsdiff.Control", "(*bsdiff.IndividualPatchContext).Apply"
		}
		isApply := callTo(applyName)
		nRd := 0
		core.Instrs(fn, func(in ssa.Instruction) {
			cl, ok := in.(ssa.CallInstruction)
			if !ok {
				return
			}
			idx := wireReadCall(cl)
			if idx < 0 {
				if readThroughLiteral(in, msgType) == nil {
					return
				}
			} else if core.TypeName(core.StripConv(cl.Common().Args[idx]).Type()) != msgType {
				return
			}
			nRd++
			p := core.FindPath(fn, in, isSave, isApply)
			c.Check(p == nil, "R03.9", fname, "no checkpoint between reading a "+msgType+" and applying it", core.InstrPos(in),
				"every path from this read to SaveConsumer.Save applies the message first",
				"a checkpoint can be handed out after a message was consumed from the patch but before it was applied: a patcher resumed from it continues behind that message and the bytes it carried are missing from the output").Path = c.P.PathStrings(p)
		})
		c.Floor("R03.9", msgType+" reads in "+name, nRd, 1)
		// R03.5
		isGetWriter := func(in ssa.Instruction) bool {
			cl, ok := in.(*ssa.Call)
			return ok && cl.Call.IsInvoke() && cl.Call.Method.Name() == "GetWriter"
		}
		isFinalize := func(in ssa.Instruction) bool {
			cl, ok := in.(*ssa.Call)
			return ok && cl.Call.IsInvoke() && cl.Call.Method.Name() == "Finalize"
		}
		nRet := 0
		for _, rs := range successReturns(fn) {
			reach := false
			for _, gw := range allInstrs(fn, isGetWriter) {
				if core.FindPath(fn, gw, isInstr(rs.Ret), nil) != nil {
					reach = true
				}
			}
			if !reach {
				continue
			}
			nRet++
			var p []ssa.Instruction
			for _, gw := range allInstrs(fn, isGetWriter) {
				if pp := core.FindPath(fn, gw, isInstr(rs.Ret), isFinalize); pp != nil {
					p = pp
				}
			}
			c.Check(p == nil, "R03.5", fname, "successful end of series passes writer.Finalize()", core.InstrPos(rs.Ret),
				"every path from GetWriter to this success return finalizes the writer",
				"a series can end successfully without writer.Finalize(): an overlay stream then lacks its end marker and stale bytes after a resumed, shorter stream are applied").Path = c.P.PathStrings(p)
			for _, fz := range allInstrs(fn, isFinalize) {
				fc := fz.(*ssa.Call)
				p2 := ungatedPath(fn, fc, rs.Ret, nil)
				c.Check(p2 == nil, "R03.5", fname, "Finalize error is checked", core.InstrPos(fz),
					"the success return is reachable from Finalize only through its nil outcome", "the series reports success although writer.Finalize() failed").Path = c.P.PathStrings(p2)
			}
		}
		c.Floor("R03.5", "success returns after GetWriter in "+name, nRet, 1)
	}

	// ---- R03.3 / R03.4 per entry writer with an *os.File
	if bowlPkg != nil {
		sc := bowlPkg.Types.Scope()
		nW := 0
		for _, nm := range sc.Names() {
			tn, ok := sc.Lookup(nm).(*types.TypeName)
			if !ok {
				continue
			}
			st, ok := tn.Type().Underlying().(*types.Struct)
			if !ok {
				continue
			}
			fileField, ovField := "", ""
			var bufFields []string // anything else between Write and the file that holds bytes back (has a Flush method)
			for i := 0; i < st.NumFields(); i++ {
				ft := st.Field(i).Type()
				if core.TypeName(ft) == "os.File" {
					fileField = core.FieldNameOf(tn.Type(), st.Field(i))
					continue
				}
				if core.TypeName(ft) == "pwr/overlay.OverlayWriter" {
					ovField = core.FieldNameOf(tn.Type(), st.Field(i))
					continue
				}
				ms := types.NewMethodSet(ft)
				for j := 0; j < ms.Len(); j++ {
					if ms.At(j).Obj().Name() == "Flush" {
						bufFields = append(bufFields, core.FieldNameOf(tn.Type(), st.Field(i)))
					}
				}
			}
			save := c.P.Fn("pwr/bowl", nm+".Save")
			resume := c.P.Fn("pwr/bowl", nm+".Resume")
			if fileField == "" || save == nil || resume == nil {
				continue
			}
			nW++
			isSync := func(in ssa.Instruction) bool {
				cl, ok := in.(*ssa.Call)
				if !ok || core.CalleeName(cl) != "(*os.File).Sync" {
					return false
				}
				_, n, ok := core.FieldOf(cl.Call.Args[0])
				return ok && n == fileField
			}
			isFlush := fieldInvoke(ovField, "Flush")
			for _, rs := range core.Returns(save, 0) {
				if core.IsNilConst(rs.Val) {
					continue
				}
				p := core.FindPath(save, nil, isInstr(rs.Ret), isSync)
				c.Check(p == nil, "R03.3", core.FnName(save), "checkpoint returned only after "+fileField+".Sync()", core.InstrPos(rs.Ret),
					"every path to the checkpoint-returning return syncs the file", "a checkpoint offset can be reported before the data is durable: after a crash the file is shorter than the checkpoint claims").Path = c.P.PathStrings(p)
				for _, sy := range allInstrs(save, isSync) {
					syc := sy.(*ssa.Call)
					p2 := ungatedPath(save, syc, rs.Ret, nil)
					c.Check(p2 == nil, "R03.3", core.FnName(save), "Sync error is checked", core.InstrPos(sy),
						"the checkpoint is returned only on the nil outcome of Sync", "a checkpoint is returned although Sync failed").Path = c.P.PathStrings(p2)
				}
			}
			for _, bf := range bufFields {
				bf := bf
				isBufFlush := anyOf(fieldInvoke(bf, "Flush"), func(in ssa.Instruction) bool {
					cl, ok := in.(*ssa.Call)
					if !ok || cl.Call.IsInvoke() || len(cl.Call.Args) == 0 || !strings.HasSuffix(core.CalleeName(cl), ").Flush") {
						return false
					}
					_, n, ok := core.FieldOf(cl.Call.Args[0])
					return ok && n == bf
				})
				for _, sy := range allInstrs(save, isSync) {
					p := core.FindPath(save, nil, isInstr(sy), isBufFlush)
					c.Check(p == nil, "R03.3", core.FnName(save), "buffer "+bf+" is flushed before Sync", core.InstrPos(sy),
						"what the writer still holds in "+bf+" is flushed before the file is synced", "the entry writer keeps written bytes in a buffer ("+bf+") that Save does not flush: the checkpointed offset counts bytes that are not in the file, and after a crash the resumed file has a hole below that offset").Path = c.P.PathStrings(p)
					for _, fl := range allInstrs(save, isBufFlush) {
						if flc, ok := fl.(*ssa.Call); ok {
							for _, rs := range core.Returns(save, 0) {
								if core.IsNilConst(rs.Val) {
									continue
								}
								p2 := ungatedPath(save, flc, rs.Ret, nil)
								c.Check(p2 == nil, "R03.3", core.FnName(save), "Flush error of "+bf+" is checked", core.InstrPos(fl),
									"the checkpoint is returned only on the nil outcome of the flush", "a checkpoint is returned although flushing the buffer failed").Path = c.P.PathStrings(p2)
							}
						}
					}
				}
			}
			if ovField != "" {
				for _, sy := range allInstrs(save, isSync) {
					p := core.FindPath(save, nil, isInstr(sy), isFlush)
					c.Check(p == nil, "R03.3", core.FnName(save), "overlay Flush precedes Sync", core.InstrPos(sy),
						"buffered overlay data is flushed before the file is synced", "the file is synced while the overlay writer still buffers data: the checkpointed offsets are ahead of what is on disk").Path = c.P.PathStrings(p)
				}
				for _, in := range allInstrs(save, anyOf(fieldInvoke(ovField, "ReadOffset"), fieldInvoke(ovField, "OverlayOffset"))) {
					// only reads that reach the checkpoint matter
					reaches := false
					if refs := in.(*ssa.Call).Referrers(); refs != nil {
						for _, r := range *refs {
							if _, ok := r.(*ssa.Store); ok {
								reaches = true
							}
						}
					}
					if !reaches {
						continue
					}
					p := core.FindPath(save, nil, isInstr(in), isFlush)
					c.Check(p == nil, "R03.3", core.FnName(save), "checkpointed "+in.(*ssa.Call).Call.Method.Name()+"() read after Flush", core.InstrPos(in),
						"offset is read after the flush", "an offset stored in the checkpoint is read before the overlay writer was flushed").Path = c.P.PathStrings(p)
				}
			}
			// R03.4
			var open *ssa.Call
			core.Instrs(resume, func(in ssa.Instruction) {
				if cl, ok := in.(*ssa.Call); ok && strings.HasSuffix(core.CalleeName(cl), ".OpenFile") {
					open = cl
				}
			})
			if open == nil {
				c.Bad("R03.4", core.FnName(resume), "OpenFile", resume.Pos(), "Resume no longer opens the output with OpenFile")
				continue
			}
			flags, isC := core.ConstInt(open.Call.Args[1])
			const oWRONLY, oCREATE, oTRUNC, oAPPEND = 0x1, 0x40, 0x200, 0x400
			c.Check(isC && flags&oWRONLY != 0 && flags&oCREATE != 0 && flags&oTRUNC == 0 && flags&oAPPEND == 0, "R03.4", core.FnName(resume), "OpenFile flags", core.InstrPos(open),
				"O_CREATE|O_WRONLY without O_TRUNC/O_APPEND", fmt.Sprintf("the output is reopened with flags %#x (need O_CREATE|O_WRONLY, no O_TRUNC, no O_APPEND): resuming truncates or appends instead of continuing at the saved offset", flags))
			var cParam *ssa.Parameter
			for _, p := range resume.Params {
				if core.TypeName(p.Type()) == "pwr/bowl.WriterCheckpoint" {
					cParam = p
				}
			}
			fromCk := func(v ssa.Value) bool {
				// v is a field of the checkpoint parameter or of its type-asserted payload
				found := false
				var walk func(v ssa.Value, d int)
				walk = func(v ssa.Value, d int) {
					if d > 6 || found {
						return
					}
					for _, o := range core.Origins(v) {
						if o == ssa.Value(cParam) {
							found = true
							return
						}
						if b, _, ok := core.FieldOf(o); ok {
							walk(b, d+1)
						}
						if ta, ok := o.(*ssa.TypeAssert); ok {
							walk(ta.X, d+1)
						}
						if ex, ok := o.(*ssa.Extract); ok {
							if ta, ok := ex.Tuple.(*ssa.TypeAssert); ok {
								walk(ta.X, d+1)
							}
						}
					}
				}
				walk(v, 0)
				return found
			}
			var fileVal ssa.Value
			if refs := open.Referrers(); refs != nil {
				for _, r := range *refs {
					if ex, ok := r.(*ssa.Extract); ok && ex.Index == 0 {
						fileVal = ex
					}
				}
			}
			var seekCall *ssa.Call
			core.Instrs(resume, func(in ssa.Instruction) {
				cl, ok := in.(*ssa.Call)
				if !ok || core.CalleeName(cl) != "(*os.File).Seek" || !sameVal(cl.Call.Args[0], fileVal) && !sharesOrigin(cl.Call.Args[0], fileVal) {
					return
				}
				w, isW := core.ConstInt(cl.Call.Args[2])
				if isW && w == 0 && fromCk(cl.Call.Args[1]) {
					seekCall = cl
				}
			})
			if seekCall == nil {
				c.Bad("R03.4", core.FnName(resume), "Seek(checkpoint offset, SeekStart) on the reopened file", core.InstrPos(open),
					"the reopened output is never positioned at the checkpointed offset: resumed writes land at offset 0")
			} else {
				okGuards := true
				var badG string
				for _, g := range core.Guards(seekCall) {
					if !condOnlyAbout(g.Cond, fromCk, open) {
						okGuards = false
						badG = core.Describe(g.Cond)
					}
				}
				c.Check(okGuards, "R03.4", core.FnName(resume), "Seek to the checkpointed offset depends only on the checkpoint", core.InstrPos(seekCall),
					"control-dependent only on tests of the checkpoint and on error checks", "the repositioning Seek is skipped depending on "+badG+", which is not a property of the checkpoint")
			}
			if ovField != "" {
				// reader repositioned and both offsets passed on
				var now *ssa.Call
				core.Instrs(resume, func(in ssa.Instruction) {
					if cl, ok := in.(*ssa.Call); ok && core.CalleeName(cl) == "pwr/overlay.NewOverlayWriter" && fromCk(cl.Call.Args[1]) {
						now = cl
					}
				})
				if now == nil {
					c.Bad("R03.4", core.FnName(resume), "NewOverlayWriter(r, ReadOffset, f, OverlayOffset)", core.InstrPos(open), "no overlay writer is created from the checkpointed offsets")
				} else {
					// each offset handed over is the checkpoint's field of that name (or, merged with it, the zero of a start from scratch)
					fieldOnly := func(v ssa.Value, want string) bool {
						seen := false
						for _, o := range core.Origins(v) {
							if k, isK := core.ConstInt(o); isK {
								if k != 0 {
									return false
								}
								continue
							}
							_, n, ok := core.FieldOf(o)
							if !ok || n != want || !fromCk(o) {
								return false
							}
							seen = true
						}
						return seen
					}
					c.Check(fieldOnly(now.Call.Args[1], "ReadOffset") && fieldOnly(now.Call.Args[3], "OverlayOffset"), "R03.4", core.FnName(resume), "overlay writer resumed with (ReadOffset, OverlayOffset)", core.InstrPos(now),
						"both checkpointed offsets are handed to NewOverlayWriter in the right positions", "NewOverlayWriter is not given the checkpoint's ReadOffset and OverlayOffset (in that order)")
				}
			}
		}
		c.Floor("R03.3", "entry writers owning an *os.File", nW, 2)
	}

	ruleOverlayReaderStandsWhereTold(c, "R14.9", 1)
	ruleOverlayHeaderOnlyAtStart(c)
	ruleWorkListDedup(c)
	ruleSavedListsAreWhole(c)
	ruleEntryWritersWriteEverything(c)

	// ---- R03.7
	registered := map[string]bool{}
	for _, fn := range c.P.SrcFuncs() {
		for _, cl := range core.Calls(fn, false, "encoding/gob.Register") {
			registered[types.TypeString(core.StripConv(cl.Common().Args[0]).Type(), nil)] = true
		}
	}
	nPay := 0
	for _, k := range []fieldRef{{"pwr/bowl.BowlCheckpoint", "Data"}, {"pwr/bowl.WriterCheckpoint", "Data"}} {
		for _, in := range written[k] {
			st := in.(*ssa.Store)
			mi, ok := st.Val.(*ssa.MakeInterface)
			if !ok {
				continue
			}
			nPay++
			ts := types.TypeString(mi.X.Type(), nil)
			c.Check(registered[ts], "R03.7", core.FnName(st.Parent()), "payload type "+core.TypeName(mi.X.Type())+" stored in "+k.typ+"."+k.field+" is gob-registered", core.InstrPos(st),
				"gob.Register is called with this type", "the concrete type "+ts+" is stored in an interface-typed checkpoint field but never passed to gob.Register: serializing the checkpoint fails ('type not registered for interface')")
		}
	}
	c.Floor("R03.7", "interface-typed checkpoint payload stores", nPay, 2)
}

// wireReadCall2 reports whether in fills a message from the wire.
func wireReadCall2(in ssa.Instruction) bool {
	cl, ok := in.(ssa.CallInstruction)
	return ok && (wireReadCall(cl) >= 0 || readThroughLiteral(in, "") != nil)
}

// readThroughLiteral: in is a call of a function literal of the same function that reads a message off the
// wire (a local `readOp := func() error { err := rctx.ReadMessage(op); ... }` that decorates the error, say);
// the wire read inside is returned. msgType, when given, restricts the message type read.
func readThroughLiteral(in ssa.Instruction, msgType string) ssa.CallInstruction {
	cl, ok := in.(*ssa.Call)
	if !ok {
		return nil
	}
	lit := calledFunc(cl)
	if lit == nil || lit.Parent() == nil || lit.Parent() != cl.Parent() {
		return nil
	}
	var found ssa.CallInstruction
	core.Instrs(lit, func(x ssa.Instruction) {
		rc, ok := x.(ssa.CallInstruction)
		if !ok {
			return
		}
		idx := wireReadCall(rc)
		if idx < 0 {
			return
		}
		if msgType != "" && core.TypeName(core.StripConv(rc.Common().Args[idx]).Type()) != msgType {
			return
		}
		found = rc
	})
	return found
}

// condOnlyAbout: the condition tests only values for which about() holds,
// constants, or results of error checks / type assertions on them.
func condOnlyAbout(cond ssa.Value, about func(ssa.Value) bool, open *ssa.Call) bool {
	switch x := cond.(type) {
	case *ssa.BinOp:
		okSide := func(v ssa.Value) bool {
			if _, isC := v.(*ssa.Const); isC {
				return true
			}
			if about(v) {
				return true
			}
			// error results (err != nil checks leading to returns are not what skips the seek)
			if isErrorType(v.Type()) {
				return true
			}
			return false
		}
		return okSide(x.X) && okSide(x.Y)
	case *ssa.Extract:
		// ok of a type assertion on the checkpoint payload
		if ta, ok := x.Tuple.(*ssa.TypeAssert); ok {
			return about(ta.X)
		}
	case *ssa.UnOp:
		if x.Op == token.NOT {
			return condOnlyAbout(x.X, about, open)
		}
	}
	return false
}

// ruleWorkListDedup is R03.6 (shared with C02: what Commit moves and overlays is what these lists say).
func ruleWorkListDedup(c *core.Ctx) {
	c.Rule("R03.6", "work-list ownership and de-duplication")
	// ---- R03.6
	ob := c.P.Named("pwr/bowl", "overlayBowl")
	if ob == nil {
		c.Missing("R03.6", "pwr/bowl.overlayBowl", "not found")
	} else {
		lists := map[string]bool{"overlayFiles": true, "moveFiles": true, "transpositions": true}
		nApp := 0
		for _, fn := range c.P.SrcFuncs() {
			core.Instrs(fn, func(in ssa.Instruction) {
				st, ok := in.(*ssa.Store)
				if !ok {
					return
				}
				b, name, ok := core.FieldOf(st.Addr)
				if !ok || !lists[name] || core.TypeName(b.Type()) != "pwr/bowl.overlayBowl" {
					return
				}
				isAppend := false
				for _, o := range core.Origins(st.Val) {
					if cl, ok := o.(*ssa.Call); ok {
						if bi, ok := cl.Call.Value.(*ssa.Builtin); ok && bi.Name() == "append" {
							isAppend = true
						}
					}
				}
				if !isAppend {
					return
				}
				nApp++
				// after a completed search: guarded by the loop-exit edge of a range over the same list,
				// whose body leaves the function (or replaces in place) when the key matches
				searched := hasGuard(in, func(g core.Guard) bool {
					bo, ok := g.Cond.(*ssa.BinOp)
					if !ok || bo.Op != token.LSS || g.Val {
						return false
					}
					cl, ok := core.StripConv(bo.Y).(*ssa.Call)
					if !ok {
						return false
					}
					bi, ok := cl.Call.Value.(*ssa.Builtin)
					if !ok || bi.Name() != "len" {
						return false
					}
					_, n, ok := core.FieldOf(cl.Call.Args[0])
					return ok && n == name
				})
				keyCmp := false
				core.Instrs(fn, func(x ssa.Instruction) {
					ifi, ok := x.(*ssa.If)
					if !ok {
						return
					}
					bo, ok := ifi.Cond.(*ssa.BinOp)
					if !ok || bo.Op != token.EQL {
						return
					}
					// true edge must not reach the append
					if core.FindPathSkipping(fn, ifi, isInstr(in), nil, func(b, s *ssa.BasicBlock) bool { return b == ifi.Block() && s == b.Succs[1] }) == nil {
						keyCmp = true
					}
				})
				c.Check(searched && keyCmp, "R03.6", core.FnName(fn), "append to "+name+" only after a completed search for the key", core.InstrPos(in),
					"the append is reached only when the loop over the list finished without a match", "the append is not protected by a completed search for the same key: a file re-processed after resume is recorded twice and Commit fails on the second move/overlay")
			})
		}
		c.Floor("R03.6", "appends to overlay bowl work lists", nApp, 1)
	}

}

// ruleSavedListsAreWhole is R03.10: what Commit does is decided by the bowl's work lists as a whole - an entry
// "file A stays A" is what makes a duplicate of A a copy instead of a move. The slices a bowl's Save puts in
// its checkpoint are therefore the bowl's own lists (or complete copies of them): not a selection.
func ruleSavedListsAreWhole(c *core.Ctx) {
	c.Rule("R03.10", "a bowl checkpoint holds the work lists whole")
	save := c.P.Fn("pwr/bowl", "overlayBowl.Save")
	if save == nil {
		c.Missing("R03.10", "pwr/bowl.(*overlayBowl).Save", "not found")
		return
	}
	isBowlList := func(v ssa.Value) (string, bool) {
		ld, ok := core.StripConv(v).(*ssa.UnOp)
		if !ok || ld.Op != token.MUL {
			return "", false
		}
		b, n, ok := core.FieldOf(ld.X)
		if !ok || !strings.HasSuffix(core.TypeName(b.Type()), "bowl.overlayBowl") {
			return "", false
		}
		return n, true
	}
	n := 0
	core.Instrs(save, func(in ssa.Instruction) {
		st, ok := in.(*ssa.Store)
		if !ok {
			return
		}
		b, fname, ok := core.FieldOf(st.Addr)
		if !ok || !strings.HasSuffix(core.TypeName(b.Type()), "bowl.OverlayBowlCheckpoint") {
			return
		}
		if _, isSlice := st.Val.Type().Underlying().(*types.Slice); !isSlice {
			return
		}
		n++
		whole := true
		why := ""
		for _, o := range core.Origins(st.Val) {
			if _, ok := isBowlList(o); ok {
				continue
			}
			if k, isC := o.(*ssa.Const); isC && k.IsNil() {
				continue // the empty start of a copy
			}
			if cl, ok := o.(*ssa.Call); ok {
				if bi, ok := cl.Call.Value.(*ssa.Builtin); ok && bi.Name() == "append" && len(cl.Call.Args) == 2 {
					// append(x, list...): the whole list at once
					if _, ok := isBowlList(cl.Call.Args[1]); ok {
						continue
					}
					// append(x, elem) in a loop over the list: on every way round the loop
					if core.FindPath(save, cl, isInstr(cl), nil) != nil {
						// the loop header: the block whose test exits the loop; every cyclic path through it passes the append
						unconditional := true
						for _, blk := range save.Blocks {
							if len(blk.Instrs) == 0 {
								continue
							}
							ifi, ok := blk.Instrs[len(blk.Instrs)-1].(*ssa.If)
							if !ok || !blk.Dominates(cl.Block()) {
								continue
							}
							if core.FindPath(save, ifi, isInstr(ifi), nil) == nil {
								continue // not in the loop
							}
							if blk == cl.Block() {
								continue
							}
							// a branch inside the loop body that can go round without appending
							if strings.HasPrefix(blk.Comment, "rangeindex.loop") || strings.HasPrefix(blk.Comment, "for.loop") || strings.HasPrefix(blk.Comment, "rangeiter.loop") {
								if core.FindPath(save, ifi, isInstr(ifi), isInstr(cl)) != nil {
									unconditional = false
								}
							}
						}
						if unconditional {
							continue
						}
						why = "appended to under a condition"
					}
				}
			}
			whole = false
			if why == "" {
				why = "built from " + core.Describe(o)
			}
		}
		c.Check(whole, "R03.10", core.FnName(save), "checkpointed "+fname+" is the bowl's whole list", core.InstrPos(in),
			"the bowl's own slice, or a copy made of all its elements", "the list saved as "+fname+" is a selection of the bowl's list ("+why+"): a bowl restored from the checkpoint plans its commit without the entries left out (without 'A stays A' a duplicate of A is made by moving A away)")
	})
	c.Floor("R03.10", "slices stored into the overlay bowl's checkpoint", n, 3)
}
