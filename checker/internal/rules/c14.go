package rules

import (
	"go/token"
	"go/types"
	"sort"
	"strings"

	"golang.org/x/tools/go/ssa"

	"wharfverif/checker/internal/core"
)

func init() {
	register(&Property{
		ID: "C14",
		Explanation: `R14.1 emit/advance pairing: OverlayOp messages are written only by fresh, skip and Finalize; fresh advances readOffset by len of the data it stored in the op, skip by the length it stored, on every success path; ` +
			`R14.2 Finalize flushes (checked) before writing the end marker, and the entry writer finalizes the overlay before syncing; R14.3 magic and header are written only at overlay offset 0 and the byte counter is seeded with the overlay offset; ` +
			`R14.4 every op type the writer emits has a case in the applier and the applier returns nil only at the end marker; R14.5 the old-file window is inspected only below the count its Read returned; R14.6 that read cannot come back short before the end of the old file (a full read, or a single Read on a reader that is not a bufio.Reader); ` +
			`R02.4 (shared) the caller truncates at the position the applier ended. R14.7 each field that OverlayPatchContext.Patch assigns is assigned before it is first read or is zero again on every success return; scratch buffers, recycled message objects that are Reset before use and allocation tests are not state. R14.8 every success return of overlayProcessor.write has read the old file into the window (old and new are consumed in lockstep). R14.9 every path to NewOverlayWriter(r, readOffset, ...) outside package overlay passes a Seek(readOffset, SeekStart) on r. R14.10 every integer field the overlay writer keeps adding to and hands on (into a field of something, or returns) is started by NewOverlayWriter from one of its parameters. NOT decided: the window/skip index arithmetic, write slicing, short reads of the old file.`,
		Run: runC14,
	})
}

func overlayOpTypes(p *core.Prog) map[string]int64 {
	out := map[string]int64{}
	if pk := p.Pkg("pwr/overlay"); pk != nil {
		for _, n := range pk.Types.Scope().Names() {
			if k, ok := pk.Types.Scope().Lookup(n).(*types.Const); ok && strings.HasPrefix(n, "OverlayOp_") {
				if v, ok := constInt64(k); ok {
					out[strings.TrimPrefix(n, "OverlayOp_")] = v
				}
			}
		}
	}
	return out
}

func runC14(c *core.Ctx) {
	c.Rule("R14.1", "emit/advance pairing in the overlay writer")
	c.Rule("R14.2", "flush before the end marker")
	c.Rule("R14.3", "header only at offset zero; counter seeded")
	c.Rule("R14.4", "applier exhaustive, terminates only at the marker")
	c.Rule("R14.5", "old-file window inspected only below the count read")
	c.Rule("R14.6", "the window read is a full read or does not go through a buffering reader")
	c.Rule("R02.4", "overlay application ends with truncation at the applier's final position")
	ruleUseStartsClean(c, "R14.7", "pwr/overlay", "OverlayPatchContext", "Patch")
	ruleOverlayReaderStandsWhereTold(c, "R14.9", 1)
	ruleRunningTotalsAreSeeded(c, "R14.10")
	opT := overlayOpTypes(c.P)
	if len(opT) < 3 {
		c.Missing("R14", "pwr/overlay.OverlayOp_*", "op type constants not found")
		return
	}
	isWriteMsg := func(in ssa.Instruction) bool {
		cl, ok := in.(*ssa.Call)
		return ok && core.CalleeName(cl) == "(*wire.WriteContext).WriteMessage"
	}
	// ---- R14.1
	emitters := map[string][]int64{}
	nW := 0
	for _, fn := range c.P.SrcFuncs() {
		if !strings.HasSuffix(core.PkgPathOf(fn), "/pwr/overlay") {
			continue
		}
		for _, in := range allInstrs(fn, isWriteMsg) {
			arg := core.StripConv(in.(*ssa.Call).Call.Args[1])
			if core.TypeName(arg.Type()) != "pwr/overlay.OverlayOp" {
				continue
			}
			nW++
			var a *ssa.Alloc
			for _, o := range core.Origins(arg) {
				if x, ok := o.(*ssa.Alloc); ok {
					a = x
				}
			}
			kind := int64(-1)
			if a != nil {
				kind = 0
				if v, ok := litField(a, "Type"); ok {
					if k, isC := core.ConstInt(v); isC {
						kind = k
					} else {
						kind = -1
					}
				}
			}
			emitters[fn.Name()] = append(emitters[fn.Name()], kind)
			allowed := map[string]bool{"fresh": true, "skip": true, "Finalize": true}
			c.Check(allowed[fn.Name()], "R14.1", core.FnName(fn), "OverlayOp written by an op emitter", core.InstrPos(in),
				"written by fresh/skip/Finalize", "an OverlayOp is written outside fresh/skip/Finalize: the read offset is not advanced with it")
			if a == nil {
				continue
			}
			var amount ssa.Value
			what := ""
			switch {
			case kind == opT["FRESH"]:
				amount, _ = litField(a, "Data")
				what = "len(Data)"
			case kind == opT["SKIP"]:
				amount, _ = litField(a, "Len")
				what = "Len"
			default:
				continue
			}
			isAdvance := func(x ssa.Instruction) bool {
				st, ok := x.(*ssa.Store)
				if !ok {
					return false
				}
				if _, n, ok := core.FieldOf(st.Addr); !ok || n != "readOffset" {
					return false
				}
				bo, ok := st.Val.(*ssa.BinOp)
				if !ok || bo.Op != token.ADD {
					return false
				}
				for _, side := range []ssa.Value{bo.X, bo.Y} {
					v := core.StripConv(side)
					if v == amount {
						return true
					}
					if cl, ok := v.(*ssa.Call); ok {
						if b, ok := cl.Call.Value.(*ssa.Builtin); ok && b.Name() == "len" && cl.Call.Args[0] == amount {
							return true
						}
					}
				}
				return false
			}
			for _, rs := range successReturns(fn) {
				p := core.FindPath(fn, in, isInstr(rs.Ret), isAdvance)
				c.Check(p == nil, "R14.1", core.FnName(fn), "readOffset advanced by "+what+" of the emitted op", core.InstrPos(rs.Ret),
					"every success path after the write adds the op's extent to readOffset", "an op is emitted but readOffset is not advanced by its extent on every success path: a writer resumed from ReadOffset() compares against the wrong old bytes").Path = c.P.PathStrings(p)
			}
		}
	}
	c.Floor("R14.1", "OverlayOp writes", nW, 1)

	// ---- R14.2
	fin := c.P.Fn("pwr/overlay", "overlayWriter.Finalize")
	if fin == nil {
		c.Missing("R14.2", "pwr/overlay.(*overlayWriter).Finalize", "not found")
	} else {
		isFlush := func(in ssa.Instruction) bool {
			cl, ok := in.(*ssa.Call)
			if !ok {
				return false
			}
			n := core.CalleeName(cl)
			return n == "(*pwr/overlay.overlayWriter).Flush" || n == "(*bufio.Writer).Flush"
		}
		for _, w := range allInstrs(fin, isWriteMsg) {
			p := core.FindPath(fin, nil, isInstr(w), isFlush)
			c.Check(p == nil, "R14.2", core.FnName(fin), "Flush precedes the end marker", core.InstrPos(w),
				"buffered data is flushed before HEY_YOU_DID_IT is written", "the end marker can be written before buffered data: the applier stops before the last ops").Path = c.P.PathStrings(p)
			for _, fl := range allInstrs(fin, isFlush) {
				fc := fl.(*ssa.Call)
				p2 := ungatedPath(fin, fc, w, nil)
				c.Check(p2 == nil, "R14.2", core.FnName(fin), "Flush error is checked before the marker", core.InstrPos(fl),
					"marker written only on the nil outcome of Flush", "the end marker is written although Flush failed").Path = c.P.PathStrings(p2)
			}
		}
		// marker type
		ok := false
		for _, k := range emitters["Finalize"] {
			if k == opT["HEY_YOU_DID_IT"] {
				ok = true
			}
		}
		c.Check(ok, "R14.2", core.FnName(fin), "Finalize writes the end marker", fin.Pos(), "HEY_YOU_DID_IT is written", "Finalize no longer writes the HEY_YOU_DID_IT marker")
	}
	if ewf := c.P.Fn("pwr/bowl", "overlayEntryWriter.Finalize"); ewf == nil {
		c.Missing("R14.2", "pwr/bowl.(*overlayEntryWriter).Finalize", "not found")
	} else {
		ofin := fieldInvoke("overlay", "Finalize")
		sync := callTo("(*os.File).Sync")
		sy := firstInstr(ewf, sync)
		c.Check(sy != nil, "R14.2", core.FnName(ewf), "syncs the overlay file", ewf.Pos(), "Sync is called", "the entry writer's Finalize no longer syncs the overlay file")
		if sy != nil {
			// Sync not before Finalize
			bad := false
			for _, f := range allInstrs(ewf, ofin) {
				if core.FindPath(ewf, sy, isInstr(f), nil) != nil {
					bad = true
				}
			}
			c.Check(len(allInstrs(ewf, ofin)) > 0 && !bad, "R14.2", core.FnName(ewf), "overlay finalized before the file is synced", core.InstrPos(sy),
				"overlay.Finalize() is called and never after Sync", "the overlay stream is not finalized (or is finalized after the sync)")
		}
	}

	ruleOverlayHeaderOnlyAtStart(c)

	// ---- R14.4
	patch := c.P.Fn("pwr/overlay", "OverlayPatchContext.Patch")
	if patch == nil {
		c.Missing("R14.4", "pwr/overlay.(*OverlayPatchContext).Patch", "not found")
	} else {
		handled := map[int64]*ssa.If{}
		core.Instrs(patch, func(in ssa.Instruction) {
			if ifi, ok := in.(*ssa.If); ok {
				if bo, ok := ifi.Cond.(*ssa.BinOp); ok && bo.Op == token.EQL {
					if _, n, ok := core.FieldOf(bo.X); ok && n == "Type" {
						if k, isC := core.ConstInt(bo.Y); isC {
							handled[k] = ifi
						}
					}
				}
			}
		})
		em := map[int64]bool{}
		for _, ks := range emitters {
			for _, k := range ks {
				if k >= 0 {
					em[k] = true
				}
			}
		}
		var eks []int64
		for k := range em {
			eks = append(eks, k)
		}
		sort.Slice(eks, func(i, j int) bool { return eks[i] < eks[j] })
		name := map[int64]string{}
		for n, v := range opT {
			name[v] = n
		}
		for _, k := range eks {
			_, ok := handled[k]
			c.Check(ok, "R14.4", core.FnName(patch), "case for emitted op type "+name[k], patch.Pos(), "handled", "the writer emits "+name[k]+" ops but the applier has no case for them: they are silently ignored")
		}
		c.Floor("R14.4", "emitted op types", len(eks), 3)
		nNil := 0
		for _, rs := range successReturns(patch) {
			nNil++
			marker := handled[opT["HEY_YOU_DID_IT"]]
			c.Check(marker != nil && hasGuard(rs.Ret, func(g core.Guard) bool { return g.If == marker && g.Val }), "R14.4", core.FnName(patch), "nil return only at the end marker", core.InstrPos(rs.Ret),
				"the success return is in the HEY_YOU_DID_IT case", "the applier can report success without having seen the end marker (e.g. at EOF): a truncated or stale overlay is applied as if complete")
		}
		c.Floor("R14.4", "success returns of Patch", nNil, 1)
	}

	ruleWindowInspectedBelowCount(c)

	ruleTruncate(c, "R02.4")
}

// ruleTruncate (R02.4, shared by C02 and C14): in applyOverlays' handler every
// success return passes Patch -> Seek(0, SeekCurrent) -> Truncate(result of that Seek).
func ruleTruncate(c *core.Ctx, rule string) {
	ao := c.P.Fn("pwr/bowl", "overlayBowl.applyOverlays")
	if ao == nil {
		c.Missing(rule, "pwr/bowl.(*overlayBowl).applyOverlays", "not found")
		return
	}
	isPatch := func(in ssa.Instruction) bool {
		cl, ok := in.(*ssa.Call)
		return ok && core.CalleeName(cl) == "(*pwr/overlay.OverlayPatchContext).Patch"
	}
	var h *ssa.Function
	for _, f := range core.WithAnons(ao) {
		if containsCall(f, isPatch) {
			h = f
		}
	}
	if h == nil {
		c.Bad(rule, core.FnName(ao), "overlay handler", ao.Pos(), "no function applies the overlay with OverlayPatchContext.Patch")
		return
	}
	patch := firstInstr(h, isPatch).(*ssa.Call)
	var seek *ssa.Call
	core.Instrs(h, func(in ssa.Instruction) {
		if cl, ok := in.(*ssa.Call); ok && core.CalleeName(cl) == "(*os.File).Seek" {
			z, isZ := core.ConstInt(cl.Call.Args[1])
			w, isW := core.ConstInt(cl.Call.Args[2])
			if isZ && isW && z == 0 && w == 1 && sharesOrigin(cl.Call.Args[0], patch.Call.Args[2]) {
				seek = cl
			}
		}
	})
	isTrunc := func(in ssa.Instruction) bool {
		cl, ok := in.(*ssa.Call)
		return ok && core.CalleeName(cl) == "(*os.File).Truncate" && seek != nil && extractOf(cl.Call.Args[1], seek, 0)
	}
	n := 0
	for _, rs := range successReturns(h) {
		n++
		p1 := core.FindPath(h, nil, isInstr(rs.Ret), isPatch)
		c.Check(p1 == nil, rule, core.FnName(h), "success requires the overlay to have been applied", core.InstrPos(rs.Ret), "Patch on every success path", "the handler can succeed without applying the overlay").Path = c.P.PathStrings(p1)
		ok := seek != nil && core.FindPath(h, patch, isInstr(rs.Ret), isTrunc) == nil && core.InstrDominates(patch, seek)
		c.Check(ok, rule, core.FnName(h), "file truncated at the position where the applier ended", core.InstrPos(rs.Ret),
			"Patch -> Seek(0, SeekCurrent) -> Truncate(that position) on every success path", "after applying an overlay the file is not truncated at the applier's final position on every success path: a file that became shorter keeps its old tail")
	}
	c.Floor(rule, "success returns of the overlay handler", n, 1)
}

// mustBase returns the struct value a field load / address is taken from (or v).
func mustBase(v ssa.Value) ssa.Value {
	if b, _, ok := core.FieldOf(v); ok {
		return b
	}
	return v
}

// ruleWindowInspectedBelowCount is R14.5 (shared with C02: what the overlay writer skips is what in-place
// application leaves untouched).
func ruleWindowInspectedBelowCount(c *core.Ctx) {
	c.Rule("R14.5", "old-file window inspected only below the count read")
	// ---- R14.5
	wr := c.P.Fn("pwr/overlay", "overlayProcessor.write")
	if wr == nil {
		c.Missing("R14.5", "pwr/overlay.(*overlayProcessor).write", "not found")
	} else {
		// the read of the old file: a call named Read/ReadFull/ReadAtLeast whose buffer derives from the rbuf field
		var rd *ssa.Call
		core.Instrs(wr, func(in ssa.Instruction) {
			cl, ok := in.(*ssa.Call)
			if !ok {
				return
			}
			var bufArg ssa.Value
			switch {
			case cl.Call.IsInvoke() && cl.Call.Method.Name() == "Read":
				bufArg = cl.Call.Args[0]
			case core.CalleeName(cl) == "io.ReadFull" || core.CalleeName(cl) == "io.ReadAtLeast":
				bufArg = cl.Call.Args[1]
			default:
				return
			}
			for _, o := range core.Origins(bufArg) {
				for {
					if sl, ok := o.(*ssa.Slice); ok {
						o = sl.X
						continue
					}
					break
				}
				if _, n, ok := core.FieldOf(o); ok && n == "rbuf" {
					rd = cl
				}
			}
		})
		if rd == nil {
			c.Bad("R14.5", core.FnName(wr), "read of the old-file window", wr.Pos(), "no Read into ow.rbuf found")
		} else {
			// R14.8: old and new are consumed in lockstep. fresh and skip advance readOffset by what they emit;
			// the old-file reader only moves when it is read. Every success return of write has read the old
			// file - a window declared fresh unseen leaves the reader behind readOffset for the rest of the
			// session, and every later comparison runs out of alignment
			c.Rule("R14.8", "a window is processed only after the old file was read for it")
			nS := 0
			for _, rs := range successReturns(wr) {
				nS++
				p := core.FindPath(wr, nil, isInstr(rs.Ret), isInstr(rd))
				c.Check(p == nil, "R14.8", core.FnName(wr), "success return after the old-file read", core.InstrPos(rs.Ret),
					"every path to this return reads the old file into the window", "write can process a window (and advance readOffset through fresh/skip) without reading the old file: the old-file reader falls behind the offset the writer reports, later windows are compared with the wrong old bytes, and a chance match becomes a SKIP over data that is not there").Path = c.P.PathStrings(p)
			}
			c.Floor("R14.8", "success returns of overlayProcessor.write", nS, 1)
			// R14.6: a short count from the window read is taken for the end of the old file, so the read must not
			// be able to come back short before the end: it is a full read (io.ReadFull / ReadAtLeast), or the
			// reader is not a buffering one (files and in-memory readers fill the buffer; a bufio.Reader hands out
			// what it happens to hold)
			if rd.Call.IsInvoke() {
				_, rfield, okf := core.FieldOf(rd.Call.Value)
				raw, nSt := okf, 0
				if okf {
					for _, f := range c.P.SrcFuncs() {
						if !strings.HasSuffix(core.PkgPathOf(f), "/pwr/overlay") {
							continue
						}
						core.Instrs(f, func(in ssa.Instruction) {
							st, ok := in.(*ssa.Store)
							if !ok {
								return
							}
							b, n, ok := core.FieldOf(st.Addr)
							if !ok || n != rfield || core.TypeName(b.Type()) != core.TypeName(mustBase(rd.Call.Value).Type()) {
								return
							}
							nSt++
							for _, o := range core.Origins(st.Val) {
								// a buffering reader hands out what it happens to hold: short counts in mid-file
								if mi, ok := o.(*ssa.MakeInterface); ok && core.TypeName(mi.X.Type()) == "bufio.Reader" {
									raw = false
								}
								if core.TypeName(core.StripConv(o).Type()) == "bufio.Reader" {
									raw = false
								}
							}
						})
					}
				}
				c.Check(raw && nSt > 0, "R14.6", core.FnName(wr), "the window read cannot come back short before the end of the old file", core.InstrPos(rd),
					"single Read on a reader that is not a buffering (bufio) reader", "the old-file window is filled with a single Read on a bufio.Reader, which returns what it happens to hold: a short count in the middle of the file is taken for its end, and later windows are compared against the wrong old bytes")
			} else {
				c.Ok("R14.6", core.FnName(wr), "the window read cannot come back short before the end of the old file", core.InstrPos(rd), "full read ("+core.CalleeName(rd)+")")
			}
			isCount := func(v ssa.Value) bool { return extractOf(v, rd, 0) }
			n := 0
			for _, f := range core.WithAnons(wr) {
				core.Instrs(f, func(in ssa.Instruction) {
					ia, ok := in.(*ssa.IndexAddr)
					if !ok {
						return
					}
					isR := false
					for _, o := range core.Origins(ia.X) {
						for {
							if sl, ok := o.(*ssa.Slice); ok {
								o = sl.X
								continue
							}
							break
						}
						if _, nm, ok := core.FieldOf(o); ok && nm == "rbuf" {
							isR = true
						}
					}
					if !isR {
						return
					}
					n++
					bounded := hasGuard(in, func(g core.Guard) bool {
						bo, ok := g.Cond.(*ssa.BinOp)
						if !ok {
							return false
						}
						switch {
						case bo.Op == token.LSS && sameExpr(bo.X, ia.Index) && isCount(bo.Y):
							return g.Val
						case bo.Op == token.GEQ && sameExpr(bo.X, ia.Index) && isCount(bo.Y):
							return !g.Val
						case bo.Op == token.GTR && isCount(bo.X) && sameExpr(bo.Y, ia.Index):
							return g.Val
						}
						return false
					})
					c.Check(bounded, "R14.5", core.FnName(f), "rbuf["+core.Describe(ia.Index)+"] inspected below the count read", core.InstrPos(in),
						"index is guarded by i < n where n is the count the old-file Read returned", "the old-file window is inspected at an index not bounded by the count its Read returned: bytes left over from an earlier window are compared with new content and may be turned into a SKIP over data that does not exist")
				})
			}
			c.Floor("R14.5", "inspections of the old-file window", n, 1)
		}
	}
}

// ruleOverlayHeaderOnlyAtStart is R14.3 (shared with C03: the overlay writer is made anew for every session of
// an interrupted apply).
func ruleOverlayHeaderOnlyAtStart(c *core.Ctx) {
	c.Rule("R14.3", "header only at offset zero; counter seeded")
	now := c.P.Fn("pwr/overlay", "NewOverlayWriter")
	if now == nil {
		c.Missing("R14.3", "pwr/overlay.NewOverlayWriter", "not found")
	} else {
		ovOff := now.Params[len(now.Params)-1]
		atZero := func(in ssa.Instruction) bool {
			return hasGuard(in, func(g core.Guard) bool {
				bo, ok := g.Cond.(*ssa.BinOp)
				if !ok || bo.X != ssa.Value(ovOff) {
					return false
				}
				z, isC := core.ConstInt(bo.Y)
				return isC && z == 0 && ((bo.Op == token.EQL && g.Val) || (bo.Op == token.NEQ && !g.Val))
			})
		}
		n := 0
		// only the magic is demanded: a repeated OverlayHeader message is decoded by the applier as a SKIP of 0 bytes
		// (harmless, see §5), a repeated magic would be read as a message length
		for _, in := range allInstrs(now, callTo("(*wire.WriteContext).WriteMagic")) {
			n++
			c.Check(atZero(in), "R14.3", core.FnName(now), "magic written only at overlay offset 0", core.InstrPos(in),
				"control-dependent on overlayOffset == 0", "the magic is written when resuming at a non-zero overlay offset: the applier reads it as a message length in the middle of the stream")
		}
		c.Floor("R14.3", "magic writes", n, 1)
		seeded := false
		for _, in := range allInstrs(now, callTo("(*github.com/itchio/headway/counter.Writer).SetCount")) {
			if in.(*ssa.Call).Call.Args[1] == ssa.Value(ovOff) {
				seeded = true
			}
		}
		c.Check(seeded, "R14.3", core.FnName(now), "byte counter seeded with the overlay offset", now.Pos(),
			"cw.SetCount(overlayOffset)", "the overlay byte counter is not seeded with the resume offset: OverlayOffset() reported after a resume is too small")
		// readOffset field initialised from the parameter
		okRead := false
		core.Instrs(now, func(in ssa.Instruction) {
			if st, ok := in.(*ssa.Store); ok {
				if _, n, ok := core.FieldOf(st.Addr); ok && n == "readOffset" && st.Val == ssa.Value(now.Params[1]) {
					okRead = true
				}
			}
		})
		c.Check(okRead, "R14.3", core.FnName(now), "readOffset initialised from the resume offset", now.Pos(), "readOffset: readOffset", "the writer's readOffset does not start at the resume offset")
	}

}
