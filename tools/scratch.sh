#!/bin/bash
# tools/scratch.sh <patchfile> <dir> : scratch copy of /repo with the patch applied (caller removes it)
set -e
PF="$(realpath "$1")"
rm -rf "$2"; mkdir -p "$2"
rsync -a --exclude .git /repo/ "$2/"
(cd "$2" && patch -p1 -s --no-backup-if-mismatch < "$PF")
