package probe

import (
	"bytes"
	"os"
	"path/filepath"
	"testing"

	"github.com/itchio/headway/state"
	"github.com/itchio/lake/pools/fspool"
	"github.com/itchio/savior/seeksource"
	"github.com/itchio/wharf/pwr"
	"github.com/itchio/wharf/pwr/bowl"
	"github.com/itchio/wharf/pwr/patcher"
)

func applyInPlace(t *testing.T, old, nw, stage string) error {
	patch := diff(t, old, nw)
	p, err := patcher.New(seeksource.FromBytes(patch), &state.Consumer{})
	must(t, err)
	b, err := bowl.NewOverlayBowl(bowl.OverlayBowlParams{
		TargetContainer: p.GetTargetContainer(),
		SourceContainer: p.GetSourceContainer(),
		OutputFolder:    old,
		StageFolder:     stage,
	})
	must(t, err)
	err = p.Resume(nil, fspool.New(p.GetTargetContainer(), old), b)
	if err != nil {
		return err
	}
	return b.Commit()
}

func checkAgainst(t *testing.T, got, want string) {
	c, h := sign(t, want)
	err := pwr.AssertValid(got, &pwr.SignatureInfo{Container: c, Hashes: h})
	t.Logf("    result validates against the new build: %v", err)
	err = pwr.AssertNoGhosts(got, &pwr.SignatureInfo{Container: c, Hashes: h})
	t.Logf("    no ghosts: %v", err)
}

// C02: kind changes at a path, applied in place
func TestInPlaceKindChanges(t *testing.T) {
	x := randBytes(41, 70000)
	y := randBytes(42, 50000)

	t.Run("directory becomes a symlink to a directory with a same-named child", func(t *testing.T) {
		dir := t.TempDir()
		old, nw := filepath.Join(dir, "old"), filepath.Join(dir, "new")
		writeFile(t, old, "d/x", x)
		writeFile(t, old, "e/x", y)
		writeFile(t, nw, "e/x", y)
		must(t, os.Symlink("e", filepath.Join(nw, "d")))
		err := applyInPlace(t, old, nw, filepath.Join(dir, "stage"))
		t.Logf("    apply+commit err = %v", err)
		got, rerr := os.ReadFile(filepath.Join(old, "e", "x"))
		t.Logf("    e/x after commit: read err=%v equal-to-new=%v", rerr, bytes.Equal(got, y))
		checkAgainst(t, old, nw)
	})

	t.Run("file renamed, a symlink to it left at the old path", func(t *testing.T) {
		dir := t.TempDir()
		old, nw := filepath.Join(dir, "old"), filepath.Join(dir, "new")
		writeFile(t, old, "a", x)
		writeFile(t, old, "keep", y)
		writeFile(t, nw, "b", x)
		writeFile(t, nw, "keep", y)
		must(t, os.Symlink("b", filepath.Join(nw, "a")))
		err := applyInPlace(t, old, nw, filepath.Join(dir, "stage"))
		t.Logf("    apply+commit err = %v", err)
		st, lerr := os.Lstat(filepath.Join(old, "b"))
		if lerr == nil {
			t.Logf("    b is a symlink: %v", st.Mode()&os.ModeSymlink != 0)
		} else {
			t.Logf("    b: %v", lerr)
		}
		checkAgainst(t, old, nw)
	})

	t.Run("non-empty directory becomes a file", func(t *testing.T) {
		dir := t.TempDir()
		old, nw := filepath.Join(dir, "old"), filepath.Join(dir, "new")
		writeFile(t, old, "d/x", x)
		writeFile(t, old, "keep", y)
		writeFile(t, nw, "d", x)
		writeFile(t, nw, "keep", y)
		err := applyInPlace(t, old, nw, filepath.Join(dir, "stage"))
		t.Logf("    apply+commit err = %v", err)
		if err == nil {
			checkAgainst(t, old, nw)
		}
	})

	t.Run("directory renamed, a symlink left at the old name", func(t *testing.T) {
		dir := t.TempDir()
		old, nw := filepath.Join(dir, "old"), filepath.Join(dir, "new")
		writeFile(t, old, "d/x", x)
		writeFile(t, old, "keep", y)
		writeFile(t, nw, "e/x", x)
		writeFile(t, nw, "keep", y)
		must(t, os.Symlink("e", filepath.Join(nw, "d")))
		err := applyInPlace(t, old, nw, filepath.Join(dir, "stage"))
		t.Logf("    apply+commit err = %v", err)
		if err == nil {
			checkAgainst(t, old, nw)
		}
	})
}
