package rules

import (
	"fmt"
	"go/token"
	"go/types"
	"sort"
	"strings"

	"golang.org/x/tools/go/ssa"

	"wharfverif/checker/internal/core"
)

func init() {
	register(&Property{
		ID: "C02",
		Explanation: `R02.1 pre-commit write confinement: in every function reachable from the overlay bowl's patching-phase API (NewOverlayBowl, Resume, Save, GetWriter, Transpose, Close and the methods of the entry writers it hands out) no file-system mutator takes a path (or pool) derived from the output folder / target pool, the entry writers' paths come from the stage pool, which is rooted in StageFolder; conversely every mutator whose path derives from OutputFolder sits in a function reachable only from Commit; ` +
			`R02.2 commit phases run in the required order with errors checked (directories before transpositions and moves; transpositions before overlays and ghost deletion); R02.10 the phase that makes the new build's symbolic links is dominated by transpositions, moves and ghost deletion (old entries are addressed through their paths: a link made earlier is followed); R02.3 ghosts are deleted longest path first; R02.5 ghost detection covers files, symlinks and dirs on both sides; R02.4 overlay application ends with truncation; ` +
			`R02.6 index-space consistency: no integer flows both into a use as an index of the new build's file list and into a use as an index of the old build's (bowl, patcher, rediff, diff); R02.7 in the bowl, every MkdirAll of a path derived from a tlc.Dir entry is preceded on every path by Lstat of the same path. ` +
			`R03.6 (shared) an append to the overlay bowl's work lists is protected by a completed search of the list itself. ` +
			`R14.7 (shared) each field that OverlayPatchContext.Patch assigns is assigned before it is first read or is zero again on every success return (the bowl applies all overlays of a commit with one context). ` +
			`R02.9 (shared with C01) where a method of the overlay bowl creates a file (O_CREATE) every path to the open removes what stands at that path first. R14.5 (shared) the old-file window of the overlay writer is inspected only below the count read. R04.7 (shared) the overlay bowl's path-keyed maps (target files by path, transpositions, ghosts) are keyed by a one-to-one image of the entry's Path. R14.9 (shared) every path to NewOverlayWriter(r, readOffset, ...) passes a Seek(readOffset, SeekStart) on r. R02.2 also: transpositions complete before moves (a staged file is put in place with a plain Remove of what stands at its path; a directory of the old build there is empty only once its files were renamed away). NOT decided: that the commit result equals the new build, independence from map iteration order in applyTranspositions, kind changes (old non-empty directory -> new file).`,
		Assumptions: []string{
			"file-system mutators are the screw/os functions OpenFile(with write flags)/Create/Remove/RemoveAll/Rename/Mkdir/MkdirAll/Symlink/Truncate/Chmod/WriteFile, FsPool.GetWriter and Container.Prepare",
			"index spaces are recognised from the repository's naming convention: containers/fields whose name contains 'source' denote the new build, 'target' the old build",
		},
		Run: runC02,
	})
}

var fsMutators = map[string]int{ // callee suffix -> index of the path argument
	".OpenFile": 0, ".Create": 0, ".Remove": 0, ".RemoveAll": 0, ".Rename": 1, ".Mkdir": 0, ".MkdirAll": 0, ".Symlink": 1, ".Truncate": 0, ".Chmod": 0, ".WriteFile": 0,
}

func isFsMutator(cl ssa.CallInstruction) (pathArgs []ssa.Value, name string, ok bool) {
	n := core.CalleeName(cl)
	cc := cl.Common()
	if n == "(*github.com/itchio/lake/pools/fspool.FsPool).GetWriter" {
		return []ssa.Value{cc.Args[0]}, n, true
	}
	if n == "(*github.com/itchio/lake/tlc.Container).Prepare" {
		return []ssa.Value{cc.Args[1]}, n, true
	}
	if cc.IsInvoke() && cc.Method.Name() == "GetWriter" && strings.HasSuffix(core.TypeName(cc.Value.Type()), "lake.WritablePool") {
		return []ssa.Value{cc.Value}, n, true
	}
	if !(strings.HasPrefix(n, "github.com/itchio/screw.") || strings.HasPrefix(n, "os.")) {
		return nil, "", false
	}
	for suf, idx := range fsMutators {
		if strings.HasSuffix(n, suf) && strings.Count(n, ".") >= 1 && !strings.Contains(n, ")") {
			if suf == ".OpenFile" {
				if f, isC := core.ConstInt(cc.Args[1]); isC && f&(0x1|0x2|0x40|0x200|0x400) == 0 {
					return nil, "", false // read-only open
				}
			}
			args := []ssa.Value{cc.Args[idx]}
			if suf == ".Rename" {
				args = append(args, cc.Args[0])
			}
			return args, n, true
		}
	}
	return nil, "", false
}

// provenance returns the set of leaf tokens a (path or pool) value derives from:
// field names, receiver.GetPath calls, parameter names. scope limits which
// functions' stores and call sites are considered.
func provenance(p *core.Prog, v ssa.Value, scope map[*ssa.Function]bool, depth int, seen map[ssa.Value]bool) map[string]bool {
	out := map[string]bool{}
	if v == nil || depth > 10 || seen[v] {
		return out
	}
	seen[v] = true
	add := func(m map[string]bool) {
		for k := range m {
			out[k] = true
		}
	}
	for _, o := range core.Origins(v) {
		switch x := o.(type) {
		case *ssa.Const:
		case *ssa.Parameter:
			// callers inside the scope
			fn := x.Parent()
			idx := -1
			for i, q := range fn.Params {
				if q == x {
					idx = i
				}
			}
			found := false
			for caller := range scope {
				for _, f := range core.WithAnons(caller) {
					core.Instrs(f, func(in ssa.Instruction) {
						cl, ok := in.(ssa.CallInstruction)
						if !ok {
							return
						}
						if cl.Common().StaticCallee() == fn && idx < len(cl.Common().Args) {
							found = true
							add(provenance(p, cl.Common().Args[idx], scope, depth+1, seen))
						}
						if lc, ok := in.(*ssa.Call); ok && fn.Parent() != nil && localCallee(lc) == fn && idx < len(lc.Call.Args) {
							found = true
							add(provenance(p, lc.Call.Args[idx], scope, depth+1, seen))
						}
					})
				}
			}
			if !found {
				out["param:"+x.Name()] = true
			}
		case *ssa.Call:
			n := core.CalleeName(x)
			switch {
			case strings.HasSuffix(n, ".GetPath") || strings.HasSuffix(n, ".GetRelativePath"):
				recv := x.Call.Value
				if !x.Call.IsInvoke() && len(x.Call.Args) > 0 {
					recv = x.Call.Args[0]
				}
				for k := range provenance(p, recv, scope, depth+1, seen) {
					out[k+".GetPath"] = true
				}
			default:
				for _, a := range x.Call.Args {
					switch a.Type().Underlying().(type) {
					case *types.Basic, *types.Slice, *types.Pointer, *types.Interface:
						add(provenance(p, a, scope, depth+1, seen))
					}
				}
			}
		case *ssa.BinOp:
			add(provenance(p, x.X, scope, depth+1, seen))
			add(provenance(p, x.Y, scope, depth+1, seen))
		case *ssa.Extract:
			add(provenance(p, x.Tuple, scope, depth+1, seen))
		case *ssa.Slice:
			add(provenance(p, x.X, scope, depth+1, seen))
		case *ssa.UnOp:
			if x.Op == token.MUL {
				if b, name, ok := core.FieldOf(x); ok {
					switch name {
					case "OutputFolder", "StageFolder", "TargetPool", "OutputPool":
						out[name] = true
					case "Path":
						// container entry paths are relative: no folder provenance
					default:
						// field-based: stores to this field inside the scope
						tn := core.TypeName(b.Type())
						foundStore := false
						for fn := range scope {
							for _, f := range core.WithAnons(fn) {
								core.Instrs(f, func(in ssa.Instruction) {
									st, ok := in.(*ssa.Store)
									if !ok {
										return
									}
									bb, nn, ok := core.FieldOf(st.Addr)
									if ok && nn == name && core.TypeName(bb.Type()) == tn {
										foundStore = true
										add(provenance(p, st.Val, scope, depth+1, seen))
									}
								})
							}
						}
						if !foundStore {
							out["field:"+name] = true
						}
					}
				} else if ia, ok := x.X.(*ssa.IndexAddr); ok {
					add(provenance(p, ia.X, scope, depth+1, seen))
				}
			}
		case *ssa.Alloc:
			// variadic argument arrays (filepath.Join(a, b)): the stored elements
			handled := false
			if refs := x.Referrers(); refs != nil {
				for _, r := range *refs {
					if ia, ok := r.(*ssa.IndexAddr); ok {
						if irefs := ia.Referrers(); irefs != nil {
							for _, rr := range *irefs {
								if st, ok := rr.(*ssa.Store); ok && st.Addr == ssa.Value(ia) {
									handled = true
									add(provenance(p, st.Val, scope, depth+1, seen))
								}
							}
						}
					}
				}
			}
			if !handled {
				out["var:"+core.Describe(x)] = true
			}
		case *ssa.FreeVar:
			out["var:"+core.Describe(x)] = true
		}
	}
	return out
}

func runC02(c *core.Ctx) {
	c.Rule("R02.1", "pre-commit write confinement")
	c.Rule("R02.2", "commit phase order")
	c.Rule("R02.3", "ghost deletion order")
	c.Rule("R02.4", "overlay application ends with truncation")
	c.Rule("R02.5", "ghost detection covers every entry kind")
	c.Rule("R02.6", "index-space consistency")
	ruleWorkListDedup(c)
	ruleCommitWritersReplace(c)
	rulePathKeysAreOneToOne(c, "R04.7", 10, func(fn *ssa.Function) bool { return strings.HasSuffix(core.PkgPathOf(fn), "/pwr/bowl") })
	ruleWindowInspectedBelowCount(c)
	ruleUseStartsClean(c, "R14.7", "pwr/overlay", "OverlayPatchContext", "Patch")
	ruleOverlayReaderStandsWhereTold(c, "R14.9", 1)
	c.Rule("R02.7", "directories are made after a no-follow look")
	g := c.P.CallGraph(c.Tier == "thorough")
	reachFrom := func(roots []*ssa.Function) map[*ssa.Function]bool {
		reach := map[*ssa.Function]bool{}
		var walk func(f *ssa.Function)
		walk = func(f *ssa.Function) {
			if f == nil || reach[f] || !strings.HasSuffix(core.PkgPathOf(f), "/pwr/bowl") || f.Blocks == nil {
				return
			}
			reach[f] = true
			for _, a := range f.AnonFuncs {
				walk(a)
			}
			if n := g.Nodes[f]; n != nil {
				for _, e := range n.Out {
					if e.Callee != nil && !(e.Site != nil && e.Site.Common().IsInvoke()) {
						walk(e.Callee.Func)
					}
				}
			}
		}
		for _, r := range roots {
			walk(r)
		}
		return reach
	}
	var pre []*ssa.Function
	for _, n := range []string{"NewOverlayBowl", "overlayBowl.Resume", "overlayBowl.Save", "overlayBowl.GetWriter", "overlayBowl.Transpose", "overlayBowl.Close"} { // the Bowl interface before Commit; their helpers are reached through them
		if f := c.P.Fn("pwr/bowl", n); f != nil {
			pre = append(pre, f)
		} else {
			c.Missing("R02.1", "pwr/bowl."+n, "patching-phase entry point not found")
		}
	}
	gw := c.P.Fn("pwr/bowl", "overlayBowl.GetWriter")
	commit := c.P.Fn("pwr/bowl", "overlayBowl.Commit")
	if gw == nil || commit == nil {
		c.Missing("R02.1", "pwr/bowl.(*overlayBowl).GetWriter/Commit", "not found")
		return
	}
	// entry writer types handed out by GetWriter
	ewTypes := map[string]bool{}
	for _, rs := range core.Returns(gw, 0) {
		for _, o := range core.Origins(rs.Val) {
			if a, ok := o.(*ssa.Alloc); ok {
				ewTypes[core.TypeName(a.Type())] = true
			}
		}
	}
	for tn := range ewTypes {
		short := tn[strings.LastIndex(tn, ".")+1:]
		for _, m := range []string{"Resume", "Save", "Write", "Finalize", "Close", "Tell"} {
			if f := c.P.Fn("pwr/bowl", short+"."+m); f != nil {
				pre = append(pre, f)
			}
		}
	}
	c.Floor("R02.1", "entry writer types handed out by the overlay bowl", len(ewTypes), 2)
	P := reachFrom(pre)
	C := reachFrom([]*ssa.Function{commit})
	nPre, nOut := 0, 0
	var fns []*ssa.Function
	for _, fn := range c.P.SrcFuncs() {
		if strings.HasSuffix(core.PkgPathOf(fn), "/pwr/bowl") {
			fns = append(fns, fn)
		}
	}
	for _, fn := range fns {
		core.Instrs(fn, func(in ssa.Instruction) {
			cl, ok := in.(ssa.CallInstruction)
			if !ok {
				return
			}
			args, name, ok := isFsMutator(cl)
			if !ok {
				return
			}
			prov := map[string]bool{}
			scope := P
			if !P[fn] {
				scope = C
			}
			for _, a := range args {
				for k := range provenance(c.P, a, scope, 0, map[ssa.Value]bool{}) {
					prov[k] = true
				}
			}
			var ps []string
			for k := range prov {
				ps = append(ps, k)
			}
			sort.Strings(ps)
			touchesOutput := false
			for k := range prov {
				if strings.HasPrefix(k, "OutputFolder") || strings.HasPrefix(k, "TargetPool") || strings.HasPrefix(k, "OutputPool") {
					touchesOutput = true
				}
			}
			if P[fn] {
				nPre++
				fromStage := false
				for k := range prov {
					if strings.HasPrefix(k, "StageFolder") || strings.HasPrefix(k, "stagePool") {
						fromStage = true
					}
				}
				c.Check(!touchesOutput && fromStage, "R02.1", core.FnName(fn), "patching-phase mutator "+name+" works under the stage folder", core.InstrPos(in),
					"path provenance: "+strings.Join(ps, ", "), "a file-system mutator reachable before Commit takes a path derived from ["+strings.Join(ps, ", ")+"]: the directory holding the old build can be modified before commit starts (or the write does not go to the stage folder)")
			} else if touchesOutput && isOverlayFn(fn) {
				nOut++
				c.Check(C[fn] && !P[fn], "R02.1", core.FnName(fn), "output-folder mutator "+name+" is reachable only from Commit", core.InstrPos(in),
					"in the commit call tree only; path provenance: "+strings.Join(ps, ", "), "a mutator of the output folder sits in a function that is not exclusive to Commit")
			}
		})
	}
	c.Floor("R02.1", "mutators reachable in the patching phase", nPre, 2)
	c.Floor("R02.1", "output-folder mutators under Commit", nOut, 3)
	// stagePool assigned only from fspool.New(_, StageFolder)
	nSP := 0
	for _, fn := range fns {
		core.Instrs(fn, func(in ssa.Instruction) {
			st, ok := in.(*ssa.Store)
			if !ok {
				return
			}
			if _, n, ok := core.FieldOf(st.Addr); !ok || n != "stagePool" {
				return
			}
			nSP++
			okNew := false
			for _, o := range core.Origins(st.Val) {
				if cl, ok := o.(*ssa.Call); ok && strings.HasSuffix(core.CalleeName(cl), "fspool.New") {
					if _, fnm, ok := core.FieldOf(cl.Call.Args[1]); ok && fnm == "StageFolder" {
						okNew = true
					}
				}
			}
			c.Check(okNew, "R02.1", core.FnName(fn), "stagePool is rooted in StageFolder", core.InstrPos(in), "fspool.New(_, params.StageFolder)", "the stage pool is not created over StageFolder")
		})
	}
	c.Floor("R02.1", "assignments of stagePool", nSP, 1)

	// ---- R02.2
	phase := func(n string) ssa.Instruction {
		f := c.P.Fn("pwr/bowl", "overlayBowl."+n)
		if f == nil && n == "ensureDirs" {
			f = c.P.Fn("pwr/bowl", "overlayBowl.ensureDirsAndSymlinks") // the name before the links got a phase of their own
		}
		return firstInstr(commit, func(in ssa.Instruction) bool {
			cl, ok := in.(*ssa.Call)
			return ok && f != nil && cl.Call.StaticCallee() == f
		})
	}
	// (transpositions before moves: a staged file is put in place with a plain Remove of what stands at its path; a
	// directory of the old build there is empty only once the files in it were renamed away)
	pairs := [][2]string{{"ensureDirs", "applyTranspositions"}, {"ensureDirs", "applyMoves"}, {"applyTranspositions", "applyOverlays"}, {"applyTranspositions", "deleteGhosts"}, {"applyTranspositions", "applyMoves"}}
	for _, pr := range pairs {
		a, b := phase(pr[0]), phase(pr[1])
		if a == nil || b == nil {
			c.Bad("R02.2", core.FnName(commit), pr[0]+" before "+pr[1], commit.Pos(), "Commit no longer calls both phases")
			continue
		}
		ac := a.(*ssa.Call)
		ok := core.InstrDominates(a, b) && ungatedPath(commit, ac, b, nil) == nil
		c.Check(ok, "R02.2", core.FnName(commit), pr[0]+" completes successfully before "+pr[1], core.InstrPos(b),
			"dominates, and the later phase is reachable only through the earlier one's nil result", pr[1]+" can run before (or although) "+pr[0]+" has not completed successfully")
	}

	// ---- R02.10: a symbolic link of the new build can stand where the old build had a file that is renamed
	// away, or a directory whose entries are deleted or moved. Moves, transpositions and ghost deletion address
	// the old build's entries through their paths: once the link is made those paths resolve through it (a ghost
	// below a directory that became a link is deleted in the link's target; a rename whose source path is now a
	// link moves the link). The phase that makes the links comes after the phases that deal with old paths.
	c.Rule("R02.10", "links of the new build are made after the old build's paths were dealt with")
	{
		var linkPhase ssa.Instruction
		core.Instrs(commit, func(in ssa.Instruction) {
			cl, ok := in.(*ssa.Call)
			if !ok || linkPhase != nil {
				return
			}
			if cal := cl.Call.StaticCallee(); cal != nil && cal.Blocks != nil && strings.HasSuffix(core.PkgPathOf(cal), "/pwr/bowl") &&
				(callsTransitively(cal, "os.Symlink") || callsTransitively(cal, "github.com/itchio/screw.Symlink")) {
				linkPhase = in
			}
		})
		if linkPhase == nil {
			c.Missing("R02.10", core.FnName(commit), "no commit phase that makes symbolic links found")
		} else {
			var early []string
			for _, n := range []string{"applyTranspositions", "applyMoves", "deleteGhosts"} {
				ph := phase(n)
				if ph == nil || !core.InstrDominates(ph, linkPhase) {
					early = append(early, n)
				}
			}
			c.Check(len(early) == 0, "R02.10", core.FnName(commit), "new links are made after transpositions, moves and ghost deletion", core.InstrPos(linkPhase),
				"the phase that creates symbolic links is dominated by the phases that address old-build paths",
				"the new build's symbolic links are created before "+strings.Join(early, ", ")+": an old entry that is renamed away or deleted and whose path (or whose directory's path) is a link in the new build is then reached through the link")
		}
	}

	// ---- R02.7: a directory of the new build is made only after a look, without following links, at what
	// is at its path (MkdirAll itself follows links: a link to a directory would be kept as "the directory")
	{
		var fromDirEntry func(v ssa.Value, d int) bool
		fromDirEntry = func(v ssa.Value, d int) bool {
			if d > 6 {
				return false
			}
			for _, o := range core.Origins(v) {
				if b, n, ok := core.FieldOf(o); ok && n == "Path" && core.TypeName(b.Type()) == "github.com/itchio/lake/tlc.Dir" {
					return true
				}
				if cl, ok := o.(*ssa.Call); ok {
					switch core.CalleeName(cl) {
					case "path/filepath.Join", "path/filepath.FromSlash", "path/filepath.Clean":
						for _, a := range cl.Call.Args {
							if fromDirEntry(a, d+1) {
								return true
							}
						}
					}
				}
				if sl, ok := o.(*ssa.Slice); ok { // variadic arguments of Join
					if fromDirEntry(sl.X, d+1) {
						return true
					}
				}
				if al, ok := o.(*ssa.Alloc); ok {
					if refs := al.Referrers(); refs != nil {
						for _, r := range *refs {
							if ia, ok := r.(*ssa.IndexAddr); ok {
								if irefs := ia.Referrers(); irefs != nil {
									for _, rr := range *irefs {
										if st, ok := rr.(*ssa.Store); ok && fromDirEntry(st.Val, d+1) {
											return true
										}
									}
								}
							}
						}
					}
				}
			}
			return false
		}
		isMk := callTo("github.com/itchio/screw.MkdirAll", "os.MkdirAll")
		nMk := 0
		for _, fn := range fns {
			core.Instrs(fn, func(in ssa.Instruction) {
				if !isMk(in) {
					return
				}
				path := in.(*ssa.Call).Call.Args[0]
				if !fromDirEntry(path, 0) {
					return
				}
				nMk++
				isLstat := func(x ssa.Instruction) bool {
					cl, ok := x.(*ssa.Call)
					if !ok {
						return false
					}
					n := core.CalleeName(cl)
					return (n == "github.com/itchio/screw.Lstat" || n == "os.Lstat") && (sameVal(cl.Call.Args[0], path) || sameExpr(cl.Call.Args[0], path))
				}
				p := core.FindPath(fn, nil, isInstr(in), isLstat)
				c.Check(p == nil, "R02.7", core.FnName(fn), "a build directory is made only after Lstat of its path", core.InstrPos(in),
					"every path to this MkdirAll looks at the path with Lstat first", "a directory of the new build is created (or taken as already there) without a no-follow look at what is at its path: an old symlink to a directory stays in place and later writes land in its target").Path = c.P.PathStrings(p)
			})
		}
		c.Floor("R02.7", "MkdirAll of new-build directory entries in the bowl", nMk, 1)
	}

	ruleCopiesTruncate(c)

	// ---- R02.3
	dg := c.P.Fn("pwr/bowl", "overlayBowl.deleteGhosts")
	if dg == nil {
		c.Missing("R02.3", "pwr/bowl.(*overlayBowl).deleteGhosts", "not found")
	} else {
		srt := firstInstr(dg, func(in ssa.Instruction) bool {
			cl, ok := in.(*ssa.Call)
			return ok && strings.HasPrefix(core.CalleeName(cl), "sort.")
		})
		rem := firstInstr(dg, func(in ssa.Instruction) bool {
			cl, ok := in.(*ssa.Call)
			return ok && strings.HasSuffix(core.CalleeName(cl), ".Remove")
		})
		c.Check(srt != nil && rem != nil && core.InstrDominates(srt, rem), "R02.3", core.FnName(dg), "ghosts are sorted before they are removed", dg.Pos(),
			"sort precedes the removal loop", "ghosts are removed without first being sorted: a directory can be visited before the entries inside it and is then silently left behind")
		if srt != nil {
			// the Less method of the sorted type: len(s[j].Path) < len(s[i].Path)
			var lessFn *ssa.Function
			arg := srt.(*ssa.Call).Call.Args[0]
			if mi, ok := arg.(*ssa.MakeInterface); ok {
				arg = mi.X
			}
			if sel := c.P.SSA.MethodSets.MethodSet(arg.Type()).Lookup(c.P.Pkg("pwr/bowl").Types, "Less"); sel != nil {
				lessFn = c.P.SSA.MethodValue(sel)
			}
			if lessFn == nil || lessFn.Blocks == nil {
				// sort.Slice with a closure
				for _, a := range srt.(*ssa.Call).Call.Args {
					for _, o := range core.Origins(a) {
						if mc, ok := o.(*ssa.MakeClosure); ok {
							lessFn = mc.Fn.(*ssa.Function)
						}
					}
				}
			}
			okLess := false
			if lessFn != nil && lessFn.Blocks != nil {
				np := len(lessFn.Params)
				pi, pj := lessFn.Params[np-2], lessFn.Params[np-1]
				for _, rs := range core.Returns(lessFn, 0) {
					bo, ok := rs.Val.(*ssa.BinOp)
					if !ok {
						continue
					}
					idxOf := func(v ssa.Value) ssa.Value {
						cl, ok := v.(*ssa.Call)
						if !ok {
							return nil
						}
						if b, ok := cl.Call.Value.(*ssa.Builtin); !ok || b.Name() != "len" {
							return nil
						}
						var idx ssa.Value
						var walk func(v ssa.Value, d int)
						walk = func(v ssa.Value, d int) {
							if d > 5 || idx != nil {
								return
							}
							switch x := v.(type) {
							case *ssa.UnOp:
								walk(x.X, d+1)
							case *ssa.FieldAddr:
								walk(x.X, d+1)
							case *ssa.Field:
								walk(x.X, d+1)
							case *ssa.IndexAddr:
								idx = x.Index
							case *ssa.Index:
								idx = x.Index
							}
						}
						walk(cl.Call.Args[0], 0)
						return idx
					}
					l, r := idxOf(bo.X), idxOf(bo.Y)
					switch bo.Op {
					case token.LSS:
						okLess = l == ssa.Value(pj) && r == ssa.Value(pi)
					case token.GTR:
						okLess = l == ssa.Value(pi) && r == ssa.Value(pj)
					}
				}
			}
			c.Check(okLess, "R02.3", core.FnName(dg), "sort order is decreasing path length", core.InstrPos(srt),
				"Less(i, j) = len(path j) < len(path i)", "the ghost sort is not 'longest path first': parents can be visited before their children and non-empty ghost directories are left behind")
		}
	}

	// ---- R02.5
	det := c.P.Fn("pwr/bowl", "detectGhosts")
	if det == nil {
		c.Missing("R02.5", "pwr/bowl.detectGhosts", "not found")
	} else {
		src, tgt := det.Params[0], det.Params[1]
		filled, drawn := map[string]bool{}, map[string]bool{}
		core.Instrs(det, func(in ssa.Instruction) {
			// ranges over slices appear as len(x.F) loops: look at loads of container fields feeding a loop
			ld, ok := in.(*ssa.UnOp)
			if !ok || ld.Op != token.MUL {
				return
			}
			b, n, ok := core.FieldOf(ld)
			if !ok || (n != "Files" && n != "Symlinks" && n != "Dirs") {
				return
			}
			// which loop body does it feed? find map updates / lookups in blocks reachable from here until the next such load
			var upd, look bool
			core.Instrs(det, func(x ssa.Instruction) {
				if !core.InstrDominates(ld, x) {
					return
				}
				// the element path flows from this slice
				switch y := x.(type) {
				case *ssa.MapUpdate:
					if flowsFromSlice(y.Key, ld) {
						upd = true
					}
				case *ssa.Lookup:
					if flowsFromSlice(y.Index, ld) {
						look = true
					}
				}
			})
			if b == ssa.Value(src) && upd {
				filled[n] = true
			}
			if b == ssa.Value(tgt) && look {
				drawn[n] = true
			}
		})
		for _, k := range []string{"Files", "Symlinks", "Dirs"} {
			c.Check(filled[k], "R02.5", core.FnName(det), "new build's "+k+" count as still present", det.Pos(), "their paths are put into the lookup set", "paths of the new build's "+k+" are not recorded as present: such entries are deleted as ghosts after being written")
			c.Check(drawn[k], "R02.5", core.FnName(det), "old build's "+k+" are ghost candidates", det.Pos(), "checked against the lookup set", "the old build's "+k+" are never considered as ghosts: entries of that kind that the new build dropped survive the commit")
		}
	}
	ruleTruncate(c, "R02.4")
	ruleIndexSpaces(c, "R02.6")
}

func isOverlayFn(fn *ssa.Function) bool {
	for fn.Parent() != nil {
		fn = fn.Parent()
	}
	if fn.Signature.Recv() != nil {
		return strings.HasSuffix(core.TypeName(fn.Signature.Recv().Type()), "overlayBowl")
	}
	return fn.Name() == "NewOverlayBowl"
}

// flowsFromSlice: v is (a field of) an element of the slice loaded by ld.
func flowsFromSlice(v ssa.Value, ld *ssa.UnOp) bool {
	found := false
	var walk func(v ssa.Value, d int)
	walk = func(v ssa.Value, d int) {
		if d > 8 || found || v == nil {
			return
		}
		if v == ssa.Value(ld) {
			found = true
			return
		}
		switch x := v.(type) {
		case *ssa.UnOp:
			walk(x.X, d+1)
		case *ssa.FieldAddr:
			walk(x.X, d+1)
		case *ssa.Field:
			walk(x.X, d+1)
		case *ssa.IndexAddr:
			walk(x.X, d+1)
		case *ssa.Index:
			walk(x.X, d+1)
		case *ssa.Phi:
			for _, e := range x.Edges {
				walk(e, d+1)
			}
		}
	}
	walk(v, 0)
	return found
}

var _ = fmt.Sprint

// ruleCopiesTruncate is R02.8 (shared with C01: a duplicated or renamed file copied over a longer one must
// come out byte for byte).
func ruleCopiesTruncate(c *core.Ctx) {
	c.Rule("R02.8", "whole-file copies truncate their destination")
	// ---- R02.8: a whole-file copy onto a path that may hold a longer file truncates it: where a function copies
	// an opened source file into a destination it opened for writing, the destination is opened with O_TRUNC
	// (or truncated after the copy) - otherwise the tail of whatever was there survives
	{
		flag := func(name string) int64 {
			if pk := c.P.All["os"]; pk != nil {
				if k, ok := pk.Types.Scope().Lookup(name).(*types.Const); ok {
					v, _ := constInt64(k)
					return v
				}
			}
			return -1
		}
		oTrunc, oWronly, oRdwr := flag("O_TRUNC"), flag("O_WRONLY"), flag("O_RDWR")
		nCp := 0
		for _, fn := range c.P.SrcFuncs() {
			pk := core.PkgPathOf(fn)
			if !strings.HasSuffix(pk, "/pwr/bowl") && !strings.HasSuffix(pk, "/archiver") {
				continue
			}
			core.Instrs(fn, func(in ssa.Instruction) {
				cp, ok := in.(*ssa.Call)
				if !ok || (core.CalleeName(cp) != "io.Copy" && core.CalleeName(cp) != "io.CopyBuffer") || len(cp.Call.Args) < 2 {
					return
				}
				var openW, openR *ssa.Call
				for _, o := range core.Origins(cp.Call.Args[0]) {
					if ex, ok := core.StripConv(o).(*ssa.Extract); ok {
						if oc, ok := ex.Tuple.(*ssa.Call); ok && (strings.HasSuffix(core.CalleeName(oc), ".OpenFile")) {
							openW = oc
						}
					}
				}
				for _, o := range core.Origins(cp.Call.Args[1]) {
					if ex, ok := core.StripConv(o).(*ssa.Extract); ok {
						if oc, ok := ex.Tuple.(*ssa.Call); ok && (strings.HasSuffix(core.CalleeName(oc), ".Open")) {
							openR = oc
						}
					}
				}
				if openW == nil || openR == nil || len(openW.Call.Args) < 2 {
					return
				}
				fl, isC := core.ConstInt(openW.Call.Args[1])
				if !isC || (fl&oWronly == 0 && fl&oRdwr == 0) {
					return
				}
				nCp++
				truncs := fl&oTrunc != 0
				if !truncs {
					// or the destination was removed before it is created: nothing to truncate
					dst := openW.Call.Args[0]
					isRm := func(x ssa.Instruction) bool {
						rc, ok := x.(*ssa.Call)
						if !ok || len(rc.Call.Args) < 1 {
							return false
						}
						nm := core.CalleeName(rc)
						return (strings.HasSuffix(nm, ".Remove") || strings.HasSuffix(nm, ".RemoveAll")) && (sameVal(rc.Call.Args[0], dst) || sameExpr(rc.Call.Args[0], dst))
					}
					if len(allInstrs(fn, isRm)) > 0 && core.FindPath(fn, nil, isInstr(openW), isRm) == nil {
						truncs = true
					}
				}
				if !truncs {
					// or an explicit Truncate on the destination after the copy
					core.Instrs(fn, func(x ssa.Instruction) {
						if tc, ok := x.(*ssa.Call); ok && strings.HasSuffix(core.CalleeName(tc), ").Truncate") && core.FindPath(fn, cp, isInstr(x), nil) != nil {
							truncs = true
						}
					})
				}
				c.Check(truncs, "R02.8", core.FnName(fn), "a whole-file copy truncates its destination", core.InstrPos(openW),
					"destination opened with O_TRUNC, truncated after the copy, or removed before it is created", "a whole file is copied into a destination that was opened for writing without O_TRUNC and is not truncated afterwards: when the path already holds a longer file its tail survives the copy")
			})
		}
		c.Floor("R02.8", "whole-file copies between opened files", nCp, 1)
	}

}

// ruleCommitWritersReplace is R02.9 (shared with C01): a regular file of the new build can stand where the old
// build had a symbolic link. Opening that path for writing follows the link: the bytes land in the link's
// target - another file of the build - and the link stays. Where the overlay bowl creates a file at a path of
// the output folder (O_CREATE), every path to the open first removes what stands there, as its sibling move
// does before renaming.
func ruleCommitWritersReplace(c *core.Ctx) {
	c.Rule("R02.9", "files created in the output folder replace what stands at their path")
	flag := func(name string) int64 {
		if pk := c.P.All["os"]; pk != nil {
			if k, ok := pk.Types.Scope().Lookup(name).(*types.Const); ok {
				v, _ := constInt64(k)
				return v
			}
		}
		return -1
	}
	oCreate := flag("O_CREATE")
	n := 0
	for _, fn := range c.P.SrcFuncs() {
		if !strings.HasSuffix(core.PkgPathOf(fn), "/pwr/bowl") {
			continue
		}
		// methods of the overlay bowl itself: its entry writers create files in the stage folder
		if fn.Signature.Recv() == nil || !strings.HasSuffix(core.TypeName(fn.Signature.Recv().Type()), "bowl.overlayBowl") {
			continue
		}
		core.Instrs(fn, func(in ssa.Instruction) {
			op, ok := in.(*ssa.Call)
			if !ok || !strings.HasSuffix(core.CalleeName(op), ".OpenFile") || len(op.Call.Args) < 2 {
				return
			}
			fl, isC := core.ConstInt(op.Call.Args[1])
			if !isC || fl&oCreate == 0 {
				return
			}
			n++
			path := op.Call.Args[0]
			isRemove := func(x ssa.Instruction) bool {
				rc, ok := x.(*ssa.Call)
				if !ok || len(rc.Call.Args) < 1 {
					return false
				}
				nm := core.CalleeName(rc)
				if !strings.HasSuffix(nm, ".Remove") && !strings.HasSuffix(nm, ".RemoveAll") {
					return false
				}
				return sameVal(rc.Call.Args[0], path) || sameExpr(rc.Call.Args[0], path)
			}
			p := core.FindPath(fn, nil, isInstr(in), isRemove)
			c.Check(p == nil, "R02.9", core.FnName(fn), "the path is cleared before a file is created there: "+core.Describe(path), core.InstrPos(in),
				"every path to the open removes what stands at the destination first",
				"a file of the new build is created by opening its path for writing without removing what stands there: where the old build had a symbolic link the open follows it, the link's target (another file of the build) is overwritten and the link stays - in-place application then differs from fresh application, silently").Path = c.P.PathStrings(p)
		})
	}
	c.Floor("R02.9", "files created by overlay bowl methods", n, 1)
}
