#!/bin/bash
# tools/rebase_partial.sh <bundle.patch> < python-edit-script
# Re-makes a stored bundle after /repo moved: the hunks that still apply are applied, the rejected ones are
# dropped and re-done by the python edit script (cwd = scratch copy). Must compile and pass pwr/bowl + pwr tests.
set -eu
PF="$(realpath "$1")"
S="$(mktemp -d /tmp/wharf-rebasep-XXXXXX)"
trap 'rm -rf "$S"' EXIT
rsync -a --exclude .git /repo/ "$S/a/"
rsync -a --exclude .git /repo/ "$S/b/"
cat > "$S/edit.py"
(cd "$S/b" && patch -p1 -f --no-backup-if-mismatch < "$PF" > "$S/patch.log" 2>&1 || true)
grep -c FAILED "$S/patch.log" | sed 's/^/rejected hunks: /'
find "$S/b" -name '*.rej' -delete; find "$S/b" -name '*.orig' -delete
(cd "$S/b" && python3 "$S/edit.py")
(cd "$S/b" && gofmt -l . | grep . && { echo "gofmt complains"; exit 1; } || true)
(cd "$S/b" && GOFLAGS=-mod=mod GOPROXY=off go build ./... && GOFLAGS=-mod=mod GOPROXY=off go test -vet=off -count=1 ./pwr/bowl/ ./pwr/ 2>&1 | tail -2)
HDR="$(grep '^#' "$PF" | head -5)"
{ echo "$HDR"; (cd "$S" && diff -ruN a b | sed -E 's/^(---|\+\+\+) ([ab]\/[^\t]*)\t.*/\1 \2/') || true; } > "$PF"
echo "rewrote $PF ($(grep -c '^diff ' "$PF") files)"
