package rules

import (
	"go/token"
	"go/types"
	"strings"

	"golang.org/x/tools/go/ssa"

	"wharfverif/checker/internal/core"
)

// ---- state carried from one use of a reusable object to the next -----------------------------------

// fieldStores / fieldLoads of receiver fields, by field name, in fn's family.
func recvFieldAccesses(fn *ssa.Function, typeName string) (stores map[string][]*ssa.Store, loads map[string][]*ssa.UnOp) {
	stores, loads = map[string][]*ssa.Store{}, map[string][]*ssa.UnOp{}
	for _, f := range core.WithAnons(fn) {
		core.Instrs(f, func(in ssa.Instruction) {
			switch x := in.(type) {
			case *ssa.Store:
				if b, n, ok := core.FieldOf(x.Addr); ok && strings.HasSuffix(core.TypeName(b.Type()), typeName) {
					if _, isFA := x.Addr.(*ssa.FieldAddr); isFA {
						stores[n] = append(stores[n], x)
					}
				}
			case *ssa.UnOp:
				if x.Op != token.MUL {
					return
				}
				if fa, ok := x.X.(*ssa.FieldAddr); ok {
					if b, n, ok := core.FieldOf(fa); ok && strings.HasSuffix(core.TypeName(b.Type()), typeName) {
						loads[n] = append(loads[n], x)
					}
				}
			}
		})
	}
	return
}

// scratchOnly: the loaded value of a slice-typed field is only compared with nil, measured, or handed to
// calls as a buffer - what it contained before does not matter.
func scratchOnly(ld *ssa.UnOp) bool {
	if _, isSlice := ld.Type().Underlying().(*types.Slice); !isSlice {
		return false
	}
	refs := ld.Referrers()
	if refs == nil {
		return true
	}
	for _, r := range *refs {
		switch x := r.(type) {
		case *ssa.BinOp:
			if !core.IsNilConst(x.X) && !core.IsNilConst(x.Y) {
				return false
			}
		case ssa.CallInstruction:
			// len/cap, or a buffer argument
		case *ssa.DebugRef:
		case *ssa.Slice:
			// buf[:n] handed on: still scratch if the slice itself is only an argument
			if srefs := x.Referrers(); srefs != nil {
				for _, sr := range *srefs {
					if _, ok := sr.(ssa.CallInstruction); !ok {
						return false
					}
				}
			}
		default:
			return false
		}
	}
	return true
}

// nilTestOnly: the loaded value is only compared with nil ("has it been allocated yet").
func nilTestOnly(ld *ssa.UnOp) bool {
	refs := ld.Referrers()
	if refs == nil || len(*refs) == 0 {
		return false
	}
	for _, r := range *refs {
		switch x := r.(type) {
		case *ssa.BinOp:
			if !core.IsNilConst(x.X) && !core.IsNilConst(x.Y) {
				return false
			}
		case *ssa.DebugRef:
		default:
			return false
		}
	}
	return true
}

// resetBeforeUse: the loaded value is a pointer to an object that has a Reset method, and every access to the
// object's fields in fn is dominated by a call of Reset on it: a recycled message object, not memory.
func resetBeforeUse(fn *ssa.Function, ld *ssa.UnOp) bool {
	if _, isPtr := ld.Type().Underlying().(*types.Pointer); !isPtr {
		return false
	}
	isIt := func(v ssa.Value) bool {
		for _, o := range core.Origins(v) {
			if o == ssa.Value(ld) {
				return true
			}
		}
		return false
	}
	var resets []ssa.Instruction
	var uses []ssa.Instruction
	for _, f := range core.WithAnons(fn) {
		core.Instrs(f, func(in ssa.Instruction) {
			switch x := in.(type) {
			case ssa.CallInstruction:
				com := x.Common()
				if com.IsInvoke() && com.Method.Name() == "Reset" && isIt(com.Value) {
					resets = append(resets, in)
					return
				}
				if sc := com.StaticCallee(); sc != nil && sc.Name() == "Reset" && len(com.Args) > 0 && isIt(com.Args[0]) {
					resets = append(resets, in)
					return
				}
			case *ssa.FieldAddr:
				if isIt(x.X) {
					uses = append(uses, in)
				}
			}
		})
	}
	if len(resets) == 0 {
		return false
	}
	for _, u := range uses {
		dominated := false
		for _, r := range resets {
			if core.InstrDominates(r, u) {
				dominated = true
			}
		}
		if !dominated {
			return false
		}
	}
	return true
}

// ruleUseStartsClean is R14.7 (shared with C02): the overlay bowl applies all the overlays of a commit with one
// OverlayPatchContext. Whatever Patch keeps in the context while it runs must not be found there by the
// next Patch: each field that Patch assigns is assigned before it is first read, or is back to its zero
// value on every success return. (Scratch buffers - slices that are only nil-tested and handed to calls -
// are not state.)
func ruleUseStartsClean(c *core.Ctx, rule, pkg, typ, method string) {
	c.Rule(rule, "a reused "+typ+" carries nothing from one "+method+" to the next")
	fn := c.P.Fn(pkg, typ+"."+method)
	if fn == nil {
		c.Missing(rule, pkg+"."+typ+"."+method, "not found")
		return
	}
	stores, loads := recvFieldAccesses(fn, pkg+"."+typ)
	n := 0
	for f, sts := range stores {
		n++
		var real []*ssa.UnOp
		for _, ld := range loads[f] {
			if !scratchOnly(ld) && !resetBeforeUse(fn, ld) && !nilTestOnly(ld) {
				real = append(real, ld)
			}
		}
		if len(real) == 0 {
			c.Ok(rule, core.FnName(fn), "field "+f+" is scratch space", fn.Pos(), "only nil-tested and handed to calls")
			continue
		}
		isStore := func(in ssa.Instruction) bool {
			for _, st := range sts {
				if in == ssa.Instruction(st) {
					return true
				}
			}
			return false
		}
		// (i) assigned before first read (only in the method itself: literals run later)
		readFirst := false
		for _, ld := range real {
			if ld.Parent() != fn {
				readFirst = true
				continue
			}
			if core.FindPath(fn, nil, isInstr(ld), isStore) != nil {
				readFirst = true
			}
		}
		if !readFirst {
			c.Ok(rule, core.FnName(fn), "field "+f+" is assigned before it is read", fn.Pos(), "every path to a read passes an assignment")
			continue
		}
		// (ii) zero again on every success return
		isZeroStore := func(in ssa.Instruction) bool {
			st, ok := in.(*ssa.Store)
			if !ok || !isStore(in) {
				return false
			}
			if k, isC := core.ConstInt(st.Val); isC && k == 0 {
				return true
			}
			if core.IsNilConst(st.Val) {
				return true
			}
			if b, isB := core.ConstBool(st.Val); isB && !b {
				return true
			}
			return false
		}
		var bad []ssa.Instruction
		for _, st := range sts {
			if isZeroStore(st) || st.Parent() != fn {
				continue
			}
			for _, rs := range successReturns(fn) {
				if p := core.FindPath(fn, st, isInstr(rs.Ret), isZeroStore); p != nil {
					bad = p
				}
			}
		}
		c.Check(bad == nil, rule, core.FnName(fn), "field "+f+" does not survive the call", core.InstrPos(sts[0]),
			"assigned before it is first read, or zero again on every success return",
			"the field "+f+" of the context is read before "+method+" has assigned it, and a success return can leave a value in it: the objects that use one "+typ+" for several files in a row (the overlay bowl does, for all the overlays of a commit) start the next file with what the previous one left behind").Path = c.P.PathStrings(bad)
	}
	c.Stats[rule+".fields_assigned"] = n
}

// ruleCacheBypassIsForgotten is R12.7: lruFile.Reset points the cache at another file; it purges the LRU and
// frees the slots. A result that getChunk can hand out without asking the LRU comes from somewhere Reset does
// not reach - unless every field that decides that shortcut, or is returned by it, is assigned in Reset too.
func ruleCacheBypassIsForgotten(c *core.Ctx, rule string) {
	c.Rule(rule, "what the read cache hands out without asking the LRU is forgotten by Reset")
	gc := c.P.Fn("bsdiff/lrufile", "lruFile.getChunk")
	reset := c.P.Fn("bsdiff/lrufile", "lruFile.Reset")
	if gc == nil || reset == nil {
		c.Missing(rule, "bsdiff/lrufile.lruFile.getChunk / Reset", "not found")
		return
	}
	isGet := func(in ssa.Instruction) bool {
		cl, ok := in.(ssa.CallInstruction)
		if !ok || !cl.Common().IsInvoke() || cl.Common().Method.Name() != "Get" {
			return false
		}
		_, n, ok := core.FieldOf(cl.Common().Value)
		return ok && n == "lru"
	}
	nGet := len(allInstrs(gc, isGet))
	c.Floor(rule, "LRU lookups in getChunk", nGet, 1)
	gcStores, _ := recvFieldAccesses(gc, "lrufile.lruFile")
	resetStores, _ := recvFieldAccesses(reset, "lrufile.lruFile")
	nBy := 0
	for _, rs := range successReturns(gc) {
		p := core.FindPath(gc, nil, isInstr(rs.Ret), isGet)
		if p == nil {
			continue
		}
		nBy++
		// the fields that decide the shortcut or are returned by it
		fields := map[string]bool{}
		note := func(v ssa.Value) {
			var walk func(v ssa.Value, d int)
			walk = func(v ssa.Value, d int) {
				if d > 5 || v == nil {
					return
				}
				if ld, ok := v.(*ssa.UnOp); ok && ld.Op == token.MUL {
					if fa, ok := ld.X.(*ssa.FieldAddr); ok {
						if b, n, ok := core.FieldOf(fa); ok && strings.HasSuffix(core.TypeName(b.Type()), "lrufile.lruFile") {
							fields[n] = true
						}
					}
					return
				}
				switch x := v.(type) {
				case *ssa.BinOp:
					walk(x.X, d+1)
					walk(x.Y, d+1)
				case *ssa.UnOp:
					walk(x.X, d+1)
				case *ssa.Phi:
					for _, e := range x.Edges {
						walk(e, d+1)
					}
				case *ssa.Convert:
					walk(x.X, d+1)
				}
			}
			walk(v, 0)
		}
		for _, g := range core.Guards(rs.Ret) {
			note(g.Cond)
		}
		if len(rs.Ret.Results) > 0 {
			note(rs.Ret.Results[0])
		}
		var unforgotten []string
		for f := range fields {
			if len(gcStores[f]) == 0 {
				continue // never assigned by getChunk: configuration, not memory
			}
			sts := resetStores[f]
			isSt := func(in ssa.Instruction) bool {
				for _, st := range sts {
					if in == ssa.Instruction(st) {
						return true
					}
				}
				return false
			}
			if len(sts) == 0 || core.FindPath(reset, nil, isReturn, isSt) != nil {
				unforgotten = append(unforgotten, f)
			}
		}
		c.Check(len(unforgotten) == 0, rule, core.FnName(gc), "shortcut return that does not ask the LRU", core.InstrPos(rs.Ret),
			"every field the shortcut depends on is assigned by Reset on every path",
			"getChunk can answer from "+strings.Join(unforgotten, ", ")+" without asking the LRU, and Reset does not assign "+strings.Join(unforgotten, ", ")+": after a Reset to another old file a read that lands in the same chunk index is served the previous file's bytes").Path = c.P.PathStrings(p)
	}
	c.Stats[rule+".bypass_returns"] = nBy
}
