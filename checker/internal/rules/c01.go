package rules

import (
	"go/token"
	"go/types"
	"sort"
	"strings"

	"golang.org/x/tools/go/ssa"

	"wharfverif/checker/internal/core"
)

func init() {
	register(&Property{
		ID: "C01",
		Explanation: `R01.1 match acceptance: findUniqueHash returns a block only under len(data) != 0, equality of the block's short-size class with the window's, and bytes.Equal(block.StrongHash, uniqueHash(data)); the short-size class ComputeDiff passes is the count of the final short read (this is what keeps a full block from matching on the last iteration, where nothing would flush the bytes behind it); ` +
			`R01.2 whole-file op detection: isFullFileOp returns true only under equal old/new size, BlockSpan == ComputeNumBlocks(new size) and Type == BLOCK_RANGE; ` +
			`R01.3 per-file framing on the writer side (WritePatch, rediff.Optimize): every file's series is opened by a SyncHeader and closed by a HEY_YOU_DID_IT SyncOp on every path, with a BsdiffHeader before a bsdiff series; ` +
			`R01.4 every SyncOp/SyncHeader kind the writers emit has a case on the reader side; R01.5 NewFreshBowl prepares the output folder (dirs, symlinks, truncation) before it can succeed; R13.3 codec pairing (every compression setting). ` +
			`R02.8 (shared) whole-file copies between opened files truncate their destination. ` +
			`R07.4 (shared) a ReadSeeker obtained from pool.GetReadSeeker is Seek'ed on every path before it is consumed as a plain reader (pools re-issue their open file at whatever position it was left). ` +
			`R01.9 every Write of an entry writer of package bowl (the dry bowl's excepted) passes its whole argument to a Write of what it wraps on every success path; R02.9 (shared) files created in the output folder replace what stands at their path. NOT decided: the rolling search, range replay arithmetic, that the ops tile the file, tree equality.`,
		Run: runC01,
	})
}

func syncOpTypes(p *core.Prog, prefix string) map[string]int64 {
	out := map[string]int64{}
	if pk := p.Pkg("pwr"); pk != nil {
		for _, n := range pk.Types.Scope().Names() {
			if k, ok := pk.Types.Scope().Lookup(n).(*types.Const); ok && strings.HasPrefix(n, prefix) {
				if v, ok := constInt64(k); ok {
					out[strings.TrimPrefix(n, prefix)] = v
				}
			}
		}
	}
	return out
}

// ruleMatchAcceptance is R01.1 (shared with C11 as "empty windows never match").
func ruleMatchAcceptance(c *core.Ctx, rule string) {
	fuh := c.P.Fn("wsync", "Context.findUniqueHash")
	cd := c.P.Fn("wsync", "Context.ComputeDiff")
	if fuh == nil || cd == nil {
		c.Missing(rule, "wsync.(*Context).findUniqueHash / ComputeDiff", "not found")
		return
	}
	var dataParam, shortParam *ssa.Parameter
	for _, p := range fuh.Params {
		if sl, ok := p.Type().Underlying().(*types.Slice); ok {
			if b, ok := sl.Elem().Underlying().(*types.Basic); ok && b.Kind() == types.Byte {
				dataParam = p
			}
		}
		if b, ok := p.Type().Underlying().(*types.Basic); ok && b.Kind() == types.Int32 {
			shortParam = p
		}
	}
	if dataParam == nil {
		c.Missing(rule, core.FnName(fuh), "data parameter not found")
		return
	}
	n := 0
	for _, rs := range core.Returns(fuh, 0) {
		if core.IsNilConst(rs.Val) {
			continue
		}
		n++
		var blk ssa.Value
		for _, o := range core.Origins(rs.Val) {
			blk = o
		}
		strong := hasGuard(rs.Ret, func(g core.Guard) bool {
			cl, ok := g.Cond.(*ssa.Call)
			if !ok || !g.Val || core.CalleeName(cl) != "bytes.Equal" {
				return false
			}
			var signed, computed bool
			for _, a := range cl.Call.Args {
				if b, nme, ok := core.FieldOf(a); ok && nme == "StrongHash" && (blk == nil || b == blk) {
					signed = true
					continue
				}
				all, any := true, false
				for _, o := range core.Origins(a) {
					if core.IsNilConst(o) {
						continue
					}
					hc, ok := o.(*ssa.Call)
					if ok && core.CalleeName(hc) == "(*wsync.Context).uniqueHash" && hc.Call.Args[1] == ssa.Value(dataParam) {
						any = true
					} else {
						all = false
					}
				}
				if all && any {
					computed = true
				}
			}
			return signed && computed
		})
		nonEmpty := hasGuard(rs.Ret, func(g core.Guard) bool {
			bo, ok := g.Cond.(*ssa.BinOp)
			if !ok {
				return false
			}
			cl, ok := bo.X.(*ssa.Call)
			if !ok {
				return false
			}
			b, ok := cl.Call.Value.(*ssa.Builtin)
			z, isC := core.ConstInt(bo.Y)
			if !ok || b.Name() != "len" || cl.Call.Args[0] != ssa.Value(dataParam) || !isC || z != 0 {
				return false
			}
			return (bo.Op == token.EQL && !g.Val) || (bo.Op == token.NEQ && g.Val) || (bo.Op == token.GTR && g.Val)
		})
		short := shortParam != nil && hasGuard(rs.Ret, func(g core.Guard) bool {
			return relHolds(g, token.EQL, isField("ShortSize"), isVal(shortParam))
		})
		c.Check(strong, rule, core.FnName(fuh), "match requires strong-hash equality", core.InstrPos(rs.Ret),
			"the returned block's StrongHash equals uniqueHash(data)", "a block can be returned as a match without its strong hash having been compared with the hash of the window")
		c.Check(nonEmpty, rule, core.FnName(fuh), "empty windows never match", core.InstrPos(rs.Ret),
			"guarded by len(data) != 0", "an empty window can match (an empty old file's block): a zero-length block range is emitted")
		c.Check(short, rule, core.FnName(fuh), "match requires equal short-size class", core.InstrPos(rs.Ret),
			"block.ShortSize == shortSize (the caller's short-size class)", "a block of a different short-size class can match: on the final iteration a full block can then match inside the tail and the bytes behind it are never flushed (the replay yields a strict prefix)")
	}
	c.Floor(rule, "non-nil returns of findUniqueHash", n, 2)
	// caller side: the short-size argument is the count of the last (short) read
	for _, in := range allInstrs(cd, func(in ssa.Instruction) bool {
		cl, ok := in.(*ssa.Call)
		return ok && cl.Call.StaticCallee() == fuh
	}) {
		cl := in.(*ssa.Call)
		okArg := false
		if shortParam != nil {
			idx := -1
			for i, p := range fuh.Params {
				if p == shortParam {
					idx = i
				}
			}
			if idx >= 0 {
				okArg = true
				any := false
				for _, o := range core.Origins(cl.Call.Args[idx]) {
					if z, isC := core.ConstInt(o); isC && z == 0 {
						continue
					}
					isRead := false
					for _, oo := range core.Origins(core.StripConv(o)) {
						if ex, ok := oo.(*ssa.Extract); ok {
							if rc, ok := ex.Tuple.(*ssa.Call); ok && (core.CalleeName(rc) == "io.ReadAtLeast" || core.CalleeName(rc) == "io.ReadFull") && ex.Index == 0 {
								isRead = true
							}
						}
					}
					if cv, ok := o.(*ssa.Convert); ok {
						for _, oo := range core.Origins(cv.X) {
							if ex, ok := oo.(*ssa.Extract); ok {
								if rc, ok := ex.Tuple.(*ssa.Call); ok && strings.HasPrefix(core.CalleeName(rc), "io.Read") && ex.Index == 0 {
									isRead = true
								}
							}
						}
					}
					if isRead {
						any = true
					} else {
						okArg = false
					}
				}
				okArg = okArg && any
			}
		}
		c.Check(okArg, rule, core.FnName(cd), "short-size class passed to findUniqueHash is the count of the final short read", core.InstrPos(in),
			"zero until EOF, then the byte count of the last read", "the short-size class handed to the matcher is not the count of the final short read (zero before): the last-iteration protection against full-block matches inside the tail is lost")
	}
}

func runC01(c *core.Ctx) {
	ruleNoSwallowedLayerErrors(c, "R10.swallow", moduleErrCallee, "/pwr", "/pwr/patcher", "/pwr/bowl", "/pwr/rediff", "/pwr/overlay", "/wire", "/wsync", "/bsdiff", "/bsdiff/lrufile", "/multiread", "/ctxcopy")
	ruleNoDroppedLayerErrors(c, "R10.err", "/pwr", "/pwr/patcher", "/pwr/bowl", "/pwr/rediff", "/pwr/overlay", "/wire", "/wsync", "/bsdiff", "/multiread", "/ctxcopy")
	c.Rule("R01.1", "match acceptance (strong hash, non-empty window, short-size class from the last read)")
	c.Rule("R01.2", "whole-file op detection")
	c.Rule("R01.3", "per-file framing, writer side")
	c.Rule("R01.4", "op-kind agreement writer/reader")
	c.Rule("R01.5", "fresh bowl preparation")
	ruleCopiesTruncate(c)
	ruleCommitWritersReplace(c)
	ruleEntryWritersWriteEverything(c)
	ruleRewindBeforeLinearRead(c, "R07.4")
	c.Rule("R13.3", "codec pairing")
	ruleMatchAcceptance(c, "R01.1")

	opT := syncOpTypes(c.P, "SyncOp_")
	shT := syncOpTypes(c.P, "SyncHeader_")

	// ---- R01.2
	iff := c.P.Fn("pwr/patcher", "savingPatcher.isFullFileOp")
	if iff == nil {
		c.Missing("R01.2", "pwr/patcher.(*savingPatcher).isFullFileOp", "not found")
	} else {
		n := 0
		for _, rs := range core.Returns(iff, 0) {
			if b, isC := core.ConstBool(rs.Val); isC && !b {
				continue
			}
			n++
			// conditions may be guards of the return, or the returned comparison itself
			conds := []struct {
				c ssa.Value
				v bool
			}{}
			for _, g := range core.Guards(rs.Ret) {
				conds = append(conds, struct {
					c ssa.Value
					v bool
				}{g.Cond, g.Val})
			}
			for _, o := range core.Origins(rs.Val) {
				conds = append(conds, struct {
					c ssa.Value
					v bool
				}{o, true})
			}
			var sizeEq, spanEq, typeOK bool
			for _, cd := range conds {
				bo, ok := cd.c.(*ssa.BinOp)
				if !ok {
					continue
				}
				eq := (bo.Op == token.EQL && cd.v) || (bo.Op == token.NEQ && !cd.v)
				if !eq {
					continue
				}
				_, nx, okx := core.FieldOf(bo.X)
				_, ny, oky := core.FieldOf(bo.Y)
				if okx && oky && nx == "Size" && ny == "Size" && !sameExpr(bo.X, bo.Y) {
					sizeEq = true
				}
				for _, pair := range [][2]ssa.Value{{bo.X, bo.Y}, {bo.Y, bo.X}} {
					if _, nn, ok := core.FieldOf(pair[0]); ok && nn == "BlockSpan" {
						for _, o := range core.Origins(pair[1]) {
							if cl, ok := o.(*ssa.Call); ok && core.CalleeName(cl) == "pwr.ComputeNumBlocks" {
								if _, sn, ok := core.FieldOf(cl.Call.Args[0]); ok && sn == "Size" {
									spanEq = true
								}
							}
						}
					}
					if _, nn, ok := core.FieldOf(pair[0]); ok && nn == "Type" {
						if k, isC := core.ConstInt(pair[1]); isC && k == opT["BLOCK_RANGE"] {
							typeOK = true
						}
					}
				}
			}
			c.Check(sizeEq, "R01.2", core.FnName(iff), "true requires old size == new size", core.InstrPos(rs.Ret),
				"sizes of the old and the new file are compared", "a block range can be taken for a whole-file copy although the old file has a different size: a new file that is a block-aligned prefix of a larger old file is replaced by a copy of the larger file")
			c.Check(spanEq, "R01.2", core.FnName(iff), "true requires BlockSpan == ComputeNumBlocks(new size)", core.InstrPos(rs.Ret),
				"the op spans all blocks of the new file", "a partial first range can be taken for the whole file")
			c.Check(typeOK, "R01.2", core.FnName(iff), "true requires Type == BLOCK_RANGE", core.InstrPos(rs.Ret),
				"only block ranges are whole-file ops", "a non-block-range op can be taken for a whole-file copy")
		}
		c.Floor("R01.2", "true-capable returns of isFullFileOp", n, 1)
	}

	// ---- R01.3
	ruleFraming(c, "R01.3", opT, shT)

	// ---- R01.4
	emitted := map[int64]string{}
	for _, fn := range c.P.SrcFuncs() {
		pp := core.PkgPathOf(fn)
		if !(strings.HasSuffix(pp, "/pwr") || strings.HasSuffix(pp, "/pwr/rediff")) {
			continue
		}
		core.Instrs(fn, func(in ssa.Instruction) {
			st, ok := in.(*ssa.Store)
			if !ok {
				return
			}
			b, n, ok := core.FieldOf(st.Addr)
			if !ok || n != "Type" || core.TypeName(b.Type()) != "pwr.SyncOp" {
				return
			}
			if k, isC := core.ConstInt(st.Val); isC {
				emitted[k] = core.FnName(fn)
			}
		})
	}
	handled := map[int64]bool{}
	for _, nm := range []string{"savingPatcher.makeWop", "savingPatcher.processRsync", "savingPatcher.processBsdiff"} {
		if fn := c.P.Fn("pwr/patcher", nm); fn != nil {
			core.Instrs(fn, func(in ssa.Instruction) {
				if bo, ok := in.(*ssa.BinOp); ok && (bo.Op == token.EQL || bo.Op == token.NEQ) {
					if b, n, ok := core.FieldOf(bo.X); ok && n == "Type" && core.TypeName(b.Type()) == "pwr.SyncOp" {
						if k, isC := core.ConstInt(bo.Y); isC {
							handled[k] = true
						}
					}
				}
			})
		}
	}
	name := map[int64]string{}
	for n, v := range opT {
		name[v] = n
	}
	var eks []int64
	for k := range emitted {
		eks = append(eks, k)
	}
	sort.Slice(eks, func(i, j int) bool { return eks[i] < eks[j] })
	for _, k := range eks {
		c.Check(handled[k], "R01.4", "pwr/patcher", "reader handles emitted SyncOp type "+name[k], token.NoPos,
			"emitted in "+emitted[k]+", compared on the reader side", "SyncOp type "+name[k]+" is emitted ("+emitted[k]+") but the patcher never tests for it")
	}
	c.Floor("R01.4", "SyncOp types emitted", len(eks), 3)
	// SyncHeader kinds
	resume := c.P.Fn("pwr/patcher", "savingPatcher.Resume")
	shHandled := map[int64]bool{}
	if resume != nil {
		core.Instrs(resume, func(in ssa.Instruction) {
			if bo, ok := in.(*ssa.BinOp); ok && bo.Op == token.EQL {
				if b, n, ok := core.FieldOf(bo.X); ok && n == "Type" && core.TypeName(b.Type()) == "pwr.SyncHeader" {
					if k, isC := core.ConstInt(bo.Y); isC {
						shHandled[k] = true
					}
				}
			}
		})
	}
	for n, v := range shT {
		c.Check(shHandled[v], "R01.4", "pwr/patcher.(*savingPatcher).Resume", "series kind "+n+" has a case", token.NoPos, "handled", "series kind "+n+" exists in the format but Resume has no case for it")
	}
	c.Floor("R01.4", "series kinds", len(shT), 2)

	// ---- R01.5
	nfb := c.P.Fn("pwr/bowl", "NewFreshBowl")
	if nfb == nil {
		c.Missing("R01.5", "pwr/bowl.NewFreshBowl", "not found")
	} else {
		isPrep := callTo("(*github.com/itchio/lake/tlc.Container).Prepare")
		n := 0
		for _, rs := range successReturns(nfb) {
			n++
			p := core.FindPath(nfb, nil, isInstr(rs.Ret), isPrep)
			c.Check(p == nil, "R01.5", core.FnName(nfb), "SourceContainer.Prepare(OutputFolder) before success", core.InstrPos(rs.Ret),
				"the output folder is prepared on every success path", "a fresh bowl can be created without preparing the output folder: empty directories, symlinks and truncation of pre-existing longer files are skipped").Path = c.P.PathStrings(p)
			for _, pr := range allInstrs(nfb, isPrep) {
				pc := pr.(*ssa.Call)
				_, fn1, ok1 := core.FieldOf(pc.Call.Args[0])
				_, fn2, ok2 := core.FieldOf(pc.Call.Args[1])
				c.Check(ok1 && fn1 == "SourceContainer" && ok2 && fn2 == "OutputFolder", "R01.5", core.FnName(nfb), "Prepare is called on the new build's container with the output folder", core.InstrPos(pr),
					"params.SourceContainer.Prepare(params.OutputFolder)", "Prepare is not called on SourceContainer with OutputFolder")
				p2 := ungatedPath(nfb, pc, rs.Ret, nil)
				c.Check(p2 == nil, "R01.5", core.FnName(nfb), "Prepare error is checked", core.InstrPos(pr), "success only on the nil outcome", "NewFreshBowl succeeds although Prepare failed").Path = c.P.PathStrings(p2)
			}
		}
		c.Floor("R01.5", "success returns of NewFreshBowl", n, 1)
	}
	ruleCodecPairing(c, "R13.3")
	ruleCopyWritesWhatItRead(c, "R01.6")

	// ---- R01.7: a series ends successfully only after the file was produced: by a transposition, or through a
	// writer that was finalized (no shortcut for "uninteresting" files)
	c.Rule("R01.7", "a series succeeds only after a transposition or a finalized writer")
	isProduce := func(in ssa.Instruction) bool {
		cl, ok := in.(*ssa.Call)
		return ok && cl.Call.IsInvoke() && (cl.Call.Method.Name() == "Transpose" || cl.Call.Method.Name() == "Finalize")
	}
	for _, name := range []string{"savingPatcher.processRsync", "savingPatcher.processBsdiff"} {
		fn := c.P.Fn("pwr/patcher", name)
		if fn == nil {
			c.Missing("R01.7", "pwr/patcher."+name, "not found")
			continue
		}
		n := 0
		for _, rs := range successReturns(fn) {
			n++
			p := core.FindPath(fn, nil, isInstr(rs.Ret), isProduce)
			c.Check(p == nil, "R01.7", core.FnName(fn), "success only after Transpose or Finalize", core.InstrPos(rs.Ret),
				"every path to this success return transposes the file or finalizes its writer", "a series can end successfully without the file having been transposed or written and finalized: the file is missing from (or stale in) the output").Path = c.P.PathStrings(p)
		}
		c.Floor("R01.7", "success returns of "+name, n, 1)
	}

	ruleEveryFileThroughTheDiffer(c)
}

// ruleFraming: R01.3 / R07.2 writer-side framing in WritePatch and Optimize.
func ruleFraming(c *core.Ctx, rule string, opT, shT map[string]int64) {
	for _, spec := range [][2]string{{"pwr", "DiffContext.WritePatch"}, {"pwr/rediff", "context.Optimize"}} {
		if rule == "R07.2" && spec[0] == "pwr" {
			continue
		}
		fn := c.P.Fn(spec[0], spec[1])
		if fn == nil {
			c.Missing(rule, spec[0]+"."+spec[1], "not found")
			continue
		}
		isWM := func(in ssa.Instruction, typ string) bool {
			cl, ok := in.(*ssa.Call)
			if !ok || core.CalleeName(cl) != "(*wire.WriteContext).WriteMessage" {
				return false
			}
			return core.TypeName(core.StripConv(cl.Call.Args[1]).Type()) == typ
		}
		isHdr := func(in ssa.Instruction) bool { return isWM(in, "pwr.SyncHeader") }
		isDelim := func(in ssa.Instruction) bool {
			if !isWM(in, "pwr.SyncOp") {
				return false
			}
			arg := core.StripConv(in.(*ssa.Call).Call.Args[1])
			// literal with Type = HEY..., or a store of HEY... to arg.Type earlier in the same block
			for _, o := range core.Origins(arg) {
				if a, ok := o.(*ssa.Alloc); ok {
					b := in.Block()
					for _, x := range b.Instrs {
						if x == in {
							break
						}
						if st, ok := x.(*ssa.Store); ok {
							if bb, n, ok := core.FieldOf(st.Addr); ok && n == "Type" && sameObj(bb, a) {
								if k, isC := core.ConstInt(st.Val); isC && k == opT["HEY_YOU_DID_IT"] {
									return true
								}
							}
						}
					}
					if v, ok := litField(a, "Type"); ok {
						if k, isC := core.ConstInt(v); isC && k == opT["HEY_YOU_DID_IT"] {
							// the literal is only ever the delimiter if no other store changes its type
							n := 0
							if refs := a.Referrers(); refs != nil {
								for _, r := range *refs {
									if fa, ok := r.(*ssa.FieldAddr); ok {
										if _, fnm, _ := core.FieldOf(fa); fnm == "Type" {
											if fr := fa.Referrers(); fr != nil {
												for _, rr := range *fr {
													if _, ok := rr.(*ssa.Store); ok {
														n++
													}
												}
											}
										}
									}
								}
							}
							// ... and the object is never refilled from a stream or reset
							refilled := false
							core.Instrs(fn, func(x ssa.Instruction) {
								if cl, ok := x.(ssa.CallInstruction); ok {
									if idx := wireReadCall(cl); idx >= 0 && sameObj(cl.Common().Args[idx], a) {
										refilled = true
									}
									if sc := cl.Common().StaticCallee(); sc != nil && sc.Name() == "Reset" && len(cl.Common().Args) > 0 && sameObj(cl.Common().Args[0], a) {
										refilled = true
									}
								}
							})
							if n == 1 && !refilled {
								return true
							}
						}
					}
				}
			}
			return false
		}
		hdrs := allInstrs(fn, isHdr)
		delims := allInstrs(fn, isDelim)
		c.Check(len(hdrs) > 0 && len(delims) > 0, rule, core.FnName(fn), "writes series headers and end markers", fn.Pos(),
			"SyncHeader and HEY_YOU_DID_IT writes found", "the per-file loop no longer writes a SyncHeader and a HEY_YOU_DID_IT marker")
		isSucc := func(in ssa.Instruction) bool {
			for _, rs := range successReturns(fn) {
				if rs.Ret == in {
					return true
				}
			}
			return false
		}
		for _, h := range hdrs {
			p := core.FindPath(fn, h, anyOf(isHdr, isSucc), isDelim)
			c.Check(p == nil, rule, core.FnName(fn), "series opened at "+c.P.Pos(core.InstrPos(h))[strings.LastIndex(c.P.Pos(core.InstrPos(h)), "/")+1:]+" is closed by an end marker", core.InstrPos(h),
				"every path from this header write to the next header (or to success) writes HEY_YOU_DID_IT", "a file's series can be left without its HEY_YOU_DID_IT end marker: the patcher reads the next file's header as an op").Path = c.P.PathStrings(p)
		}
		for _, d := range delims {
			p := core.FindPath(fn, d, isDelim, isHdr)
			c.Check(p == nil, rule, core.FnName(fn), "a header is written between two end markers", core.InstrPos(d),
				"every path from one end marker to the next writes a SyncHeader", "two end markers can be written without a SyncHeader in between").Path = c.P.PathStrings(p)
		}
		if spec[0] == "pwr/rediff" {
			// mapped branch: BSDIFF header, then BsdiffHeader, then bsdiff.Do
			isDo := callTo("(*bsdiff.DiffContext).Do")
			isBH := func(in ssa.Instruction) bool { return isWM(in, "pwr.BsdiffHeader") }
			for _, d := range allInstrs(fn, isDo) {
				p := core.FindPath(fn, nil, isInstr(d), isBH)
				c.Check(p == nil, rule, core.FnName(fn), "BsdiffHeader precedes the bsdiff series", core.InstrPos(d),
					"a BsdiffHeader is written before bsdiff.Do emits controls", "a bsdiff series can be written without its BsdiffHeader (old file index)").Path = c.P.PathStrings(p)
				// and the series header of that branch has Type BSDIFF
				okT := false
				core.Instrs(fn, func(in ssa.Instruction) {
					if st, ok := in.(*ssa.Store); ok {
						if b, n, ok := core.FieldOf(st.Addr); ok && n == "Type" && core.TypeName(b.Type()) == "pwr.SyncHeader" {
							if k, isC := core.ConstInt(st.Val); isC && k == shT["BSDIFF"] && core.FindPath(fn, in, isInstr(d), nil) != nil {
								okT = true
							}
						}
					}
				})
				c.Check(okT, rule, core.FnName(fn), "series header of a substituted file says BSDIFF", core.InstrPos(d), "sh.Type = BSDIFF before the series", "a substituted series is not announced as BSDIFF")
			}
			// unmapped branch: every op read before the end marker is written unchanged
			for _, in := range allInstrs(fn, func(in ssa.Instruction) bool { return isWM(in, "pwr.SyncOp") && !isDelim(in) }) {
				arg := core.StripConv(in.(*ssa.Call).Call.Args[1])
				// the argument must be an object that was read from the input just before, with no store in between
				var rd ssa.Instruction
				core.Instrs(fn, func(x ssa.Instruction) {
					if cl, ok := x.(ssa.CallInstruction); ok {
						if idx := wireReadCall(cl); idx >= 0 && sameObj(cl.Common().Args[idx], arg) && core.InstrDominates(x, in) {
							rd = x
						}
					}
				})
				okV := rd != nil
				if okV {
					p := core.FindPath(fn, rd, isInstr(in), func(x ssa.Instruction) bool {
						st, ok := x.(*ssa.Store)
						if !ok {
							return false
						}
						b, _, ok := core.FieldOf(st.Addr)
						return ok && sameObj(b, arg)
					})
					okV = p != nil
					// p != nil means a store-free path exists; require that NO path has a store: search for a path that passes a store
					core.Instrs(fn, func(x ssa.Instruction) {
						if st, ok := x.(*ssa.Store); ok {
							if b, _, ok := core.FieldOf(st.Addr); ok && sameObj(b, arg) {
								if core.FindPath(fn, rd, isInstr(x), nil) != nil && core.FindPath(fn, x, isInstr(in), func(y ssa.Instruction) bool { return y == rd }) != nil {
									okV = false
								}
							}
						}
					})
				}
				c.Check(okV, rule, core.FnName(fn), "unmapped ops are copied verbatim", core.InstrPos(in),
					"the SyncOp written is the object just read, unmodified", "an op of an unmapped file is modified (or not the one just read) before it is written to the optimized patch")
			}
		}
	}
}

// ruleCopyWritesWhatItRead (R01.6, shared with C15): the copy loop that feeds the differ and the signer
// (ctxcopy, behind multiread) must hand on the bytes of every Read before it acts on end-of-stream: a
// reader may return its last bytes together with io.EOF. Every path from the Read to a success return
// passes a Write of the buffer cut at the count read.
func ruleCopyWritesWhatItRead(c *core.Ctx, rule string) {
	c.Rule(rule, "the fan-out copy writes what it read before it acts on end-of-stream")
	n := 0
	for _, fn := range c.P.SrcFuncs() {
		if !strings.HasSuffix(core.PkgPathOf(fn), "/ctxcopy") {
			continue
		}
		core.Instrs(fn, func(in ssa.Instruction) {
			rd, ok := in.(*ssa.Call)
			if !ok || !rd.Call.IsInvoke() || rd.Call.Method.Name() != "Read" || len(rd.Call.Args) != 1 {
				return
			}
			buf := rd.Call.Args[0]
			isWrite := func(x ssa.Instruction) bool {
				w, ok := x.(*ssa.Call)
				if !ok || !w.Call.IsInvoke() || w.Call.Method.Name() != "Write" || len(w.Call.Args) != 1 {
					return false
				}
				for _, o := range core.Origins(w.Call.Args[0]) {
					if sl, ok := o.(*ssa.Slice); ok && sl.High != nil && (sameVal(sl.X, buf) || sameExpr(sl.X, buf)) && extractOf(sl.High, rd, 0) {
						return true
					}
				}
				return false
			}
			if firstInstr(fn, isWrite) == nil {
				return
			}
			n++
			for _, rs := range successReturns(fn) {
				p := core.FindPath(fn, in, isInstr(rs.Ret), isWrite)
				c.Check(p == nil, rule, core.FnName(fn), "bytes read are written before the copy ends successfully", core.InstrPos(rs.Ret),
					"every path from the Read to this success return writes buf[:n]", "the copy can end successfully after a Read whose bytes were not written (a reader that returns its last bytes together with io.EOF): the tail of every file fed through it is silently dropped").Path = c.P.PathStrings(p)
			}
		})
	}
	c.Floor(rule, "read-then-write copy loops in ctxcopy", n, 1)
}

// ruleEntryWritersWriteEverything is R01.9 (shared with C03): the bytes the patcher hands to an entry writer
// are the new file. Apart from the dry bowl's writer, which is there to write nothing, every Write of an
// entry writer in package bowl passes its whole argument to a Write of what it wraps on every success path -
// no run of bytes is "represented" by a seek (a file that is not pre-sized does not grow by seeking).
func ruleEntryWritersWriteEverything(c *core.Ctx) {
	c.Rule("R01.9", "entry writers hand every byte on")
	n := 0
	for _, fn := range c.P.SrcFuncs() {
		if !strings.HasSuffix(core.PkgPathOf(fn), "/pwr/bowl") || fn.Name() != "Write" || fn.Signature.Recv() == nil || len(fn.Params) != 2 {
			continue
		}
		tn := core.TypeName(fn.Signature.Recv().Type())
		if !strings.HasSuffix(tn, "EntryWriter") || strings.Contains(tn, "nop") {
			continue
		}
		n++
		buf := fn.Params[1]
		forwards := func(in ssa.Instruction) bool {
			cl, ok := in.(ssa.CallInstruction)
			if !ok {
				return false
			}
			com := cl.Common()
			name := ""
			if com.IsInvoke() {
				name = com.Method.Name()
			} else if sc := com.StaticCallee(); sc != nil {
				name = sc.Name()
			}
			if name != "Write" {
				return false
			}
			for _, a := range com.Args {
				if core.StripConv(a) == ssa.Value(buf) {
					return true
				}
			}
			return false
		}
		var bad []ssa.Instruction
		for _, rs := range successReturns(fn) {
			if p := core.FindPath(fn, nil, isInstr(rs.Ret), forwards); p != nil {
				bad = p
			}
		}
		c.Check(bad == nil, "R01.9", core.FnName(fn), "every success path writes the whole argument", fn.Pos(),
			"a Write of the wrapped writer with the very buffer received", "this entry writer can report bytes as written without handing them to what it wraps (skipping runs of zeroes with a seek, say): in a file that was not given its final size beforehand - a new file staged for in-place application - the bytes after the last real write do not exist").Path = c.P.PathStrings(bad)
	}
	c.Floor("R01.9", "entry writers of package bowl", n, 2)
}

// ruleEveryFileThroughTheDiffer is R01.8 (shared with C08: a per-file shortcut past ComputeDiff looks blocks up
// by its own conventions).
func ruleEveryFileThroughTheDiffer(c *core.Ctx) {
	// ---- R01.8: between a file's header and the next header (or the end), the file went through the differ
	c.Rule("R01.8", "every file announced in the patch went through the differ")
	if wp := c.P.Fn("pwr", "DiffContext.WritePatch"); wp == nil {
		c.Missing("R01.8", "pwr.(*DiffContext).WritePatch", "not found")
	} else {
		isHdr := func(in ssa.Instruction) bool {
			cl, ok := in.(ssa.CallInstruction)
			if !ok || !strings.HasSuffix(core.CalleeName(cl), "WriteContext).WriteMessage") || len(cl.Common().Args) < 2 {
				return false
			}
			return core.TypeName(core.StripConv(cl.Common().Args[1]).Type()) == "pwr.SyncHeader"
		}
		isDiff := func(in ssa.Instruction) bool {
			cl, ok := in.(*ssa.Call)
			if !ok {
				return false
			}
			n := core.CalleeName(cl)
			if strings.HasSuffix(n, "Context).ComputeDiff") {
				return true
			}
			if n == "taskgroup.Do" {
				// one of the tasks runs the differ
				found := false
				for _, a := range cl.Call.Args {
					for _, o := range core.Origins(a) {
						_ = o
					}
				}
				for _, f := range core.WithAnons(wp) {
					if f.Parent() == wp && len(core.CallsMatching(f, true, func(nm string, _ ssa.CallInstruction) bool { return strings.HasSuffix(nm, "Context).ComputeDiff") })) > 0 {
						found = true
					}
				}
				return found
			}
			return false
		}
		n := 0
		core.Instrs(wp, func(in ssa.Instruction) {
			if !isHdr(in) {
				return
			}
			n++
			var succ []ssa.Instruction
			for _, rs := range successReturns(wp) {
				succ = append(succ, rs.Ret)
			}
			isEnd := func(x ssa.Instruction) bool {
				if x == in {
					return true
				}
				for _, r := range succ {
					if r == x {
						return true
					}
				}
				return false
			}
			p := core.FindPath(wp, in, isEnd, isDiff)
			c.Check(p == nil, "R01.8", core.FnName(wp), "a file's series is produced by the differ", core.InstrPos(in),
				"every path from this SyncHeader to the next one, or to the successful end, runs ComputeDiff (directly or as a task)", "a file can be announced in the patch (SyncHeader written) and closed without having gone through the differ: a shortcut writes its series by hand").Path = c.P.PathStrings(p)
		})
		c.Floor("R01.8", "SyncHeader writes in WritePatch", n, 1)
	}
}
