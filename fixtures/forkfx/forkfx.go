// Package forkfx holds positive and negative examples for the fork-site access
// analysis, the map-order rule and the ambient-value rule (C15, C19).
// Functions named Bad* must be reported, Good* must stay silent.
package forkfx

import (
	"context"
	"os"
	"path/filepath"
	"runtime"
	"sort"
	"strings"
	"sync"
	"time"

	"github.com/itchio/wharf/taskgroup"
	"github.com/itchio/wharf/wsync"
)

type stats struct {
	Count   int
	Elapsed time.Duration
}

type runStats struct {
	Elapsed time.Duration
}

// BadSharedContext: two tasks share one hashing context (its buffer and hasher are not thread-safe).
func BadSharedContext(ctx context.Context, a, b []byte) error {
	sctx := wsync.NewContext(16)
	return taskgroup.Do(ctx,
		func() error { sctx.HashBlock(a); return nil },
		func() error { sctx.HashBlock(b); return nil },
	)
}

// GoodOwnContexts: each task has its own context.
func GoodOwnContexts(ctx context.Context, a, b []byte) error {
	c1 := wsync.NewContext(16)
	c2 := wsync.NewContext(16)
	return taskgroup.Do(ctx,
		func() error { c1.HashBlock(a); return nil },
		func() error { c2.HashBlock(b); return nil },
	)
}

// BadWorkerCounter: workers started in a loop increment a captured counter without a lock.
func BadWorkerCounter(n int) int {
	count := 0
	done := make(chan bool)
	for i := 0; i < n; i++ {
		go func() {
			count++
			done <- true
		}()
	}
	for i := 0; i < n; i++ {
		<-done
	}
	return count
}

// GoodWorkerCounterLocked: the same under a mutex; the parent reads after the join.
func GoodWorkerCounterLocked(n int) int {
	count := 0
	var mu sync.Mutex
	done := make(chan bool)
	for i := 0; i < n; i++ {
		go func() {
			mu.Lock()
			count++
			mu.Unlock()
			done <- true
		}()
	}
	for i := 0; i < n; i++ {
		<-done
	}
	return count
}

// BadParentWritesBeforeJoin: the parent updates a field the goroutine reads before joining it.
func BadParentWritesBeforeJoin(s *stats) {
	done := make(chan bool)
	go func() {
		_ = s.Count
		done <- true
	}()
	s.Count = 7
	<-done
}

// GoodDifferentFields: unit and parent touch different fields of the same struct.
func GoodDifferentFields(s *stats) {
	done := make(chan bool)
	go func() {
		s.Count++
		done <- true
	}()
	s.Elapsed = time.Second
	<-done
}

// BadMarkerFile: every worker writes the same file.
func BadMarkerFile(path string, n int) {
	done := make(chan bool)
	for i := 0; i < n; i++ {
		go func() {
			_ = os.WriteFile(path, []byte("x"), 0o644)
			done <- true
		}()
	}
	for i := 0; i < n; i++ {
		<-done
	}
}

// GoodMarkerFileLocked: the file is written under a lock.
func GoodMarkerFileLocked(path string, n int) {
	var mu sync.Mutex
	done := make(chan bool)
	for i := 0; i < n; i++ {
		go func() {
			mu.Lock()
			_ = os.WriteFile(path, []byte("x"), 0o644)
			mu.Unlock()
			done <- true
		}()
	}
	for i := 0; i < n; i++ {
		<-done
	}
}

// BadDeferredUnlockElsewhere: the two goroutines use different locks.
func BadDeferredUnlockElsewhere(n int) int {
	total := 0
	var mu1, mu2 sync.Mutex
	done := make(chan bool)
	go func() {
		mu1.Lock()
		defer mu1.Unlock()
		total++
		done <- true
	}()
	go func() {
		mu2.Lock()
		defer mu2.Unlock()
		total += n
		done <- true
	}()
	<-done
	<-done
	return total
}

// BadMapArgMax picks a winner depending on map order.
func BadMapArgMax(m map[int64]int64) int64 {
	best := int64(-1)
	var bestN int64
	for k, v := range m {
		if best == -1 || v >= bestN {
			best, bestN = k, v
		}
	}
	return best
}

// GoodMapSum accumulates commutatively.
func GoodMapSum(m map[int64]int64) int64 {
	var total int64
	for _, v := range m {
		total += v
	}
	return total
}

// GoodCollectSort collects keys, sorts, then iterates.
func GoodCollectSort(m map[int64]int64) int64 {
	keys := make([]int64, 0, len(m))
	for k := range m {
		keys = append(keys, k)
	}
	sort.Slice(keys, func(i, j int) bool { return keys[i] < keys[j] })
	best := int64(-1)
	for _, k := range keys {
		if m[k] > 0 {
			best = k
		}
	}
	return best
}

// GoodMapToMap copies into another map.
func GoodMapToMap(m map[int64]int64) map[int64]bool {
	out := make(map[int64]bool)
	for k := range m {
		out[k] = true
	}
	return out
}

// BadPartitionsFromCPUs lets the CPU budget decide a parameter.
func BadPartitionsFromCPUs(partitions int) int {
	if p := runtime.GOMAXPROCS(0); partitions > p {
		partitions = p
	}
	return partitions
}

// GoodTimingStats only records durations.
func GoodTimingStats(st *runStats, work func()) {
	start := time.Now()
	work()
	st.Elapsed += time.Since(start)
}

// ---- no-follow discipline (R19.5 / R06.5)

// BadStatThenReplace decides what to do with a path from os.Stat, which follows
// links: a dangling link looks like nothing, a link to a directory like a directory.
func BadStatThenReplace(path string) error {
	if _, err := os.Stat(path); err == nil {
		if err := os.RemoveAll(path); err != nil {
			return err
		}
	}
	return os.MkdirAll(path, 0o755)
}

// GoodLstatThenReplace looks at the entry itself.
func GoodLstatThenReplace(path string) error {
	if _, err := os.Lstat(path); err == nil {
		if err := os.RemoveAll(path); err != nil {
			return err
		}
	}
	return os.MkdirAll(path, 0o755)
}

// GoodStatOnly sizes an archive; it changes nothing.
func GoodStatOnly(path string) (int64, error) {
	st, err := os.Stat(path)
	if err != nil {
		return 0, err
	}
	return st.Size(), nil
}

// ---- what a worker does after its last result send (R15.1 / R19.1 extension)

// BadTallyAfterResult adds the worker's tally in a deferred function, which runs
// after the final send: the parent may already be past the join when it reads.
func BadTallyAfterResult(items []int, workers int) int {
	var mu sync.Mutex
	total := 0
	results := make(chan error, workers)
	for w := 0; w < workers; w++ {
		go func() {
			local := 0
			defer func() {
				mu.Lock()
				total += local
				mu.Unlock()
			}()
			for range items {
				local++
			}
			results <- nil
		}()
	}
	for w := 0; w < workers; w++ {
		<-results
	}
	return total
}

// GoodTallyBeforeResult adds the tally before the result is sent.
func GoodTallyBeforeResult(items []int, workers int) int {
	var mu sync.Mutex
	total := 0
	results := make(chan error, workers)
	for w := 0; w < workers; w++ {
		go func() {
			local := 0
			for range items {
				local++
			}
			mu.Lock()
			total += local
			mu.Unlock()
			results <- nil
		}()
	}
	for w := 0; w < workers; w++ {
		<-results
	}
	return total
}

// BadWalkSkipsLinkedDirs answers SkipDir for a link: filepath.Walk then drops the rest of the directory.
func BadWalkSkipsLinkedDirs(dir string, visit func(string)) error {
	return filepath.Walk(dir, func(path string, info os.FileInfo, err error) error {
		if err != nil {
			return err
		}
		visit(path)
		if info.Mode()&os.ModeSymlink != 0 {
			return filepath.SkipDir
		}
		return nil
	})
}

// GoodWalkVisitsAll offers every entry.
func GoodWalkVisitsAll(dir string, visit func(string)) error {
	return filepath.Walk(dir, func(path string, info os.FileInfo, err error) error {
		if err != nil {
			return err
		}
		visit(path)
		return nil
	})
}

// BadEntryPathPrefixTest refuses every name that begins with two dots, "..data" included.
func BadEntryPathPrefixTest(dir, name string) (string, bool) {
	rel := filepath.Clean(name)
	if strings.HasPrefix(rel, "..") {
		return "", false
	}
	return filepath.Join(dir, rel), true
}

// GoodEntryPathElementTest refuses only names that leave the directory.
func GoodEntryPathElementTest(dir, name string) (string, bool) {
	rel := filepath.Clean(name)
	if rel == ".." || strings.HasPrefix(rel, "../") {
		return "", false
	}
	return filepath.Join(dir, rel), true
}

var sharedCopyBuffer = make([]byte, 32*1024)

// BadCopyThroughPackageBuffer copies through a buffer every caller in the process shares.
func BadCopyThroughPackageBuffer(dst func([]byte), src func([]byte) int) {
	for {
		n := src(sharedCopyBuffer)
		if n == 0 {
			return
		}
		dst(sharedCopyBuffer[:n])
	}
}

// GoodCopyThroughOwnBuffer allocates its buffer per call.
func GoodCopyThroughOwnBuffer(dst func([]byte), src func([]byte) int) {
	buf := make([]byte, 32*1024)
	for {
		n := src(buf)
		if n == 0 {
			return
		}
		dst(buf[:n])
	}
}

type hashingContext struct {
	state [16]byte
	n     int
}

func (h *hashingContext) sum(b []byte) int {
	for _, x := range b {
		h.state[h.n%16] ^= x
		h.n++
	}
	return h.n
}

var sharedHashing = &hashingContext{}

type blockChecker struct {
	h *hashingContext
}

// BadCheckersShareOneContext gives every checker the same package-level hashing state.
func BadCheckersShareOneContext() *blockChecker {
	return &blockChecker{h: sharedHashing}
}

// GoodCheckersOwnTheirContext allocates one per checker.
func GoodCheckersOwnTheirContext() *blockChecker {
	return &blockChecker{h: &hashingContext{}}
}

// ---- pooled objects ---------------------------------------------------------------------------------

type scratch struct{ buf []byte }

func (s *scratch) bytes() []byte { return s.buf }

var scratchPool = sync.Pool{New: func() interface{} { return &scratch{} }}

// BadReturnsPooledMemory hands back memory of an object it has already (deferred) put back.
func BadReturnsPooledMemory(n int) []byte {
	s := scratchPool.Get().(*scratch)
	defer scratchPool.Put(s)
	s.buf = append(s.buf[:0], make([]byte, n)...)
	return s.bytes()
}

// BadUsesAfterPut touches the object after giving it back.
func BadUsesAfterPut(out func([]byte)) {
	s := scratchPool.Get().(*scratch)
	b := s.bytes()
	scratchPool.Put(s)
	out(b)
}

// GoodCopiesBeforePut copies what it needs and gives the object back last.
func GoodCopiesBeforePut(out func([]byte)) int {
	s := scratchPool.Get().(*scratch)
	b := s.bytes()
	out(b)
	n := len(b)
	scratchPool.Put(s)
	return n
}
