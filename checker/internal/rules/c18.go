package rules

import (
	"go/token"
	"go/types"
	"strings"

	"golang.org/x/tools/go/ssa"

	"wharfverif/checker/internal/core"
)

func init() {
	register(&Property{
		ID: "C18",
		Explanation: `R18.1 in drip.(*Writer).Write and Close every forward to the underlying writer is preceded, on every path where a validator is set, by a call of dw.Validate on the same slice, and a non-nil verdict cannot reach the forward; ` +
			`R18.2 in ValidatingPool.GetWriter's validate closure the block index is incremented once on every accepting path, never on a path that returns the rejection (the drip writer offers a rejected block again when closed: it must meet the same signed block), and in wound mode the verdict is sent before returning; ` +
			`R18.5 what is forwarded is the drip buffer itself, other data only under dw.offset == 0; R18.3 the relay goroutine is joined before the file writer closes (shared with R16.4); R18.4 the drip buffer, the safekeeper buffer and the block validator's hashing context all use pwr.BlockSize. ` +
			`R05.4 (shared) the aggregation goroutine keeps, merges or forwards every incoming wound. ` +
			`R18.7 what ComputeHashInfo stores as a file's group is a slice of the hash list whose high bound is computed from ComputeNumBlocks. R18.8 no return of HashBlock / uniqueHash hands back a strong hash out of a field, a captured or package variable, or a map: it is computed from the block on every call. NOT decided: that wounds tile the written range in offset order, slicing independence (index arithmetic in drip.Write), block-aligned-prefix pass-through.`,
		Assumptions: []string{"the underlying writer and the Validate callback are identified as the fields Writer / Validate of drip.Writer"},
		Run:         runC18,
	})
}

// fieldCall matches a dynamic call of a func-typed struct field (dw.Validate(buf)).
func fieldFuncCall(field string) ipred {
	return func(in ssa.Instruction) bool {
		cl, ok := in.(*ssa.Call)
		if !ok || cl.Call.IsInvoke() || cl.Call.StaticCallee() != nil {
			return false
		}
		_, name, ok := core.FieldOf(cl.Call.Value)
		return ok && name == field
	}
}

// fieldInvoke matches an interface method call on a struct field (dw.Writer.Write).
func fieldInvoke(field, method string) ipred {
	return func(in ssa.Instruction) bool {
		cl, ok := in.(*ssa.Call)
		if !ok || !cl.Call.IsInvoke() || cl.Call.Method.Name() != method {
			return false
		}
		_, name, ok := core.FieldOf(cl.Call.Value)
		return ok && name == field
	}
}

// nilTestEdge: the edge b->s is the outcome "field == nil" of a test of the
// given struct field against nil.
func nilTestEdge(field string, wantNil bool) func(b, s *ssa.BasicBlock) bool {
	return func(b, s *ssa.BasicBlock) bool {
		if len(b.Instrs) == 0 {
			return false
		}
		ifi, ok := b.Instrs[len(b.Instrs)-1].(*ssa.If)
		if !ok {
			return false
		}
		bo, ok := ifi.Cond.(*ssa.BinOp)
		if !ok || (bo.Op != token.NEQ && bo.Op != token.EQL) || !core.IsNilConst(bo.Y) {
			return false
		}
		if _, name, ok := core.FieldOf(bo.X); !ok || name != field {
			return false
		}
		// succ[0] is taken when cond is true
		isNilOutcome := (bo.Op == token.EQL && s == b.Succs[0]) || (bo.Op == token.NEQ && s == b.Succs[1])
		return isNilOutcome == wantNil
	}
}

func runC18(c *core.Ctx) {
	c.Rule("R18.1", "drip writer validates a block before forwarding it, and never forwards after a non-nil verdict")
	c.Rule("R18.2", "validate closure: block index advances once for an accepted block and not for a rejected one; wound verdict is sent")
	c.Rule("R18.3", "relay goroutine joined before close (shared with R16.4)")
	c.Rule("R18.5", "only the drip buffer is forwarded, or other data when nothing is pending")
	c.Rule("R18.4", "drip buffer / safekeeper buffer / validator hashing context are one pwr.BlockSize block")
	c.Rule("R18.6", "every writer the validating pool hands out validates")
	ruleAggregationLosesNothing(c, woundKinds(c.P))
	ruleHashGroupsHaveTheirLength(c, "R18.7")
	if gw := c.P.Fn("pwr", "ValidatingPool.GetWriter"); gw == nil {
		c.Missing("R18.6", "pwr.(*ValidatingPool).GetWriter", "not found")
	} else {
		// every non-nil writer returned is a drip.Writer literal whose Validate is set to a function that calls the
		// block validator (no shortcut hands out the inner writer, or a writer without a validator)
		n := 0
		for _, rs := range core.Returns(gw, 0) {
			if rs.Val == nil || core.IsNilConst(rs.Val) {
				continue
			}
			n++
			okW := true
			any := false
			for _, o := range core.Origins(rs.Val) {
				if core.IsNilConst(o) {
					continue
				}
				any = true
				a, isA := core.StripConv(o).(*ssa.Alloc)
				if mi, isMI := o.(*ssa.MakeInterface); isMI {
					a, isA = mi.X.(*ssa.Alloc)
				}
				if !isA || core.TypeName(a.Type()) != "pwr/drip.Writer" {
					okW = false
					continue
				}
				v, has := litField(a, "Validate")
				calls := false
				if has {
					for _, fo := range core.Origins(v) {
						if mc, ok := fo.(*ssa.MakeClosure); ok {
							if f, ok := mc.Fn.(*ssa.Function); ok {
								core.Instrs(f, func(x ssa.Instruction) {
									if cl, ok := x.(*ssa.Call); ok && cl.Call.IsInvoke() && strings.HasPrefix(cl.Call.Method.Name(), "ValidateAs") {
										calls = true
									}
								})
							}
						}
					}
				}
				if !calls {
					okW = false
				}
			}
			c.Check(any && okW, "R18.6", core.FnName(gw), "returned writer is a validating drip writer", core.InstrPos(rs.Ret),
				"a drip.Writer literal whose Validate calls the block validator", "GetWriter can hand out a writer that is not a drip.Writer with a validating callback (a shortcut for some files): what is written through it is not checked")
		}
		c.Floor("R18.6", "writers returned by GetWriter", n, 1)
	}
	c.Rule("R05.1", "healthy verdict only under index-in-range and strong-hash equality (shared with C05)")
	if kinds := woundKinds(c.P); len(kinds) >= 4 {
		ruleHealthyVerdict(c, kinds, false)
	}

	nfwd := 0
	var dripFns []*ssa.Function
	for _, fn := range c.P.SrcFuncs() {
		if strings.HasSuffix(core.PkgPathOf(fn), "/pwr/drip") && fn.Signature.Recv() != nil && core.TypeName(fn.Signature.Recv().Type()) == "pwr/drip.Writer" {
			dripFns = append(dripFns, fn)
		}
	}
	if c.P.Fn("pwr/drip", "Writer.Write") == nil || c.P.Fn("pwr/drip", "Writer.Close") == nil {
		c.Missing("R18.1", "pwr/drip.(*Writer).Write/Close", "not found")
	}
	for _, fn := range dripFns {
		isFwd := fieldInvoke("Writer", "Write")
		isVal := fieldFuncCall("Validate")
		for _, f := range allInstrs(fn, isFwd) {
			nfwd++
			fwd := f.(*ssa.Call)
			// same-slice validate calls only
			valSame := func(in ssa.Instruction) bool {
				if !isVal(in) {
					return false
				}
				return sameExpr(in.(*ssa.Call).Call.Args[0], fwd.Call.Args[0])
			}
			// every path to the forward that does not go through the `Validate == nil` outcome validates the same slice
			p := core.FindPathSkipping(fn, nil, isInstr(f), valSame, nilTestEdge("Validate", true))
			o := c.Check(p == nil, "R18.1", core.FnName(fn), "forward "+core.Describe(fwd.Call.Args[0])+" to the underlying writer", core.InstrPos(f),
				"every path with a validator set calls dw.Validate on the same slice first",
				"a block can reach the underlying writer without having been validated (validator set, no Validate call on that slice on this path)")
			o.Path = c.P.PathStrings(p)
			// after a validate call, the non-nil outcome must not reach the forward
			for _, v := range allInstrs(fn, valSame) {
				vc := v.(*ssa.Call)
				skipNil := func(b, s *ssa.BasicBlock) bool {
					// remove the `err == nil` outcome of tests of this call's result
					ifi, ok := b.Instrs[len(b.Instrs)-1].(*ssa.If)
					if !ok {
						return false
					}
					bo, ok := ifi.Cond.(*ssa.BinOp)
					if !ok || (bo.Op != token.NEQ && bo.Op != token.EQL) || !core.IsNilConst(bo.Y) {
						return false
					}
					if !sharesOrigin(bo.X, vc) && !sameVal(bo.X, vc) && !loadsStoredResult(bo.X, vc) {
						return false
					}
					return (bo.Op == token.EQL && s == b.Succs[0]) || (bo.Op == token.NEQ && s == b.Succs[1])
				}
				p2 := core.FindPathSkipping(fn, v, isInstr(f), valSame, skipNil)
				o := c.Check(p2 == nil, "R18.1", core.FnName(fn), "verdict of dw.Validate gates the forward of "+core.Describe(fwd.Call.Args[0]), core.InstrPos(v),
					"the forward is reachable from the Validate call only through the nil outcome of its result",
					"the forward is reachable after dw.Validate without its result having been found nil: an invalid block passes through")
				o.Path = c.P.PathStrings(p2)
			}
		}
	}
	c.Floor("R18.1", "forwards to the underlying writer", nfwd, 1)

	// R18.5: what is forwarded is the writer's own buffer; data that does not come from dw.Buffer may be
	// forwarded only when nothing is pending (dw.offset == 0), otherwise bytes are reordered
	nArgs := 0
	var checkArg func(fn *ssa.Function, site ssa.Instruction, arg ssa.Value, depth int)
	checkArg = func(fn *ssa.Function, site ssa.Instruction, arg ssa.Value, depth int) {
		fromBuffer, viaParam := true, []*ssa.Parameter{}
		for _, o := range core.Origins(arg) {
			for {
				if sl, ok := o.(*ssa.Slice); ok {
					o = sl.X
					continue
				}
				break
			}
			if p, ok := o.(*ssa.Parameter); ok && depth < 2 && fn.Object() != nil && !fn.Object().Exported() {
				viaParam = append(viaParam, p)
				continue
			}
			if _, n, ok := core.FieldOf(o); ok && n == "Buffer" {
				continue
			}
			fromBuffer = false
		}
		for _, p := range viaParam {
			idx := -1
			for i, q := range fn.Params {
				if q == p {
					idx = i
				}
			}
			for _, caller := range dripFns {
				core.Instrs(caller, func(in ssa.Instruction) {
					if cl, ok := in.(*ssa.Call); ok && cl.Call.StaticCallee() == fn && idx >= 0 && idx < len(cl.Call.Args) {
						checkArg(caller, in, cl.Call.Args[idx], depth+1)
					}
				})
			}
		}
		if len(viaParam) > 0 && fromBuffer {
			return
		}
		nArgs++
		if fromBuffer {
			c.Ok("R18.5", core.FnName(fn), "forwarded data "+core.Describe(arg)+" is the drip buffer", core.InstrPos(site), "derived from dw.Buffer")
			return
		}
		empty := hasGuard(site, func(g core.Guard) bool {
			bo, ok := g.Cond.(*ssa.BinOp)
			if !ok {
				return false
			}
			_, n, ok := core.FieldOf(bo.X)
			z, isC := core.ConstInt(bo.Y)
			if !ok || n != "offset" || !isC || z != 0 {
				return false
			}
			return (bo.Op == token.EQL && g.Val) || (bo.Op == token.NEQ && !g.Val) || (bo.Op == token.GTR && !g.Val)
		})
		c.Check(empty, "R18.5", core.FnName(fn), "data forwarded past the buffer ("+core.Describe(arg)+") only when nothing is pending", core.InstrPos(site),
			"guarded by dw.offset == 0", "data that does not come from the drip buffer is forwarded without checking that the buffer is empty: pending bytes are overtaken, blocks reach the validator misaligned and the pool out of order")
	}
	for _, fn := range dripFns {
		for _, f := range allInstrs(fn, fieldInvoke("Writer", "Write")) {
			checkArg(fn, f, f.(*ssa.Call).Call.Args[0], 0)
		}
	}
	c.Floor("R18.5", "forwarded arguments", nArgs, 2)

	ruleStrongHashIsComputedEachTime(c, "R18.8")
	ruleBlockIndexAdvances(c)
	gw := c.P.Fn("pwr", "ValidatingPool.GetWriter")

	stageRules(c, "R18.3")

	// R18.4
	bs := int64(-1)
	if pk := c.P.Pkg("pwr"); pk != nil {
		if k, ok := pk.Types.Scope().Lookup("BlockSize").(*types.Const); ok {
			if v, ok := constInt64(k); ok {
				bs = v
			}
		}
	}
	if bs < 0 {
		c.Missing("R18.4", "pwr.BlockSize", "constant not found")
		return
	}
	n := 0
	checkMake := func(fn *ssa.Function, field string, what string) {
		if fn == nil {
			c.Missing("R18.4", what, "function not found")
			return
		}
		found := false
		core.Instrs(fn, func(in ssa.Instruction) {
			st, ok := in.(*ssa.Store)
			if !ok {
				return
			}
			if _, name, ok := core.FieldOf(st.Addr); !ok || name != field {
				return
			}
			for _, o := range core.Origins(st.Val) {
				if l, isC, isMake := makeSliceLen(o); isMake {
					found = true
					n++
					c.Check(isC && l == bs, "R18.4", core.FnName(fn), what+" has len pwr.BlockSize", core.InstrPos(in),
						"constant length equals pwr.BlockSize", "buffer length is not the constant pwr.BlockSize: drips no longer coincide with signature blocks")
				}
			}
		})
		if !found {
			c.Bad("R18.4", core.FnName(fn), what, fn.Pos(), "buffer is not allocated with make([]byte, BlockSize) at its construction site")
		}
	}
	checkMake(gw, "Buffer", "drip.Writer.Buffer")
	checkMake(c.P.Fn("pwr", "NewSafeKeeper"), "buf", "safeKeeper.buf")
	for _, fname := range []string{"NewBlockValidator", "mksync"} {
		fn := c.P.Fn("pwr", fname)
		if fn == nil {
			c.Missing("R18.4", "pwr."+fname, "not found")
			continue
		}
		for _, in := range allInstrs(fn, callTo("wsync.NewContext")) {
			n++
			l, isC := core.ConstInt(in.(*ssa.Call).Call.Args[0])
			c.Check(isC && l == bs, "R18.4", core.FnName(fn), "wsync.NewContext(BlockSize)", core.InstrPos(in),
				"hashing context uses pwr.BlockSize", "hashing context is created with a block size other than pwr.BlockSize")
		}
	}
	c.Floor("R18.4", "block-size sites", n, 2)
}

func callLikeInvoke(method string) ipred {
	return func(in ssa.Instruction) bool {
		cl, ok := in.(*ssa.Call)
		if !ok {
			return false
		}
		if cl.Call.IsInvoke() {
			return cl.Call.Method.Name() == method
		}
		if f := cl.Call.StaticCallee(); f != nil {
			return f.Name() == method
		}
		return false
	}
}

// loadsStoredResult: v is a load of a cell into which the result of call was stored.
func loadsStoredResult(v ssa.Value, call *ssa.Call) bool {
	for _, o := range core.Origins(v) {
		if o == ssa.Value(call) {
			return true
		}
	}
	return false
}

func constInt64(k *types.Const) (int64, bool) {
	v := k.Val()
	if v == nil {
		return 0, false
	}
	if i, ok := constantInt64(v); ok {
		return i, true
	}
	return 0, false
}

// makeSliceLen recognises make([]T, n): go/ssa lowers a constant-length make to
// `new [n]T` + slice.
func makeSliceLen(v ssa.Value) (n int64, isConst bool, isMake bool) {
	switch x := v.(type) {
	case *ssa.MakeSlice:
		l, ok := core.ConstInt(x.Len)
		return l, ok, true
	case *ssa.Slice:
		if a, ok := x.X.(*ssa.Alloc); ok && x.Low == nil && a.Comment == "makeslice" {
			if p, ok := a.Type().Underlying().(*types.Pointer); ok {
				if arr, ok := p.Elem().Underlying().(*types.Array); ok {
					if x.High != nil {
						if h, ok := core.ConstInt(x.High); ok {
							return h, true, true
						}
						return 0, false, true
					}
					return arr.Len(), true, true
				}
			}
		}
	}
	return 0, false, false
}

// ruleHashGroupsHaveTheirLength is R18.7 (shared with C05 and C09): "beyond the signed block count" is decided
// by the length of the file's hash group. What ComputeHashInfo stores as a file's group is therefore a slice
// of the hash list that ends - a two-index slice whose high bound is computed from the file's block count -
// not the rest of the list: a group that runs on into the next file's hashes lets blocks written past the
// file's end be compared with, and pass as, the next file's blocks.
func ruleHashGroupsHaveTheirLength(c *core.Ctx, rule string) {
	c.Rule(rule, "each file's hash group ends with the file's last block")
	fn := c.P.Fn("pwr", "ComputeHashInfo")
	if fn == nil {
		c.Missing(rule, "pwr.ComputeHashInfo", "not found")
		return
	}
	var nb func(v ssa.Value, d int) bool
	nb = func(v ssa.Value, d int) bool {
		if d > 6 || v == nil {
			return false
		}
		for _, o := range core.Origins(v) {
			switch x := o.(type) {
			case *ssa.Call:
				if strings.HasSuffix(core.CalleeName(x), "pwr.ComputeNumBlocks") {
					return true
				}
			case *ssa.BinOp:
				if nb(x.X, d+1) || nb(x.Y, d+1) {
					return true
				}
			}
		}
		return false
	}
	n := 0
	core.Instrs(fn, func(in ssa.Instruction) {
		mu, ok := in.(*ssa.MapUpdate)
		if !ok || !strings.HasSuffix(core.TypeName(mu.Map.Type()), "pwr.HashGroups") {
			return
		}
		n++
		ends := false
		for _, o := range core.Origins(mu.Value) {
			if sl, ok := o.(*ssa.Slice); ok && sl.High != nil && nb(sl.High, 0) {
				ends = true
			} else {
				ends = false
				break
			}
		}
		c.Check(ends, rule, core.FnName(fn), "group stored for a file: "+core.Describe(mu.Value), core.InstrPos(in),
			"a slice of the hash list whose high bound is computed from ComputeNumBlocks(file size)",
			"the group stored for a file does not end with the file's last block (it is the rest of the hash list, or its end is not computed from the file's block count): the validators' test 'block index beyond the signed count' compares with a length that includes the following files' hashes")
	})
	c.Floor(rule, "stores into the hash groups", n, 1)
}

// ruleBlockIndexAdvances is R18.2 (shared with C05: in wound mode the block index decides which range a
// wound names).
func ruleBlockIndexAdvances(c *core.Ctx) {
	c.Rule("R18.2", "validate closure: block index advances once for an accepted block and not for a rejected one; wound verdict is sent")
	gw := c.P.Fn("pwr", "ValidatingPool.GetWriter")
	if gw == nil {
		c.Missing("R18.2", "pwr.(*ValidatingPool).GetWriter", "not found")
	} else {
		isValErr := callLikeInvoke("ValidateAsError")
		isValWound := callLikeInvoke("ValidateAsWound")
		lits := findFuncLits(gw, func(f *ssa.Function) bool { return containsCall(f, isValErr) || containsCall(f, isValWound) })
		if len(lits) != 1 {
			c.Missing("R18.2", core.FnName(gw), "validate closure (the literal calling ValidateAsError/ValidateAsWound) not found")
		} else {
			lit := lits[0]
			// the block-index cell: argument #1 of the validation calls
			var idxCell ssa.Value
			for _, in := range allInstrs(lit, anyOf(isValErr, isValWound)) {
				args := in.(*ssa.Call).Call.Args
				if len(args) >= 2 {
					if ld, ok := args[1].(*ssa.UnOp); ok && ld.Op == token.MUL {
						idxCell = core.CellRoot(ld.X)
					}
				}
			}
			isInc := func(in ssa.Instruction) bool {
				st, ok := in.(*ssa.Store)
				if !ok || idxCell == nil || core.CellRoot(st.Addr) != idxCell {
					return false
				}
				bo, ok := st.Val.(*ssa.BinOp)
				if !ok || bo.Op != token.ADD {
					return false
				}
				n, ok := core.ConstInt(bo.Y)
				if !ok || n != 1 {
					return false
				}
				ld, ok := bo.X.(*ssa.UnOp)
				return ok && ld.Op == token.MUL && core.CellRoot(ld.X) == idxCell
			}
			if idxCell == nil {
				c.Missing("R18.2", core.FnName(lit), "block index variable passed to the block validator not found")
			} else {
				// an accepted block advances the index, once; a rejected one leaves it where it is - the drip writer
				// keeps a rejected block and offers it again when it is closed, and it must then meet the same signed
				// block, not the next one (a block equal to the next signed block would pass and reach the pool)
				succ := map[ssa.Instruction]bool{}
				for _, rs := range successReturns(lit) {
					succ[rs.Ret] = true
					p := core.FindPath(lit, nil, isInstr(rs.Ret), isInc)
					o := c.Check(p == nil, "R18.2", core.FnName(lit), "blockIndex++ on every accepting path", core.InstrPos(rs.Ret),
						"every path to a nil verdict increments the block index",
						"a path through the validate closure accepts a block without advancing the block index: the next drip is compared with the wrong signature block")
					o.Path = c.P.PathStrings(p)
				}
				ob, _ := pathEventBounds(lit, func(in ssa.Instruction) int {
					if isInc(in) {
						return 1
					}
					return 0
				}, 0)
				c.Check(ob.max <= 1, "R18.2", core.FnName(lit), "blockIndex++ at most once per drip", lit.Pos(),
					"at most once ("+fmtBounds(ob)+")", "the block index can advance more than once per validated drip ("+fmtBounds(ob)+")")
				for _, rs := range core.Returns(lit, -1) {
					if rs.Val == nil || core.IsNilConst(rs.Val) {
						continue
					}
					if np, known := core.MayBeNil(rs.Val); known && np && len(core.Origins(rs.Val)) == 1 {
						continue
					}
					// can carry a rejection: no increment on any path on which it does
					var bad []ssa.Instruction
					for _, inc := range allInstrs(lit, isInc) {
						for _, v := range allInstrs(lit, isValErr) {
							vc := v.(*ssa.Call)
							// a path validation -> increment -> this return that is not behind the nil outcome of the verdict
							if p1 := ungatedPath(lit, vc, inc, nil); p1 != nil && isResultOf(rs.Val, vc) {
								if p2 := core.FindPath(lit, inc, isInstr(rs.Ret), nil); p2 != nil {
									bad = append(p1, p2...)
								}
							}
						}
					}
					c.Check(bad == nil, "R18.2", core.FnName(lit), "a rejected block does not advance the index", core.InstrPos(rs.Ret),
						"the increment is reached only through the nil outcome of ValidateAsError",
						"the block index advances although the block was rejected: the drip writer still holds the rejected block and validates it again when it is closed - against the NEXT signed block; if it equals that one (the writer skipped a block, say) Close succeeds and the rejected block reaches the underlying pool").Path = c.P.PathStrings(bad)
				}
				// the index read by the validation call precedes the increment
				for _, in := range allInstrs(lit, anyOf(isValErr, isValWound)) {
					inc := firstInstr(lit, isInc)
					c.Check(inc != nil && core.FindPath(lit, inc, isInstr(in), nil) == nil, "R18.2", core.FnName(lit), "validation uses the index before it is advanced: "+core.CalleeName(in.(*ssa.Call)), core.InstrPos(in),
						"the increment never precedes the validation call", "the block index is advanced before the validation call reads it")
				}
			}
			for _, in := range allInstrs(lit, isValWound) {
				p := core.FindPath(lit, in, isReturn, func(x ssa.Instruction) bool { _, ok := x.(*ssa.Send); return ok })
				o := c.Check(p == nil, "R18.2", core.FnName(lit), "wound verdict is sent", core.InstrPos(in),
					"every path from ValidateAsWound to the return sends the verdict", "a wound-mode verdict can be dropped without being sent")
				o.Path = c.P.PathStrings(p)
			}
			// error mode: the verdict is what the closure returns
			for _, in := range allInstrs(lit, isValErr) {
				call := in.(*ssa.Call)
				ok := false
				for _, rs := range core.Returns(lit, -1) {
					for _, o := range core.Origins(rs.Val) {
						if o == ssa.Value(call) {
							ok = true
						}
					}
				}
				c.Check(ok, "R18.2", core.FnName(lit), "error verdict is returned", core.InstrPos(in),
					"the result of ValidateAsError flows to the closure's result", "the result of ValidateAsError is not returned by the validate closure: mismatching blocks pass")
			}
		}
	}
}
