package rules

import (
	"fmt"
	"go/token"
	"go/types"
	"strings"

	"golang.org/x/tools/go/ssa"

	"wharfverif/checker/internal/core"
)

func init() {
	register(&Property{
		ID: "C16",
		Explanation: `R16.1 the goroutine running WoundsConsumer.Do keeps draining vctx.Wounds until it is closed on every path after Do returns (this is what lets producers use plain sends); ` +
			`R16.2 the validation worker and the consumer goroutine send exactly one result on their result channel on every path (deferred calls included); ` +
			`R16.3 in Validate each select case that receives a result re-puts one value on the same channel and closes 'cancelled', and the shutdown sequence close(fileIndices) -> receive worker result -> close(Wounds) -> receive consumer result dominates the final return in that order; ` +
			`R16.4 the per-file relay and aggregation goroutines leave their range loops only when the channel is closed and then always signal completion, and BeforeClose closes before it waits; ` +
			`R16.6 'cancelled' is closed only inside those result cases; R16.5 every WoundsConsumer.Do in the module watches ctx.Done(), and the consumer installed for FailFast never returns nil from the cancellation case. ` +
			`R16.7 every send on the bounded Wounds channel in Validate comes after the go statement of the consumer; R16.8 a function of package pwr that waits (plain receive, in its body or in a deferred literal) on a channel only a goroutine it started sends on or closes has, on every path to the wait, closed a channel that goroutine receives from or cancelled a context it watches - deferred calls are ordered last-in first-out, so a cancel deferred earlier does not count, and edges taken because that context is done are not followed. ` +
			`R05.8 / R05.9 (shared) Healthy() is true only for progress markers and HasWounds is set by every non-healthy wound: a clean verdict needs both. R16.9 in ArchiveHealer.Do the single result of the healing goroutine is received at most once on any path: a literal that takes it leaves with a non-nil error on every path from that receive, its caller returns on that error before receiving again, and a receive in Do itself is followed by no other. R05.3/R05.5/R05.6 (shared) the deviation table: no error means every deviation test controlled a wound. R05.10 (shared) wounds are merged only into a pending wound of their own kind (a FILE wound swallowed by a healthy run is a false 'valid'). NOT decided: deadlock freedom over all interleavings (model checking), goroutine leaks, that 'cancelled' is closed at most once.`,
		Assumptions: []string{
			"channel identity is by role (the argument bound to validate's result-channel parameter, the channel the consumer goroutine sends on), resolved through go/ssa value flow",
			"external WoundsConsumer implementations are outside the module and not analysed",
		},
		Run: runC16,
	})
}

func runC16(c *core.Ctx) {
	c.Rule("R16.1", "consumer goroutine drains Wounds until closed after Do returns")
	c.Rule("R16.2", "exactly one result send per worker/consumer goroutine on every path, defers included")
	c.Rule("R16.3", "Validate: re-put + close(cancelled) in each result case; shutdown order")
	c.Rule("R16.4", "relay/aggregation goroutines exit only on channel close and always signal; BeforeClose closes before waiting")
	c.Rule("R16.6", "the cancellation channel is closed only where a worker/consumer result was received (so an early worker exit is always accompanied by a recorded error)")
	c.Rule("R16.5", "consumers watch ctx.Done(); the fail-fast consumer never turns cancellation into nil")
	c.Rule("R16.7", "no wound is sent before the consumer goroutine was started")
	ruleNoJoinBeforeRelease(c, "R16.8", 3, 1, "/pwr")
	ruleOneResultOneReceive(c, "R16.9", c.P.Fn("pwr", "ArchiveHealer.Do"))
	ruleOnlyMarkersAreHealthy(c, "R05.8", woundKinds(c.P))
	ruleHasWoundsCountsEveryWound(c, "R05.9")
	ruleMergedWoundsShareAKind(c, "R05.10")
	c.Rule("R05.3", "size mismatch after a successful copy controls a FILE wound, both directions (shared)")
	c.Rule("R05.5", "classification table: each enumerated deviation test controls a wound emission (shared)")
	c.Rule("R05.6", "no file is passed unseen (shared)")
	ruleDeviationTable(c, woundKinds(c.P))

	validateFn := c.P.Fn("pwr", "ValidatorContext.Validate")
	worker := c.P.Fn("pwr", "ValidatorContext.validate")
	if validateFn == nil || worker == nil {
		c.Missing("R16", "pwr.(*ValidatorContext).Validate / validate", "validator entry points not found")
		return
	}
	vname := core.FnName(validateFn)

	// --- the consumer goroutine: the literal that invokes WoundsConsumer.Do
	isDo := func(in ssa.Instruction) bool {
		cl, ok := in.(ssa.CallInstruction)
		return ok && cl.Common().IsInvoke() && cl.Common().Method.Name() == "Do" &&
			strings.HasSuffix(core.TypeName(cl.Common().Value.Type()), "pwr.WoundsConsumer")
	}
	lits := findFuncLits(validateFn, func(f *ssa.Function) bool { return containsCall(f, isDo) })
	var consumerLit *ssa.Function
	if len(lits) == 1 {
		consumerLit = lits[0]
	}
	isWounds := func(v ssa.Value) bool {
		for _, r := range chanRoots(v) {
			if s, ok := r.(string); ok && s == "field:pwr.ValidatorContext.Wounds" {
				return true
			}
		}
		return false
	}
	var consumerChan ssa.Value
	if consumerLit == nil {
		c.Missing("R16.1", vname, "no single function literal invoking WoundsConsumer.Do inside Validate")
	} else {
		// is it started with `go`?
		started := false
		core.Instrs(validateFn, func(in ssa.Instruction) {
			if g, ok := in.(*ssa.Go); ok {
				for _, o := range core.Origins(g.Call.Value) {
					if mc, ok := o.(*ssa.MakeClosure); ok && mc.Fn == consumerLit {
						started = true
					}
				}
			}
		})
		c.Check(started, "R16.1", core.FnName(consumerLit), "started as goroutine", consumerLit.Pos(), "go statement found", "the consumer literal is not started with go")
		ruleConsumerStartedFirst(c)
		doCall := firstInstr(consumerLit, isDo)
		// a drain deferred before the Do call is the same guarantee
		deferredDrain := false
		core.Instrs(consumerLit, func(in ssa.Instruction) {
			d, ok := in.(*ssa.Defer)
			if !ok || doCall == nil || !core.InstrDominates(d, doCall) {
				return
			}
			for _, cal := range deferCallees(d) {
				all, k := true, 0
				for _, b := range cal.Blocks {
					if ret, ok := b.Instrs[len(b.Instrs)-1].(*ssa.Return); ok {
						k++
						if !rangeExitGuard(ret, isWounds) {
							all = false
						}
					}
				}
				if all && k > 0 {
					deferredDrain = true
				}
			}
		})
		// R16.1: every return reachable after Do is behind the channel-closed edge of a receive on Wounds
		n := 0
		for _, b := range consumerLit.Blocks {
			ret, ok := b.Instrs[len(b.Instrs)-1].(*ssa.Return)
			if !ok {
				continue
			}
			n++
			ok2 := rangeExitGuard(ret, isWounds) || deferredDrain
			var path []string
			if !ok2 {
				path = c.P.PathStrings(core.FindPath(consumerLit, doCall, isInstr(ret), nil))
			}
			o := c.Check(ok2, "R16.1", core.FnName(consumerLit), "return after WoundsConsumer.Do", core.InstrPos(ret),
				"return is reachable only through the channel-closed edge of a receive on vctx.Wounds (drain loop)",
				"the consumer goroutine can return without draining vctx.Wounds until it is closed: producers doing plain sends would block forever")
			o.Path = path
		}
		// deferred drain is accepted too: not used today
		c.Floor("R16.1", "returns of the consumer goroutine", n, 1)

		// R16.2 (consumer): exactly one send on its result channel
		var sends []*ssa.Send
		core.Instrs(consumerLit, func(in ssa.Instruction) {
			if s, ok := in.(*ssa.Send); ok && types.Identical(s.Chan.Type().Underlying().(*types.Chan).Elem(), types.Universe.Lookup("error").Type()) {
				sends = append(sends, s)
			}
		})
		if len(sends) == 0 {
			c.Bad("R16.2", core.FnName(consumerLit), "send of the consumer result", consumerLit.Pos(), "the consumer goroutine never sends its result")
		} else {
			consumerChan = sends[0].Chan
			cnt := func(in ssa.Instruction) int {
				if s, ok := in.(*ssa.Send); ok && sameChan(s.Chan, consumerChan) {
					return 1
				}
				return 0
			}
			ob, _ := pathEventBounds(consumerLit, cnt, 0)
			c.Check(ob.min == 1 && ob.max == 1, "R16.2", core.FnName(consumerLit), "sends on the consumer result channel", consumerLit.Pos(),
				"exactly one send on every path ("+fmtBounds(ob)+")",
				"the consumer goroutine does not send exactly one result on every path ("+fmtBounds(ob)+"): Validate would block on its receive or the goroutine on its send")
		}
	}

	// --- the worker: result channel = its `chan error` parameter
	var errsParam *ssa.Parameter
	var idxParam, cancelParam *ssa.Parameter
	for _, p := range worker.Params {
		if ch, ok := p.Type().Underlying().(*types.Chan); ok {
			switch {
			case isErrorType(ch.Elem()):
				errsParam = p
			case types.Identical(ch.Elem(), types.Typ[types.Int64]):
				idxParam = p
			default:
				if st, ok := ch.Elem().Underlying().(*types.Struct); ok && st.NumFields() == 0 {
					cancelParam = p
				}
			}
		}
	}
	if errsParam == nil || idxParam == nil || cancelParam == nil {
		c.Missing("R16.2", core.FnName(worker), "worker no longer has result / work / cancel channel parameters")
		return
	}
	{
		cnt := func(in ssa.Instruction) int {
			if s, ok := in.(*ssa.Send); ok && sameChan(s.Chan, errsParam) {
				return 1
			}
			return 0
		}
		ob, per := pathEventBounds(worker, cnt, 0)
		o := c.Check(ob.min == 1 && ob.max == 1, "R16.2", core.FnName(worker), "sends on the worker result channel (errs)", worker.Pos(),
			"exactly one send on every path, deferred closure included ("+fmtBounds(ob)+")",
			"the worker does not send exactly one result on every path ("+fmtBounds(ob)+"): Validate blocks forever on its receive (or the worker on a second send)")
		o.Sites = len(per)
		if o.Status != core.Discharged {
			for r, b := range per {
				if b.min != 1 || b.max != 1 {
					o.Path = append(o.Path, fmt.Sprintf("return at %s: %s", c.P.Pos(core.InstrPos(r)), fmtBounds(b)))
				}
			}
			// the deferred closure's own paths
			core.Instrs(worker, func(in ssa.Instruction) {
				if d, ok := in.(*ssa.Defer); ok {
					for _, cal := range deferCallees(d) {
						db, dper := pathEventBounds(cal, cnt, 1)
						if db.min != db.max {
							for r, b := range dper {
								o.Path = append(o.Path, fmt.Sprintf("deferred %s return at %s: %s", core.FnName(cal), c.P.Pos(core.InstrPos(r)), fmtBounds(b)))
							}
						}
					}
				}
			})
		}
	}

	// --- R16.3 spawner
	var goWorker *ssa.Go
	core.Instrs(validateFn, func(in ssa.Instruction) {
		if g, ok := in.(*ssa.Go); ok && g.Call.StaticCallee() == worker {
			goWorker = g
		}
	})
	if goWorker == nil {
		c.Missing("R16.3", vname, "no `go vctx.validate(...)` in Validate")
		return
	}
	argOf := func(p *ssa.Parameter) ssa.Value {
		for i, q := range worker.Params {
			if q == p && i < len(goWorker.Call.Args) {
				return goWorker.Call.Args[i]
			}
		}
		return nil
	}
	workerChan, idxChan, cancelChan := argOf(errsParam), argOf(idxParam), argOf(cancelParam)
	// (a) select cases
	nCases := 0
	core.Instrs(validateFn, func(in ssa.Instruction) {
		sel, ok := in.(*ssa.Select)
		if !ok {
			return
		}
		for k, st := range sel.States {
			if st.Dir != types.RecvOnly {
				continue
			}
			var role string
			switch {
			case sameChan(st.Chan, workerChan):
				role = "worker result"
			case consumerChan != nil && sameChan(st.Chan, consumerChan):
				role = "consumer result"
			default:
				continue
			}
			nCases++
			inCase := func(x ssa.Instruction) bool {
				return hasGuard(x, func(g core.Guard) bool {
					bo, ok := g.Cond.(*ssa.BinOp)
					if !ok || bo.Op != token.EQL || !g.Val {
						return false
					}
					ex, ok := bo.X.(*ssa.Extract)
					if !ok || ex.Tuple != ssa.Value(sel) || ex.Index != 0 {
						return false
					}
					n, ok := core.ConstInt(bo.Y)
					return ok && int(n) == k
				})
			}
			var reput, closed bool
			core.Instrs(validateFn, func(x ssa.Instruction) {
				if !inCase(x) {
					return
				}
				if s, ok := x.(*ssa.Send); ok && sameChan(s.Chan, st.Chan) {
					// must be unconditional within the case: its block is the case entry or dominates the case exit
					reput = true
				}
				if isCloseOf(cancelChan, nil)(x) {
					closed = true
				}
			})
			construct := fmt.Sprintf("select case receiving the %s", role)
			c.Check(reput, "R16.3", vname, construct+": re-put", core.InstrPos(sel),
				"the case puts one value back on the channel it received from (net zero, so the final receive still finds one)",
				"the case consumes a result without putting one back: the receive after the loop blocks forever")
			c.Check(closed, "R16.3", vname, construct+": close(cancelled)", core.InstrPos(sel),
				"the case closes the cancellation channel", "the case does not close the cancellation channel: the worker keeps waiting for work / producers are never released")
		}
	})
	c.Floor("R16.3", "result-receiving select cases", nCases, 1)
	// R16.6: 'cancelled' is closed only where a (non-nil) result has just been received: any other
	// close lets the worker stop early and report nil, which turns an interruption into "valid".
	nClose := 0
	core.Instrs(validateFn, func(x ssa.Instruction) {
		if !isCloseOf(cancelChan, nil)(x) {
			return
		}
		nClose++
		inResultCase := hasGuard(x, func(g core.Guard) bool {
			bo, ok := g.Cond.(*ssa.BinOp)
			if !ok || bo.Op != token.EQL || !g.Val {
				return false
			}
			ex, ok := bo.X.(*ssa.Extract)
			if !ok || ex.Index != 0 {
				return false
			}
			sel, ok := ex.Tuple.(*ssa.Select)
			if !ok {
				return false
			}
			k, ok := core.ConstInt(bo.Y)
			if !ok || int(k) >= len(sel.States) {
				return false
			}
			st := sel.States[k]
			return st.Dir == types.RecvOnly && (sameChan(st.Chan, workerChan) || (consumerChan != nil && sameChan(st.Chan, consumerChan)))
		})
		c.Check(inResultCase, "R16.6", vname, "close(cancelled)", core.InstrPos(x),
			"the cancellation channel is closed only in a case that has just received a worker/consumer result",
			"the cancellation channel is closed outside the result-receiving cases: the worker then stops early and reports nil, so an interrupted fail-fast validation can return nil for a damaged directory")
	})
	c.Floor("R16.6", "close(cancelled) sites", nClose, 1)
	// (b) shutdown order
	closeIdx := firstInstr(validateFn, isCloseOf(idxChan, nil))
	recvWorker := firstInstr(validateFn, func(in ssa.Instruction) bool {
		u, ok := in.(*ssa.UnOp)
		return ok && u.Op == token.ARROW && sameChan(u.X, workerChan)
	})
	closeWounds := firstInstr(validateFn, isCloseOf(nil, isWounds))
	var recvConsumer ssa.Instruction
	if consumerChan != nil {
		recvConsumer = firstInstr(validateFn, func(in ssa.Instruction) bool {
			u, ok := in.(*ssa.UnOp)
			return ok && u.Op == token.ARROW && sameChan(u.X, consumerChan)
		})
	}
	steps := []struct {
		name string
		in   ssa.Instruction
	}{{"close(fileIndices)", closeIdx}, {"receive worker result", recvWorker}, {"close(vctx.Wounds)", closeWounds}, {"receive consumer result", recvConsumer}}
	allThere := true
	for _, s := range steps {
		if s.in == nil {
			allThere = false
			c.Bad("R16.3", vname, "shutdown step "+s.name, validateFn.Pos(), "shutdown step not found in Validate")
		}
	}
	if allThere {
		for i := 0; i+1 < len(steps); i++ {
			c.Check(core.InstrDominates(steps[i].in, steps[i+1].in), "R16.3", vname, "order: "+steps[i].name+" before "+steps[i+1].name, core.InstrPos(steps[i+1].in),
				"dominates", steps[i].name+" does not precede "+steps[i+1].name+" on every path: the pipeline is shut down in an order that can block or lose wounds")
		}
		// every return after the worker was started passes the whole sequence
		nret := 0
		for _, b := range validateFn.Blocks {
			ret, ok := b.Instrs[len(b.Instrs)-1].(*ssa.Return)
			if !ok || core.FindPath(validateFn, goWorker, isInstr(ret), nil) == nil {
				continue
			}
			nret++
			last := steps[len(steps)-1].in
			c.Check(core.InstrDominates(last, ret), "R16.3", vname, "return after the worker was started", core.InstrPos(ret),
				"dominated by the complete shutdown sequence", "Validate can return after starting the worker without completing the shutdown sequence")
		}
		c.Floor("R16.3", "returns after go validate", nret, 1)
	}

	stageRules(c, "R16.4")

	// --- R16.5 consumers
	wcIface := c.P.Named("pwr", "WoundsConsumer")
	if wcIface == nil {
		c.Missing("R16.5", "pwr.WoundsConsumer", "interface not found")
		return
	}
	it := wcIface.Underlying().(*types.Interface)
	nCons := 0
	var failFastType types.Type
	// which concrete type is installed under vctx.FailFast ?
	core.Instrs(validateFn, func(in ssa.Instruction) {
		st, ok := in.(*ssa.Store)
		if !ok {
			return
		}
		if _, name, ok := core.FieldOf(st.Addr); !ok || name != "WoundsConsumer" {
			return
		}
		ff := hasGuard(st, func(g core.Guard) bool {
			_, name, ok := core.FieldOf(g.Cond)
			return ok && name == "FailFast" && g.Val
		})
		if ff {
			failFastType = core.StripConv(st.Val).Type()
		}
	})
	if failFastType == nil {
		c.Missing("R16.5", vname, "no WoundsConsumer installed on the FailFast branch")
	}
	for _, pk := range c.P.Roots {
		sc := pk.Types.Scope()
		for _, nm := range sc.Names() {
			tn, ok := sc.Lookup(nm).(*types.TypeName)
			if !ok {
				continue
			}
			pt := types.NewPointer(tn.Type())
			if _, isI := tn.Type().Underlying().(*types.Interface); isI || !types.Implements(pt, it) {
				continue
			}
			do := c.P.SSA.MethodValue(c.P.SSA.MethodSets.MethodSet(pt).Lookup(pk.Types, "Do"))
			if do == nil || do.Blocks == nil {
				continue
			}
			nCons++
			// ctx.Done() watched: a select state or receive whose channel is a Done() call result
			watches := false
			var doneSel *ssa.Select
			doneIdx := -1
			var woundIdx = -1
			for _, f := range core.WithAnons(do) {
				core.Instrs(f, func(in ssa.Instruction) {
					if sel, ok := in.(*ssa.Select); ok {
						for k, st := range sel.States {
							if isDoneCall(st.Chan) {
								watches = true
								if f == do {
									doneSel, doneIdx = sel, k
								}
							}
							if f == do && st.Dir == types.RecvOnly && len(do.Params) > 0 && sameChan(st.Chan, do.Params[len(do.Params)-1]) {
								woundIdx = k
							}
						}
					}
				})
			}
			c.Check(watches, "R16.5", core.FnName(do), "watches ctx.Done()", do.Pos(),
				"a select in the receive loop has a ctx.Done() case", "the consumer never looks at ctx.Done(): it cannot be cancelled while waiting for wounds")
			if failFastType != nil && types.Identical(failFastType, pt) {
				// nil returns must not be control-dependent on the Done case
				n := 0
				for _, rs := range successReturns(do) {
					n++
					onDone := doneSel != nil && hasGuard(rs.Ret, func(g core.Guard) bool { return selectCaseGuard(g, doneSel, doneIdx) })
					onClosed := doneSel != nil && woundIdx >= 0 && hasGuard(rs.Ret, func(g core.Guard) bool { return selectCaseGuard(g, doneSel, woundIdx) })
					c.Check(!onDone && onClosed, "R16.5", core.FnName(do), "nil return of the fail-fast consumer", core.InstrPos(rs.Ret),
						"nil is returned only from the wounds-channel case (channel closed), never from the ctx.Done() case",
						"the fail-fast consumer can return nil because of cancellation: a cancelled validation of a damaged directory would be reported as valid")
				}
				c.Floor("R16.5", "nil returns of the fail-fast consumer", n, 1)
			}
		}
	}
	c.Floor("R16.5", "WoundsConsumer implementations", nCons, 2)
}

func isCloseOf(ch ssa.Value, pred func(ssa.Value) bool) ipred {
	return func(in ssa.Instruction) bool {
		cl, ok := builtinCall(in, "close")
		if !ok {
			return false
		}
		if pred != nil {
			return pred(cl.Call.Args[0])
		}
		return sameChan(cl.Call.Args[0], ch)
	}
}

// stageRules: the per-file pipeline stages (aggregation goroutine, relay
// goroutine, BeforeClose join, onclose ordering) run to completion. Shared by
// C16 (R16.4) and C18 (R18.3).
func stageRules(c *core.Ctx, rule string) {
	// --- R16.4 relay / aggregation goroutines
	checkRangeGoroutine := func(rule string, lit *ssa.Function, inCh func(ssa.Value) bool, signal ipred, what string) {
		if lit == nil {
			c.Missing(rule, what, "goroutine literal not found")
			return
		}
		n := 0
		for _, b := range lit.Blocks {
			ret, ok := b.Instrs[len(b.Instrs)-1].(*ssa.Return)
			if !ok {
				continue
			}
			n++
			c.Check(rangeExitGuard(ret, inCh), rule, core.FnName(lit), what+": loop exit", core.InstrPos(ret),
				"the goroutine returns only after its input channel was closed",
				"the goroutine can leave its receive loop while the input channel is still open: the sender blocks forever")
			p := mustPassBefore(lit, isInstr(ret), signal)
			o := c.Check(p == nil, rule, core.FnName(lit), what+": completion signal", core.InstrPos(ret),
				"every path to the return signals completion", "a path reaches the return without signalling completion: the party waiting for it blocks forever")
			o.Path = c.P.PathStrings(p)
		}
		c.Floor(rule, what+" returns", n, 1)
	}
	agg := c.P.Fn("pwr", "AggregateWounds")
	if agg == nil || len(agg.AnonFuncs) != 1 {
		c.Missing(rule, "pwr.AggregateWounds", "function or its goroutine literal not found")
	} else {
		lit := agg.AnonFuncs[0]
		outParam := agg.Params[0]
		var inMake ssa.Value
		core.Instrs(agg, func(in ssa.Instruction) {
			if mc, ok := in.(*ssa.MakeChan); ok {
				inMake = mc
			}
		})
		checkRangeGoroutine(rule, lit, func(v ssa.Value) bool { return inMake != nil && sameChan(v, inMake) },
			isCloseOf(outParam, nil), "AggregateWounds goroutine")
	}
	gw := c.P.Fn("pwr", "ValidatingPool.GetWriter")
	if gw == nil {
		c.Missing(rule, "pwr.(*ValidatingPool).GetWriter", "not found")
	} else {
		// relay goroutine: the literal started with go
		var relay *ssa.Function
		core.Instrs(gw, func(in ssa.Instruction) {
			if g, ok := in.(*ssa.Go); ok {
				for _, o := range core.Origins(g.Call.Value) {
					if mc, ok := o.(*ssa.MakeClosure); ok {
						relay = mc.Fn.(*ssa.Function)
					}
				}
			}
		})
		var doneChan ssa.Value
		if relay != nil {
			core.Instrs(relay, func(in ssa.Instruction) {
				if s, ok := in.(*ssa.Send); ok {
					if _, isBool := s.Chan.Type().Underlying().(*types.Chan).Elem().Underlying().(*types.Basic); isBool {
						doneChan = s.Chan
					}
				}
			})
		}
		if relay == nil || doneChan == nil {
			c.Missing(rule, core.FnName(gw), "relay goroutine or its done channel not found")
		} else {
			var rangeCh ssa.Value
			core.Instrs(relay, func(in ssa.Instruction) {
				if u, ok := in.(*ssa.UnOp); ok && u.Op == token.ARROW && u.CommaOk {
					rangeCh = u.X
				}
			})
			checkRangeGoroutine(rule, relay, func(v ssa.Value) bool { return rangeCh != nil && sameChan(v, rangeCh) },
				func(in ssa.Instruction) bool { s, ok := in.(*ssa.Send); return ok && sameChan(s.Chan, doneChan) }, "wound relay goroutine")
			// BeforeClose: close(wounds) dominates <-woundsDone, and the closed channel is the one the relay (transitively) drains
			var bc *ssa.Function
			for _, lit := range gw.AnonFuncs {
				hasRecv := false
				core.Instrs(lit, func(in ssa.Instruction) {
					if u, ok := in.(*ssa.UnOp); ok && u.Op == token.ARROW && sameChan(u.X, doneChan) {
						hasRecv = true
					}
				})
				if hasRecv {
					bc = lit
				}
			}
			if bc == nil {
				c.Bad(rule, core.FnName(gw), "join with the relay goroutine", gw.Pos(), "no function literal waits for the relay goroutine (<-woundsDone): the file writer can close while wounds are still in flight")
			} else {
				recv := firstInstr(bc, func(in ssa.Instruction) bool {
					u, ok := in.(*ssa.UnOp)
					return ok && u.Op == token.ARROW && sameChan(u.X, doneChan)
				})
				cl := firstInstr(bc, func(in ssa.Instruction) bool { _, ok := builtinCall(in, "close"); return ok })
				c.Check(cl != nil && core.InstrDominates(cl, recv), rule, core.FnName(bc), "close(wounds) before <-woundsDone", core.InstrPos(recv),
					"the per-file wound channel is closed before waiting for the relay", "waiting for the relay goroutine is not preceded by closing its input: it never finishes")
				// the literal must be installed as BeforeClose of the onclose.Writer
				installed := false
				core.Instrs(gw, func(in ssa.Instruction) {
					if st, ok := in.(*ssa.Store); ok {
						if fa, ok := st.Addr.(*ssa.FieldAddr); ok {
							if _, name, _ := core.FieldOf(fa); name == "BeforeClose" {
								for _, o := range core.Origins(st.Val) {
									if mc, ok := o.(*ssa.MakeClosure); ok && mc.Fn == bc {
										installed = true
									}
								}
							}
						}
					}
				})
				c.Check(installed, rule, core.FnName(gw), "join literal installed as BeforeClose", bc.Pos(),
					"installed on the onclose.Writer", "the literal that joins the relay goroutine is not installed as BeforeClose")
			}
		}
	}
	// onclose.Writer.Close runs BeforeClose before closing the underlying writer
	if oc := c.P.Fn("pwr/onclose", "Writer.Close"); oc == nil {
		c.Missing(rule, "pwr/onclose.(*Writer).Close", "not found")
	} else {
		isBefore := func(in ssa.Instruction) bool {
			cl, ok := in.(*ssa.Call)
			if !ok || cl.Call.IsInvoke() || cl.Call.StaticCallee() != nil {
				return false
			}
			_, name, ok := core.FieldOf(cl.Call.Value)
			return ok && name == "BeforeClose"
		}
		isInnerClose := func(in ssa.Instruction) bool {
			cl, ok := in.(ssa.CallInstruction)
			return ok && cl.Common().IsInvoke() && cl.Common().Method.Name() == "Close"
		}
		inner := firstInstr(oc, isInnerClose)
		if inner == nil {
			c.Bad(rule, core.FnName(oc), "inner Close", oc.Pos(), "onclose.Writer.Close no longer closes the underlying writer")
		} else {
			// every path to the inner close on which BeforeClose != nil passes the callback:
			// the only way around the call is the nil test of that same field
			p := core.FindPath(oc, nil, isInstr(inner), isBefore)
			okp := p == nil
			if !okp {
				// acceptable iff the bypass is the `BeforeClose != nil` false edge
				okp = hasNilTestBypass(oc, isBefore, "BeforeClose")
			}
			c.Check(okp, rule, core.FnName(oc), "BeforeClose runs before the underlying Close", core.InstrPos(inner),
				"callback precedes the inner close on every path where it is set", "the underlying writer can be closed without running BeforeClose first")
		}
	}

}

func selectCaseGuard(g core.Guard, sel *ssa.Select, k int) bool {
	bo, ok := g.Cond.(*ssa.BinOp)
	if !ok || bo.Op != token.EQL || !g.Val {
		return false
	}
	ex, ok := bo.X.(*ssa.Extract)
	if !ok || ex.Tuple != ssa.Value(sel) || ex.Index != 0 {
		return false
	}
	n, ok := core.ConstInt(bo.Y)
	return ok && int(n) == k
}

func isDoneCall(v ssa.Value) bool {
	for _, o := range core.Origins(v) {
		if cl, ok := o.(*ssa.Call); ok && cl.Call.IsInvoke() && cl.Call.Method.Name() == "Done" {
			return true
		}
	}
	return false
}

// hasNilTestBypass: the only branch that lets control skip the callback call is
// a test of the callback field against nil.
func hasNilTestBypass(fn *ssa.Function, isCallback ipred, field string) bool {
	cb := firstInstr(fn, isCallback)
	if cb == nil {
		return false
	}
	return hasGuard(cb, func(g core.Guard) bool {
		return relHolds(g, token.NEQ, isField(field), core.IsNilConst)
	}) && len(core.Guards(cb)) == 1
}

// ruleConsumerStartedFirst is R16.7 (shared with C06: healing a target that misses more than the channel holds).
func ruleConsumerStartedFirst(c *core.Ctx) {
	validateFn := c.P.Fn("pwr", "ValidatorContext.Validate")
	if validateFn == nil {
		c.Missing("R16.7", "pwr.(*ValidatorContext).Validate", "not found")
		return
	}
	vname := core.FnName(validateFn)
	isDo := func(in ssa.Instruction) bool {
		cl, ok := in.(ssa.CallInstruction)
		return ok && cl.Common().IsInvoke() && cl.Common().Method.Name() == "Do" &&
			strings.HasSuffix(core.TypeName(cl.Common().Value.Type()), "pwr.WoundsConsumer")
	}
	lits := findFuncLits(validateFn, func(f *ssa.Function) bool { return containsCall(f, isDo) })
	if len(lits) != 1 {
		c.Missing("R16.7", vname, "no single function literal invoking WoundsConsumer.Do inside Validate")
		return
	}
	consumerLit := lits[0]
	isWounds := func(v ssa.Value) bool {
		for _, r := range chanRoots(v) {
			if s, ok := r.(string); ok && s == "field:pwr.ValidatorContext.Wounds" {
				return true
			}
		}
		return false
	}
	// R16.7: Wounds is bounded; whoever sends on it before its consumer runs blocks for good once it is full.
	// Every send on Wounds in Validate (its own, and those of the literals it calls) comes after the go statement.
	{
		isGoConsumer := func(in ssa.Instruction) bool {
			g, ok := in.(*ssa.Go)
			if !ok {
				return false
			}
			for _, o := range core.Origins(g.Call.Value) {
				if mc, ok := o.(*ssa.MakeClosure); ok && mc.Fn == consumerLit {
					return true
				}
			}
			return false
		}
		sendsWounds := func(f *ssa.Function) bool {
			found := false
			core.Instrs(f, func(x ssa.Instruction) {
				switch y := x.(type) {
				case *ssa.Send:
					if isWounds(y.Chan) {
						found = true
					}
				case *ssa.Select:
					for _, st := range y.States {
						if st.Dir == types.SendOnly && isWounds(st.Chan) {
							found = true
						}
					}
				}
			})
			return found
		}
		nS := 0
		core.Instrs(validateFn, func(in ssa.Instruction) {
			isSend := false
			switch y := in.(type) {
			case *ssa.Send:
				isSend = isWounds(y.Chan)
			case *ssa.Call:
				if cal := localCallee(y); cal != nil && sendsWounds(cal) {
					isSend = true
				}
			}
			if !isSend {
				return
			}
			nS++
			p := core.FindPath(validateFn, nil, isInstr(in), isGoConsumer)
			c.Check(p == nil, "R16.7", vname, "a wound is sent only after the consumer was started", core.InstrPos(in),
				"every path to this send passes the go statement of the consumer literal", "Validate can send on the bounded Wounds channel before its consumer goroutine exists: once the channel is full (1024 wounds from the directory and symlink passes) the send blocks for ever").Path = c.P.PathStrings(p)
		})
		c.Floor("R16.7", "sends on Wounds in Validate itself", nS, 2)
	}
}
