package rules

import (
	"fmt"
	"go/constant"
	"go/token"
	"go/types"
	"os"
	"strings"
	"time"

	"golang.org/x/tools/go/ssa"

	"wharfverif/checker/internal/core"
)

// ---- predicates on instructions -----------------------------------------------------------

type ipred = func(ssa.Instruction) bool

func callTo(names ...string) ipred {
	return func(in ssa.Instruction) bool {
		c, ok := in.(ssa.CallInstruction)
		return ok && core.IsCallTo(c, names...)
	}
}

// callNamed matches a call by the method/function base name and a substring of
// the full callee name (e.g. "Sync", "os.File").
func callLike(base string, contains string) ipred {
	return func(in ssa.Instruction) bool {
		c, ok := in.(ssa.CallInstruction)
		if !ok {
			return false
		}
		n := core.CalleeName(c)
		return (strings.HasSuffix(n, "."+base) || strings.HasSuffix(n, ")."+base)) && strings.Contains(n, contains)
	}
}

func isReturn(in ssa.Instruction) bool { _, ok := in.(*ssa.Return); return ok }

func anyOf(ps ...ipred) ipred {
	return func(in ssa.Instruction) bool {
		for _, p := range ps {
			if p(in) {
				return true
			}
		}
		return false
	}
}

func isInstr(x ssa.Instruction) ipred { return func(in ssa.Instruction) bool { return in == x } }

// builtinCall matches close(x), len(x)... returning the call.
func builtinCall(in ssa.Instruction, name string) (*ssa.Call, bool) {
	c, ok := in.(*ssa.Call)
	if !ok {
		return nil, false
	}
	b, ok := c.Call.Value.(*ssa.Builtin)
	if !ok || b.Name() != name {
		return nil, false
	}
	return c, true
}

// ---- success / error returns ---------------------------------------------------------------

// successReturns lists the returns of fn whose last result (an error) is nil or
// may be nil. A return of a value that the dominating branch has just tested to
// be non-nil is an error return.
var successReturnsMemo = map[*ssa.Function][]core.ReturnSite{}

func successReturns(fn *ssa.Function) []core.ReturnSite {
	if out, ok := successReturnsMemo[fn]; ok {
		return out
	}
	t0 := time.Now()
	out := successReturnsUncached(fn)
	if d := time.Since(t0); d > time.Second && os.Getenv("WHARFCHECK_SLOW") != "" {
		fmt.Fprintf(os.Stderr, "slow successReturns %s %v\n", core.FnName(fn), d)
	}
	successReturnsMemo[fn] = out
	return out
}

func successReturnsUncached(fn *ssa.Function) []core.ReturnSite {
	var out []core.ReturnSite
	res := fn.Signature.Results()
	if res.Len() == 0 || !isErrorType(res.At(res.Len()-1).Type()) {
		// no error result: every return is a success return
		return core.Returns(fn, 0)
	}
	for _, rs := range core.Returns(fn, -1) {
		core.MarkSuccessTarget(rs.Ret)
		if rs.Val == nil {
			out = append(out, rs)
			continue
		}
		nilPossible, known := core.MayBeNil(rs.Val)
		if known && !nilPossible && !wrapsPossiblyNil(rs.Val) {
			continue
		}
		if !core.IsNilConst(rs.Val) && guardedNonNil(rs.Val, rs.Ret) {
			continue
		}
		out = append(out, rs)
	}
	return out
}

// wrapsPossiblyNil: v is (or may be) the result of one of pkg/errors' nil-preserving wrappers applied to
// an error that no dominating branch has shown to be non-nil: `return errors.WithStack(f())` succeeds
// whenever f does.
func wrapsPossiblyNil(v ssa.Value) bool {
	for _, o := range core.Origins(v) {
		cl, ok := o.(*ssa.Call)
		if !ok || len(cl.Call.Args) == 0 {
			continue
		}
		if !isNilPreservingWrapper(cl) {
			continue
		}
		arg := core.StoredHere(cl.Call.Args[0])
		if core.IsNilConst(arg) {
			return true
		}
		if guardedNonNil(arg, cl) || guardedNonNil(cl.Call.Args[0], cl) {
			continue
		}
		if np, known := core.MayBeNil(arg); known && !np && !wrapsPossiblyNil(arg) {
			continue
		}
		return true
	}
	return false
}

func isErrorType(t types.Type) bool {
	n, ok := t.(*types.Named)
	return ok && n.Obj().Pkg() == nil && n.Obj().Name() == "error"
}

// guardedNonNil: some branch outcome dominating `at` says v != nil.
func guardedNonNil(v ssa.Value, at ssa.Instruction) bool {
	for _, g := range core.Guards(at) {
		bo, ok := g.Cond.(*ssa.BinOp)
		if !ok || (bo.Op != token.NEQ && bo.Op != token.EQL) {
			continue
		}
		var other ssa.Value
		if core.IsNilConst(bo.Y) {
			other = bo.X
		} else if core.IsNilConst(bo.X) {
			other = bo.Y
		} else {
			continue
		}
		if !sameVal(other, v) && !sharesOrigin(other, v) {
			continue
		}
		if (bo.Op == token.NEQ) == g.Val {
			return true
		}
	}
	return false
}

func sharesOrigin(a, b ssa.Value) bool {
	oa := core.Origins(a)
	ob := core.Origins(b)
	if len(oa) == 0 || len(ob) == 0 {
		return false
	}
	// every origin of b must be an origin of a
	set := map[ssa.Value]bool{}
	for _, x := range oa {
		set[x] = true
	}
	for _, y := range ob {
		if !set[y] {
			return false
		}
	}
	return true
}

// ---- path obligations ------------------------------------------------------------------------

// mustPassBefore: every path from the entry of fn to an instruction matching
// target passes an instruction matching required. Returns the offending path.
func mustPassBefore(fn *ssa.Function, target, required ipred) []ssa.Instruction {
	return core.FindPath(fn, nil, target, required)
}

// mustPassAfter: every path from instruction `from` to an instruction matching
// target passes an instruction matching required.
func mustPassAfter(fn *ssa.Function, from ssa.Instruction, target, required ipred) []ssa.Instruction {
	return core.FindPath(fn, from, target, required)
}

// hasGuard reports whether instruction in is control-dependent (edge
// dominance) on a branch outcome satisfying pred.
func hasGuard(in ssa.Instruction, pred func(g core.Guard) bool) bool {
	for _, g := range core.Guards(in) {
		if pred(g) {
			return true
		}
	}
	return false
}

// ---- channels --------------------------------------------------------------------------------

// chanRoots canonicalises a channel value: the make/parameter/call it comes
// from, or "field:<Type>.<name>" for channels stored in struct fields.
func chanRoots(v ssa.Value) []interface{} {
	var out []interface{}
	for _, o := range core.Origins(v) {
		o = core.CellRoot(o)
		if base, name, ok := core.FieldOf(o); ok {
			out = append(out, "field:"+core.TypeName(base.Type())+"."+name)
			continue
		}
		// elements of a struct stored in a slice: workerState.matches etc. are
		// handled by field name as well
		out = append(out, o)
	}
	return out
}

func sameChan(a, b ssa.Value) bool {
	ra, rb := chanRoots(a), chanRoots(b)
	for _, x := range ra {
		for _, y := range rb {
			if x == y {
				return true
			}
		}
	}
	return false
}

// isChanNamed: the channel value's roots are a variable / field with that name.
func chanIsNamed(v ssa.Value, name string) bool {
	for _, r := range chanRoots(v) {
		switch x := r.(type) {
		case string:
			if strings.HasSuffix(x, "."+name) {
				return true
			}
		case *ssa.Parameter:
			if x.Name() == name {
				return true
			}
		case *ssa.MakeChan:
			if varNameOf(x) == name {
				return true
			}
		case *ssa.Alloc:
			if x.Comment == name {
				return true
			}
		case *ssa.FreeVar:
			if x.Name() == name {
				return true
			}
		}
	}
	// a load of a named cell whose stores could not be resolved
	if ld, ok := v.(*ssa.UnOp); ok && ld.Op == token.MUL {
		switch x := core.CellRoot(ld.X).(type) {
		case *ssa.Alloc:
			return x.Comment == name
		case *ssa.FreeVar:
			return x.Name() == name
		}
	}
	return false
}

// varNameOf returns the name of the local variable a value is stored into (the
// comment of the Alloc it initialises), or "".
func varNameOf(v ssa.Value) string {
	refs := v.Referrers()
	if refs == nil {
		return ""
	}
	for _, r := range *refs {
		if st, ok := r.(*ssa.Store); ok && st.Val == v {
			if a, ok := core.CellRoot(st.Addr).(*ssa.Alloc); ok && a.Comment != "" {
				return a.Comment
			}
		}
		if dr, ok := r.(*ssa.DebugRef); ok {
			_ = dr
		}
	}
	// SSA-lifted local: go/ssa records the name in the value's own name only for
	// parameters; fall back to the source identifier at the definition position
	return ""
}

// sendBounds computes the minimum and maximum number of events (instructions
// for which count returns n > 0) over all paths from the entry of fn to each
// return, deferred closures included. max is capped at 1000 ("unbounded").
type bounds struct{ min, max int }

const unbounded = 1000

func pathEventBounds(fn *ssa.Function, count func(ssa.Instruction) int, depth int) (overall bounds, perReturn map[*ssa.Return]bounds) {
	perReturn = map[*ssa.Return]bounds{}
	if fn == nil || len(fn.Blocks) == 0 || depth > 4 {
		return bounds{0, 0}, perReturn
	}
	// deferred closures: (min,max) of each Defer's callee
	deferB := map[*ssa.Defer]bounds{}
	var defers []*ssa.Defer
	core.Instrs(fn, func(in ssa.Instruction) {
		if d, ok := in.(*ssa.Defer); ok {
			defers = append(defers, d)
			b := bounds{0, 0}
			for _, cal := range deferCallees(d) {
				cb, _ := pathEventBounds(cal, count, depth+1)
				b = cb
			}
			// the deferred call instruction itself may be an event (defer close(ch))
			if n := count(d); n > 0 {
				b.min += n
				b.max += n
			}
			deferB[d] = b
		}
	})
	in := map[*ssa.BasicBlock]bounds{}
	out := map[*ssa.BasicBlock]bounds{}
	have := map[*ssa.BasicBlock]bool{}
	blockCount := func(b *ssa.BasicBlock, start bounds) bounds {
		cur := start
		for _, ins := range b.Instrs {
			if _, isDefer := ins.(*ssa.Defer); isDefer {
				continue
			}
			if _, ok := ins.(*ssa.RunDefers); ok {
				for _, d := range defers {
					db := deferB[d]
					if core.InstrDominates(d, ins) {
						cur.min += db.min
						cur.max += db.max
					} else if core.FindPath(fn, d, isInstr(ins), nil) != nil {
						cur.max += db.max
					}
				}
				continue
			}
			if n := count(ins); n > 0 {
				cur.min += n
				cur.max += n
			}
			// calls of local closures / module functions that contain events
			if c, ok := ins.(*ssa.Call); ok {
				if cal := localCallee(c); cal != nil {
					cb, _ := pathEventBounds(cal, count, depth+1)
					cur.min += cb.min
					cur.max += cb.max
				}
			}
		}
		if cur.max > unbounded {
			cur.max = unbounded
		}
		if cur.min > unbounded {
			cur.min = unbounded
		}
		return cur
	}
	work := []*ssa.BasicBlock{fn.Blocks[0]}
	in[fn.Blocks[0]] = bounds{0, 0}
	have[fn.Blocks[0]] = true
	iter := 0
	for len(work) > 0 && iter < 20000 {
		iter++
		b := work[0]
		work = work[1:]
		o := blockCount(b, in[b])
		if prev, ok := out[b]; ok && prev == o {
			continue
		}
		out[b] = o
		for _, s := range b.Succs {
			ni := o
			if have[s] {
				cur := in[s]
				if cur.min < ni.min {
					ni.min = cur.min
				}
				if cur.max > ni.max {
					ni.max = cur.max
				}
				if ni == cur {
					continue
				}
			}
			have[s] = true
			in[s] = ni
			work = append(work, s)
		}
	}
	first := true
	for _, b := range fn.Blocks {
		if len(b.Instrs) == 0 {
			continue
		}
		if r, ok := b.Instrs[len(b.Instrs)-1].(*ssa.Return); ok {
			o, ok := out[b]
			if !ok {
				continue // unreachable
			}
			perReturn[r] = o
			if first {
				overall = o
				first = false
			} else {
				if o.min < overall.min {
					overall.min = o.min
				}
				if o.max > overall.max {
					overall.max = o.max
				}
			}
		}
	}
	return overall, perReturn
}

func deferCallees(d *ssa.Defer) []*ssa.Function {
	var out []*ssa.Function
	if f := d.Call.StaticCallee(); f != nil {
		// closeOnce.Do(func(){...}): look through sync.Once.Do
		if core.FnName(f) == "(*sync.Once).Do" && len(d.Call.Args) == 2 {
			for _, o := range core.Origins(d.Call.Args[1]) {
				if mc, ok := o.(*ssa.MakeClosure); ok {
					out = append(out, mc.Fn.(*ssa.Function))
				}
			}
			return out
		}
		if f.Blocks != nil && (f.Parent() != nil) {
			out = append(out, f)
		}
		return out
	}
	for _, o := range core.Origins(d.Call.Value) {
		if mc, ok := o.(*ssa.MakeClosure); ok {
			out = append(out, mc.Fn.(*ssa.Function))
		}
	}
	return out
}

// localCallee resolves a call of a function literal (directly or via a local).
func localCallee(c *ssa.Call) *ssa.Function {
	if f := c.Call.StaticCallee(); f != nil {
		if f.Parent() != nil {
			return f
		}
		return nil
	}
	if c.Call.IsInvoke() {
		return nil
	}
	var res *ssa.Function
	for _, o := range core.Origins(c.Call.Value) {
		if mc, ok := o.(*ssa.MakeClosure); ok {
			if res != nil {
				return nil
			}
			res = mc.Fn.(*ssa.Function)
		}
	}
	return res
}

func fmtBounds(b bounds) string {
	mx := fmt.Sprint(b.max)
	if b.max >= unbounded {
		mx = "unbounded"
	}
	return fmt.Sprintf("min=%d max=%s", b.min, mx)
}

// rangeExitGuard: the instruction is reached only through the "channel closed"
// edge (ok == false) of a comma-ok receive on a channel satisfying isCh.
func rangeExitGuard(in ssa.Instruction, isCh func(ssa.Value) bool) bool {
	return hasGuard(in, func(g core.Guard) bool {
		ex, ok := g.Cond.(*ssa.Extract)
		if !ok || ex.Index != 1 || g.Val {
			return false
		}
		rc, ok := ex.Tuple.(*ssa.UnOp)
		return ok && rc.Op == token.ARROW && rc.CommaOk && isCh(rc.X)
	})
}

// findFuncLits returns the function literals (transitively) inside fn that
// satisfy pred.
func findFuncLits(fn *ssa.Function, pred func(*ssa.Function) bool) []*ssa.Function {
	var out []*ssa.Function
	for _, f := range core.WithAnons(fn)[1:] {
		if pred(f) {
			out = append(out, f)
		}
	}
	return out
}

// containsCall reports whether fn (not nested literals) has a call satisfying pred.
func containsCall(fn *ssa.Function, pred ipred) bool {
	found := false
	core.Instrs(fn, func(in ssa.Instruction) {
		if pred(in) {
			found = true
		}
	})
	return found
}

func firstInstr(fn *ssa.Function, pred ipred) ssa.Instruction {
	var res ssa.Instruction
	core.Instrs(fn, func(in ssa.Instruction) {
		if res == nil && pred(in) {
			res = in
		}
	})
	return res
}

func allInstrs(fn *ssa.Function, pred ipred) []ssa.Instruction {
	var res []ssa.Instruction
	core.Instrs(fn, func(in ssa.Instruction) {
		if pred(in) {
			res = append(res, in)
		}
	})
	return res
}

func constantInt64(v constant.Value) (int64, bool) {
	if v.Kind() != constant.Int {
		return 0, false
	}
	return constant.Int64Val(v)
}

// ---- error gating ----------------------------------------------------------------------------

// isResultOf: v is (a copy of, or a merge that includes) the error result of call.
func isResultOf(v ssa.Value, call *ssa.Call) bool {
	return isResultOfDepth(v, call, 3)
}

func isResultOfDepth(v ssa.Value, call *ssa.Call, depth int) bool {
	for _, o := range core.Origins(v) {
		if o == ssa.Value(call) {
			return true
		}
		if ex, ok := o.(*ssa.Extract); ok && ex.Tuple == ssa.Value(call) && ex.Index == call.Call.Signature().Results().Len()-1 {
			return true
		}
		// errors.WithStack(x) and its siblings are nil exactly when x is: the wrapped value stands for x
		if w, ok := o.(*ssa.Call); ok && depth > 0 && w != call && len(w.Call.Args) > 0 && isNilPreservingWrapper(w) {
			if isResultOfDepth(core.StoredHere(w.Call.Args[0]), call, depth-1) {
				return true
			}
		}
	}
	return false
}

func isNilPreservingWrapper(cl *ssa.Call) bool {
	switch core.CalleeName(cl) {
	case "github.com/pkg/errors.WithStack", "github.com/pkg/errors.Wrap", "github.com/pkg/errors.Wrapf",
		"github.com/pkg/errors.WithMessage", "github.com/pkg/errors.WithMessagef":
		return true
	}
	return false
}

// nilOutcomeEdge reports whether the edge b->s is the "is nil" outcome of a
// test of call's error result.
func nilOutcomeEdge(call *ssa.Call, b, s *ssa.BasicBlock) bool {
	if len(b.Instrs) == 0 {
		return false
	}
	ifi, ok := b.Instrs[len(b.Instrs)-1].(*ssa.If)
	if !ok {
		return false
	}
	bo, ok := ifi.Cond.(*ssa.BinOp)
	if !ok || (bo.Op != token.EQL && bo.Op != token.NEQ) {
		return false
	}
	var tested ssa.Value
	if core.IsNilConst(bo.Y) {
		tested = bo.X
	} else if core.IsNilConst(bo.X) {
		tested = bo.Y
	} else {
		return false
	}
	if !isResultOf(tested, call) {
		return false
	}
	return (bo.Op == token.EQL && s == b.Succs[0]) || (bo.Op == token.NEQ && s == b.Succs[1])
}

// ungatedPath searches a path from call to the instruction `to` on which the
// call's error result has neither been found nil nor is handed on by `to`
// itself (a return of that very result: `return f()`, or a result variable
// that holds it on this path). nil means `to` is reached only when the call
// succeeded, or reports the call's own failure.
func ungatedPath(fn *ssa.Function, call *ssa.Call, to ssa.Instruction, avoid func(ssa.Instruction) bool) []ssa.Instruction {
	var phis []*ssa.Phi
	if ret, ok := to.(*ssa.Return); ok && len(ret.Results) > 0 {
		rv := ret.Results[len(ret.Results)-1]
		if _, isPhi := rv.(*ssa.Phi); !isPhi && isResultOf(rv, call) {
			return nil
		}
		seen := map[*ssa.Phi]bool{}
		var walk func(v ssa.Value)
		walk = func(v ssa.Value) {
			if phi, ok := v.(*ssa.Phi); ok && !seen[phi] {
				seen[phi] = true
				phis = append(phis, phi)
				for _, e := range phi.Edges {
					walk(e)
				}
			}
		}
		walk(rv)
	}
	skip := func(b, s *ssa.BasicBlock) bool {
		if nilOutcomeEdge(call, b, s) {
			return true
		}
		for _, phi := range phis {
			if phi.Block() != s {
				continue
			}
			for i, pr := range s.Preds {
				if pr == b && i < len(phi.Edges) {
					if _, isPhi := phi.Edges[i].(*ssa.Phi); !isPhi && isResultOf(phi.Edges[i], call) {
						return true
					}
				}
			}
		}
		return false
	}
	return core.FindPathSkipping(fn, call, isInstr(to), avoid, skip)
}

// ---- comparisons, whatever way round they are written -----------------------------------------

func negateCmp(op token.Token) token.Token {
	switch op {
	case token.EQL:
		return token.NEQ
	case token.NEQ:
		return token.EQL
	case token.LSS:
		return token.GEQ
	case token.GEQ:
		return token.LSS
	case token.GTR:
		return token.LEQ
	case token.LEQ:
		return token.GTR
	}
	return token.ILLEGAL
}

func flipCmp(op token.Token) token.Token {
	switch op {
	case token.LSS:
		return token.GTR
	case token.GTR:
		return token.LSS
	case token.LEQ:
		return token.GEQ
	case token.GEQ:
		return token.LEQ
	}
	return op
}

func impliesCmp(have, want token.Token) bool {
	if have == want {
		return true
	}
	switch want {
	case token.LEQ:
		return have == token.LSS || have == token.EQL
	case token.GEQ:
		return have == token.GTR || have == token.EQL
	case token.NEQ:
		return have == token.LSS || have == token.GTR
	}
	return false
}

// relHolds reports whether the branch outcome g establishes `x op y` for an x
// accepted by px and a y accepted by py - with the comparison written either
// way round and tested in either polarity (`a == b` taken, `a != b` not taken,
// `b == a` ...).
func relHolds(g core.Guard, op token.Token, px, py func(ssa.Value) bool) bool {
	return condHolds(g.Cond, g.Val, op, px, py)
}

func condHolds(cond ssa.Value, val bool, op token.Token, px, py func(ssa.Value) bool) bool {
	if u, ok := cond.(*ssa.UnOp); ok && u.Op == token.NOT {
		return condHolds(u.X, !val, op, px, py)
	}
	bo, ok := cond.(*ssa.BinOp)
	if !ok {
		return false
	}
	est := bo.Op
	if !val {
		est = negateCmp(est)
	}
	if est == token.ILLEGAL {
		return false
	}
	if impliesCmp(est, op) && px(bo.X) && py(bo.Y) {
		return true
	}
	if impliesCmp(flipCmp(est), op) && px(bo.Y) && py(bo.X) {
		return true
	}
	return false
}

// outcomeEdge reports whether the edge b->s is an outcome of b's final branch
// that establishes `x op y` (see relHolds).
func outcomeEdge(b, s *ssa.BasicBlock, op token.Token, px, py func(ssa.Value) bool) bool {
	if len(b.Instrs) == 0 || len(b.Succs) != 2 || b.Succs[0] == b.Succs[1] {
		return false
	}
	ifi, ok := b.Instrs[len(b.Instrs)-1].(*ssa.If)
	if !ok {
		return false
	}
	return condHolds(ifi.Cond, s == b.Succs[0], op, px, py)
}

func isConstInt(k int64) func(ssa.Value) bool {
	return func(v ssa.Value) bool {
		z, ok := core.ConstInt(v)
		return ok && z == k
	}
}

func isField(name string) func(ssa.Value) bool {
	return func(v ssa.Value) bool {
		_, n, ok := core.FieldOf(v)
		return ok && n == name
	}
}

func isVal(want ssa.Value) func(ssa.Value) bool {
	return func(v ssa.Value) bool { return v == want }
}

func anyVal(ssa.Value) bool { return true }

// callsTransitively reports whether fn (with its literals) calls the named
// function directly or through statically resolved calls to functions of the
// same package (helpers), to a small depth.
func callsTransitively(fn *ssa.Function, name string) bool {
	seen := map[*ssa.Function]bool{}
	var walk func(f *ssa.Function, d int) bool
	walk = func(f *ssa.Function, d int) bool {
		if f == nil || seen[f] || d > 4 {
			return false
		}
		seen[f] = true
		if len(core.Calls(f, true, name)) > 0 {
			return true
		}
		found := false
		for _, g := range core.WithAnons(f) {
			core.Instrs(g, func(in ssa.Instruction) {
				if found {
					return
				}
				if cl, ok := in.(ssa.CallInstruction); ok {
					if cal := cl.Common().StaticCallee(); cal != nil && core.PkgPathOf(cal) == core.PkgPathOf(fn) && len(cal.Blocks) > 0 {
						if walk(cal, d+1) {
							found = true
						}
					}
				}
			})
		}
		return found
	}
	return walk(fn, 0)
}

// constCase is one constant a value can take, with the branch outcomes that
// hold when it does.
type constCase struct {
	k      int64
	guards []core.Guard
}

// constCases enumerates the integer constants v can be at instruction at: v
// itself if it is a constant, or the constant leaves of a phi (of phis), each
// with the outcomes that hold on the edge that selects it.
func constCases(v ssa.Value, at ssa.Instruction) []constCase {
	var out []constCase
	seen := map[*ssa.Phi]bool{}
	var walk func(v ssa.Value, guards []core.Guard)
	walk = func(v ssa.Value, guards []core.Guard) {
		v = core.StripConv(v)
		if k, ok := core.ConstInt(v); ok {
			out = append(out, constCase{k, guards})
			return
		}
		phi, ok := v.(*ssa.Phi)
		if !ok || seen[phi] {
			return
		}
		seen[phi] = true
		b := phi.Block()
		for i, e := range phi.Edges {
			if i < len(b.Preds) {
				walk(e, core.EdgeGuards(b.Preds[i], b))
			}
		}
	}
	walk(v, core.Guards(at))
	return out
}

// valueCase is one non-phi value a (possibly merged) value can be, with the
// branch outcomes that hold on the edge that selects it.
type valueCase struct {
	v      ssa.Value
	guards []core.Guard
}

// valueCases enumerates the leaves of a phi (of phis); a non-phi value is its own only case.
func valueCases(v ssa.Value, at ssa.Instruction) []valueCase {
	var out []valueCase
	seen := map[*ssa.Phi]bool{}
	rootVar := ""
	if phi, ok := v.(*ssa.Phi); ok {
		rootVar = phi.Comment
	}
	var walk func(v ssa.Value, guards []core.Guard)
	walk = func(v ssa.Value, guards []core.Guard) {
		phi, ok := v.(*ssa.Phi)
		if !ok || phi.Comment != rootVar {
			// another variable's value (a loop counter assigned to this one) is a leaf as a whole
			out = append(out, valueCase{v, guards})
			return
		}
		if seen[phi] {
			return
		}
		seen[phi] = true
		b := phi.Block()
		for i, e := range phi.Edges {
			if i < len(b.Preds) {
				walk(e, core.EdgeGuards(b.Preds[i], b))
			}
		}
	}
	walk(v, core.Guards(at))
	return out
}

// ---- no-follow discipline -----------------------------------------------------------------------

var treeMutators = []string{"os.Remove", "os.RemoveAll", "os.MkdirAll", "os.Mkdir", "os.Symlink", "os.Rename", "os.OpenFile", "os.Create", "os.Chmod", "os.Truncate",
	"github.com/itchio/screw.Remove", "github.com/itchio/screw.RemoveAll", "github.com/itchio/screw.MkdirAll", "github.com/itchio/screw.Mkdir", "github.com/itchio/screw.Symlink",
	"github.com/itchio/screw.Rename", "github.com/itchio/screw.OpenFile", "github.com/itchio/screw.Create", "github.com/itchio/screw.Truncate"}

// followingStats lists the path-based Stat calls (which follow symbolic links)
// in fn's family - fn's outermost enclosing function with all its literals -
// when that family also changes the tree. What is at a path of a build tree is
// decided with Lstat: a Stat sees the link's target, so a link to a directory
// passes for a directory and a dangling link for nothing.
func followingStats(top *ssa.Function) []*ssa.Call {
	for top.Parent() != nil {
		top = top.Parent()
	}
	isStat := callTo("os.Stat", "github.com/itchio/screw.Stat")
	isMut := callTo(treeMutators...)
	var stats []*ssa.Call
	mut := false
	for _, f := range core.WithAnons(top) {
		core.Instrs(f, func(in ssa.Instruction) {
			if isStat(in) {
				stats = append(stats, in.(*ssa.Call))
			}
			if isMut(in) {
				mut = true
			}
		})
	}
	if !mut {
		return nil
	}
	return stats
}

// ruleNoFollow applies followingStats to every top-level function of the given packages.
func ruleNoFollow(c *core.Ctx, rule string, pkgSuffixes ...string) {
	nFn, nMutFn := 0, 0
	isMut := callTo(treeMutators...)
	for _, fn := range c.P.SrcFuncs() {
		if fn.Parent() != nil {
			continue
		}
		in := false
		for _, sfx := range pkgSuffixes {
			if strings.HasSuffix(core.PkgPathOf(fn), sfx) {
				in = true
			}
		}
		if !in {
			continue
		}
		nFn++
		for _, f := range core.WithAnons(fn) {
			if firstInstr(f, isMut) != nil {
				nMutFn++
				break
			}
		}
		for _, st := range followingStats(fn) {
			c.Bad(rule, core.FnName(st.Parent()), "path-based Stat in a function that changes the tree: "+core.Describe(st.Call.Args[0]), core.InstrPos(st),
				"os.Stat follows symbolic links; the function (with its literals) also removes, creates or renames entries: what is at a path of a build tree must be examined with Lstat, or a link to a directory passes for a directory and a dangling link for nothing")
		}
	}
	c.Floor(rule, "functions that change a tree, in the packages scanned", nMutFn, 3)
	c.Stats[rule+".functions_scanned"] = nFn
}

// ---- error discipline -----------------------------------------------------------------------------

// layerCallee reports whether the callee of c belongs to the storage / wire / bowl layer whose errors
// must not be dropped, with a short name for the report.
func layerCallee(c ssa.CallInstruction) (string, bool) {
	cc := c.Common()
	n := core.CalleeName(c)
	if cc.IsInvoke() {
		tn := core.TypeName(cc.Value.Type())
		m := cc.Method.Name()
		switch {
		case strings.HasSuffix(tn, "lake.Pool") || strings.HasSuffix(tn, "lake.WritablePool"):
			if m != "Close" {
				return tn + "." + m, true
			}
		case strings.HasSuffix(tn, "pwr/bowl.Bowl") || strings.HasSuffix(tn, "pwr/bowl.EntryWriter"):
			if m != "Close" {
				return tn + "." + m, true
			}
		case strings.HasSuffix(tn, "savior.Source") || strings.HasSuffix(tn, "savior.SeekSource"):
			if m == "Resume" || m == "Read" || m == "ReadByte" {
				return tn + "." + m, true
			}
		case strings.HasSuffix(tn, "overlay.OverlayWriter"):
			if m != "Close" {
				return tn + "." + m, true
			}
		}
		return "", false
	}
	switch {
	case strings.HasPrefix(n, "(*wire.ReadContext).") || strings.HasPrefix(n, "(*wire.WriteContext)."):
		if !strings.HasSuffix(n, ".Close") {
			return n, true
		}
	case n == "ctxcopy.Do" || n == "ctxcopy.DoBuffer":
		// (the io.Copy family is left out on purpose: draining and best-effort padding - wsync's lenient
		// ApplySingleFull - drop its error legitimately)
		return n, true
	case strings.HasSuffix(n, "proto.Marshal") || strings.HasSuffix(n, "proto.Unmarshal") || strings.HasSuffix(n, "proto.Buffer).Unmarshal"):
		return n, true
	case n == "pwr.CompressWire" || n == "pwr.DecompressWire" || n == "pwr.ReadSignature" || n == "pwr.ComputeHashInfo":
		return n, true
	case n == "(*os.File).Sync" || n == "(*os.File).Truncate" || n == "(*os.File).Seek" || n == "os.Rename" || n == "github.com/itchio/screw.Rename":
		return n, true
	}
	return "", false
}

// ruleNoDroppedLayerErrors: every call into the storage / wire / bowl layer that returns an error has that
// error looked at: the value is used by something (a test, a return, a wrap, a store that is read). A call
// statement that ignores it, `_ =`, or an assignment that is overwritten before any use all leave the value
// without a user in SSA form.
func ruleNoDroppedLayerErrors(c *core.Ctx, rule string, pkgSuffixes ...string) {
	c.Rule(rule, "no error from the storage / wire / bowl layer is dropped")
	n := 0
	for _, fn := range c.P.SrcFuncs() {
		in := false
		for _, sfx := range pkgSuffixes {
			if strings.HasSuffix(core.PkgPathOf(fn), sfx) {
				in = true
			}
		}
		if !in {
			continue
		}
		core.Instrs(fn, func(ins ssa.Instruction) {
			cl, ok := ins.(*ssa.Call) // go / defer statements cannot look at results
			if !ok {
				return
			}
			name, ok := layerCallee(cl)
			if !ok {
				return
			}
			res := cl.Call.Signature().Results()
			if res.Len() == 0 || !isErrorType(res.At(res.Len()-1).Type()) {
				return
			}
			n++
			var errVal ssa.Value
			if res.Len() == 1 {
				errVal = cl
			} else if refs := cl.Referrers(); refs != nil {
				for _, r := range *refs {
					if ex, ok := r.(*ssa.Extract); ok && ex.Index == res.Len()-1 {
						errVal = ex
					}
				}
			}
			used := false
			if errVal != nil {
				if refs := errVal.Referrers(); refs != nil {
					for _, r := range *refs {
						if _, isDbg := r.(*ssa.DebugRef); !isDbg {
							used = true
						}
					}
				}
			}
			c.Check(used, rule, core.FnName(fn), "error of "+name+" is looked at", core.InstrPos(ins),
				"the error value has a user", "the error returned by "+name+" is dropped (ignored, assigned to _, or overwritten before any use): a failed read or write goes unnoticed and what follows works on garbage")
		})
	}
	c.Floor(rule, "calls into the storage / wire / bowl layer that return an error", n, 30)
}

// ---- append onto an interior sub-slice ---------------------------------------------------------------

// interiorSubslices returns the two-index slice expressions a[lo:hi] with lo > 0 (or not constant) and no
// capacity limit that can be the destination of the append call c - directly, through phis, or through a map
// the function keeps such slices in. Appending to one writes into a[hi], which still belongs to whoever
// holds the rest of a: a neighbour's element is overwritten without any error.
func interiorSubslices(c *ssa.Call) []*ssa.Slice {
	if b, ok := c.Call.Value.(*ssa.Builtin); !ok || b.Name() != "append" || len(c.Call.Args) == 0 {
		return nil
	}
	fn := c.Parent()
	var out []*ssa.Slice
	seen := map[ssa.Value]bool{}
	var walk func(v ssa.Value, d int)
	walk = func(v ssa.Value, d int) {
		if v == nil || seen[v] || d > 6 {
			return
		}
		seen[v] = true
		for _, o := range core.Origins(v) {
			switch x := o.(type) {
			case *ssa.Slice:
				if x.Max != nil {
					continue // capacity limited: append reallocates
				}
				if _, isArr := x.X.Type().Underlying().(*types.Pointer); isArr {
					// slicing an array pointer (make lowered to new [n]T, or a local array)
					if x.Low == nil {
						continue
					}
				}
				if x.Low == nil {
					continue // a prefix a[:n]: the usual reuse-from-the-start idiom
				}
				if z, isC := core.ConstInt(x.Low); isC && z == 0 {
					continue
				}
				if x.High == nil {
					continue // a[lo:]: runs to the end, append reallocates or extends the owner's own tail
				}
				out = append(out, x)
			case *ssa.Lookup:
				// an element of a map: whatever the function stores into that map
				core.Instrs(fn, func(in ssa.Instruction) {
					if mu, ok := in.(*ssa.MapUpdate); ok && (mu.Map == x.X || sameVal(mu.Map, x.X)) {
						walk(mu.Value, d+1)
					}
				})
			case *ssa.Extract:
				if lk, ok := x.Tuple.(*ssa.Lookup); ok && x.Index == 0 {
					core.Instrs(fn, func(in ssa.Instruction) {
						if mu, ok := in.(*ssa.MapUpdate); ok && (mu.Map == lk.X || sameVal(mu.Map, lk.X)) {
							walk(mu.Value, d+1)
						}
					})
				}
			case *ssa.Call:
				// the result of an earlier append to the same thing
				if b, ok := x.Call.Value.(*ssa.Builtin); ok && b.Name() == "append" && len(x.Call.Args) > 0 {
					walk(x.Call.Args[0], d+1)
				}
			}
		}
	}
	walk(c.Call.Args[0], 0)
	return out
}

// ruleNoAppendToInteriorSubslice applies interiorSubslices to every append of the given packages.
func ruleNoAppendToInteriorSubslice(c *core.Ctx, rule string, pkgSuffixes ...string) {
	c.Rule(rule, "no append onto an interior sub-slice of a shared array")
	n := 0
	for _, fn := range c.P.SrcFuncs() {
		in := false
		for _, sfx := range pkgSuffixes {
			if strings.HasSuffix(core.PkgPathOf(fn), sfx) {
				in = true
			}
		}
		if !in {
			continue
		}
		core.Instrs(fn, func(ins ssa.Instruction) {
			cl, ok := ins.(*ssa.Call)
			if !ok {
				return
			}
			if b, ok := cl.Call.Value.(*ssa.Builtin); !ok || b.Name() != "append" {
				return
			}
			n++
			for _, sl := range interiorSubslices(cl) {
				c.Bad(rule, core.FnName(fn), "append onto "+core.Describe(sl), core.InstrPos(ins),
					"the destination of this append can be the interior sub-slice "+core.Describe(sl)+" (no capacity limit): the append writes into the next element of the underlying array, which belongs to another holder - its entry is silently overwritten")
			}
		})
	}
	c.Floor(rule, "append calls in the packages scanned", n, 5)
}

// ruleNoSwallowedLayerErrors: a failed call into the storage / wire / bowl layer never leads to a successful
// return of the calling function: every success return is reachable from the call only through the nil
// outcome of its error (or hands that error on). Tolerated: an explicit comparison of the error with io.EOF
// on the way (end of input is a normal outcome for readers).
func ruleNoSwallowedLayerErrors(c *core.Ctx, rule string, extra func(ssa.CallInstruction) (string, bool), pkgSuffixes ...string) {
	c.Rule(rule, "a failed storage / wire / bowl call never ends in success")
	n := 0
	for _, fn := range c.P.SrcFuncs() {
		in := false
		for _, sfx := range pkgSuffixes {
			if strings.HasSuffix(core.PkgPathOf(fn), sfx) {
				in = true
			}
		}
		if !in {
			continue
		}
		res := fn.Signature.Results()
		if res.Len() == 0 || !isErrorType(res.At(res.Len()-1).Type()) {
			continue // nothing to report failure with: R10.err's business
		}
		var succ []core.ReturnSite
		first := true
		core.Instrs(fn, func(ins ssa.Instruction) {
			cl, ok := ins.(*ssa.Call)
			if !ok {
				return
			}
			name, ok := layerCallee(cl)
			if !ok && extra != nil {
				name, ok = extra(cl)
			}
			if !ok {
				return
			}
			r := cl.Call.Signature().Results()
			if r.Len() == 0 || !isErrorType(r.At(r.Len()-1).Type()) {
				return
			}
			if first {
				succ, first = successReturns(fn), false
			}
			n++
			// end of input is not a failure: drop the paths that compare this error with io.EOF
			isEOFTest := func(x ssa.Instruction) bool {
				bo, ok := x.(*ssa.BinOp)
				if !ok || (bo.Op != token.EQL && bo.Op != token.NEQ) {
					return false
				}
				isEOF := func(v ssa.Value) bool {
					ld, ok := v.(*ssa.UnOp)
					if !ok || ld.Op != token.MUL {
						return false
					}
					g, ok := ld.X.(*ssa.Global)
					return ok && (strings.HasSuffix(g.String(), "io.EOF") || strings.HasSuffix(g.String(), "io.ErrUnexpectedEOF"))
				}
				return isEOF(bo.X) || isEOF(bo.Y)
			}
			if why := swallowException(core.FnName(fn), name); why != "" {
				c.Ok(rule, core.FnName(fn), "failure of "+name+" does not end in success", core.InstrPos(ins), "confirmed exception: "+why)
				return
			}
			for _, rs := range succ {
				p := ungatedPath(fn, cl, rs.Ret, isEOFTest)
				if p != nil {
					c.Bad(rule, core.FnName(fn), "failure of "+name+" does not end in success", core.InstrPos(ins),
						"a success return is reachable from this call without its error having been found nil (and without handing it on): the failure is swallowed and the caller goes on with incomplete data").Path = c.P.PathStrings(p)
					return
				}
			}
			c.Ok(rule, core.FnName(fn), "failure of "+name+" does not end in success", core.InstrPos(ins), "every success return is behind the nil outcome")
		})
	}
	c.Floor(rule, "error-returning layer calls in functions that return an error", n, 30)
}

// swallowException: the call sites, confirmed by reading, where a failed call legitimately ends in success.
func swallowException(fn, callee string) string {
	table := []struct{ fn, callee, why string }{
		{"(*pwr.ValidatorContext).validate", "lake.Pool.GetReader", "a file that cannot be opened is reported as a whole-file wound, which is the validator's answer, not a failure of validation"},
		{"(*pwr/bowl.overlayBowl).move", "screw.Rename", "a failed rename falls back to copy + remove"},
		{"(*wsync.Context).ApplySingleFull", "lake.Pool.GetReadSeeker", "lenient (not fail-fast) application pads the range with zeroes; the patcher only uses the fail-fast entry point"},
	}
	for _, e := range table {
		if strings.HasPrefix(fn, e.fn) && strings.HasSuffix(callee, e.callee) {
			return e.why
		}
	}
	return ""
}


// isLitAlloc: the cell of a composite literal - `complit` / `new` in go/ssa's naming, or the result temporary
// (__rN) into which the normaliser's expansion of a helper or literal builds the value it returns.
func isLitAlloc(a *ssa.Alloc) bool {
	return a.Comment == "complit" || a.Comment == "new" || strings.HasPrefix(a.Comment, "__r")
}
