package probe

import (
	"bytes"
	"context"
	"os"
	"path/filepath"
	"testing"
	"time"

	"github.com/itchio/headway/state"
	"github.com/itchio/wharf/archiver"
	"github.com/itchio/wharf/pwr"
)

// C06: directory replaced by a file, hiding a subtree
func TestHealDirReplacedByFile(t *testing.T) {
	errs := 0
	var last error
	for i := 0; i < 20; i++ {
		dir := t.TempDir()
		build := filepath.Join(dir, "build")
		writeFile(t, build, "a/b/c/file", randBytes(9, 5000))
		writeFile(t, build, "a/b/other", randBytes(10, 5000))
		writeFile(t, build, "top", randBytes(11, 5000))
		c, h := sign(t, build)

		zipPath := filepath.Join(dir, "build.zip")
		zf, err := os.Create(zipPath)
		must(t, err)
		_, err = archiver.CompressZip(zf, build, &state.Consumer{})
		must(t, err)
		must(t, zf.Close())

		must(t, os.RemoveAll(filepath.Join(build, "a")))
		must(t, os.WriteFile(filepath.Join(build, "a"), []byte("i am a file now"), 0o644))

		v := &pwr.ValidatorContext{HealPath: "archive," + zipPath, Consumer: &state.Consumer{}}
		err = v.Validate(context.Background(), build, &pwr.SignatureInfo{Container: c, Hashes: h})
		if err != nil {
			errs++
			last = err
		}
	}
	t.Logf("heal of dir-replaced-by-file failed %d/20 times; last err: %v", errs, last)
}

// C16: zip target with a corrupt deflate stream
func TestValidateCorruptZipHangs(t *testing.T) {
	dir := t.TempDir()
	build := filepath.Join(dir, "build")
	// compressible content so that deflate actually has structure
	writeFile(t, build, "a", bytes.Repeat([]byte("hello wharf, hello wharf. "), 20000))
	c, h := sign(t, build)
	zipBuf := new(bytes.Buffer)
	_, err := archiver.CompressZip(zipBuf, build, &state.Consumer{})
	must(t, err)
	raw := zipBuf.Bytes()
	// corrupt a run of bytes in the middle of the (single) entry's compressed data
	for i := len(raw) / 2; i < len(raw)/2+64; i++ {
		raw[i] ^= 0xff
	}
	zipPath := filepath.Join(dir, "build.zip")
	must(t, os.WriteFile(zipPath, raw, 0o644))

	v := &pwr.ValidatorContext{FailFast: true, Consumer: &state.Consumer{}}
	done := make(chan error, 1)
	go func() { done <- v.Validate(context.Background(), zipPath, &pwr.SignatureInfo{Container: c, Hashes: h}) }()
	select {
	case err := <-done:
		t.Logf("validate returned: %v", err)
	case <-time.After(5 * time.Second):
		t.Logf("validate of a zip with corrupt deflate data did NOT return within 5s (deadlock)")
	}
}

// C19: entry counts with several workers (run with -race)
func TestExtractZipCounts(t *testing.T) {
	dir := t.TempDir()
	build := filepath.Join(dir, "build")
	n := 400
	for i := 0; i < n; i++ {
		writeFile(t, build, filepath.Join("d", string(rune('a'+i%26)), "f"+string(rune('a'+i/26))), []byte{byte(i)})
	}
	zipBuf := new(bytes.Buffer)
	_, err := archiver.CompressZip(zipBuf, build, &state.Consumer{})
	must(t, err)
	out := filepath.Join(dir, "out")
	res, err := archiver.ExtractZip(bytes.NewReader(zipBuf.Bytes()), int64(zipBuf.Len()), out, archiver.ExtractSettings{Consumer: &state.Consumer{}, Concurrency: 8})
	must(t, err)
	t.Logf("files=%d (expected %d) dirs=%d", res.Files, n, res.Dirs)
}
