package rules

import (
	"go/token"
	"go/types"
	"strings"

	"golang.org/x/tools/go/ssa"

	"wharfverif/checker/internal/core"
)

// ruleHiddenSubtrees is R06.7. Lstat looks at the last component of a path only; every component before it
// is resolved through whatever is there. When a directory of the build is found to be missing or to be
// something else - a symbolic link to another directory with the same children, say - every entry the build
// has below it is examined *through* that something, and may look perfectly healthy; the healer then puts an
// empty directory in its place and nothing below it is ever re-made. For the verdict about a directory to
// reach the examination of what lies below it there must be (1) some state written where a directory is
// found broken (in the branch that emits the DIR wound), and (2) a branch on that state in front of every
// examination of an entry of the build (Lstat / Readlink / opening the file through the pool) in the
// validator. The rule decides that information flow, not the prefix arithmetic of the test.
func ruleHiddenSubtrees(c *core.Ctx, rule string) {
	c.Rule(rule, "entries below a directory found broken are not examined through it")
	V := c.P.Fn("pwr", "ValidatorContext.Validate")
	W := c.P.Fn("pwr", "ValidatorContext.validate")
	if V == nil || W == nil {
		c.Missing(rule, "pwr.(*ValidatorContext).Validate / validate", "not found")
		return
	}
	vname := core.FnName(V)
	dirKind, ok := woundKinds(c.P)["DIR"]
	if !ok {
		c.Missing(rule, "pwr.WoundKind_DIR", "not found")
		return
	}
	// (1) state written where a DIR wound is made
	state := map[ssa.Value]bool{}
	var firstLit *ssa.Alloc
	nLits := 0
	stateRoot := func(addr ssa.Value) ssa.Value {
		switch x := addr.(type) {
		case *ssa.Alloc:
			if !isLitAlloc(x) {
				return x
			}
		case *ssa.FreeVar:
			if r, ok := core.CellRoot(x).(*ssa.Alloc); ok {
				return r
			}
		case *ssa.IndexAddr:
			for _, o := range core.Origins(x.X) {
				switch o.(type) {
				case *ssa.MakeSlice, *ssa.Alloc:
					return o
				}
			}
		}
		return nil
	}
	sameGuards := func(a, b *ssa.BasicBlock) bool {
		ga, gb := core.BlockGuards(a), core.BlockGuards(b)
		if len(ga) != len(gb) {
			return false
		}
		for _, x := range ga {
			found := false
			for _, y := range gb {
				if x.Cond == y.Cond && x.Val == y.Val {
					found = true
				}
			}
			if !found {
				return false
			}
		}
		return true
	}
	for _, wl := range woundLits(c.P) {
		if wl.kind != dirKind || family(wl.fn) != V {
			continue
		}
		nLits++
		if firstLit == nil || wl.alloc.Pos() < firstLit.Pos() {
			firstLit = wl.alloc
		}
		for _, b := range wl.fn.Blocks {
			if b != wl.alloc.Block() && !sameGuards(b, wl.alloc.Block()) {
				continue
			}
			if b != wl.alloc.Block() && !(b.Dominates(wl.alloc.Block()) || wl.alloc.Block().Dominates(b)) {
				continue
			}
			for _, in := range b.Instrs {
				switch x := in.(type) {
				case *ssa.Store:
					if r := stateRoot(x.Addr); r != nil && core.TypeName(r.Type()) != "pwr.Wound" {
						state[r] = true
					}
				case *ssa.MapUpdate:
					for _, o := range core.Origins(x.Map) {
						state[o] = true
					}
				}
			}
		}
	}
	c.Floor(rule, "DIR wound literals in Validate", nLits, 1)
	if firstLit == nil {
		return
	}
	// the loop variables of the directory pass are written in every iteration: they are not a record
	for r := range state {
		if a, ok := r.(*ssa.Alloc); ok && a.Parent() != nil {
			// a cell that is never read by anything but the block that wrote it records nothing
			read := false
			for _, u := range core.CellUses(a) {
				if ld, ok := u.(*ssa.UnOp); ok && ld.Op == token.MUL {
					read = true
				}
			}
			if !read {
				delete(state, r)
			}
		}
	}
	if len(state) == 0 {
		c.Bad(rule, vname, "finding a directory broken is recorded", firstLit.Pos(),
			"where the directory pass emits a DIR wound nothing else is written: the verdict cannot reach the examination of the entries below that directory. With the directory replaced by a symbolic link to a sibling that has the same children, the sub-directories, links and files below it are examined through the link and found healthy; the healer replaces the link by an empty directory; healing reports success and the tree is invalid")
		return
	}
	c.Ok(rule, vname, "finding a directory broken is recorded", firstLit.Pos(), "state written next to the DIR wound")
	// per literal: see below, once "depends on the record" is defined
	// (2) every examination is behind a branch on that state
	readsState := map[*ssa.Function]bool{}
	var fnReads func(f *ssa.Function) bool
	fnReads = func(f *ssa.Function) bool {
		if v, ok := readsState[f]; ok {
			return v
		}
		readsState[f] = false
		res := false
		for _, g := range core.WithAnons(f) {
			core.Instrs(g, func(in ssa.Instruction) {
				ld, ok := in.(*ssa.UnOp)
				if !ok || ld.Op != token.MUL {
					return
				}
				if state[core.CellRoot(ld.X)] {
					res = true
				}
				for _, o := range core.Origins(ld) {
					if state[o] {
						res = true
					}
				}
			})
		}
		readsState[f] = res
		return res
	}
	var callersArgs func(p *ssa.Parameter) []ssa.Value
	callersArgs = func(p *ssa.Parameter) []ssa.Value {
		var out []ssa.Value
		f := p.Parent()
		idx := -1
		for i, q := range f.Params {
			if q == p {
				idx = i
			}
		}
		if idx < 0 {
			return nil
		}
		for _, g := range c.P.SrcFuncs() {
			core.Instrs(g, func(in ssa.Instruction) {
				cl, ok := in.(ssa.CallInstruction)
				if !ok || cl.Common().StaticCallee() != f {
					return
				}
				args := cl.Common().Args
				if idx < len(args) {
					out = append(out, args[idx])
				}
			})
		}
		return out
	}
	var dep func(v ssa.Value, depth int, seen map[ssa.Value]bool) bool
	dep = func(v ssa.Value, depth int, seen map[ssa.Value]bool) bool {
		if v == nil || seen[v] || depth > 8 {
			return false
		}
		seen[v] = true
		for _, o := range core.Origins(v) {
			if state[o] {
				return true
			}
			switch x := o.(type) {
			case *ssa.UnOp:
				if x.Op == token.MUL && state[core.CellRoot(x.X)] {
					return true
				}
				if dep(x.X, depth+1, seen) {
					return true
				}
			case *ssa.BinOp:
				if dep(x.X, depth+1, seen) || dep(x.Y, depth+1, seen) {
					return true
				}
			case *ssa.Lookup:
				if dep(x.X, depth+1, seen) {
					return true
				}
			case *ssa.IndexAddr:
				if dep(x.X, depth+1, seen) {
					return true
				}
			case *ssa.Extract:
				if dep(x.Tuple, depth+1, seen) {
					return true
				}
			case *ssa.Call:
				for _, fo := range core.Origins(x.Call.Value) {
					switch f := fo.(type) {
					case *ssa.MakeClosure:
						if fnReads(f.Fn.(*ssa.Function)) {
							return true
						}
					case *ssa.Function:
						if f.Blocks != nil && fnReads(f) {
							return true
						}
					case *ssa.Parameter:
						for _, a := range callersArgs(f) {
							for _, ao := range core.Origins(a) {
								if mc, ok := ao.(*ssa.MakeClosure); ok && fnReads(mc.Fn.(*ssa.Function)) {
									return true
								}
							}
						}
					}
				}
				for _, a := range x.Call.Args {
					if dep(a, depth+1, seen) {
						return true
					}
				}
			}
		}
		return false
	}
	isExam := func(in ssa.Instruction) (string, bool) {
		cl, ok := in.(*ssa.Call)
		if !ok {
			return "", false
		}
		if cl.Call.IsInvoke() {
			m := cl.Call.Method.Name()
			if (m == "GetReader" || m == "GetReadSeeker") && strings.HasSuffix(core.TypeName(cl.Call.Value.Type()), "lake.Pool") {
				return "lake.Pool." + m, true
			}
			return "", false
		}
		switch n := core.CalleeName(cl); n {
		case "os.Lstat", "os.Stat", "os.Readlink", "os.Open", "github.com/itchio/screw.Lstat", "github.com/itchio/screw.Stat", "github.com/itchio/screw.Readlink", "github.com/itchio/screw.Open":
			// of an entry of the build, not of the target itself
			for _, a := range cl.Call.Args {
				if dependsOnEntryPath(a, 0, map[ssa.Value]bool{}) {
					return n, true
				}
			}
		}
		return "", false
	}
	// every DIR wound made because of what was found at the path records it; the ones made because a
	// directory above is already on record need not
	nl := 0
	for _, wl := range woundLits(c.P) {
		if wl.kind != dirKind || family(wl.fn) != V {
			continue
		}
		nl++
		writes := false
		for _, in := range wl.alloc.Block().Instrs {
			switch x := in.(type) {
			case *ssa.Store:
				if r := stateRoot(x.Addr); r != nil && state[r] {
					writes = true
				}
			case *ssa.MapUpdate:
				for _, o := range core.Origins(x.Map) {
					if state[o] {
						writes = true
					}
				}
			}
		}
		if !writes {
			// in a block with the same guards, before or after
			for _, b := range wl.fn.Blocks {
				if b == wl.alloc.Block() || !sameGuards(b, wl.alloc.Block()) || !(b.Dominates(wl.alloc.Block()) || wl.alloc.Block().Dominates(b)) {
					continue
				}
				for _, in := range b.Instrs {
					if st, ok := in.(*ssa.Store); ok {
						if r := stateRoot(st.Addr); r != nil && state[r] {
							writes = true
						}
					}
				}
			}
		}
		// made without looking at the path (because of the record itself): no examination comes before it
		already := true
		core.Instrs(wl.fn, func(in ssa.Instruction) {
			if _, isEx := isExam(in); isEx && core.InstrDominates(in, wl.alloc) {
				already = false
			}
		})
		already = already && hasGuard(wl.alloc, func(g core.Guard) bool { return dep(g.Cond, 0, map[ssa.Value]bool{}) })
		// nothing at the path at all (the examination failed): what is below it cannot be found either,
		// a record is not needed
		failed := hasGuard(wl.alloc, func(g core.Guard) bool {
			bo, ok := g.Cond.(*ssa.BinOp)
			if !ok || (bo.Op != token.NEQ && bo.Op != token.EQL) || (bo.Op == token.NEQ) != g.Val {
				return false
			}
			var other ssa.Value
			if core.IsNilConst(bo.Y) {
				other = bo.X
			} else if core.IsNilConst(bo.X) {
				other = bo.Y
			}
			return other != nil && isErrorType(other.Type())
		})
		c.Check(writes || already || failed, rule, vname, "DIR wound #"+ordinalOf(wl.fn, wl.alloc, func(in ssa.Instruction) bool {
			a, ok := in.(*ssa.Alloc)
			return ok && core.TypeName(a.Type()) == "pwr.Wound" && isLitAlloc(a)
		})+" leaves a record", wl.alloc.Pos(),
			"the branch that makes this wound writes the broken-directory record (or was taken because of it)",
			"this way of finding a directory broken is not recorded: the entries below it are still examined through whatever stands in its place")
	}
	nSites := 0
	for _, top := range []*ssa.Function{V, W} {
		for _, f := range core.WithAnons(top) {
			core.Instrs(f, func(in ssa.Instruction) {
				name, ok := isExam(in)
				if !ok {
					return
				}
				nSites++
				guarded := hasGuard(in, func(g core.Guard) bool { return dep(g.Cond, 0, map[ssa.Value]bool{}) })
				c.Check(guarded, rule, core.FnName(f), "examination by "+name+" is behind a test of the broken-directory record", core.InstrPos(in),
					"dominated by a branch whose condition reads what the directory pass recorded",
					"this entry of the build is looked at without asking whether a directory above it was found broken: through a link that stands where the directory should be it can look healthy, and it is gone once the healer has put a directory there")
			})
		}
	}
	c.Floor(rule, "examinations of build entries in the validator", nSites, 4)
	// (3) ... and what is not looked at is reported: from either outcome of a test of the record, the next entry
	// (the next turn of the loop, or a success return) is reached only through an examination or through a wound
	// being sent. An entry below a broken directory that is merely passed over is never healed: a nested empty
	// directory does not "come back with what is in it".
	sendsWound := func(f *ssa.Function) bool {
		found := false
		core.Instrs(f, func(in ssa.Instruction) {
			if isWoundSend(in) {
				found = true
			}
		})
		return found
	}
	isReport := func(in ssa.Instruction) bool {
		if isWoundSend(in) {
			return true
		}
		if cl, ok := in.(*ssa.Call); ok {
			if f := calledFunc(cl); f != nil && f.Blocks != nil && strings.HasSuffix(core.PkgPathOf(f), "/pwr") && sendsWound(f) {
				return true
			}
		}
		return false
	}
	nTests := 0
	for _, top := range []*ssa.Function{V, W} {
		for _, f := range core.WithAnons(top) {
			succ := map[ssa.Instruction]bool{}
			for _, rs := range successReturns(f) {
				succ[rs.Ret] = true
			}
			// only where entries are dealt with: a function that neither examines nor reports anything (the helper
			// that answers "is this path below a broken directory?") decides nothing about an entry
			deals := false
			core.Instrs(f, func(in ssa.Instruction) {
				if _, isEx := isExam(in); isEx || isReport(in) {
					deals = true
				}
			})
			if !deals {
				continue
			}
			core.Instrs(f, func(in ssa.Instruction) {
				ifi, ok := in.(*ssa.If)
				if !ok || !dep(ifi.Cond, 0, map[ssa.Value]bool{}) || len(ifi.Block().Succs) != 2 {
					return
				}
				nTests++
				for side := 0; side < 2; side++ {
					keep := ifi.Block().Succs[side]
					skip := func(b, s2 *ssa.BasicBlock) bool { return b == ifi.Block() && s2 != keep }
					to := func(x ssa.Instruction) bool {
						if _, isNext := x.(*ssa.Next); isNext {
							return true
						}
						return x == ssa.Instruction(ifi) || succ[x]
					}
					avoid := func(x ssa.Instruction) bool {
						if _, isEx := isExam(x); isEx {
							return true
						}
						return isReport(x)
					}
					p := core.FindPathSkipping(f, ifi, to, avoid, skip)
					what := "outcome true"
					if side == 1 {
						what = "outcome false"
					}
					c.Check(p == nil, rule, core.FnName(f), "after a test of the broken-directory record ("+what+") the entry is examined or reported", core.InstrPos(ifi),
						"the next entry is reached only through an examination or a wound being sent",
						"an entry can be passed over without being looked at and without a wound: what lies below a broken directory is then never reported - an empty directory nested below a missing or replaced one is not made again by the healer, healing returns without error and the tree does not validate").Path = c.P.PathStrings(p)
				}
			})
		}
	}
	c.Floor(rule, "tests of the broken-directory record", nTests, 2)
}

// dependsOnEntryPath: the value is computed from the Path field of a container entry.
func dependsOnEntryPath(v ssa.Value, depth int, seen map[ssa.Value]bool) bool {
	if v == nil || seen[v] || depth > 8 {
		return false
	}
	seen[v] = true
	for _, o := range core.Origins(v) {
		if _, n, ok := core.FieldOf(o); ok && n == "Path" {
			return true
		}
		switch x := o.(type) {
		case *ssa.Call:
			for _, a := range x.Call.Args {
				if dependsOnEntryPath(a, depth+1, seen) {
					return true
				}
			}
		case *ssa.BinOp:
			if dependsOnEntryPath(x.X, depth+1, seen) || dependsOnEntryPath(x.Y, depth+1, seen) {
				return true
			}
		case *ssa.Slice:
			if dependsOnEntryPath(x.X, depth+1, seen) {
				return true
			}
		case *ssa.UnOp:
			if dependsOnEntryPath(x.X, depth+1, seen) {
				return true
			}
		case *ssa.IndexAddr:
			if dependsOnEntryPath(x.X, depth+1, seen) {
				return true
			}
		case *ssa.Alloc:
			// the array behind variadic arguments: what was stored into its elements
			if refs := x.Referrers(); refs != nil {
				for _, r := range *refs {
					ia, ok := r.(*ssa.IndexAddr)
					if !ok {
						continue
					}
					if irefs := ia.Referrers(); irefs != nil {
						for _, ir := range *irefs {
							if st, ok := ir.(*ssa.Store); ok && st.Addr == ssa.Value(ia) && dependsOnEntryPath(st.Val, depth+1, seen) {
								return true
							}
						}
					}
				}
			}
		}
	}
	return false
}

// isWoundSend: a wound goes out on a channel here - a plain send, or a send case of a select.
func isWoundSend(in ssa.Instruction) bool {
	switch x := in.(type) {
	case *ssa.Send:
		return core.TypeName(x.X.Type()) == "pwr.Wound"
	case *ssa.Select:
		for _, st := range x.States {
			if st.Dir == types.SendOnly && st.Send != nil && core.TypeName(st.Send.Type()) == "pwr.Wound" {
				return true
			}
		}
	}
	return false
}
