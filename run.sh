#!/bin/bash
# Usage: ./run.sh <property-id> [quick|thorough]      decide one property on /repo's current tree
#        ./run.sh -replay <file>                     re-evaluate one obligation
#        ./run.sh build                              (re)build the checker
# Static analysis only: nothing here runs wharf code or its tests.
set -u
cd "$(dirname "$0")"
VERIF="$(pwd)"
export GOFLAGS=-mod=mod GOPROXY=off
unset GOWORK GOSUMDB GOTOOLCHAIN
BIN="$VERIF/.bin/wharfcheck"
build() {
  mkdir -p "$VERIF/.bin"
  # rebuild when any checker source is newer than the binary
  if [ ! -x "$BIN" ] || [ -n "$(find "$VERIF/checker" -name '*.go' -newer "$BIN" -print -quit)" ] || [ "$VERIF/checker/go.mod" -nt "$BIN" ]; then
    (cd "$VERIF/checker" && go build -o "$BIN" ./cmd/wharfcheck) || { echo "BROKEN: checker does not build" >&2; exit 2; }
  fi
  # the fixtures module needs the repository's go.sum (replace => /repo)
  if [ -f /repo/go.sum ]; then cp /repo/go.sum "$VERIF/fixtures/go.sum" 2>/dev/null || true; fi
}
case "${1:-}" in
  build) build; exit 0 ;;
  -replay) build; exec "$BIN" -verif "$VERIF" -replay "$2" ;;
  "") echo "usage: $0 <property-id> [quick|thorough]" >&2; exit 2 ;;
esac
PROP="$1"; TIER="${2:-quick}"
build
REPO="${WHARF_REPO:-/repo}"
if [ "${VERIF_TIER:-}" = thorough ]; then TIER=thorough; fi
if [ "$TIER" = thorough ]; then
  exec "$VERIF/selftest.sh" "$PROP"
fi
exec "$BIN" -prop "$PROP" -tier "$TIER" -repo "$REPO" -verif "$VERIF" ${VERIF_VERBOSE:+-v}
