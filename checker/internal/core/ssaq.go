package core

import (
	"fmt"
	"go/constant"
	"go/token"
	"go/types"
	"strings"

	"golang.org/x/tools/go/ssa"
)

// ---- iteration ----------------------------------------------------------------

// WithAnons returns fn followed by all (transitively) nested function literals.
func WithAnons(fn *ssa.Function) []*ssa.Function {
	if fn == nil {
		return nil
	}
	out := []*ssa.Function{fn}
	for _, a := range fn.AnonFuncs {
		out = append(out, WithAnons(a)...)
	}
	return out
}

// Instrs calls f for every instruction of fn (not of nested literals).
func Instrs(fn *ssa.Function, f func(ssa.Instruction)) {
	if fn == nil {
		return
	}
	for _, b := range fn.Blocks {
		for _, in := range b.Instrs {
			f(in)
		}
	}
}

// idxIn returns the index of in within its block.
func idxIn(in ssa.Instruction) int {
	for i, x := range in.Block().Instrs {
		if x == in {
			return i
		}
	}
	return -1
}

// ---- callee naming --------------------------------------------------------------

func stripMod(s string) string { return strings.ReplaceAll(s, Mod+"/", "") }

// CalleeName names the callee of a call: static functions and methods as
// "(*os.File).Sync", "io.Copy", "pwr.ComputeBlockSize"; interface calls as
// "(github.com/itchio/lake.Pool).GetReader"; calls of closures bound to a local
// as "closure:<Func name>"; other dynamic calls as "dyn:<description>".
func CalleeName(c ssa.CallInstruction) string {
	cc := c.Common()
	if cc.IsInvoke() {
		return canonTypes(stripMod(cc.Method.FullName()))
	}
	if fn := cc.StaticCallee(); fn != nil {
		if fn.Parent() != nil {
			return "closure:" + FnName(fn)
		}
		return FnName(fn)
	}
	if b, ok := cc.Value.(*ssa.Builtin); ok {
		return "builtin:" + b.Name()
	}
	return "dyn:" + Describe(cc.Value)
}

// IsCallTo reports whether c calls one of the named callees.
func IsCallTo(c ssa.CallInstruction, names ...string) bool {
	n := CalleeName(c)
	for _, x := range names {
		if n == x {
			return true
		}
	}
	return false
}

// Calls lists the call instructions (call, go, defer) in fn whose callee name is
// one of names; if names is empty, all calls. Nested literals are included when
// deep is set.
func Calls(fn *ssa.Function, deep bool, names ...string) []ssa.CallInstruction {
	var out []ssa.CallInstruction
	fns := []*ssa.Function{fn}
	if deep {
		fns = WithAnons(fn)
	}
	for _, f := range fns {
		Instrs(f, func(in ssa.Instruction) {
			if c, ok := in.(ssa.CallInstruction); ok {
				if len(names) == 0 || IsCallTo(c, names...) {
					out = append(out, c)
				}
			}
		})
	}
	return out
}

// CallsMatching lists calls whose callee name satisfies pred.
func CallsMatching(fn *ssa.Function, deep bool, pred func(name string, c ssa.CallInstruction) bool) []ssa.CallInstruction {
	var out []ssa.CallInstruction
	for _, c := range Calls(fn, deep) {
		if pred(CalleeName(c), c) {
			out = append(out, c)
		}
	}
	return out
}

// ---- description of values ----------------------------------------------------------

// Describe renders a value as a short source-like expression, independent of
// line numbers; used in obligation keys and diagnostics.
func Describe(v ssa.Value) string { return describe(v, 0) }

func describe(v ssa.Value, depth int) string {
	if v == nil {
		return "<nil>"
	}
	if depth > 6 {
		return "…"
	}
	d := func(x ssa.Value) string { return describe(x, depth+1) }
	switch v := v.(type) {
	case *ssa.Parameter:
		return v.Name()
	case *ssa.FreeVar:
		return v.Name()
	case *ssa.Global:
		return stripMod(v.String())
	case *ssa.Function:
		return FnName(v)
	case *ssa.Const:
		if v.Value == nil {
			return "nil"
		}
		return v.Value.String()
	case *ssa.Alloc:
		switch v.Comment {
		case "", "complit", "new", "varargs", "makeslice", "slicelit":
			return "new(" + types.TypeString(deref(v.Type()), shortQual) + ")"
		}
		return v.Comment
	case *ssa.FieldAddr:
		return d(v.X) + "." + fieldName(v.X.Type(), v.Field)
	case *ssa.Field:
		return d(v.X) + "." + fieldName(v.X.Type(), v.Field)
	case *ssa.UnOp:
		switch v.Op {
		case token.MUL:
			return d(v.X)
		case token.ARROW:
			return "<-" + d(v.X)
		}
		return v.Op.String() + d(v.X)
	case *ssa.BinOp:
		return d(v.X) + " " + v.Op.String() + " " + d(v.Y)
	case *ssa.IndexAddr:
		return d(v.X) + "[" + d(v.Index) + "]"
	case *ssa.Index:
		return d(v.X) + "[" + d(v.Index) + "]"
	case *ssa.Lookup:
		return d(v.X) + "[" + d(v.Index) + "]"
	case *ssa.Slice:
		s := d(v.X) + "["
		if v.Low != nil {
			s += d(v.Low)
		}
		s += ":"
		if v.High != nil {
			s += d(v.High)
		}
		return s + "]"
	case *ssa.Convert:
		return d(v.X)
	case *ssa.ChangeType:
		return d(v.X)
	case *ssa.ChangeInterface:
		return d(v.X)
	case *ssa.MakeInterface:
		return d(v.X)
	case *ssa.Extract:
		return d(v.Tuple) + fmt.Sprintf("#%d", v.Index)
	case *ssa.Call:
		return CalleeName(v) + "(…)"
	case *ssa.Phi:
		if v.Comment != "" {
			return v.Comment
		}
		return "phi"
	case *ssa.MakeClosure:
		return "func:" + FnName(v.Fn.(*ssa.Function))
	case *ssa.TypeAssert:
		return d(v.X) + ".(" + types.TypeString(v.AssertedType, shortQual) + ")"
	case *ssa.MakeSlice:
		return "make(" + types.TypeString(v.Type(), shortQual) + ", " + d(v.Len) + ")"
	case *ssa.MakeMap:
		return "make(" + types.TypeString(v.Type(), shortQual) + ")"
	case *ssa.MakeChan:
		return "make(" + types.TypeString(v.Type(), shortQual) + ")"
	case *ssa.Select:
		return "select"
	case *ssa.Range:
		return "range " + d(v.X)
	case *ssa.Next:
		return "next(" + d(v.Iter) + ")"
	}
	return v.Name()
}

func shortQual(p *types.Package) string { return p.Name() }

func deref(t types.Type) types.Type {
	if p, ok := t.Underlying().(*types.Pointer); ok {
		return p.Elem()
	}
	return t
}

func fieldName(t types.Type, i int) string {
	t = deref(t)
	if s, ok := t.Underlying().(*types.Struct); ok && i < s.NumFields() {
		return FieldNameOf(t, s.Field(i))
	}
	return fmt.Sprintf("f%d", i)
}

// FieldOf returns (base, field name) when v is a load of / address of / value
// of a struct field; ok is false otherwise.
func FieldOf(v ssa.Value) (base ssa.Value, name string, ok bool) {
	switch x := v.(type) {
	case *ssa.UnOp:
		if x.Op == token.MUL {
			return FieldOf(x.X)
		}
	case *ssa.FieldAddr:
		return x.X, fieldName(x.X.Type(), x.Field), true
	case *ssa.Field:
		return x.X, fieldName(x.X.Type(), x.Field), true
	}
	return nil, "", false
}

// TypeName renders the (pointer-stripped) named type of t as "pkg.Name".
func TypeName(t types.Type) string {
	t = deref(t)
	if n, ok := t.(*types.Named); ok {
		if n.Obj().Pkg() != nil {
			name := n.Obj().Name()
			if curAliases != nil {
				if o, ok := curAliases.TypeOld[n.Obj().Pkg().Path()+" "+name]; ok {
					name = o
				}
			}
			return stripMod(n.Obj().Pkg().Path()) + "." + name
		}
		return n.Obj().Name()
	}
	return types.TypeString(t, shortQual)
}

// ---- constants ---------------------------------------------------------------------

// ConstInt returns the integer value of v if v is an integer constant (through
// conversions).
func ConstInt(v ssa.Value) (int64, bool) {
	v = StripConv(v)
	if c, ok := v.(*ssa.Const); ok && c.Value != nil && c.Value.Kind() == constant.Int {
		i, exact := constant.Int64Val(c.Value)
		return i, exact
	}
	return 0, false
}

// IsNilConst reports whether v is the constant nil.
func IsNilConst(v ssa.Value) bool {
	c, ok := v.(*ssa.Const)
	return ok && c.IsNil()
}

// ConstBool returns the value of a boolean constant.
func ConstBool(v ssa.Value) (bool, bool) {
	if c, ok := v.(*ssa.Const); ok && c.Value != nil && c.Value.Kind() == constant.Bool {
		return constant.BoolVal(c.Value), true
	}
	return false, false
}

// StripConv removes value-preserving wrappers: conversions, interface boxing,
// type changes.
func StripConv(v ssa.Value) ssa.Value {
	for {
		switch x := v.(type) {
		case *ssa.Convert:
			v = x.X
		case *ssa.ChangeType:
			v = x.X
		case *ssa.ChangeInterface:
			v = x.X
		case *ssa.MakeInterface:
			v = x.X
		default:
			return v
		}
	}
}

// ---- memory cells (locals captured by closures, named results) ---------------------------

// CellRoot resolves a free variable to the value bound to it in the enclosing
// function (transitively); other values are returned unchanged.
func CellRoot(v ssa.Value) ssa.Value {
	for {
		fv, ok := v.(*ssa.FreeVar)
		if !ok {
			return v
		}
		fn := fv.Parent()
		idx := -1
		for i, f := range fn.FreeVars {
			if f == fv {
				idx = i
			}
		}
		par := fn.Parent()
		if par == nil || idx < 0 {
			return v
		}
		var bound ssa.Value
		Instrs(par, func(in ssa.Instruction) {
			if mc, ok := in.(*ssa.MakeClosure); ok && mc.Fn == fn && idx < len(mc.Bindings) {
				bound = mc.Bindings[idx]
			}
		})
		if bound == nil {
			return v
		}
		v = bound
	}
}

// CellUses returns every instruction, in the defining function and in all
// closures that capture it, that refers to the cell root (an *ssa.Alloc or other
// pointer value) directly.
func CellUses(root ssa.Value) []ssa.Instruction {
	var out []ssa.Instruction
	var visit func(v ssa.Value)
	seen := map[ssa.Value]bool{}
	visit = func(v ssa.Value) {
		if seen[v] {
			return
		}
		seen[v] = true
		refs := v.Referrers()
		if refs == nil {
			return
		}
		for _, in := range *refs {
			if mc, ok := in.(*ssa.MakeClosure); ok {
				for i, b := range mc.Bindings {
					if b == v {
						visit(mc.Fn.(*ssa.Function).FreeVars[i])
					}
				}
				continue
			}
			out = append(out, in)
		}
	}
	visit(root)
	return out
}

// CellStores returns the values stored directly into the cell (flow-insensitive).
func CellStores(root ssa.Value) []*ssa.Store {
	var out []*ssa.Store
	for _, in := range CellUses(root) {
		if st, ok := in.(*ssa.Store); ok && CellRoot(st.Addr) == root {
			out = append(out, st)
		}
	}
	return out
}

// Origins expands v to the set of values it may be a copy of: through
// conversions, phis, and loads of local cells (all values ever stored, flow-
// insensitively). The result contains no Phi, Convert or local-cell loads.
func Origins(v ssa.Value) []ssa.Value {
	var out []ssa.Value
	seen := map[ssa.Value]bool{}
	var walk func(v ssa.Value)
	walk = func(v ssa.Value) {
		v = StripConv(v)
		if seen[v] {
			return
		}
		seen[v] = true
		switch x := v.(type) {
		case *ssa.Phi:
			for _, e := range x.Edges {
				walk(e)
			}
			return
		case *ssa.UnOp:
			if x.Op == token.MUL {
				root := CellRoot(x.X)
				if a, ok := root.(*ssa.Alloc); ok {
					sts := CellStores(a)
					if len(sts) > 0 {
						for _, st := range sts {
							walk(st.Val)
						}
						return
					}
				}
			}
		}
		out = append(out, v)
	}
	walk(v)
	return out
}

// ---- dominance, guards, reachability -----------------------------------------------------

// InstrDominates reports whether a is executed before b on every path to b.
func InstrDominates(a, b ssa.Instruction) bool {
	if a.Block() == b.Block() {
		return idxIn(a) < idxIn(b)
	}
	return a.Block().Dominates(b.Block())
}

// Guard is a branch outcome that every path to some point has taken.
type Guard struct {
	Cond ssa.Value
	Val  bool // the outcome of Cond on the dominating edge
	If   *ssa.If
}

type fnInfo struct {
	// unreach[ifBlockIndex*2+side] = set of blocks unreachable when that edge is removed
	edgeCut map[*ssa.BasicBlock][2]map[*ssa.BasicBlock]bool
}

var fnInfos = map[*ssa.Function]*fnInfo{}

// tnode is a node of the jump-threaded view of a function's control-flow
// graph: a basic block, or (only >= 0) the copy of a block entered over an edge
// that decides the block's final branch - a branch on a phi of this block whose
// incoming value on that edge is a constant (or a known non-nil error). Such a
// copy has the single successor Succs[only]. The view removes the infeasible
// paths that a merged result variable (`err` set on several paths and tested
// after the merge, the result of an expanded helper) would otherwise add.
type tnode struct {
	b    *ssa.BasicBlock
	only int
	bk   int // which incoming edge the flag-like phis passed so far took (an interned set, see pathsens.go)
}

type edgeKey struct{ from, to *ssa.BasicBlock }

var threadMemo = map[edgeKey]int{}

// threadOutcome returns the successor index of s that control takes when s is
// entered from p, or -1 when the edge does not decide it.
func threadOutcome(p, s *ssa.BasicBlock) int {
	k := edgeKey{p, s}
	if v, ok := threadMemo[k]; ok {
		return v
	}
	threadMemo[k] = -1 // cycles: undecided
	v := threadOutcome1(p, s)
	threadMemo[k] = v
	return v
}

func threadOutcome1(p, s *ssa.BasicBlock) int {
	if len(s.Instrs) == 0 || len(s.Succs) != 2 || s.Succs[0] == s.Succs[1] {
		return -1
	}
	ifi, ok := s.Instrs[len(s.Instrs)-1].(*ssa.If)
	if !ok {
		return -1
	}
	idx := -1
	n := 0
	for i, pr := range s.Preds {
		if pr == p {
			idx = i
			n++
		}
	}
	if idx < 0 || n != 1 {
		return -1
	}
	var eval func(c ssa.Value) (val, known bool)
	eval = func(c ssa.Value) (bool, bool) {
		c = StoredHere(c)
		switch c := c.(type) {
		case *ssa.Phi:
			if c.Block() != s || idx >= len(c.Edges) {
				return false, false
			}
			return ConstBool(c.Edges[idx])
		case *ssa.UnOp:
			if c.Op == token.NOT {
				v, ok := eval(c.X)
				return !v, ok
			}
		case *ssa.BinOp:
			if c.Op != token.EQL && c.Op != token.NEQ {
				return false, false
			}
			var other ssa.Value
			if IsNilConst(c.Y) {
				other = c.X
			} else if IsNilConst(c.X) {
				other = c.Y
			} else {
				return false, false
			}
			phi, ok := StoredHere(other).(*ssa.Phi)
			if !ok || phi.Block() != s || idx >= len(phi.Edges) {
				return false, false
			}
			in := phi.Edges[idx]
			if IsNilConst(in) {
				return c.Op == token.EQL, true
			}
			if _, isPhi := in.(*ssa.Phi); isPhi {
				return false, false
			}
			if possible, known := MayBeNil(in); known && !possible {
				return c.Op == token.NEQ, true
			}
			// tested on the way in
			for _, g := range append(directGuardsOfEdge(p, s), plainGuards(p)...) {
				bo, ok := g.Cond.(*ssa.BinOp)
				if !ok || (bo.Op != token.EQL && bo.Op != token.NEQ) {
					continue
				}
				var t ssa.Value
				if IsNilConst(bo.Y) {
					t = bo.X
				} else if IsNilConst(bo.X) {
					t = bo.Y
				}
				if t != nil && t == in {
					isNil := (bo.Op == token.EQL) == g.Val
					return (c.Op == token.EQL) == isNil, true
				}
			}
		}
		return false, false
	}
	v, known := eval(ifi.Cond)
	if !known {
		// the same comparison was already decided on the way in (a second `err != nil` after
		// `if err != nil && ...`): go/ssa does not share the two, the operands are the same values
		// (not when the tested value is computed anew on entering s from something s itself merges - a loop
		// header's own condition over its induction phi: the earlier outcome is about the previous round)
		var stale func(v ssa.Value, d int) bool
		stale = func(v ssa.Value, d int) bool {
			in, ok := v.(ssa.Instruction)
			if !ok || in.Block() != s || d > 6 {
				return false
			}
			if _, isPhi := v.(*ssa.Phi); isPhi {
				return true
			}
			var ops []*ssa.Value
			for _, op := range in.Operands(ops) {
				if op != nil && *op != nil && stale(*op, d+1) {
					return true
				}
			}
			return false
		}
		if !stale(ifi.Cond, 0) {
			for _, g := range append(directGuardsOfEdge(p, s), plainGuards(p)...) {
				if same, inv := SameCond(g.Cond, ifi.Cond); same {
					v, known = g.Val != inv, true
					break
				}
			}
		}
	}
	if !known {
		return -1
	}
	if v {
		return 0
	}
	return 1
}

// SameCond reports whether two conditions always have the same value (same
// comparison of the same operands), or always opposite values (inv).
func SameCond(a, b ssa.Value) (same, inv bool) {
	if a == b {
		return true, false
	}
	if u, ok := a.(*ssa.UnOp); ok && u.Op == token.NOT {
		s, i := SameCond(u.X, b)
		return s, !i
	}
	if u, ok := b.(*ssa.UnOp); ok && u.Op == token.NOT {
		s, i := SameCond(a, u.X)
		return s, !i
	}
	x, ok1 := a.(*ssa.BinOp)
	y, ok2 := b.(*ssa.BinOp)
	if !ok1 || !ok2 {
		return false, false
	}
	sameOps := func(p, q ssa.Value) bool {
		if p == q {
			return true
		}
		cp, ok1 := p.(*ssa.Const)
		cq, ok2 := q.(*ssa.Const)
		if ok1 && ok2 {
			if cp.Value == nil || cq.Value == nil {
				return cp.Value == nil && cq.Value == nil && types.Identical(cp.Type(), cq.Type())
			}
			return cp.Value.ExactString() == cq.Value.ExactString() && types.Identical(cp.Type(), cq.Type())
		}
		return false
	}
	neg := map[token.Token]token.Token{token.EQL: token.NEQ, token.NEQ: token.EQL, token.LSS: token.GEQ, token.GEQ: token.LSS, token.GTR: token.LEQ, token.LEQ: token.GTR}
	flip := map[token.Token]token.Token{token.EQL: token.EQL, token.NEQ: token.NEQ, token.LSS: token.GTR, token.GTR: token.LSS, token.LEQ: token.GEQ, token.GEQ: token.LEQ}
	if _, isCmp := neg[x.Op]; !isCmp {
		return false, false
	}
	if _, isCmp := neg[y.Op]; !isCmp {
		return false, false
	}
	if sameOps(x.X, y.X) && sameOps(x.Y, y.Y) {
		if x.Op == y.Op {
			return true, false
		}
		if neg[x.Op] == y.Op {
			return true, true
		}
	}
	if sameOps(x.X, y.Y) && sameOps(x.Y, y.X) {
		if flip[x.Op] == y.Op {
			return true, false
		}
		if neg[flip[x.Op]] == y.Op {
			return true, true
		}
	}
	return false, false
}

// directGuardsOfEdge: the final branch of p, if the edge p->s is one of its outcomes.
func directGuardsOfEdge(p, s *ssa.BasicBlock) []Guard {
	if len(p.Instrs) == 0 {
		return nil
	}
	if ifi, ok := p.Instrs[len(p.Instrs)-1].(*ssa.If); ok && len(p.Succs) == 2 && p.Succs[0] != p.Succs[1] {
		return []Guard{{Cond: ifi.Cond, Val: p.Succs[0] == s, If: ifi}}
	}
	return nil
}

var plainInfos = map[*ssa.Function]map[*ssa.BasicBlock][]Guard{}

// plainGuards: edge dominance on the plain (unthreaded) graph; used while the
// threaded view itself is being built.
func plainGuards(b *ssa.BasicBlock) []Guard {
	fn := b.Parent()
	if m, ok := plainInfos[fn]; ok {
		return m[b]
	}
	m := map[*ssa.BasicBlock][]Guard{}
	plainInfos[fn] = m
	reach := func(cutFrom, cutTo *ssa.BasicBlock) map[*ssa.BasicBlock]bool {
		seen := map[*ssa.BasicBlock]bool{fn.Blocks[0]: true}
		stack := []*ssa.BasicBlock{fn.Blocks[0]}
		for len(stack) > 0 {
			x := stack[len(stack)-1]
			stack = stack[:len(stack)-1]
			for _, t := range x.Succs {
				if x == cutFrom && t == cutTo {
					continue
				}
				if !seen[t] {
					seen[t] = true
					stack = append(stack, t)
				}
			}
		}
		return seen
	}
	all := reach(nil, nil)
	for _, d := range fn.Blocks {
		if len(d.Instrs) == 0 || len(d.Succs) != 2 || d.Succs[0] == d.Succs[1] {
			continue
		}
		ifi, ok := d.Instrs[len(d.Instrs)-1].(*ssa.If)
		if !ok {
			continue
		}
		for side := 0; side < 2; side++ {
			r := reach(d, d.Succs[side])
			for x := range all {
				if !r[x] {
					m[x] = append(m[x], Guard{Cond: ifi.Cond, Val: side == 0, If: ifi})
				}
			}
		}
	}
	return m[b]
}

func (n tnode) succs() []tnode {
	var out []tnode
	bd := bindSets[n.bk]
	targets := n.b.Succs
	if n.only >= 0 {
		targets = []*ssa.BasicBlock{n.b.Succs[n.only]}
	} else if len(bd) > 0 && len(n.b.Succs) == 2 && n.b.Succs[0] != n.b.Succs[1] {
		if ifi, ok := n.b.Instrs[len(n.b.Instrs)-1].(*ssa.If); ok {
			if v, known := evalCondBinds(ifi.Cond, bd, 0); known {
				if v {
					targets = []*ssa.BasicBlock{n.b.Succs[0]}
				} else {
					targets = []*ssa.BasicBlock{n.b.Succs[1]}
				}
			}
		}
	}
	for _, t := range targets {
		out = append(out, tnode{t, threadOutcome(n.b, t), stepBinds(n.bk, n.b, t)})
	}
	return out
}

func reachableFromEntry(fn *ssa.Function, cutFrom, cutTo *ssa.BasicBlock) map[*ssa.BasicBlock]bool {
	reached := map[*ssa.BasicBlock]bool{}
	if len(fn.Blocks) == 0 {
		return reached
	}
	seen := map[tnode]bool{}
	start := tnode{fn.Blocks[0], -1, 0}
	stack := []tnode{start}
	seen[start] = true
	reached[start.b] = true
	for len(stack) > 0 {
		n := stack[len(stack)-1]
		stack = stack[:len(stack)-1]
		for _, s := range n.succs() {
			if n.b == cutFrom && s.b == cutTo {
				continue
			}
			if !seen[s] {
				seen[s] = true
				reached[s.b] = true
				stack = append(stack, s)
			}
		}
	}
	return reached
}

func infoOf(fn *ssa.Function) *fnInfo {
	if fi, ok := fnInfos[fn]; ok {
		return fi
	}
	fi := &fnInfo{edgeCut: map[*ssa.BasicBlock][2]map[*ssa.BasicBlock]bool{}}
	all := reachableFromEntry(fn, nil, nil)
	for _, b := range fn.Blocks {
		if len(b.Instrs) == 0 {
			continue
		}
		if _, ok := b.Instrs[len(b.Instrs)-1].(*ssa.If); !ok {
			continue
		}
		var sides [2]map[*ssa.BasicBlock]bool
		for s := 0; s < 2; s++ {
			sides[s] = map[*ssa.BasicBlock]bool{}
			if b.Succs[0] == b.Succs[1] {
				continue
			}
			r := reachableFromEntry(fn, b, b.Succs[s])
			for x := range all {
				if !r[x] {
					sides[s][x] = true
				}
			}
		}
		fi.edgeCut[b] = sides
	}
	fnInfos[fn] = fi
	return fi
}

// directGuards returns the branch outcomes that dominate block b (edge dominance:
// b is unreachable from the entry once that edge is removed).
func directGuards(b *ssa.BasicBlock) []Guard {
	fi := infoOf(b.Parent())
	var out []Guard
	for _, d := range b.Parent().Blocks {
		sides, ok := fi.edgeCut[d]
		if !ok {
			continue
		}
		ifi := d.Instrs[len(d.Instrs)-1].(*ssa.If)
		if sides[0][b] {
			out = append(out, Guard{Cond: ifi.Cond, Val: true, If: ifi})
		}
		if sides[1][b] {
			out = append(out, Guard{Cond: ifi.Cond, Val: false, If: ifi})
		}
	}
	return out
}

type guardKey struct {
	c ssa.Value
	v bool
}

var (
	expGuards = map[*ssa.BasicBlock][]Guard{}
	expBusy   = map[*ssa.BasicBlock]bool{}
	// expBusyHits counts the expansions cut short because the block was already being expanded
	expBusyHits int
)

// maxGuardNesting bounds how deep the expansion of implied guards follows merged values into the guards of
// their incoming edges. In a large loop body every block is on a cycle through every other and the
// unbounded expansion is exponential (wsync.ComputeDiff: minutes); implications that need more than this
// many merges in a row are not derived (the guard lists get shorter, never longer).
var maxGuardNesting = 5

// BlockGuards returns the branch outcomes that hold whenever block b runs:
// the outcomes of dominating edges, plus what those imply. A branch on a
// value that merges several outcomes (a boolean or error phi: `ok := a && b`,
// the result variable of an expanded helper, `err` set on several paths)
// implies whatever holds on every incoming edge that can produce the tested
// outcome.
func BlockGuards(b *ssa.BasicBlock) []Guard {
	if g, ok := expGuards[b]; ok {
		return g
	}
	direct := directGuards(b)
	if expBusy[b] || len(expBusy) >= maxGuardNesting {
		expBusyHits++
		return direct
	}
	hits0 := expBusyHits
	expBusy[b] = true
	out := append([]Guard{}, direct...)
	seen := map[guardKey]bool{}
	for _, g := range out {
		seen[guardKey{g.Cond, g.Val}] = true
	}
	for i := 0; i < len(out) && i < 400; i++ {
		for _, d := range deriveGuards(out[i]) {
			k := guardKey{d.Cond, d.Val}
			if !seen[k] {
				seen[k] = true
				out = append(out, d)
			}
		}
	}
	delete(expBusy, b)
	// a result computed without running into a block that is still being expanded does not depend on
	// where the expansion started: it can be kept even when this call is a nested one
	if len(expBusy) == 0 || expBusyHits == hits0 {
		expGuards[b] = out
	}
	return out
}

// EdgeGuards returns what holds when control passes from block from to its
// successor to.
func EdgeGuards(from, to *ssa.BasicBlock) []Guard {
	out := append([]Guard{}, BlockGuards(from)...)
	if len(from.Instrs) > 0 {
		if ifi, ok := from.Instrs[len(from.Instrs)-1].(*ssa.If); ok && from.Succs[0] != from.Succs[1] {
			out = append(out, Guard{Cond: ifi.Cond, Val: from.Succs[0] == to, If: ifi})
		}
	}
	return out
}

func deriveGuards(g Guard) []Guard {
	switch c := g.Cond.(type) {
	case *ssa.UnOp:
		if c.Op == token.NOT {
			return []Guard{{Cond: c.X, Val: !g.Val, If: g.If}}
		}
	case *ssa.Phi:
		return phiImplied(c, g, func(v ssa.Value, eg []Guard) (possible bool, extra *Guard) {
			if k, ok := ConstBool(v); ok {
				return k == g.Val, nil
			}
			for _, x := range eg {
				if x.Cond == v && x.Val != g.Val {
					return false, nil
				}
			}
			return true, &Guard{Cond: v, Val: g.Val, If: g.If}
		})
	case *ssa.BinOp:
		if c.Op != token.EQL && c.Op != token.NEQ {
			return nil
		}
		var other ssa.Value
		if IsNilConst(c.Y) {
			other = c.X
		} else if IsNilConst(c.X) {
			other = c.Y
		} else {
			return nil
		}
		phi, ok := StoredHere(other).(*ssa.Phi)
		if !ok {
			return nil
		}
		wantNil := (c.Op == token.EQL) == g.Val
		return phiImplied(phi, g, func(v ssa.Value, eg []Guard) (bool, *Guard) {
			if IsNilConst(v) {
				return wantNil, nil
			}
			// decided by a test of the same value on the way in
			for _, x := range eg {
				if bo, ok := x.Cond.(*ssa.BinOp); ok && (bo.Op == token.EQL || bo.Op == token.NEQ) {
					var tested ssa.Value
					if IsNilConst(bo.Y) {
						tested = bo.X
					} else if IsNilConst(bo.X) {
						tested = bo.Y
					}
					if tested != nil && tested == v {
						isNil := (bo.Op == token.EQL) == x.Val
						return isNil == wantNil, nil
					}
				}
			}
			if _, isPhi := v.(*ssa.Phi); !isPhi {
				if possible, known := MayBeNil(v); known && !possible {
					return !wantNil, nil
				}
			}
			return true, nil
		})
	}
	return nil
}

// phiImplied intersects the guards of the incoming edges of phi that can
// produce the outcome tested by g.
func phiImplied(phi *ssa.Phi, g Guard, classify func(v ssa.Value, eg []Guard) (bool, *Guard)) []Guard {
	b := phi.Block()
	var acc []Guard
	first := true
	for i, v := range phi.Edges {
		if i >= len(b.Preds) {
			break
		}
		eg := EdgeGuards(b.Preds[i], b)
		ok, extra := classify(v, eg)
		if !ok {
			continue
		}
		if extra != nil {
			eg = append(eg, *extra)
		}
		if first {
			acc = eg
			first = false
			continue
		}
		keep := acc[:0:0]
		for _, a := range acc {
			for _, e := range eg {
				if a.Cond == e.Cond && a.Val == e.Val {
					keep = append(keep, a)
					break
				}
			}
		}
		acc = keep
	}
	return acc
}

// Guards returns the branch outcomes that dominate instruction in.
func Guards(in ssa.Instruction) []Guard { return BlockGuards(in.Block()) }

// FindPath searches a control-flow path inside one function from instruction
// `from` (exclusive; nil means the function entry) to an instruction satisfying
// `to`, never stepping over an instruction satisfying `avoid`. It returns the
// blocks of one such path, or nil if none exists.
func FindPath(fn *ssa.Function, from ssa.Instruction, to, avoid func(ssa.Instruction) bool) []ssa.Instruction {
	return FindPathSkipping(fn, from, to, avoid, nil)
}

// FindPathSkipping is FindPath on the CFG with the edges for which skipEdge
// returns true removed.
func FindPathSkipping(fn *ssa.Function, from ssa.Instruction, to, avoid func(ssa.Instruction) bool, skipEdge func(from, to *ssa.BasicBlock) bool) []ssa.Instruction {
	type node struct {
		t    tnode
		prev *node
	}
	if len(fn.Blocks) == 0 {
		return nil
	}
	scan := func(pred, b *ssa.BasicBlock, start int) (found ssa.Instruction, blocked bool) {
		for i := start; i < len(b.Instrs); i++ {
			in := b.Instrs[i]
			if to(in) {
				if ret, ok := in.(*ssa.Return); ok && pred != nil && successTargets[ret] && ReturnEdgeFails(pred, ret) {
					// a success return is wanted, and over this edge the return reports a failure
					continue
				}
				return in, false
			}
			if avoid != nil && avoid(in) {
				return nil, true
			}
		}
		return nil, false
	}
	var start *node
	seen := map[tnode]bool{}
	var queue []*node
	if from == nil {
		start = &node{t: tnode{fn.Blocks[0], -1, 0}}
		seen[start.t] = true
		if f, blocked := scan(nil, start.t.b, 0); f != nil {
			return []ssa.Instruction{f}
		} else if blocked {
			return nil
		}
	} else {
		// the block of `from` is entered in the middle: its final branch is open
		start = &node{t: tnode{from.Block(), -1, 0}}
		if f, blocked := scan(nil, start.t.b, idxIn(from)+1); f != nil {
			return []ssa.Instruction{from, f}
		} else if blocked {
			return nil
		}
	}
	queue = append(queue, start)
	for len(queue) > 0 {
		n := queue[0]
		queue = queue[1:]
		for _, s := range n.t.succs() {
			if seen[s] {
				continue
			}
			if skipEdge != nil && skipEdge(n.t.b, s.b) {
				continue
			}
			seen[s] = true
			nn := &node{t: s, prev: n}
			f, blocked := scan(n.t.b, s.b, 0)
			if f != nil {
				var path []ssa.Instruction
				path = append(path, f)
				for x := nn; x != nil; x = x.prev {
					if len(x.t.b.Instrs) > 0 && x != nn {
						path = append(path, x.t.b.Instrs[len(x.t.b.Instrs)-1])
					}
				}
				// reverse
				for i, j := 0, len(path)-1; i < j; i, j = i+1, j-1 {
					path[i], path[j] = path[j], path[i]
				}
				return path
			}
			if blocked {
				continue
			}
			queue = append(queue, nn)
		}
	}
	return nil
}

var successTargets = map[*ssa.Return]bool{}

// MarkSuccessTarget declares that path searches ending at ret look for
// successful ends: ret does not count when it is entered over an edge on which
// it returns a known non-nil error (a result variable merged from several paths).
func MarkSuccessTarget(ret *ssa.Return) { successTargets[ret] = true }

// ReturnEdgeFails reports whether ret, entered from block pred, returns a known
// non-nil error as its last result.
func ReturnEdgeFails(pred *ssa.BasicBlock, ret *ssa.Return) bool {
	if len(ret.Results) == 0 {
		return false
	}
	phi, ok := ret.Results[len(ret.Results)-1].(*ssa.Phi)
	b := ret.Block()
	if !ok || phi.Block() != b {
		return false
	}
	idx, n := -1, 0
	for i, pr := range b.Preds {
		if pr == pred {
			idx = i
			n++
		}
	}
	if idx < 0 || n != 1 || idx >= len(phi.Edges) {
		return false
	}
	in := phi.Edges[idx]
	if IsNilConst(in) {
		return false
	}
	if _, isPhi := in.(*ssa.Phi); isPhi {
		return false
	}
	if possible, known := MayBeNil(in); known && !possible {
		return true
	}
	for _, g := range append(directGuardsOfEdge(pred, b), plainGuards(pred)...) {
		bo, ok := g.Cond.(*ssa.BinOp)
		if !ok || (bo.Op != token.EQL && bo.Op != token.NEQ) {
			continue
		}
		var t ssa.Value
		if IsNilConst(bo.Y) {
			t = bo.X
		} else if IsNilConst(bo.X) {
			t = bo.Y
		}
		if t != nil && t == in && (bo.Op == token.NEQ) == g.Val {
			return true
		}
	}
	return false
}

// PathStrings renders a path for diagnostics.
func (p *Prog) PathStrings(path []ssa.Instruction) []string {
	var out []string
	for _, in := range path {
		out = append(out, fmt.Sprintf("%s: %s", p.Pos(InstrPos(in)), in.String()))
	}
	return out
}

// InstrPos returns the best available source position for an instruction.
func InstrPos(in ssa.Instruction) token.Pos {
	if in == nil {
		return token.NoPos
	}
	if p := in.Pos(); p.IsValid() {
		return p
	}
	// fall back to operands / neighbours in the block
	if v, ok := in.(ssa.Value); ok {
		_ = v
	}
	b := in.Block()
	i := idxIn(in)
	for j := i; j >= 0; j-- {
		if p := b.Instrs[j].Pos(); p.IsValid() {
			return p
		}
	}
	for j := i; j < len(b.Instrs); j++ {
		if p := b.Instrs[j].Pos(); p.IsValid() {
			return p
		}
	}
	return in.Parent().Pos()
}

// ---- returns -----------------------------------------------------------------------------

// ReturnSite describes one return instruction with the value of one result as
// it was assigned right before the return (named results that are spilled to a
// cell because a deferred closure captures them are resolved to the value
// stored in the returning block when there is one).
type ReturnSite struct {
	Ret *ssa.Return
	Val ssa.Value // nil if the function has no such result
	// Spilled is true when the result lives in a cell that deferred closures can
	// rewrite after this point.
	Spilled bool
}

// Returns lists the return sites of fn for result index k (negative k counts
// from the end: -1 is the last result, typically the error).
func Returns(fn *ssa.Function, k int) []ReturnSite {
	var out []ReturnSite
	n := fn.Signature.Results().Len()
	if k < 0 {
		k = n + k
	}
	for _, b := range fn.Blocks {
		if len(b.Instrs) == 0 {
			continue
		}
		ret, ok := b.Instrs[len(b.Instrs)-1].(*ssa.Return)
		if !ok {
			continue
		}
		// the block go/ssa adds for "a deferred call recovered from a panic" is a return only when some
		// deferred call of this function can recover
		if b == fn.Recover && !mayRecover(fn) {
			continue
		}
		rs := ReturnSite{Ret: ret}
		if k >= 0 && k < len(ret.Results) {
			v := ret.Results[k]
			rs.Val = v
			if ld, ok := v.(*ssa.UnOp); ok && ld.Op == token.MUL {
				if a, ok := ld.X.(*ssa.Alloc); ok {
					rs.Spilled = true
					// last store to the cell in this block before the return
					for i := len(b.Instrs) - 1; i >= 0; i-- {
						if st, ok := b.Instrs[i].(*ssa.Store); ok && st.Addr == a {
							rs.Val = st.Val
							break
						}
					}
				}
			}
		}
		out = append(out, rs)
	}
	return out
}

// MayBeNil reports whether the (error) value v can be nil as far as a purely
// local inspection can tell: constant nil, or a phi / cell with a nil source.
// Values produced by calls are treated as non-nil only when they are direct
// results of the usual error constructors; anything else is "unknown" and
// reported as may-be-nil = unknown (second result false).
func MayBeNil(v ssa.Value) (nilPossible bool, known bool) {
	if v == nil {
		return false, true
	}
	all := Origins(v)
	anyUnknown := false
	for _, o := range all {
		if IsNilConst(o) {
			return true, true
		}
		if c, ok := o.(*ssa.Call); ok {
			n := CalleeName(c)
			if strings.HasPrefix(n, "github.com/pkg/errors.") || n == "fmt.Errorf" || n == "errors.New" {
				// errors.WithStack(nil) is nil, but it is only ever called on the error path here;
				// callers that care inspect the argument themselves.
				continue
			}
		}
		switch x := o.(type) {
		case *ssa.Global, *ssa.Alloc, *ssa.MakeClosure, *ssa.Function:
			continue
		case *ssa.UnOp:
			// a package-level error variable (werrors.ErrCancelled, ErrStop, io.EOF)
			if _, ok := x.X.(*ssa.Global); ok && x.Op == token.MUL {
				continue
			}
		}
		anyUnknown = true
	}
	if anyUnknown {
		return true, false
	}
	return false, true
}

var mayRecoverMemo = map[*ssa.Function]bool{}

// mayRecover reports whether fn defers something that (as far as can be seen: literals and static callees,
// two levels) calls the builtin recover.
func mayRecover(fn *ssa.Function) bool {
	if v, ok := mayRecoverMemo[fn]; ok {
		return v
	}
	res := false
	var calls func(f *ssa.Function, depth int) bool
	calls = func(f *ssa.Function, depth int) bool {
		if f == nil || f.Blocks == nil {
			return f != nil && depth < 2 // a deferred call into code we cannot see: assume it may
		}
		found := false
		Instrs(f, func(in ssa.Instruction) {
			c, ok := in.(ssa.CallInstruction)
			if !ok {
				return
			}
			if b, ok := c.Common().Value.(*ssa.Builtin); ok && b.Name() == "recover" {
				found = true
				return
			}
			if depth > 0 {
				if sc := c.Common().StaticCallee(); sc != nil && sc.Blocks != nil && calls(sc, depth-1) {
					found = true
				}
			}
		})
		return found
	}
	Instrs(fn, func(in ssa.Instruction) {
		d, ok := in.(*ssa.Defer)
		if !ok {
			return
		}
		if sc := d.Call.StaticCallee(); sc != nil {
			if sc.Blocks != nil && calls(sc, 2) {
				res = true
			}
			return
		}
		for _, o := range Origins(d.Call.Value) {
			if mc, ok := o.(*ssa.MakeClosure); ok {
				if calls(mc.Fn.(*ssa.Function), 2) {
					res = true
				}
			} else if d.Call.IsInvoke() {
				// a deferred interface method (Close, Unlock ...): does not recover for us
			} else {
				res = true // a function value we cannot resolve
			}
		}
	})
	mayRecoverMemo[fn] = res
	return res
}
