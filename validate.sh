#!/bin/bash
# validates MANIFEST.json and every evidence file against the schemas
cd "$(dirname "$0")"
python3-vt - <<'PY'
import json,jsonschema,glob,sys
jsonschema.validate(json.load(open('MANIFEST.json')), json.load(open('/root/.vp/MANIFEST.schema.json')))
n=0
for f in sorted(glob.glob('evidence/C*.json')):
    jsonschema.validate(json.load(open(f)), json.load(open('/root/.vp/EVIDENCE.schema.json'))); n+=1
print('manifest ok, %d evidence files ok'%n)
PY
