// Package core loads itchio/wharf (type-checked syntax + SSA for the whole
// program) and offers the small query layer all rules are written against.
package core

import (
	"fmt"
	"go/ast"
	"go/token"
	"go/types"
	"os"
	"sort"
	"strings"

	"golang.org/x/tools/go/callgraph"
	"golang.org/x/tools/go/callgraph/cha"
	"golang.org/x/tools/go/callgraph/vta"
	"golang.org/x/tools/go/packages"
	"golang.org/x/tools/go/ssa"
	"golang.org/x/tools/go/ssa/ssautil"

	"wharfverif/checker/internal/inl"
)

// InventoryFile names the reference inventory of functions; when set, Load
// normalises module packages against it (see package inl).
var InventoryFile string

// Mod is the module path of the code under analysis.
const Mod = "github.com/itchio/wharf"

// Prog is the loaded program.
type Prog struct {
	Dir   string
	Fset  *token.FileSet
	Roots []*packages.Package          // the module's own packages
	All   map[string]*packages.Package // every package, by import path
	SSA   *ssa.Program

	cg      *callgraph.Graph
	cgKind  string
	srcFns  []*ssa.Function // all functions (incl. anonymous) of module packages, sorted
	declOf  map[*ssa.Function]ast.Node
	NumFunc int

	// Norm describes the normalisation that was applied (nil if none).
	Norm *inl.Result
	// Aliases maps renamed unexported names back to the names the rules know.
	Aliases *Aliases

	naive *ssa.Program
}

// Naive returns fn's twin in a second SSA program built in naive form (local
// variables are not lifted to registers: every variable, captured or not, is an
// allocation with loads and stores). Rules about the life of a variable use it
// so that they do not depend on whether the variable happens to be captured by
// a closure. The twin is built on demand, one package at a time.
func (p *Prog) Naive(fn *ssa.Function) *ssa.Function {
	if fn == nil {
		return nil
	}
	if p.naive == nil {
		p.naive, _ = ssautil.AllPackages(p.Roots, ssa.NaiveForm|ssa.InstantiateGenerics)
	}
	var path []int
	top := fn
	for top.Parent() != nil {
		par := top.Parent()
		idx := -1
		for i, a := range par.AnonFuncs {
			if a == top {
				idx = i
			}
		}
		if idx < 0 {
			return nil
		}
		path = append([]int{idx}, path...)
		top = par
	}
	obj, _ := top.Object().(*types.Func)
	if obj == nil || obj.Pkg() == nil {
		return nil
	}
	np := p.naive.Package(obj.Pkg())
	if np == nil {
		return nil
	}
	np.Build()
	nf := p.naive.FuncValue(obj)
	for _, i := range path {
		if nf == nil || i >= len(nf.AnonFuncs) {
			return nil
		}
		nf = nf.AnonFuncs[i]
	}
	return nf
}

// BrokenError marks a failure of the checker itself (exit 2), as opposed to a
// verdict about the tree.
type BrokenError struct{ Msg string }

func (e *BrokenError) Error() string { return e.Msg }

func broken(format string, args ...interface{}) error {
	return &BrokenError{Msg: fmt.Sprintf(format, args...)}
}

// Load type-checks ./... in dir (plus optional extra patterns) and builds SSA.
func Load(dir string, minPkgs int, extra ...string) (*Prog, error) {
	env := []string{}
	for _, e := range os.Environ() {
		if strings.HasPrefix(e, "GOWORK=") || strings.HasPrefix(e, "GOFLAGS=") || strings.HasPrefix(e, "GOPROXY=") {
			continue
		}
		env = append(env, e)
	}
	env = append(env, "GOFLAGS=-mod=mod", "GOPROXY=off", "GOWORK=off")
	fset := token.NewFileSet()
	cfg := &packages.Config{
		Mode:  packages.LoadAllSyntax,
		Dir:   dir,
		Env:   env,
		Fset:  fset,
		Tests: false,
	}
	pats := append([]string{"./..."}, extra...)
	pkgs, err := packages.Load(cfg, pats...)
	if err != nil {
		return nil, broken("packages.Load: %v", err)
	}
	if len(pkgs) < minPkgs {
		return nil, broken("loaded %d packages from %s, expected at least %d", len(pkgs), dir, minPkgs)
	}
	p := &Prog{Dir: dir, Fset: fset, All: map[string]*packages.Package{}, declOf: map[*ssa.Function]ast.Node{}}
	nerr := 0
	packages.Visit(pkgs, nil, func(pk *packages.Package) {
		p.All[pk.PkgPath] = pk
		for _, e := range pk.Errors {
			nerr++
			fmt.Fprintf(os.Stderr, "load error: %s: %v\n", pk.PkgPath, e)
		}
	})
	if nerr > 0 {
		return nil, broken("%d load/type errors; the tree does not build", nerr)
	}
	sort.Slice(pkgs, func(i, j int) bool { return pkgs[i].PkgPath < pkgs[j].PkgPath })
	p.Roots = pkgs
	if InventoryFile != "" {
		var mod []*packages.Package
		for _, pk := range pkgs {
			if strings.HasPrefix(pk.PkgPath, Mod) {
				mod = append(mod, pk)
			}
		}
		if len(mod) > 0 {
			inv, err := ReadInventoryJSON(InventoryFile)
			if err != nil {
				return nil, broken("inventory: %v", err)
			}
			al := InferAliases(inv, BuildInventory(mod))
			p.Aliases = al
			setAliases(al)
			res, err := inl.Normalize(fset, mod, p.All, al.Known, inv.KnownLits())
			if err != nil {
				return nil, broken("normalisation: %v", err)
			}
			p.Norm = res
		}
	} else {
		setAliases(nil)
	}
	prog, _ := ssautil.AllPackages(pkgs, ssa.InstantiateGenerics)
	prog.Build()
	p.SSA = prog
	for _, pk := range pkgs {
		sp := prog.Package(pk.Types)
		if sp == nil {
			return nil, broken("no SSA package for %s", pk.PkgPath)
		}
		var add func(fn *ssa.Function)
		add = func(fn *ssa.Function) {
			if fn == nil || fn.Blocks == nil {
				return
			}
			p.srcFns = append(p.srcFns, fn)
			for _, a := range fn.AnonFuncs {
				add(a)
			}
		}
		for _, m := range sp.Members {
			switch m := m.(type) {
			case *ssa.Function:
				add(m)
			case *ssa.Type:
				for _, t := range []types.Type{m.Type(), types.NewPointer(m.Type())} {
					ms := prog.MethodSets.MethodSet(t)
					for i := 0; i < ms.Len(); i++ {
						fn := prog.MethodValue(ms.At(i))
						if fn != nil && fn.Synthetic == "" && fn.Pkg == sp {
							add(fn)
						}
					}
				}
			}
		}
	}
	// de-duplicate (methods are visited for T and *T)
	seen := map[*ssa.Function]bool{}
	out := p.srcFns[:0]
	for _, f := range p.srcFns {
		if !seen[f] {
			seen[f] = true
			out = append(out, f)
		}
	}
	p.srcFns = out
	sort.Slice(p.srcFns, func(i, j int) bool { return FnName(p.srcFns[i]) < FnName(p.srcFns[j]) })
	p.NumFunc = len(p.srcFns)
	return p, nil
}

// SrcFuncs returns every function (named and anonymous) defined in the module
// (or, for fixture loads, in the root packages).
func (p *Prog) SrcFuncs() []*ssa.Function { return p.srcFns }

// Pkg returns the root or dependency package with the given path; a path
// without a dot-containing first element is taken relative to the module.
func (p *Prog) Pkg(path string) *packages.Package {
	if pk, ok := p.All[path]; ok {
		return pk
	}
	if pk, ok := p.All[Mod+"/"+path]; ok {
		return pk
	}
	return nil
}

// FnName is the stable display name used in obligation keys:
// "pwr/patcher.(*savingPatcher).Resume", "pwr.Validate$1".
func FnName(fn *ssa.Function) string {
	if fn == nil {
		return "<nil>"
	}
	s := fn.RelString(nil)
	s = strings.ReplaceAll(s, Mod+"/", "")
	if curAliases != nil {
		top := fn
		for top.Parent() != nil {
			top = top.Parent()
		}
		if obj, ok := top.Object().(*types.Func); ok {
			if old := oldFuncName(obj); old != "" {
				disp := stripMod(obj.FullName())
				if strings.HasPrefix(s, disp) {
					s = disp[:len(disp)-len(obj.Name())] + old + s[len(disp):]
				}
			}
		}
		s = canonTypes(s)
	}
	return s
}

// Fn looks a function up by package path (module-relative allowed) and name:
// "New", "(*savingPatcher).Resume", "savingPatcher.Resume" (pointer receiver is
// tried as well), "Validate$1" for the first anonymous function.
func (p *Prog) Fn(pkgPath, name string) *ssa.Function {
	if fn := p.fn(pkgPath, name); fn != nil {
		return fn
	}
	// renamed: look the inventory name up in the aliases
	pk := p.Pkg(pkgPath)
	if pk == nil || p.Aliases == nil {
		return nil
	}
	base, anon := name, ""
	if i := strings.Index(name, "$"); i >= 0 {
		base, anon = name[:i], name[i:]
	}
	base = strings.TrimPrefix(base, "(*")
	base = strings.Replace(base, ").", ".", 1)
	if nk, ok := p.Aliases.FuncNew[pk.PkgPath+" "+base]; ok {
		return p.fn(pkgPath, nk[strings.Index(nk, " ")+1:]+anon)
	}
	// only the receiver type was renamed
	if i := strings.Index(base, "."); i >= 0 {
		if nt, ok := p.Aliases.TypeNew[pk.PkgPath+" "+base[:i]]; ok {
			return p.fn(pkgPath, nt+base[i:]+anon)
		}
	}
	return nil
}

func (p *Prog) fn(pkgPath, name string) *ssa.Function {
	pk := p.Pkg(pkgPath)
	if pk == nil {
		return nil
	}
	sp := p.SSA.Package(pk.Types)
	if sp == nil {
		return nil
	}
	anon := []string{}
	if i := strings.Index(name, "$"); i >= 0 {
		anon = strings.Split(name[i+1:], "$")
		name = name[:i]
	}
	var fn *ssa.Function
	if strings.Contains(name, ".") {
		name = strings.TrimPrefix(name, "(*")
		name = strings.Replace(name, ").", ".", 1)
		parts := strings.SplitN(name, ".", 2)
		tn, _ := pk.Types.Scope().Lookup(parts[0]).(*types.TypeName)
		if tn == nil && p.Aliases != nil {
			if nn, ok := p.Aliases.TypeNew[pk.PkgPath+" "+parts[0]]; ok {
				tn, _ = pk.Types.Scope().Lookup(nn).(*types.TypeName)
			}
		}
		if tn == nil {
			return nil
		}
		for _, t := range []types.Type{types.NewPointer(tn.Type()), tn.Type()} {
			sel := p.SSA.MethodSets.MethodSet(t).Lookup(pk.Types, parts[1])
			if sel != nil {
				fn = p.SSA.MethodValue(sel)
				break
			}
		}
	} else {
		fn = sp.Func(name)
	}
	for _, a := range anon {
		if fn == nil {
			return nil
		}
		var n int
		fmt.Sscanf(a, "%d", &n)
		if n < 1 || n > len(fn.AnonFuncs) {
			return nil
		}
		fn = fn.AnonFuncs[n-1]
	}
	return fn
}

// Named returns the named type pkgPath.name.
func (p *Prog) Named(pkgPath, name string) *types.Named {
	pk := p.Pkg(pkgPath)
	if pk == nil {
		return nil
	}
	tn, _ := pk.Types.Scope().Lookup(name).(*types.TypeName)
	if tn == nil && p.Aliases != nil {
		if nn, ok := p.Aliases.TypeNew[pk.PkgPath+" "+name]; ok {
			tn, _ = pk.Types.Scope().Lookup(nn).(*types.TypeName)
		}
	}
	if tn == nil {
		return nil
	}
	n, _ := tn.Type().(*types.Named)
	return n
}

// LookupObj finds a package-level object by the name the rules know it by.
func (p *Prog) LookupObj(pkgPath, name string) types.Object {
	pk := p.Pkg(pkgPath)
	if pk == nil {
		return nil
	}
	if o := pk.Types.Scope().Lookup(name); o != nil {
		return o
	}
	if p.Aliases != nil {
		if nn, ok := p.Aliases.VarNew[pk.PkgPath+" "+name]; ok {
			return pk.Types.Scope().Lookup(nn)
		}
		if nn, ok := p.Aliases.TypeNew[pk.PkgPath+" "+name]; ok {
			return pk.Types.Scope().Lookup(nn)
		}
	}
	return nil
}

// Pos formats a position relative to the repo directory.
func (p *Prog) Pos(pos token.Pos) string {
	if !pos.IsValid() {
		return "-"
	}
	if p.Norm != nil {
		pos = p.Norm.OrigPos(pos)
		if !pos.IsValid() {
			return "-"
		}
	}
	ps := p.Fset.Position(pos)
	f := strings.TrimPrefix(ps.Filename, p.Dir+"/")
	return fmt.Sprintf("%s:%d", f, ps.Line)
}

// CallGraph returns (and caches) the call graph: CHA, or VTA refined from CHA
// when precise is set.
func (p *Prog) CallGraph(precise bool) *callgraph.Graph {
	kind := "cha"
	if precise {
		kind = "vta"
	}
	if p.cg != nil && p.cgKind == kind {
		return p.cg
	}
	g := cha.CallGraph(p.SSA)
	if precise {
		g = vta.CallGraph(ssautil.AllFunctions(p.SSA), g)
	}
	p.cg, p.cgKind = g, kind
	return g
}

// InModule reports whether fn is defined in the module under analysis.
func InModule(fn *ssa.Function) bool {
	if fn == nil {
		return false
	}
	for fn.Parent() != nil {
		fn = fn.Parent()
	}
	if fn.Pkg == nil || fn.Pkg.Pkg == nil {
		// instantiated generics / wrappers: use the object's package
		if o := fn.Object(); o != nil && o.Pkg() != nil {
			return strings.HasPrefix(o.Pkg().Path(), Mod)
		}
		return false
	}
	return strings.HasPrefix(fn.Pkg.Pkg.Path(), Mod)
}

// PkgPathOf returns the import path of fn's package ("" if none).
func PkgPathOf(fn *ssa.Function) string {
	for fn != nil && fn.Parent() != nil {
		fn = fn.Parent()
	}
	if fn == nil {
		return ""
	}
	if fn.Pkg != nil && fn.Pkg.Pkg != nil {
		return fn.Pkg.Pkg.Path()
	}
	if o := fn.Object(); o != nil && o.Pkg() != nil {
		return o.Pkg().Path()
	}
	return ""
}
