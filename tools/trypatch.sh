#!/bin/bash
# tools/trypatch.sh <patchfile> <prop> [<prop>...] : run quick checks against a scratch copy of /repo with the patch applied
set -u
PF="$(realpath "$1")"; shift
VERIF="$(cd "$(dirname "$0")/.." && pwd)"
S="$(mktemp -d /tmp/wharf-try-XXXXXX)"
trap 'rm -rf "$S"' EXIT
rsync -a --exclude .git /repo/ "$S/"
(cd "$S" && patch -p1 -s --no-backup-if-mismatch < "$PF") || { echo "patch failed"; exit 1; }
"$VERIF/run.sh" build
for P in "$@"; do
  "$VERIF/.bin/wharfcheck" -prop "$P" -tier quick -repo "$S" -verif "$VERIF" -no-evidence -no-fixtures 2>&1 | grep -v "^property=" | head -12
  echo "== $P rc=${PIPESTATUS[0]}"
done
