// Package rules holds the repository-specific rules, one file per property.
package rules

import (
	"wharfverif/checker/internal/core"
)

// Property groups the rules deciding the structural clauses of one property.
type Property struct {
	ID          string
	Explanation string   // what is decided and what is not, in words
	Assumptions []string // soundness limits / trusted contracts
	Run         func(c *core.Ctx)
	// Fixtures, when non-nil, is run against the fixture packages on every run:
	// it must report every "bad" function and stay silent on every "good" one.
	Fixtures   func(c *core.Ctx) (reported map[string]bool)
	FixturePkg string
}

// Registry maps property id to its rules.
var Registry = map[string]*Property{}

func register(p *Property) { Registry[p.ID] = p }
