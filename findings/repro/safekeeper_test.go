package probe

import (
	"bytes"
	"os"
	"path/filepath"
	"testing"

	"github.com/itchio/headway/state"
	"github.com/itchio/lake/pools/fspool"
	"github.com/itchio/savior"
	"github.com/itchio/savior/seeksource"
	"github.com/itchio/wharf/pwr"
	"github.com/itchio/wharf/pwr/bowl"
	"github.com/itchio/wharf/pwr/patcher"
)

func applyViaSafekeeper(t *testing.T, oldDir string, patch []byte, outDir string) error {
	oc, oh := sign(t, oldDir)
	sb := sigBytes(t, oc, oh)

	p, err := patcher.New(seeksource.FromBytes(patch), &state.Consumer{})
	must(t, err)
	inner := fspool.New(p.GetTargetContainer(), oldDir)
	sk, err := pwr.NewSafeKeeper(pwr.SafeKeeperParams{
		Inner: inner,
		Open: func() (savior.SeekSource, error) {
			src := seeksource.FromBytes(sb)
			if _, err := src.Resume(nil); err != nil {
				return nil, err
			}
			return src, nil
		},
	})
	must(t, err)
	b, err := bowl.NewFreshBowl(bowl.FreshBowlParams{
		SourceContainer: p.GetSourceContainer(),
		TargetContainer: p.GetTargetContainer(),
		TargetPool:      sk,
		OutputFolder:    outDir,
	})
	must(t, err)
	err = p.Resume(nil, sk, b)
	if err != nil {
		return err
	}
	return b.Commit()
}

// C09-i: a file duplicated to two paths, applied through the safekeeper
func TestSafekeeperDuplicate(t *testing.T) {
	dir := t.TempDir()
	old := filepath.Join(dir, "old")
	nw := filepath.Join(dir, "new")
	out := filepath.Join(dir, "out")
	data := randBytes(1, 3*64*1024+100)
	writeFile(t, old, "a", data)
	writeFile(t, nw, "a", data)
	writeFile(t, nw, "b", data)
	patch := diff(t, old, nw)
	err := applyViaSafekeeper(t, old, patch, out)
	t.Logf("apply err = %v", err)
	for _, n := range []string{"a", "b"} {
		got, rerr := os.ReadFile(filepath.Join(out, n))
		must(t, rerr)
		t.Logf("%s: len=%d equal=%v", n, len(got), bytes.Equal(got, data))
	}
}

// C09-ii: undamaged block-aligned file, whole-file copy through the safekeeper
func TestSafekeeperAligned(t *testing.T) {
	dir := t.TempDir()
	old := filepath.Join(dir, "old")
	nw := filepath.Join(dir, "new")
	out := filepath.Join(dir, "out")
	data := randBytes(2, 64*1024)
	writeFile(t, old, "a", data)
	writeFile(t, nw, "a", data)
	patch := diff(t, old, nw)
	err := applyViaSafekeeper(t, old, patch, out)
	t.Logf("apply err = %v", err)
}
