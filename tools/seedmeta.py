#!/usr/bin/env python3
"""tools/seedmeta.py <id> <property> <static_detected:0|1> <expect> <needs> <caught_by> : writes seeded/<id>/meta.json"""
import json, sys, os
sid, prop, det, expect, needs, caught = sys.argv[1:7]
d = os.path.join(os.path.dirname(os.path.abspath(__file__)), "..", "seeded", sid)
demos = sorted(f for f in os.listdir(d) if f.endswith(".go.txt"))
m = {
 "id": sid, "property": prop,
 "breaks": "see notes.md (written by the sub-agent that produced the change, given only the property text)",
 "needs_to_manifest": needs,
 "demonstration": demos,
 "confirmed": "tools/verify_seed.sh: applied to a scratch worktree of /repo; full suite passes with the change; demonstration fails with it and passes without it",
 "static_detected": det == "1",
 "expect": expect,
 "caught_by": caught,
}
json.dump(m, open(os.path.join(d, "meta.json"), "w"), indent=1)
print("wrote", sid)
