package rules

// Fork-site access sets (analysis A5, DESIGN §3.2): for a fork site (go
// statements / taskgroup.Do) the concurrently running units and the parent's
// region between fork and join are summarised as sets of (root, field path,
// read|write, lockset); two accesses to overlapping locations from different
// units (or two instances of a multi-instance unit), at least one a write, with
// disjoint locksets, are a conflict.

import (
	"fmt"
	"go/token"
	"go/types"
	"sort"
	"strings"

	"golang.org/x/tools/go/ssa"

	"wharfverif/checker/internal/core"
)

type aloc struct {
	root ssa.Value
	path string
}

func (l aloc) String() string {
	r := core.Describe(l.root)
	if c, ok := l.root.(*ssa.Call); ok {
		r = core.CalleeName(c) + "()@" + fmt.Sprint(c.Parent().Name())
	}
	return r + l.path
}

type access struct {
	loc   aloc
	write bool
	locks map[string]bool
	pos   token.Pos
	fn    *ssa.Function
	what  string
	top   ssa.Instruction // the instruction of the unit's own function under which the access happens
}

type forkUnit struct {
	name     string
	fn       *ssa.Function
	multi    bool
	accesses []access
	late     []access // accesses that can happen after the unit's last result send (the parent may be past the join)
	private  []access // accesses to per-iteration variables: not shared between instances (but still shared with other units)
}

type forkWalker struct {
	p        *core.Prog
	maxDepth int
	stack    []*ssa.Function
	out      *[]access
	visited  map[string]bool
	Unknown  int // dynamic calls that could not be resolved
	busy     map[*ssa.Call]bool
	top      ssa.Instruction
	root     *ssa.Function // the unit's own function (top is tracked while walking it)
}

var notThreadSafeRecv = []string{"bytes.Buffer", "bufio.Writer", "bufio.Reader", "bufio.Scanner", "os.File", "github.com/jgallagher/gosaca.WorkSpace",
	"github.com/itchio/arkive/zip.Reader", "github.com/itchio/arkive/zip.Writer", "compress/gzip.Writer"}

var statefulIfaceMethods = map[string]bool{"Read": true, "Write": true, "Seek": true, "Reset": true, "Sum": true, "ReadByte": true, "Close": true, "Resume": true}

// fval is a function value together with the environment of the function that created it
// (so that a closure returned by makeOpsWriter(patchWire, dctx) knows what wc and dctx denote).
type fval struct {
	v ssa.Value
	e *env
}

type env struct {
	locs  map[ssa.Value][]aloc // params / freevars -> locations they denote
	funcs map[ssa.Value][]fval // function-typed params / freevars -> closure or function values
}

func newEnv() *env { return &env{locs: map[ssa.Value][]aloc{}, funcs: map[ssa.Value][]fval{}} }

func (e *env) clone() *env {
	n := newEnv()
	if e == nil {
		return n
	}
	for k, v := range e.locs {
		n.locs[k] = v
	}
	for k, v := range e.funcs {
		n.funcs[k] = v
	}
	return n
}

func (w *forkWalker) onStack(fn *ssa.Function) bool {
	for _, f := range w.stack {
		if f == fn {
			return true
		}
	}
	return false
}

func valueFn(v ssa.Value) *ssa.Function {
	switch x := v.(type) {
	case ssa.Instruction:
		return x.Parent()
	case *ssa.Parameter:
		return x.Parent()
	case *ssa.FreeVar:
		return x.Parent()
	}
	return nil
}

// resolve maps a pointer-like value to the abstract locations it denotes.
func (w *forkWalker) resolve(v ssa.Value, e *env, depth int) []aloc {
	if depth > 8 || v == nil {
		return nil
	}
	switch x := v.(type) {
	case *ssa.FreeVar:
		if ls, ok := e.locs[x]; ok {
			return ls
		}
		return []aloc{{core.CellRoot(x), ""}}
	case *ssa.Parameter:
		if ls, ok := e.locs[x]; ok {
			return ls
		}
		return []aloc{{x, ""}}
	case *ssa.Alloc:
		return []aloc{{x, ""}}
	case *ssa.Global:
		return []aloc{{x, ""}}
	case *ssa.FieldAddr:
		var out []aloc
		for _, l := range w.resolve(x.X, e, depth+1) {
			out = append(out, aloc{l.root, l.path + "." + fieldNameOf(x.X.Type(), x.Field)})
		}
		return out
	case *ssa.Field:
		var out []aloc
		for _, l := range w.resolve(x.X, e, depth+1) {
			out = append(out, aloc{l.root, l.path + "." + fieldNameOf(x.X.Type(), x.Field)})
		}
		return out
	case *ssa.IndexAddr:
		var out []aloc
		for _, l := range w.resolve(x.X, e, depth+1) {
			out = append(out, aloc{l.root, l.path + "[]"})
		}
		return out
	case *ssa.UnOp:
		if x.Op != token.MUL {
			return nil
		}
		// a pointer loaded from a variable cell: the objects stored in the cell
		root := core.CellRoot(x.X)
		if a, ok := root.(*ssa.Alloc); ok {
			if _, isFA := x.X.(*ssa.FieldAddr); !isFA {
				sts := core.CellStores(a)
				if len(sts) > 0 {
					var out []aloc
					for _, st := range sts {
						// stores in functions with an environment of their own cannot be resolved here; use the value's identity
						out = append(out, w.resolve(st.Val, e, depth+1)...)
					}
					if len(out) > 0 {
						return out
					}
				}
				return []aloc{{a, ""}}
			}
		}
		// pointer held in a field / element: treat the holder's path as the object
		return w.resolve(x.X, e, depth+1)
	case *ssa.Phi:
		var out []aloc
		for _, ed := range x.Edges {
			out = append(out, w.resolve(ed, e, depth+1)...)
		}
		return out
	case *ssa.Convert:
		return w.resolve(x.X, e, depth+1)
	case *ssa.ChangeType:
		return w.resolve(x.X, e, depth+1)
	case *ssa.ChangeInterface:
		return w.resolve(x.X, e, depth+1)
	case *ssa.MakeInterface:
		return w.resolve(x.X, e, depth+1)
	case *ssa.TypeAssert:
		return w.resolve(x.X, e, depth+1)
	case *ssa.Extract:
		return []aloc{{x.Tuple, fmt.Sprintf("#%d", x.Index)}}
	case *ssa.Call:
		return []aloc{{x, ""}}
	case *ssa.Slice:
		return w.resolve(x.X, e, depth+1)
	case *ssa.MakeMap, *ssa.MakeChan, *ssa.MakeSlice:
		return []aloc{{x, ""}}
	case *ssa.Lookup:
		var out []aloc
		for _, l := range w.resolve(x.X, e, depth+1) {
			out = append(out, aloc{l.root, l.path + "{}"})
		}
		return out
	}
	return nil
}

func fieldNameOf(t types.Type, i int) string {
	if p, ok := t.Underlying().(*types.Pointer); ok {
		t = p.Elem()
	}
	if s, ok := t.Underlying().(*types.Struct); ok && i < s.NumFields() {
		return s.Field(i).Name()
	}
	return fmt.Sprint(i)
}

func (w *forkWalker) record(l aloc, write bool, locks map[string]bool, in ssa.Instruction, what string) {
	// private: defined by a function this unit is executing (its own locals), or an unresolved parameter
	if f := valueFn(l.root); f != nil && w.onStack(f) {
		return
	}
	lk := map[string]bool{}
	for k := range locks {
		lk[k] = true
	}
	*w.out = append(*w.out, access{loc: l, write: write, locks: lk, pos: core.InstrPos(in), fn: in.Parent(), what: what, top: w.top})
}

func (w *forkWalker) funcValues(v ssa.Value, e *env) []fval {
	var out []fval
	for _, o := range core.Origins(v) {
		switch x := o.(type) {
		case *ssa.MakeClosure, *ssa.Function:
			out = append(out, fval{x, e})
		case *ssa.Parameter:
			out = append(out, e.funcs[x]...)
		case *ssa.FreeVar:
			out = append(out, e.funcs[x]...)
		case *ssa.Call:
			// a function returned by a module function (makeOpsWriter, makeOperationCleaner): its closures,
			// in an environment that binds the maker's parameters to this call's arguments
			if sc := x.Call.StaticCallee(); sc != nil && sc.Blocks != nil && core.InModule(sc) {
				if w.busy == nil {
					w.busy = map[*ssa.Call]bool{}
				}
				if w.busy[x] {
					continue // ops = makeOperationCleaner(ops): the argument refers to the result's own variable
				}
				w.busy[x] = true
				me := newEnv()
				w.bindArgs(sc, x.Call.Args, 0, e, me)
				delete(w.busy, x)
				for _, rs := range core.Returns(sc, 0) {
					for _, ro := range core.Origins(rs.Val) {
						if mc, ok := ro.(*ssa.MakeClosure); ok {
							out = append(out, fval{mc, me})
						}
					}
				}
			}
		}
	}
	return out
}

// walk collects the accesses of fn executed under environment e with the given locks held.
func (w *forkWalker) walk(fn *ssa.Function, e *env, held map[string]bool) {
	if fn == nil || fn.Blocks == nil || len(w.stack) > w.maxDepth || w.onStack(fn) {
		return
	}
	// memo key: function + environment signature + locks
	var sig []string
	for k, ls := range e.locs {
		for _, l := range ls {
			sig = append(sig, k.Name()+"="+l.String())
		}
	}
	for k := range held {
		sig = append(sig, "L:"+k)
	}
	sort.Strings(sig)
	key := core.FnName(fn) + "|" + strings.Join(sig, ",")
	if w.visited[key] {
		return
	}
	w.visited[key] = true
	w.stack = append(w.stack, fn)
	defer func() { w.stack = w.stack[:len(w.stack)-1] }()

	lockName := func(v ssa.Value) string {
		ls := w.resolve(v, e, 0)
		if len(ls) == 0 {
			return ""
		}
		return ls[0].String()
	}
	isMutexCall := func(in ssa.Instruction) (name string, lock bool, ok bool) {
		cl, isC := in.(ssa.CallInstruction)
		if !isC {
			return "", false, false
		}
		n := core.CalleeName(cl)
		switch n {
		case "(*sync.Mutex).Lock", "(*sync.RWMutex).Lock", "(*sync.RWMutex).RLock":
			return lockName(cl.Common().Args[0]), true, true
		case "(*sync.Mutex).Unlock", "(*sync.RWMutex).Unlock", "(*sync.RWMutex).RUnlock":
			if _, isDefer := in.(*ssa.Defer); isDefer {
				return "", false, false // held until the function returns
			}
			return lockName(cl.Common().Args[0]), false, true
		}
		return "", false, false
	}
	// must-lockset dataflow over blocks
	in := map[*ssa.BasicBlock]map[string]bool{}
	copySet := func(s map[string]bool) map[string]bool {
		o := map[string]bool{}
		for k := range s {
			o[k] = true
		}
		return o
	}
	transfer := func(b *ssa.BasicBlock, s map[string]bool) map[string]bool {
		cur := copySet(s)
		for _, ins := range b.Instrs {
			if n, lock, ok := isMutexCall(ins); ok && n != "" {
				if lock {
					cur[n] = true
				} else {
					delete(cur, n)
				}
			}
		}
		return cur
	}
	in[fn.Blocks[0]] = copySet(held)
	work := []*ssa.BasicBlock{fn.Blocks[0]}
	for iter := 0; len(work) > 0 && iter < 2000; iter++ {
		b := work[0]
		work = work[1:]
		o := transfer(b, in[b])
		for _, s := range b.Succs {
			if cur, ok := in[s]; !ok {
				in[s] = copySet(o)
				work = append(work, s)
			} else {
				ch := false
				for k := range cur {
					if !o[k] {
						delete(cur, k)
						ch = true
					}
				}
				if ch {
					work = append(work, s)
				}
			}
		}
	}
	for _, b := range fn.Blocks {
		cur, ok := in[b]
		if !ok {
			continue
		}
		cur = copySet(cur)
		for _, ins := range b.Instrs {
			if n, lock, ok := isMutexCall(ins); ok {
				if n != "" {
					if lock {
						cur[n] = true
					} else {
						delete(cur, n)
					}
				}
				continue
			}
			if len(w.stack) == 1 {
				if w.root == nil {
					w.root = fn
				}
				if fn == w.root {
					w.top = ins
				}
			}
			w.instr(fn, ins, e, cur)
		}
	}
}

func typeIs(t types.Type, names []string) bool {
	tn := core.TypeName(t)
	for _, n := range names {
		if tn == n {
			return true
		}
	}
	return false
}

func (w *forkWalker) instr(fn *ssa.Function, ins ssa.Instruction, e *env, held map[string]bool) {
	switch x := ins.(type) {
	case *ssa.Store:
		if _, isIdx := x.Addr.(*ssa.IndexAddr); isIdx {
			return // slice element writes: not tracked (declared gap)
		}
		for _, l := range w.resolve(x.Addr, e, 0) {
			w.record(l, true, held, ins, "store")
		}
	case *ssa.UnOp:
		if x.Op == token.MUL {
			if _, isIdx := x.X.(*ssa.IndexAddr); isIdx {
				return
			}
			for _, l := range w.resolve(x.X, e, 0) {
				w.record(l, false, held, ins, "load")
			}
		}
	case *ssa.MapUpdate:
		for _, l := range w.resolve(x.Map, e, 0) {
			w.record(aloc{l.root, l.path + "{}"}, true, held, ins, "map update")
		}
	case *ssa.Lookup:
		if _, isMap := x.X.Type().Underlying().(*types.Map); isMap {
			for _, l := range w.resolve(x.X, e, 0) {
				w.record(aloc{l.root, l.path + "{}"}, false, held, ins, "map lookup")
			}
		}
	case *ssa.Range:
		if _, isMap := x.X.Type().Underlying().(*types.Map); isMap {
			for _, l := range w.resolve(x.X, e, 0) {
				w.record(aloc{l.root, l.path + "{}"}, false, held, ins, "map range")
			}
		}
	case ssa.CallInstruction:
		if _, isGo := ins.(*ssa.Go); isGo {
			return // nested forks are separate sites
		}
		w.call(fn, x, e, held)
	}
}

func (w *forkWalker) call(fn *ssa.Function, c ssa.CallInstruction, e *env, held map[string]bool) {
	cc := c.Common()
	in := c.(ssa.Instruction)
	name := core.CalleeName(c)
	if b, ok := cc.Value.(*ssa.Builtin); ok {
		switch b.Name() {
		case "append", "copy":
			// append(s, ...) reads s; the result is stored by a Store instruction
		case "delete":
			for _, l := range w.resolve(cc.Args[0], e, 0) {
				w.record(aloc{l.root, l.path + "{}"}, true, held, in, "delete")
			}
		}
		return
	}
	if strings.HasPrefix(name, "sync/atomic.") || strings.HasPrefix(name, "(*sync/atomic.") {
		return
	}
	if name == "(*sync.Once).Do" && len(cc.Args) == 2 {
		for _, fv := range w.funcValues(cc.Args[1], e) {
			w.callValue(fv, nil, e, held)
		}
		return
	}
	// file pseudo-variables
	switch name {
	case "os.WriteFile", "os.Remove", "os.Rename", "os.Create", "io/ioutil.WriteFile":
		for _, l := range w.resolve(pathArgOrigin(cc.Args[0]), e, 0) {
			w.record(aloc{l.root, "<file>" + l.path}, true, held, in, name)
		}
		return
	case "os.ReadFile", "io/ioutil.ReadFile":
		for _, l := range w.resolve(pathArgOrigin(cc.Args[0]), e, 0) {
			w.record(aloc{l.root, "<file>" + l.path}, false, held, in, name)
		}
		return
	}
	var callees []*ssa.Function
	if cc.IsInvoke() {
		// interface call: stateful methods of io/hash-like interfaces count as writes to the receiver object
		if statefulIfaceMethods[cc.Method.Name()] {
			tn := core.TypeName(cc.Value.Type())
			if strings.HasPrefix(tn, "io.") || strings.HasPrefix(tn, "hash.") || strings.HasSuffix(tn, "savior.Source") || strings.HasSuffix(tn, "savior.SeekSource") || strings.HasSuffix(tn, "lrufile.File") {
				for _, l := range w.resolve(cc.Value, e, 0) {
					w.record(aloc{l.root, l.path + ".<obj>"}, true, held, in, tn+"."+cc.Method.Name())
				}
			}
		}
		// module-internal implementations (few): walk them
		g := w.p.CallGraph(false)
		if n := g.Nodes[fn]; n != nil {
			cnt := 0
			for _, ed := range n.Out {
				if ed.Site == c && ed.Callee != nil && core.InModule(ed.Callee.Func) && ed.Callee.Func.Blocks != nil {
					cnt++
					if cnt <= 4 {
						callees = append(callees, ed.Callee.Func)
					}
				}
			}
		}
		for _, cal := range callees {
			ne := newEnv()
			if len(cal.Params) > 0 {
				ne.locs[cal.Params[0]] = w.resolve(cc.Value, e, 0)
			}
			w.bindArgs(cal, cc.Args, 1, e, ne)
			w.walk(cal, ne, held)
		}
		return
	}
	if sc := cc.StaticCallee(); sc != nil {
		if sc.Parent() != nil {
			// direct call of a function literal
			w.callClosureFn(sc, cc.Value, cc.Args, e, held)
			return
		}
		if sc.Blocks != nil && core.InModule(sc) {
			ne := newEnv()
			w.bindArgs(sc, cc.Args, 0, e, ne)
			w.walk(sc, ne, held)
			return
		}
		// external function / method
		if sc.Signature.Recv() != nil && len(cc.Args) > 0 && typeIs(sc.Signature.Recv().Type(), notThreadSafeRecv) {
			for _, l := range w.resolve(cc.Args[0], e, 0) {
				w.record(aloc{l.root, l.path + ".<obj>"}, true, held, in, name)
			}
		}
		// function-typed arguments may be called by the callee (io.Copy does not, callbacks do): walk closures conservatively
		for _, a := range cc.Args {
			if _, isSig := a.Type().Underlying().(*types.Signature); isSig {
				for _, fv := range w.funcValues(a, e) {
					w.callValue(fv, nil, e, held)
				}
			}
		}
		return
	}
	// dynamic call of a function value
	fvs := w.funcValues(cc.Value, e)
	if len(fvs) == 0 {
		w.Unknown++
		return
	}
	for _, fv := range fvs {
		w.callValue(fv, cc.Args, e, held)
	}
}

func pathArgOrigin(v ssa.Value) ssa.Value {
	// for a string path argument, use the place it was loaded from (settings.ResumeFrom)
	if ld, ok := v.(*ssa.UnOp); ok && ld.Op == token.MUL {
		return ld.X
	}
	return v
}

func (w *forkWalker) bindArgs(cal *ssa.Function, args []ssa.Value, off int, e *env, ne *env) {
	for i, a := range args {
		pi := i + off
		if pi >= len(cal.Params) {
			break
		}
		p := cal.Params[pi]
		if _, isSig := p.Type().Underlying().(*types.Signature); isSig {
			ne.funcs[p] = w.funcValues(a, e)
			continue
		}
		switch p.Type().Underlying().(type) {
		case *types.Pointer, *types.Interface, *types.Map, *types.Slice, *types.Chan:
			ne.locs[p] = w.resolve(a, e, 0)
		}
	}
}

func (w *forkWalker) callValue(fv fval, args []ssa.Value, e *env, held map[string]bool) {
	switch x := fv.v.(type) {
	case *ssa.MakeClosure:
		w.callClosureEnv(x.Fn.(*ssa.Function), x, args, e, fv.e, held)
	case *ssa.Function:
		if x.Blocks != nil && core.InModule(x) {
			ne := newEnv()
			if args != nil {
				w.bindArgs(x, args, 0, e, ne)
			}
			w.walk(x, ne, held)
		}
	}
}

func (w *forkWalker) callClosureFn(f *ssa.Function, closure ssa.Value, args []ssa.Value, e *env, held map[string]bool) {
	w.callClosureEnv(f, closure, args, e, e, held)
}

// callClosureEnv calls function literal f: its body sees the lexical environment of its creator
// (creatorEnv: what the creator's parameters denote), arguments are resolved in the caller's environment.
func (w *forkWalker) callClosureEnv(f *ssa.Function, closure ssa.Value, args []ssa.Value, callerEnv *env, creatorEnv *env, held map[string]bool) {
	ne := creatorEnv.clone()
	if mc, ok := closure.(*ssa.MakeClosure); ok {
		for i, b := range mc.Bindings {
			if i >= len(f.FreeVars) {
				break
			}
			fvv := f.FreeVars[i]
			if ls, ok := creatorEnv.locs[b]; ok {
				ne.locs[fvv] = ls
			}
			if fs, ok := creatorEnv.funcs[b]; ok {
				ne.funcs[fvv] = fs
			}
		}
	}
	if args != nil {
		w.bindArgs(f, args, 0, callerEnv, ne)
	}
	w.walk(f, ne, held)
}

// ---- fork sites ---------------------------------------------------------------------------

type forkSite struct {
	parent *ssa.Function
	name   string
	units  []*forkUnit
	region []access // the parent's accesses between fork and join
	post   []access // the parent's accesses after the last join
	forks  []ssa.Instruction
}

type conflict struct {
	a, b   access
	ua, ub string
}

func overlap(p, q string) bool {
	if p == q {
		return true
	}
	short, long := p, q
	if len(short) > len(long) {
		short, long = long, short
	}
	if !strings.HasPrefix(long, short) {
		return false
	}
	rest := long[len(short):]
	return strings.HasPrefix(rest, ".") || strings.HasPrefix(rest, "[") || strings.HasPrefix(rest, "{") || strings.HasPrefix(rest, "#")
}

func disjoint(a, b map[string]bool) bool {
	for k := range a {
		if b[k] {
			return false
		}
	}
	return true
}

func findConflicts(s *forkSite) []conflict {
	var out []conflict
	seen := map[string]bool{}
	cmp := func(ua, ub string, A, B []access) {
		for _, a := range A {
			for _, b := range B {
				if !a.write && !b.write {
					continue
				}
				if a.loc.root != b.loc.root || !overlap(a.loc.path, b.loc.path) || !disjoint(a.locks, b.locks) {
					continue
				}
				k := ua + "|" + ub + "|" + a.loc.String() + "|" + b.loc.String()
				if seen[k] {
					continue
				}
				seen[k] = true
				out = append(out, conflict{a, b, ua, ub})
			}
		}
	}
	for i, u := range s.units {
		if u.multi {
			cmp(u.name, u.name+" (another instance)", u.accesses, u.accesses)
		}
		for j := i + 1; j < len(s.units); j++ {
			cmp(u.name, s.units[j].name, u.accesses, s.units[j].accesses)
		}
		cmp(u.name, "parent (between fork and join)", u.accesses, s.region)
		cmp(u.name+" (after its last result send)", "parent (after the join)", u.late, s.post)
	}
	return out
}

// analyseForkSite builds the units of all `go` statements and taskgroup.Do calls in parent.
func analyseForkSite(p *core.Prog, parent *ssa.Function, depth int) (*forkSite, int) {
	s := &forkSite{parent: parent, name: core.FnName(parent)}
	unknown := 0
	mk := func(name string, fvv fval, args []ssa.Value, multi bool) {
		fv := fvv.v
		var acc []access
		w := &forkWalker{p: p, maxDepth: depth, out: &acc, visited: map[string]bool{}}
		e := newEnv()
		w.callValue(fvv, args, e, map[string]bool{})
		unknown += w.Unknown
		var f *ssa.Function
		switch x := fv.(type) {
		case *ssa.MakeClosure:
			f = x.Fn.(*ssa.Function)
		case *ssa.Function:
			f = x
		}
		s.units = append(s.units, &forkUnit{name: name, fn: f, multi: multi, accesses: acc})
	}
	core.Instrs(parent, func(in ssa.Instruction) {
		switch x := in.(type) {
		case *ssa.Go:
			multi := core.FindPath(parent, in, isInstr(in), nil) != nil
			w := &forkWalker{p: p}
			fvs := w.funcValues(x.Call.Value, newEnv())
			if sc := x.Call.StaticCallee(); sc != nil {
				fvs = []fval{{sc, newEnv()}}
				if mc, ok := x.Call.Value.(*ssa.MakeClosure); ok {
					fvs = []fval{{mc, newEnv()}}
				}
			}
			for _, fv := range fvs {
				nm := "go " + core.Describe(fv.v)
				mk(nm, fv, x.Call.Args, multi)
			}
			if len(fvs) == 0 {
				unknown++
			}
			s.forks = append(s.forks, in)
		case *ssa.Call:
			if core.CalleeName(x) != "taskgroup.Do" || len(x.Call.Args) < 2 {
				return
			}
			s.forks = append(s.forks, in)
			// variadic slice: stores into the backing array
			for _, o := range core.Origins(x.Call.Args[1]) {
				sl, ok := o.(*ssa.Slice)
				if !ok {
					continue
				}
				arr, ok := sl.X.(*ssa.Alloc)
				if !ok {
					continue
				}
				if refs := arr.Referrers(); refs != nil {
					k := 0
					for _, r := range *refs {
						ia, ok := r.(*ssa.IndexAddr)
						if !ok {
							continue
						}
						if irefs := ia.Referrers(); irefs != nil {
							for _, rr := range *irefs {
								if st, ok := rr.(*ssa.Store); ok {
									w := &forkWalker{p: p}
									for _, fv := range w.funcValues(st.Val, newEnv()) {
										k++
										mk(fmt.Sprintf("task %d %s", k, core.Describe(fv.v)), fv, nil, false)
									}
								}
							}
						}
					}
				}
			}
		}
	})
	// parent region: instructions after a fork from which a join point is still reachable
	if len(s.forks) > 0 {
		chans := map[ssa.Value]bool{}
		for _, u := range s.units {
			if u.fn == nil {
				continue
			}
			for _, f := range core.WithAnons(u.fn) {
				core.Instrs(f, func(in ssa.Instruction) {
					switch x := in.(type) {
					case *ssa.Send:
						for _, r := range chanRoots(x.Chan) {
							if v, ok := r.(ssa.Value); ok {
								chans[v] = true
							}
						}
					case *ssa.Call:
						if cl, ok := builtinCall(in, "close"); ok {
							for _, r := range chanRoots(cl.Call.Args[0]) {
								if v, ok := r.(ssa.Value); ok {
									chans[v] = true
								}
							}
						}
					}
				})
			}
		}
		isUnitChan := func(v ssa.Value) bool {
			for _, r := range chanRoots(v) {
				if vv, ok := r.(ssa.Value); ok && chans[vv] {
					return true
				}
			}
			return false
		}
		isJoin := func(in ssa.Instruction) bool {
			switch x := in.(type) {
			case *ssa.UnOp:
				return x.Op == token.ARROW && isUnitChan(x.X)
			case *ssa.Select:
				for _, st := range x.States {
					if st.Dir == types.RecvOnly && isUnitChan(st.Chan) {
						return true
					}
				}
			case *ssa.Call:
				// a module function that is handed a unit-written channel and receives on it
				for _, a := range x.Call.Args {
					if _, isCh := a.Type().Underlying().(*types.Chan); isCh && isUnitChan(a) {
						return true
					}
				}
			}
			return false
		}
		inRegion := func(in ssa.Instruction) bool {
			after := false
			for _, f := range s.forks {
				if f != in && core.FindPath(parent, f, isInstr(in), nil) != nil {
					after = true
				}
			}
			if !after {
				return false
			}
			if isJoin(in) {
				return true
			}
			return core.FindPath(parent, in, isJoin, nil) != nil
		}
		var acc []access
		w := &forkWalker{p: p, maxDepth: depth, out: &acc, visited: map[string]bool{}}
		// walk the parent's instructions individually (no lock dataflow across the region: locks taken by the parent in the region are rare)
		e := newEnv()
		w.stack = nil
		core.Instrs(parent, func(in ssa.Instruction) {
			if _, isGo := in.(*ssa.Go); isGo {
				return
			}
			if cl, ok := in.(*ssa.Call); ok && core.CalleeName(cl) == "taskgroup.Do" {
				return
			}
			if !inRegion(in) {
				return
			}
			// the parent's own locals are shared with its closures: do not treat them as private
			before := len(acc)
			w.instr(parent, in, e, map[string]bool{})
			// a variable allocated per loop iteration (Go 1.22 loop variables, locals declared in the loop body):
			// an access that can only follow the fork after the variable was allocated anew touches a different
			// object than the one the unit captured
			kept := acc[:before]
			for _, a := range acc[before:] {
				if al, ok := a.loc.root.(*ssa.Alloc); ok && al.Parent() == parent {
					same := false
					for _, f := range s.forks {
						if core.FindPath(parent, f, isInstr(in), isInstr(al)) != nil {
							same = true
						}
					}
					if !same {
						continue
					}
				}
				kept = append(kept, a)
			}
			acc = kept
		})
		unknown += w.Unknown
		s.region = acc
		// ---- what a unit does after its last result send is not ordered before the parent's join
		isUnitSend := func(in ssa.Instruction) bool {
			sd, ok := in.(*ssa.Send)
			return ok && isUnitChan(sd.Chan)
		}
		anyLate := false
		for _, u := range s.units {
			if u.fn == nil {
				continue
			}
			bodySends := allInstrs(u.fn, isUnitSend)
			var sendDefers []ssa.Instruction
			core.Instrs(u.fn, func(in ssa.Instruction) {
				if d, ok := in.(*ssa.Defer); ok {
					for _, cal := range deferCallees(d) {
						if firstInstr(cal, isUnitSend) != nil {
							sendDefers = append(sendDefers, in)
						}
					}
				}
			})
			isBodySend := func(in ssa.Instruction) bool {
				for _, x := range bodySends {
					if x == in {
						return true
					}
				}
				return false
			}
			for _, a := range u.accesses {
				if a.top == nil || a.top.Parent() != u.fn {
					continue
				}
				late := false
				if _, isDef := a.top.(*ssa.Defer); isDef {
					// deferred work runs at exit: after a send in the body, and after a deferred send that was registered later
					if len(bodySends) > 0 {
						late = true
					}
					for _, ds := range sendDefers {
						if a.top != ds && core.FindPath(u.fn, a.top, isInstr(ds), nil) != nil {
							late = true
						}
					}
				} else {
					for _, sd := range bodySends {
						if core.FindPath(u.fn, sd, isInstr(a.top), nil) != nil && core.FindPath(u.fn, a.top, isBodySend, nil) == nil {
							late = true
						}
					}
				}
				if late {
					u.late = append(u.late, a)
					anyLate = true
				}
			}
		}
		if anyLate {
			var post []access
			w2 := &forkWalker{p: p, maxDepth: depth, out: &post, visited: map[string]bool{}}
			e2 := newEnv()
			core.Instrs(parent, func(in ssa.Instruction) {
				if _, isGo := in.(*ssa.Go); isGo {
					return
				}
				if inRegion(in) {
					return
				}
				afterJoin := false
				core.Instrs(parent, func(j ssa.Instruction) {
					if !afterJoin && isJoin(j) && j != in && core.FindPath(parent, j, isInstr(in), nil) != nil {
						afterJoin = true
					}
				})
				if !afterJoin {
					return
				}
				w2.instr(parent, in, e2, map[string]bool{})
			})
			s.post = post
		}
		// likewise two instances of a multi-instance unit do not share a variable that is allocated anew between two forks
		for _, u := range s.units {
			if !u.multi {
				continue
			}
			kept := u.accesses[:0]
			for _, a := range u.accesses {
				if al, ok := a.loc.root.(*ssa.Alloc); ok && al.Parent() == parent {
					shared := false
					for _, f := range s.forks {
						if core.FindPath(parent, f, isInstr(f), isInstr(al)) != nil {
							shared = true
						}
					}
					if !shared {
						a.loc.path += "" // per-instance object
						u.private = append(u.private, a)
						continue
					}
				}
				kept = append(kept, a)
			}
			u.accesses = kept
		}
	}
	return s, unknown
}
