package core

import (
	"bufio"
	"crypto/sha1"
	"encoding/json"
	"fmt"
	"go/token"
	"os"
	"path/filepath"
	"sort"
	"strings"
	"time"
)

// Status of an obligation.
const (
	Discharged   = "discharged"
	Violated     = "violated"
	Undischarged = "undischarged" // tree-caused: anchor gone, floor not met
)

// Obligation is one rule instance decided on the current tree.
type Obligation struct {
	Rule      string   `json:"rule"`
	Func      string   `json:"function"`
	Construct string   `json:"construct"`
	Pos       string   `json:"pos"`
	Status    string   `json:"verdict"`
	Detail    string   `json:"detail,omitempty"`
	Path      []string `json:"path,omitempty"`
	// Sites is the number of paths/sites/instructions inspected to decide it.
	Sites int `json:"sites_inspected"`
}

// Key identifies an obligation independently of line numbers.
func (o *Obligation) Key() string { return o.Rule + "|" + o.Func + "|" + o.Construct }

// Ctx collects the obligations of one property run.
type Ctx struct {
	P     *Prog
	Prop  string
	Tier  string
	Obls  []*Obligation
	Stats map[string]int
	Notes []string
	// Assumptions recorded by rules (deduplicated).
	assume map[string]bool
	rules  map[string]string // rule id -> one-line description
}

func NewCtx(p *Prog, prop, tier string) *Ctx {
	return &Ctx{P: p, Prop: prop, Tier: tier, Stats: map[string]int{}, assume: map[string]bool{}, rules: map[string]string{}}
}

// Rule registers the description of a rule (shown in evidence).
func (c *Ctx) Rule(id, desc string) { c.rules[id] = desc }

func (c *Ctx) Assume(s string) { c.assume[s] = true }

func (c *Ctx) add(o *Obligation) *Obligation {
	if o.Sites == 0 {
		o.Sites = 1
	}
	c.Obls = append(c.Obls, o)
	return o
}

// Ok records a discharged obligation.
func (c *Ctx) Ok(rule, fn, construct string, pos token.Pos, detail string) *Obligation {
	return c.add(&Obligation{Rule: rule, Func: fn, Construct: construct, Pos: c.P.Pos(pos), Status: Discharged, Detail: detail})
}

// Bad records a violated obligation.
func (c *Ctx) Bad(rule, fn, construct string, pos token.Pos, detail string, path ...string) *Obligation {
	return c.add(&Obligation{Rule: rule, Func: fn, Construct: construct, Pos: c.P.Pos(pos), Status: Violated, Detail: detail, Path: path})
}

// Check records ok or bad depending on cond.
func (c *Ctx) Check(cond bool, rule, fn, construct string, pos token.Pos, okDetail, badDetail string) *Obligation {
	if cond {
		return c.Ok(rule, fn, construct, pos, okDetail)
	}
	return c.Bad(rule, fn, construct, pos, badDetail)
}

// Missing records an anchor that no longer resolves (tree-caused, exit 1).
func (c *Ctx) Missing(rule, anchor, why string) *Obligation {
	return c.add(&Obligation{Rule: rule, Func: anchor, Construct: "anchor", Pos: "-", Status: Undischarged,
		Detail: "anchor not found: " + why})
}

// Floor is the vacuity guard: fewer instances than confirmed by hand is an
// undischarged obligation.
func (c *Ctx) Floor(rule, what string, found, min int) {
	c.Stats[rule+"."+what] = found
	if found < min {
		c.add(&Obligation{Rule: rule, Func: "-", Construct: "floor:" + what, Pos: "-", Status: Undischarged,
			Detail: fmt.Sprintf("found %d %s, expected at least %d (vacuity guard)", found, what, min), Sites: found + 1})
	} else {
		c.add(&Obligation{Rule: rule, Func: "-", Construct: "floor:" + what, Pos: "-", Status: Discharged,
			Detail: fmt.Sprintf("found %d %s (floor %d)", found, what, min), Sites: found + 1})
	}
}

// ---- known findings ---------------------------------------------------------

type knownFinding struct {
	Prop, Key, What string
}

// LoadKnown parses /verif/known_findings.txt. Lines:
//
//	known: property=C19 key=<rule|func|construct> :: <what fails>
//	fixed: property=C10 <commit> <what failed>      (suppresses nothing)
func LoadKnown(path string) ([]knownFinding, error) {
	f, err := os.Open(path)
	if err != nil {
		if os.IsNotExist(err) {
			return nil, nil
		}
		return nil, err
	}
	defer f.Close()
	var out []knownFinding
	sc := bufio.NewScanner(f)
	sc.Buffer(make([]byte, 1<<20), 1<<20)
	for sc.Scan() {
		line := strings.TrimSpace(sc.Text())
		if !strings.HasPrefix(line, "known:") {
			continue
		}
		rest := strings.TrimSpace(strings.TrimPrefix(line, "known:"))
		var kf knownFinding
		parts := strings.SplitN(rest, " :: ", 2)
		if len(parts) == 2 {
			kf.What = parts[1]
		}
		head := parts[0]
		if !strings.HasPrefix(head, "property=") {
			return nil, fmt.Errorf("bad known-finding line: %q", line)
		}
		i := strings.Index(head, " key=")
		if i < 0 {
			return nil, fmt.Errorf("bad known-finding line (no key=): %q", line)
		}
		kf.Prop = strings.TrimPrefix(head[:i], "property=")
		kf.Key = strings.TrimSpace(head[i+5:])
		out = append(out, kf)
	}
	return out, sc.Err()
}

// ---- evidence ---------------------------------------------------------------

type evidence struct {
	PropertyID  string                 `json:"property_id"`
	Tier        string                 `json:"tier"`
	Seed        int                    `json:"seed"`
	Level       string                 `json:"level"`
	Coverage    map[string]interface{} `json:"coverage"`
	Assumptions []string               `json:"assumptions"`
	WallS       float64                `json:"wall_s"`
	Violations  int                    `json:"violations"`
}

// Finish prints the verdict lines, writes evidence and replay files and returns
// the process exit code.
func (c *Ctx) Finish(verifDir string, seed int, t0 time.Time, explanation string, extraAssume []string, selftest map[string]interface{}) int {
	known, err := LoadKnown(filepath.Join(verifDir, "known_findings.txt"))
	if err != nil {
		fmt.Fprintf(os.Stderr, "BROKEN: %v\n", err)
		return 2
	}
	sort.SliceStable(c.Obls, func(i, j int) bool { return c.Obls[i].Key() < c.Obls[j].Key() })
	evDir := filepath.Join(verifDir, "evidence")
	os.MkdirAll(filepath.Join(evDir, "replay"), 0o755)
	// remove stale replay files of this property
	old, _ := filepath.Glob(filepath.Join(evDir, "replay", c.Prop+"-*.json"))
	for _, f := range old {
		os.Remove(f)
	}

	nViol, nKnown, nDis := 0, 0, 0
	distinct := map[string]bool{}
	rulesSeen := map[string]int{}
	var samples []interface{}
	var violSamples []interface{}
	usedKnown := map[int]bool{}
	for _, o := range c.Obls {
		rulesSeen[o.Rule]++
		if o.Sites >= 1 && !strings.HasPrefix(o.Construct, "floor:") {
			distinct[o.Key()] = true
		}
		switch o.Status {
		case Discharged:
			nDis++
		default:
			isKnown := false
			for i, k := range known {
				if k.Prop == c.Prop && k.Key == o.Key() {
					isKnown = true
					usedKnown[i] = true
					fmt.Printf("KNOWN-FINDING: property=%s %s :: %s (%s)\n", c.Prop, o.Key(), k.What, o.Pos)
				}
			}
			if isKnown {
				nKnown++
				continue
			}
			nViol++
			h := sha1.Sum([]byte(o.Key()))
			rp := filepath.Join(evDir, "replay", fmt.Sprintf("%s-%x.json", c.Prop, h[:6]))
			b, _ := json.MarshalIndent(map[string]interface{}{"property": c.Prop, "key": o.Key(), "obligation": o}, "", " ")
			os.WriteFile(rp, b, 0o644)
			kind := "violated"
			if o.Status == Undischarged {
				kind = "undischarged"
			}
			fmt.Printf("VIOLATION property=%s replay=%s kind=%s\n", c.Prop, rp, kind)
			fmt.Printf("  %s: rule %s in %s: %s\n    %s\n", o.Pos, o.Rule, o.Func, o.Construct, o.Detail)
			for _, s := range o.Path {
				fmt.Printf("      path: %s\n", s)
			}
			violSamples = append(violSamples, o)
		}
	}
	// samples: violations first, then a spread of discharged obligations (one per rule, then more)
	samples = append(samples, violSamples...)
	perRule := map[string]int{}
	for _, o := range c.Obls {
		if o.Status == Discharged && !strings.HasPrefix(o.Construct, "floor:") && perRule[o.Rule] < 2 && len(samples) < 40 {
			perRule[o.Rule]++
			samples = append(samples, o)
		}
	}
	if len(samples) == 0 {
		for _, o := range c.Obls {
			samples = append(samples, o)
			if len(samples) >= 5 {
				break
			}
		}
	}
	var ruleList []string
	for id := range c.rules {
		ruleList = append(ruleList, id)
	}
	sort.Strings(ruleList)
	var ruleDescs []string
	for _, id := range ruleList {
		ruleDescs = append(ruleDescs, fmt.Sprintf("%s (%d obligations): %s", id, rulesSeen[id], c.rules[id]))
	}
	var assumptions []string
	for a := range c.assume {
		assumptions = append(assumptions, a)
	}
	assumptions = append(assumptions, extraAssume...)
	assumptions = append(assumptions, "rules see the shape of the type-checked program (go/ssa), not runtime values; no reflection or unsafe; anchors are named program elements resolved through go/types")
	sort.Strings(assumptions)
	stats := map[string]int{}
	for k, v := range c.Stats {
		stats[k] = v
	}
	cov := map[string]interface{}{
		"explanation":         explanation,
		"rules":               ruleDescs,
		"obligations":         len(c.Obls),
		"discharged":          nDis,
		"known_findings":      nKnown,
		"evaluations":         len(c.Obls),
		"distinct_nontrivial": len(distinct),
		"rule":                "one evaluation = one rule instance (rule|function|construct) decided on /repo's current source; non-trivial = its decision inspected at least one call site / path / instruction of the resolved program (vacuity-floor bookkeeping entries are excluded); distinct = distinct obligation keys",
		"samples":             samples,
		"packages_analysed":   len(c.P.Roots),
		"functions_analysed":  c.P.NumFunc,
		"instance_counts":     stats,
		"trusted_base": []string{"go/parser, go/types (go1.24 toolchain)", "golang.org/x/tools v0.29.0: go/packages, go/ssa, go/callgraph/{cha,vta}",
			"the rule code under /verif/checker (exercised by fixtures, mutants and seeded changes)"},
		"checker_cmd": "./run.sh " + c.Prop + " " + c.Tier,
		"exhaustive":  false,
		"notes":       c.Notes,
	}
	if selftest != nil {
		cov["checker_self_test"] = selftest
	}
	ev := evidence{PropertyID: c.Prop, Tier: c.Tier, Seed: seed, Level: "other", Coverage: cov,
		Assumptions: assumptions, WallS: time.Since(t0).Seconds(), Violations: nViol}
	b, _ := json.MarshalIndent(ev, "", " ")
	if err := os.WriteFile(filepath.Join(evDir, c.Prop+".json"), b, 0o644); err != nil {
		fmt.Fprintf(os.Stderr, "BROKEN: cannot write evidence: %v\n", err)
		return 2
	}
	fmt.Printf("property=%s tier=%s packages=%d functions=%d obligations=%d discharged=%d known=%d violations=%d wall=%.1fs\n",
		c.Prop, c.Tier, len(c.P.Roots), c.P.NumFunc, len(c.Obls), nDis, nKnown, nViol, time.Since(t0).Seconds())
	if nViol > 0 {
		return 1
	}
	return 0
}
