package rules

import (
	"fmt"
	"go/token"
	"go/types"
	"sort"
	"strings"

	"golang.org/x/tools/go/ssa"

	"wharfverif/checker/internal/core"
)

// wireReadCall recognises the three ways wharf fills a message from a stream.
func wireReadCall(c ssa.CallInstruction) int {
	cc := c.Common()
	if cc.IsInvoke() {
		if cc.Method.Name() == "ReadMessage" && strings.HasSuffix(core.TypeName(cc.Value.Type()), "wire.MessageReader") {
			return 0
		}
		return -1
	}
	if fn := cc.StaticCallee(); fn != nil {
		if core.FnName(fn) == "(*wire.ReadContext).ReadMessage" {
			return 1
		}
		// bound method value rctx.ReadMessage used as a ReadMessageFunc
		if fn.Synthetic != "" && strings.Contains(fn.Name(), "ReadMessage$bound") {
			return 0
		}
		return -1
	}
	if n, ok := cc.Value.Type().(*types.Named); ok && n.Obj().Name() == "ReadMessageFunc" {
		return 0
	}
	return -1
}

func isContainerMsg(t types.Type) bool {
	return core.TypeName(t) == "github.com/itchio/lake/tlc.Container"
}

var poolIndexMethods = map[string]bool{"GetSize": true, "GetReader": true, "GetReadSeeker": true, "GetWriter": true, "GetPath": true, "GetRelativePath": true}

// poolSinkArgs is the contract table for external callees that index a
// container with their argument without checking it (lake pools).
func poolSinkArgs(c ssa.CallInstruction) []int {
	cc := c.Common()
	if cc.IsInvoke() {
		if poolIndexMethods[cc.Method.Name()] {
			tn := core.TypeName(cc.Value.Type())
			if tn == "github.com/itchio/lake.Pool" || tn == "github.com/itchio/lake.WritablePool" {
				return []int{0}
			}
		}
		return nil
	}
	if fn := cc.StaticCallee(); fn != nil && poolIndexMethods[fn.Name()] {
		if strings.HasPrefix(core.PkgPathOf(fn), "github.com/itchio/lake/pools/") && fn.Signature.Recv() != nil {
			return []int{1}
		}
	}
	return nil
}

func taintScope(p *core.Prog) []*ssa.Function {
	var fns []*ssa.Function
	for _, fn := range p.SrcFuncs() {
		pp := core.PkgPathOf(fn)
		if strings.HasSuffix(pp, "/wtest") {
			continue
		}
		fns = append(fns, fn)
	}
	return fns
}

func init() {
	register(&Property{
		ID: "C10",
		Explanation: `R10.sink (wire taint with field-validated typestate): every integer field loaded from an object that ReadMessage fills from a ` +
			`patch/signature/overlay stream is followed through copies, phis, locals, struct values (per field), heap fields, maps, call parameters and results; ` +
			`at every index / slice-bound / make-size / divisor / lake-pool-call sink the value must be covered by a two-sided range guard (or an equality with trusted data) ` +
			`established by dominating branch outcomes, directly or through a boolean/error validator function. R10.len: every slicing of the untrusted-length ` +
			`slice SignatureInfo.Hashes needs a dominating comparison of the same bound with len() of that slice. ` +
			`R10.space: an index is never related to both builds' file lists (a bound check against the other build's container does not protect the use). ` +
			`Sink kinds also include the exit test of a loop comparing with a wire-derived integer that has no upper bound. R10.nil in processRsync/processBsdiff, when the entry writer lives in a cell, every method invoked on it - in the function, or in a literal at each place that is called or handed on - is reached from the variable's declaration only through an assignment of a writer, or sits behind a nil test. R10.ptr a sub-message pointer (read from a generated message's pointer field, returned by its getter, or received as a parameter from a call that hands one over) has a field selected directly only behind a test against nil. NOT decided: nil-dereference and type-assertion panics, non-termination, truncation handling inside io/proto libraries, compressed framing, values passed through channels or slice elements.`,
		Assumptions: []string{
			"tlc.Container messages are well-formed and no frame declares a length beyond the stream (C10's own preconditions)",
			"no reflection/unsafe; two distinct variables do not alias unless one was assigned from the other",
			"contract table: lake.Pool/WritablePool/FsPool Get* methods index their container with the argument unchecked",
			"values received from channels and loaded from slice elements are not tracked (declared gap)",
			"a range guard is accepted when both sides are bounded by data that is not itself unvalidated wire data; that the bound is the right one is not checked",
		},
		Run:        runC10,
		Fixtures:   fixturesC10,
		FixturePkg: "taintfx",
	})
}

func c10Config(precise bool) TaintConfig {
	return TaintConfig{IsReadCall: wireReadCall, ExcludedMsgType: isContainerMsg, ExternalSinkArgs: poolSinkArgs, Precise: precise}
}

func runC10(c *core.Ctx) {
	ruleNoAllocBySizeDeclared(c, "R10.alloc")
	ruleNoInvokeOnUnsetWriter(c, "R10.nil")
	ruleAbsentSubMessagesAreNotDereferenced(c, "R10.ptr")
	ruleNoSwallowedLayerErrors(c, "R10.swallow", moduleErrCallee, "/pwr", "/pwr/patcher", "/pwr/bowl", "/pwr/rediff", "/pwr/overlay", "/wire", "/wsync", "/bsdiff", "/bsdiff/lrufile", "/multiread", "/ctxcopy")
	ruleNoDroppedLayerErrors(c, "R10.err", "/pwr", "/pwr/patcher", "/pwr/bowl", "/pwr/rediff", "/pwr/overlay", "/wire", "/wsync", "/bsdiff", "/multiread", "/ctxcopy")
	c.Rule("R10.sink", "wire-derived integers reach index/slice/make/divide/pool-call sinks only under a two-sided range guard or an equality with trusted data")
	c.Rule("R10.len", "slicing SignatureInfo.Hashes is dominated by a comparison of the same bound with len(Hashes)")
	e := RunTaint(c.P, taintScope(c.P), c10Config(c.Tier == "thorough"))
	reportTaint(c, e, "R10.sink", func(fn *ssa.Function) bool {
		return strings.HasSuffix(core.PkgPathOf(fn), "/pwr/genie")
	})
	c.Floor("R10.sink", "ReadMessage call sites (non-container)", e.ReadCallSites, 10)
	c.Floor("R10.sink", "wire objects", len(e.WireObjects), 6)
	c.Floor("R10.sink", "tainted field loads", len(e.TaintedLoads), 7)
	nsinks := 0
	for _, s := range e.Sinks {
		if !s.T.empty() {
			nsinks++
		}
	}
	c.Floor("R10.sink", "sinks reached by wire-derived values", nsinks, 3)
	c.Stats["R10.unresolved_dynamic_calls"] = e.UnresolvedDyn
	untrustedLenRule(c, "R10.len", "pwr", "SignatureInfo", "Hashes", 1)
	// a range check against the WRONG container is no check: index-space consistency
	c.Rule("R10.space", "no file index is checked against / used with both the old and the new build's file list (index-space consistency, shared with R02.6)")
	ruleIndexSpaces(c, "R10.space")
}

// reportTaint turns sinks into obligations.
func reportTaint(c *core.Ctx, e *taintEngine, rule string, informational func(*ssa.Function) bool) {
	type agg struct {
		o    *core.Obligation
		seen map[string]bool
	}
	byKey := map[string]*agg{}
	for _, s := range e.Sinks {
		if s.T.empty() {
			continue
		}
		fnName := core.FnName(s.Fn)
		construct := s.Kind + " " + s.Expr
		key := fnName + "|" + construct
		if informational != nil && informational(s.Fn) {
			if s.T.tainted() {
				c.Notes = append(c.Notes, fmt.Sprintf("informational (package anchored in no property): unguarded wire-derived %s at %s in %s", construct, c.P.Pos(core.InstrPos(s.Instr)), fnName))
			}
			continue
		}
		var origins []string
		if s.T.tainted() {
			for _, l := range s.T.allLabels() {
				origins = append(origins, l.origin)
			}
		} else {
			for _, l := range s.T.washed {
				origins = append(origins, l.origin)
			}
			sort.Strings(origins)
		}
		a := byKey[key]
		if a == nil {
			a = &agg{seen: map[string]bool{}}
			byKey[key] = a
			if s.T.tainted() {
				a.o = c.Bad(rule, fnName, construct, core.InstrPos(s.Instr),
					"wire-derived value used without a dominating two-sided range guard; origin: "+strings.Join(dedup(origins), "; "))
			} else {
				a.o = c.Ok(rule, fnName, construct, core.InstrPos(s.Instr),
					"wire-derived value is range-checked before this use; origin: "+strings.Join(dedup(origins), "; "))
			}
		} else if s.T.tainted() && a.o.Status == core.Discharged {
			a.o.Status = core.Violated
			a.o.Detail = "wire-derived value used without a dominating two-sided range guard; origin: " + strings.Join(dedup(origins), "; ")
		}
		a.o.Sites++
	}
}

// untrustedLenRule: every Slice/Index of a load of pkg.typ.field needs, for each
// variable bound, a dominating guard comparing the same expression with len() of
// the same field.
func untrustedLenRule(c *core.Ctx, rule, pkg, typ, field string, min int) {
	n := 0
	isField := func(v ssa.Value) bool {
		for _, o := range core.Origins(v) {
			base, name, ok := core.FieldOf(o)
			if ok && name == field && core.TypeName(base.Type()) == pkg+"."+typ {
				return true
			}
		}
		return false
	}
	for _, fn := range c.P.SrcFuncs() {
		core.Instrs(fn, func(in ssa.Instruction) {
			var bounds []ssa.Value
			var x ssa.Value
			switch s := in.(type) {
			case *ssa.Slice:
				x = s.X
				for _, b := range []ssa.Value{s.Low, s.High, s.Max} {
					if b != nil {
						bounds = append(bounds, b)
					}
				}
			case *ssa.IndexAddr:
				x = s.X
				bounds = append(bounds, s.Index)
			default:
				return
			}
			if !isField(x) {
				return
			}
			n++
			for _, b := range bounds {
				if _, isC := core.ConstInt(b); isC {
					continue
				}
				ok := false
				var lo bool
				for _, g := range core.Guards(in) {
					bo, isB := g.Cond.(*ssa.BinOp)
					if !isB {
						continue
					}
					for _, pair := range [][2]ssa.Value{{bo.X, bo.Y}, {bo.Y, bo.X}} {
						if sameExpr(pair[0], b) && isLenOf(pair[1], isField) {
							ok = true
						}
						// a smaller-or-equal bound guarded: lower bound of a range whose upper bound is guarded
						_ = lo
					}
				}
				// the low bound of x[lo:hi] is covered when hi is (Go checks lo <= hi itself)
				if sl, isS := in.(*ssa.Slice); isS && b == sl.Low && sl.High != nil {
					continue
				}
				construct := "bound " + core.Describe(b) + " of " + core.Describe(in.(ssa.Value))
				c.Check(ok, rule, core.FnName(fn), construct, core.InstrPos(in),
					"bound is compared with len("+field+") on every path to the slicing",
					"untrusted-length slice "+typ+"."+field+" is sliced with a bound that no dominating branch compares with its len(): a stream with fewer entries panics here")
			}
		})
	}
	c.Floor(rule, "slicings of "+typ+"."+field, n, min)
}

func isLenOf(v ssa.Value, isField func(ssa.Value) bool) bool {
	v = core.StripConv(v)
	c, ok := v.(*ssa.Call)
	if !ok {
		return false
	}
	if b, ok := c.Call.Value.(*ssa.Builtin); ok && b.Name() == "len" && len(c.Call.Args) == 1 {
		return isField(c.Call.Args[0])
	}
	return false
}

// sameExpr: structural equality of side-effect-free expressions (go/ssa has no CSE).
func sameExpr(a, b ssa.Value) bool {
	a, b = core.StripConv(a), core.StripConv(b)
	if a == b {
		return true
	}
	switch x := a.(type) {
	case *ssa.Const:
		y, ok := b.(*ssa.Const)
		return ok && x.Value != nil && y.Value != nil && x.Value.ExactString() == y.Value.ExactString()
	case *ssa.BinOp:
		y, ok := b.(*ssa.BinOp)
		return ok && x.Op == y.Op && sameExpr(x.X, y.X) && sameExpr(x.Y, y.Y)
	case *ssa.UnOp:
		y, ok := b.(*ssa.UnOp)
		if !ok || x.Op != y.Op {
			return false
		}
		if fx, ok := x.X.(*ssa.FieldAddr); ok {
			fy, ok := y.X.(*ssa.FieldAddr)
			return ok && fx.Field == fy.Field && sameObj(fx.X, fy.X)
		}
		return core.CellRoot(x.X) == core.CellRoot(y.X)
	case *ssa.Call:
		y, ok := b.(*ssa.Call)
		if !ok {
			return false
		}
		bx, ok1 := x.Call.Value.(*ssa.Builtin)
		by, ok2 := y.Call.Value.(*ssa.Builtin)
		if ok1 && ok2 && bx.Name() == by.Name() && len(x.Call.Args) == len(y.Call.Args) {
			for i := range x.Call.Args {
				if !sameExpr(x.Call.Args[i], y.Call.Args[i]) {
					return false
				}
			}
			return true
		}
	}
	return false
}

func fixturesC10(fc *core.Ctx) map[string]bool {
	var fns []*ssa.Function
	for _, fn := range fc.P.SrcFuncs() {
		if strings.HasSuffix(core.PkgPathOf(fn), "/taintfx") {
			fns = append(fns, fn)
		}
	}
	e := RunTaint(fc.P, fns, c10Config(false))
	rep := map[string]bool{}
	for _, s := range e.Sinks {
		if s.T.tainted() {
			rep[family(s.Fn).Name()] = true
		}
	}
	for _, fn := range fns {
		if len(declaredSizeAllocs(fn)) > 0 {
			rep[family(fn).Name()] = true
		}
	}
	return rep
}

// moduleErrCallee: a statically resolved call to a function of the module (its failure is a failure of the
// layers below it).
func moduleErrCallee(c ssa.CallInstruction) (string, bool) {
	f := c.Common().StaticCallee()
	if f == nil || !core.InModule(f) || len(f.Blocks) == 0 {
		return "", false
	}
	return core.FnName(f), true
}

// declaredSizeOrigin reports whether v derives - through arithmetic, conversions and calls of module
// functions (their results from their arguments) - from a size a container merely declares
// (tlc.Container.Size, tlc.File.Size): a number the stream states, before any of the data it promises was
// read. Containers are trusted to be well-formed, not to be small.
func declaredSizeOrigin(v ssa.Value, depth int, seen map[ssa.Value]bool) string {
	if v == nil || depth > 8 || seen[v] {
		return ""
	}
	seen[v] = true
	for _, o := range core.Origins(v) {
		switch x := core.StripConv(o).(type) {
		case *ssa.BinOp:
			if s := declaredSizeOrigin(x.X, depth+1, seen); s != "" {
				return s
			}
			if s := declaredSizeOrigin(x.Y, depth+1, seen); s != "" {
				return s
			}
		case *ssa.Convert:
			if s := declaredSizeOrigin(x.X, depth+1, seen); s != "" {
				return s
			}
		case *ssa.Call:
			if f := x.Call.StaticCallee(); f != nil && core.InModule(f) {
				for _, a := range x.Call.Args {
					if s := declaredSizeOrigin(a, depth+1, seen); s != "" {
						return s
					}
				}
			}
		default:
			if b, n, ok := core.FieldOf(o); ok && n == "Size" {
				tn := core.TypeName(b.Type())
				if tn == "github.com/itchio/lake/tlc.Container" || tn == "github.com/itchio/lake/tlc.File" {
					return tn + ".Size"
				}
			}
		}
	}
	return ""
}

// declaredSizeAllocs lists the allocations of fn whose length or capacity derives from a declared size
// without a dominating upper bound on that operand.
func declaredSizeAllocs(fn *ssa.Function) []ssa.Instruction {
	var out []ssa.Instruction
	core.Instrs(fn, func(in ssa.Instruction) {
		var ops []ssa.Value
		switch x := in.(type) {
		case *ssa.MakeSlice:
			ops = []ssa.Value{x.Len, x.Cap}
		case *ssa.MakeMap:
			if x.Reserve != nil {
				ops = []ssa.Value{x.Reserve}
			}
		case *ssa.MakeChan:
			ops = []ssa.Value{x.Size}
		default:
			return
		}
		for _, op := range ops {
			if _, isC := core.ConstInt(op); isC || op == nil {
				continue
			}
			if declaredSizeOrigin(op, 0, map[ssa.Value]bool{}) == "" {
				continue
			}
			bounded := hasGuard(in, func(g core.Guard) bool {
				isOp := func(v ssa.Value) bool { return sameVal(core.StripConv(v), core.StripConv(op)) || sameExpr(v, op) }
				return relHolds(g, token.LEQ, isOp, anyVal) || relHolds(g, token.LSS, isOp, anyVal)
			})
			if !bounded {
				out = append(out, in)
				return
			}
		}
	})
	return out
}

func ruleNoAllocBySizeDeclared(c *core.Ctx, rule string) {
	c.Rule(rule, "no allocation is sized by a size the stream merely declares")
	n := 0
	for _, fn := range c.P.SrcFuncs() {
		if !core.InModule(fn) {
			continue
		}
		core.Instrs(fn, func(in ssa.Instruction) {
			switch in.(type) {
			case *ssa.MakeSlice, *ssa.MakeMap, *ssa.MakeChan:
				n++
			}
		})
		for _, in := range declaredSizeAllocs(fn) {
			c.Bad(rule, core.FnName(fn), "allocation sized by a declared size: "+core.Describe(in.(ssa.Value)), core.InstrPos(in),
				"the length or capacity derives from tlc.Container.Size / tlc.File.Size, which the stream declares before any of the promised data was read, and no dominating test bounds it: a small stream that declares a huge (or negative) size makes the allocation panic or exhaust memory")
		}
	}
	c.Floor(rule, "dynamic allocations in the module", n, 10)
}
