// Package statfx holds positive and negative examples for the no-follow
// discipline (R06.5): Bad* must be reported, Good* must stay silent.
package statfx

import "os"

// BadStatThenReplace decides what to do with a path from os.Stat, which follows
// links: a dangling link looks like nothing, a link to a directory like a directory.
func BadStatThenReplace(path string) error {
	if _, err := os.Stat(path); err == nil {
		if err := os.RemoveAll(path); err != nil {
			return err
		}
	}
	return os.MkdirAll(path, 0o755)
}

// BadStatInLiteral hides the Stat in a function literal of a function that changes the tree.
func BadStatInLiteral(paths []string) error {
	isDir := func(p string) bool {
		st, err := os.Stat(p)
		return err == nil && st.IsDir()
	}
	for _, p := range paths {
		if !isDir(p) {
			if err := os.MkdirAll(p, 0o755); err != nil {
				return err
			}
		}
	}
	return nil
}

// GoodLstatThenReplace looks at the entry itself.
func GoodLstatThenReplace(path string) error {
	if _, err := os.Lstat(path); err == nil {
		if err := os.RemoveAll(path); err != nil {
			return err
		}
	}
	return os.MkdirAll(path, 0o755)
}

// GoodStatOnly sizes an archive; it changes nothing.
func GoodStatOnly(path string) (int64, error) {
	st, err := os.Stat(path)
	if err != nil {
		return 0, err
	}
	return st.Size(), nil
}

// GoodHandleStat stats an open file, not a path.
func GoodHandleStat(path string) (int64, error) {
	f, err := os.OpenFile(path, os.O_RDONLY, 0)
	if err != nil {
		return 0, err
	}
	defer f.Close()
	st, err := f.Stat()
	if err != nil {
		return 0, err
	}
	return st.Size(), nil
}
