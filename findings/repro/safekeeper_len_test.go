package probe

import (
	"bytes"
	"os"
	"path/filepath"
	"testing"

	"github.com/itchio/headway/state"
	"github.com/itchio/lake/pools/fspool"
	"github.com/itchio/savior"
	"github.com/itchio/savior/seeksource"
	"github.com/itchio/wharf/pwr"
	"github.com/itchio/wharf/pwr/bowl"
	"github.com/itchio/wharf/pwr/patcher"
)

func applyViaSafekeeperSig(t *testing.T, oldDir string, sb []byte, patch []byte, outDir string) error {
	p, err := patcher.New(seeksource.FromBytes(patch), &state.Consumer{})
	must(t, err)
	inner := fspool.New(p.GetTargetContainer(), oldDir)
	sk, err := pwr.NewSafeKeeper(pwr.SafeKeeperParams{
		Inner: inner,
		Open: func() (savior.SeekSource, error) {
			src := seeksource.FromBytes(sb)
			if _, err := src.Resume(nil); err != nil {
				return nil, err
			}
			return src, nil
		},
	})
	must(t, err)
	b, err := bowl.NewFreshBowl(bowl.FreshBowlParams{
		SourceContainer: p.GetSourceContainer(),
		TargetContainer: p.GetTargetContainer(),
		TargetPool:      sk,
		OutputFolder:    outDir,
	})
	must(t, err)
	err = p.Resume(nil, sk, b)
	if err != nil {
		return err
	}
	return b.Commit()
}

// C09-iii: length damage to a file that the patch copies whole, old build read through the safekeeper
func TestSafekeeperLengthDamage(t *testing.T) {
	const bs = 64 * 1024
	cases := []struct {
		name   string
		size   int
		damage func(data []byte) []byte
	}{
		{"undamaged, 1 block exactly", bs, func(d []byte) []byte { return d }},
		{"undamaged, 2 blocks + 1000", 2*bs + 1000, func(d []byte) []byte { return d }},
		{"extended by 10 bytes inside the last block", 2*bs + 1000, func(d []byte) []byte { return append(append([]byte{}, d...), bytes.Repeat([]byte{7}, 10)...) }},
		{"extended past the last block", 2*bs + 1000, func(d []byte) []byte { return append(append([]byte{}, d...), bytes.Repeat([]byte{7}, bs)...) }},
		{"truncated at a block boundary", 3*bs + 1000, func(d []byte) []byte { return d[:2*bs] }},
		{"truncated to nothing", 3*bs + 1000, func(d []byte) []byte { return nil }},
		{"truncated inside a block", 3*bs + 1000, func(d []byte) []byte { return d[:2*bs+17] }},
		{"aligned file extended by one byte", 2 * bs, func(d []byte) []byte { return append(append([]byte{}, d...), 1) }},
	}
	for i, tc := range cases {
		dir := t.TempDir()
		old := filepath.Join(dir, "old")
		nw := filepath.Join(dir, "new")
		out := filepath.Join(dir, "out")
		data := randBytes(int64(10+i), tc.size)
		writeFile(t, old, "a", data)
		writeFile(t, old, "z", []byte("old z"))
		writeFile(t, nw, "a", data)
		writeFile(t, nw, "z", []byte("new z, different"))
		patch := diff(t, old, nw)
		oc, oh := sign(t, old)
		sb := sigBytes(t, oc, oh)
		must(t, os.WriteFile(filepath.Join(old, "a"), tc.damage(data), 0o644))
		err := applyViaSafekeeperSig(t, old, sb, patch, out)
		got, rerr := os.ReadFile(filepath.Join(out, "a"))
		if err != nil {
			t.Logf("%-45s apply err = %v", tc.name, err)
			continue
		}
		must(t, rerr)
		t.Logf("%-45s apply ok; out/a len=%d equal-to-new=%v", tc.name, len(got), bytes.Equal(got, data))
	}
}
