#!/usr/bin/env python3
"""tools/rebase3.py <patchfile> : re-make a stored patch after /repo moved, by a three-way merge per file.
For every file diff that no longer applies to /repo's HEAD, the base version is searched in /repo's history
(the newest commit whose version of the file the diff applies to), 'theirs' is base+diff, 'ours' is HEAD,
and `git merge-file` merges them. Conflicts are left in the scratch file and reported; nothing is written
unless every file merged cleanly (or --edit <script.py> resolves what is left)."""
import sys, re, subprocess, os, tempfile, shutil
pf = os.path.realpath(sys.argv[1])
edit = None
if '--edit' in sys.argv:
    edit = os.path.realpath(sys.argv[sys.argv.index('--edit') + 1])
s = open(pf).read()
parts = re.split(r'(?m)^(?=diff )', s)
hdr, diffs = parts[0], parts[1:]
S = tempfile.mkdtemp(prefix='wharf-rebase3-', dir='/tmp')
try:
    subprocess.run(['rsync', '-a', '--exclude', '.git', '/repo/', S + '/a/'], check=True)
    subprocess.run(['rsync', '-a', '--exclude', '.git', '/repo/', S + '/b/'], check=True)
    conflicts = []
    for d in diffs:
        m = re.search(r'(?m)^\+\+\+ b/(\S+)', d)
        if not m:
            m = re.search(r'(?m)^diff .* b/(\S+)', d)
        path = m.group(1)
        open(S + '/one.patch', 'w').write(d)
        r = subprocess.run(['patch', '-p1', '-s', '--no-backup-if-mismatch', '--dry-run', '-i', S + '/one.patch'], cwd=S + '/b', capture_output=True)
        if r.returncode == 0:
            subprocess.run(['patch', '-p1', '-s', '--no-backup-if-mismatch', '-i', S + '/one.patch'], cwd=S + '/b', check=True)
            continue
        # find a base in history
        revs = subprocess.run(['git', '-C', '/repo', 'log', '--format=%H', '--', path], capture_output=True, text=True).stdout.split()
        revs = revs[1:] + ([revs[-1] + '~1'] if revs else [])
        merged = False
        for rev in revs:
            base = subprocess.run(['git', '-C', '/repo', 'show', rev + ':' + path], capture_output=True)
            if base.returncode != 0:
                continue
            T = S + '/t'
            shutil.rmtree(T, ignore_errors=True)
            os.makedirs(os.path.dirname(T + '/' + path), exist_ok=True)
            open(T + '/' + path, 'wb').write(base.stdout)
            r = subprocess.run(['patch', '-p1', '-s', '--no-backup-if-mismatch', '-i', S + '/one.patch'], cwd=T, capture_output=True)
            if r.returncode != 0:
                continue
            basef = S + '/base.tmp'
            open(basef, 'wb').write(base.stdout)
            r = subprocess.run(['git', 'merge-file', '-L', 'HEAD', '-L', 'base', '-L', 'patch', S + '/b/' + path, basef, T + '/' + path])
            if r.returncode != 0:
                conflicts.append(path)
            print('merged', path, 'from base', rev[:10], 'conflicts' if r.returncode else 'clean')
            merged = True
            break
        if not merged:
            print('NO BASE FOUND for', path)
            conflicts.append(path)
    if edit:
        subprocess.run([sys.executable, edit], cwd=S + '/b', check=True)
        conflicts = [c for c in conflicts if '<<<<<<<' in open(S + '/b/' + c).read()]
    if conflicts:
        for c in conflicts:
            txt = open(S + '/b/' + c).read()
            for mm in re.finditer(r'(?s)<<<<<<< .*?>>>>>>> [^\n]*\n', txt):
                print('--- conflict in', c)
                print(mm.group(0))
        print('CONFLICTS:', conflicts)
        sys.exit(1)
    subprocess.run('gofmt -l . | grep . && exit 1 || true', shell=True, cwd=S + '/b', check=True)
    env = dict(os.environ, GOFLAGS='-mod=mod', GOPROXY='off')
    subprocess.run(['go', 'build', './...'], cwd=S + '/b', check=True, env=env)
    subprocess.run('go test -vet=off -count=1 ./pwr/ 2>&1 | tail -2', shell=True, cwd=S + '/b', env=env)
    out = subprocess.run("diff -ruN a b | sed -E 's/^(---|\\+\\+\\+) ([ab]\\/[^\\t]*)\\t.*/\\1 \\2/'", shell=True, cwd=S, capture_output=True, text=True).stdout
    open(pf, 'w').write(hdr + out)
    print('rewrote', pf, out.count('\ndiff ') + (1 if out.startswith('diff ') else 0), 'files')
finally:
    shutil.rmtree(S, ignore_errors=True)
