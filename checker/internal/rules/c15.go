package rules

import (
	"fmt"
	"go/constant"
	"go/token"
	"go/types"
	"sort"
	"strings"

	"golang.org/x/tools/go/ssa"

	"wharfverif/checker/internal/core"
)

func init() {
	register(&Property{
		ID: "C15",
		Explanation: `R15.1 fork-site access sets: at the fork sites of the differ (WritePatch's taskgroup.Do, taskgroup.Do's own goroutines, bsdiff.Do's workers/dispatcher/collector with the parent's concurrent writeMessages, NewPSA's sorters) no two concurrent units (or two instances of one unit, or a unit and the parent between fork and join) access overlapping locations with a write and disjoint locksets; ` +
			`R15.2 no range over a map with an order-sensitive body in functions reachable from the diff/optimize entry points (allowed: commutative accumulation, stores into maps, delete, collect-then-sort); ` +
			`R15.3 ordered fan-in: the channel consumed by writeMessages has exactly one (single-instance) sender, workers send only on their own channel, the collector hands the token back and the dispatcher takes it before handing out work; ` +
			`R15.4 ambient values (time, CPU count, GOMAXPROCS, random, pid, memory statistics) reach only statistics fields and diagnostics, never comparisons, data or parameters. ` +
			`R15.5 the buffer handed to io.ReadAtLeast in package wsync is exactly min long (s[lo:lo+min], s[:min], or min = len(buf)): how much a refill takes does not depend on the reader. ` +
			`R15.6 no function of the module outside init/Register* assigns, updates, writes through or hands out as a buffer a package-level variable (generated .pb.go excluded). R15.7 no function of the module returns memory of an object behind a deferred sync.Pool.Put of it, or touches it after a plain Put (fixtures BadReturnsPooledMemory / BadUsesAfterPut / GoodCopiesBeforePut keep the rule alive: the tree has no pool). R15.4 also: an ambient value must not become a channel capacity. NOT decided: byte-identical output as such, races on slice elements (partitioned sub-slices), races inside dependencies, short reads of the source pool.`,
		Assumptions: []string{
			"slice element accesses are not tracked (partitioned sub-slices such as I[st:en] cannot be proved disjoint statically)",
			"state.Consumer callbacks and other external callbacks are assumed internally synchronised",
			"objects are identified by the SSA value that creates them; two distinct variables alias only if one was assigned from the other",
		},
		Run:        runC15,
		Fixtures:   fixturesC15,
		FixturePkg: "forkfx",
	})
	register(&Property{
		ID: "C19",
		Explanation: `R19.1 fork-site access sets in ExtractZip: the worker goroutines (started in a loop, hence concurrent with each other) and the parent between fork and join share no location with a write and disjoint locksets (entry counters, progress, warned flag); ` +
			`R19.2 the resume file (a pseudo-variable for the path in settings.ResumeFrom) is written by the workers only under a common lock, i.e. it has one ordered writer; ` +
			`R19.3 every worker sends exactly one result on every path and the parent collects them; R19.4 the set of finished entries behind the marker is keyed by the entry index itself, not by a reduction of it; R19.5 no function of package archiver that changes the tree (removes, creates, renames) examines a path with os.Stat, which follows links - entries are examined with Lstat, so that re-extraction over an existing tree stays idempotent for links. ` +
			`R19.6 functions of package archiver that walk a tree to archive it never refer to filepath.SkipDir / SkipAll; R16.8 (shared) workers are waited for only after they were released. ` +
			`R19.7 no strings.HasPrefix/HasSuffix/Contains(x, "..") in package archiver (a test of characters where path elements are meant; legal names such as ..data would be refused). ` +
			`R19.8 a removal in archiver.Mkdir is reached only through the nil outcome of an Lstat and the outcome !IsDir() (workers make directories concurrently). R19.9 the bound of the loop that starts the extraction workers is at least 1 on every path: a constant >= 1, max(.., 1), or a value that reaches the loop through a test that made it so. R19.10 the per-entry literal of ExtractZip (the one calling two of Mkdir / Symlink / CopyFile) returns success only after one of them was called, DryRun apart, and ExtractZip itself calls none of them. R19.11 what package archiver hands to Symlink as a link's target does not go through Clean / Join / Abs / Rel / EvalSymlinks / Base / Dir. NOT decided: tree equality, tar, symlink/dir recreation, and whether the marker value is a contiguous high-water mark (value-level; a lock is necessary, not sufficient).`,
		Assumptions: []string{
			"state.Consumer and the OnEntryDone / OnUncompressedSizeKnown callbacks are assumed internally synchronised",
			"slice element accesses are not tracked",
		},
		Run:        runC19,
		Fixtures:   fixturesC15,
		FixturePkg: "forkfx",
	})
}

func reportForkSite(c *core.Ctx, rule string, parent *ssa.Function, minUnits int) *forkSite {
	depth := 4
	if c.Tier == "thorough" {
		depth = 8
	}
	s, unknown := analyseForkSite(c.P, parent, depth)
	c.Stats[rule+".unresolved_dynamic_calls."+parent.Name()] = unknown
	nAcc := len(s.region)
	for _, u := range s.units {
		nAcc += len(u.accesses)
	}
	var names []string
	for _, u := range s.units {
		m := ""
		if u.multi {
			m = " (multi-instance)"
		}
		names = append(names, u.name+m)
	}
	o := c.Check(len(s.units) >= minUnits, rule, s.name, "fork site units", parent.Pos(),
		fmt.Sprintf("%d units: %s; %d shared accesses summarised", len(s.units), strings.Join(names, "; "), nAcc),
		fmt.Sprintf("expected at least %d concurrent units at this fork site, found %d", minUnits, len(s.units)))
	o.Sites = nAcc + 1
	cs := findConflicts(s)
	// group by location
	byLoc := map[string][]conflict{}
	for _, k := range cs {
		byLoc[k.a.loc.String()] = append(byLoc[k.a.loc.String()], k)
	}
	var locs []string
	for l := range byLoc {
		locs = append(locs, l)
	}
	sort.Strings(locs)
	for _, l := range locs {
		k := byLoc[l][0]
		rw := func(a access) string {
			if a.write {
				return "write"
			}
			return "read"
		}
		o := c.Bad(rule, s.name, "unsynchronised concurrent access to "+l, k.a.pos,
			fmt.Sprintf("%s (%s, %s in %s at %s) and %s (%s, %s in %s at %s) run concurrently, at least one writes, and they hold no common lock",
				k.ua, rw(k.a), k.a.what, core.FnName(k.a.fn), c.P.Pos(k.a.pos), k.ub, rw(k.b), k.b.what, core.FnName(k.b.fn), c.P.Pos(k.b.pos)))
		o.Sites = len(byLoc[l])
	}
	if len(cs) == 0 {
		c.Ok(rule, s.name, "no conflicting accesses between concurrent units", parent.Pos(), fmt.Sprintf("%d accesses compared pairwise", nAcc)).Sites = nAcc + 1
	}
	return s
}

func runC15(c *core.Ctx) {
	c.Rule("R15.1", "fork-site conflicts")
	c.Rule("R15.2", "map order does not reach the output")
	c.Rule("R15.3", "ordered fan-in")
	c.Rule("R15.4", "no ambient nondeterminism on the data path")
	ruleRefillTakesExactlyOneBlock(c, "R15.5")
	ruleNoSharedPackageState(c)
	rulePooledNotUsedAfterPut(c, "R15.7")
	sites := []struct {
		pkg, fn string
		min     int
	}{{"pwr", "DiffContext.WritePatch", 3}, {"taskgroup", "Do", 1}, {"bsdiff", "DiffContext.Do", 3}, {"bsdiff", "NewPSA", 1}}
	nUnits := 0
	var bsdiffSite *forkSite
	for _, st := range sites {
		fn := c.P.Fn(st.pkg, st.fn)
		if fn == nil {
			c.Missing("R15.1", st.pkg+"."+st.fn, "fork site not found")
			continue
		}
		s := reportForkSite(c, "R15.1", fn, st.min)
		nUnits += len(s.units)
		if st.fn == "DiffContext.Do" {
			bsdiffSite = s
		}
	}
	c.Floor("R15.1", "concurrent units", nUnits, 4)
	orderedFanInSite(c, "R15.3", bsdiffSite)

	// reachable set
	roots := []*ssa.Function{c.P.Fn("pwr", "DiffContext.WritePatch"), c.P.Fn("pwr/rediff", "NewContext"), c.P.Fn("pwr/rediff", "context.Optimize"), c.P.Fn("bsdiff", "DiffContext.Do")}
	reach := reachableModuleFuncs(c.P, roots)
	c.Stats["R15.reachable_functions"] = len(reach)
	ruleCopyWritesWhatItRead(c, "R01.6")
	ruleMapOrder(c, "R15.2", reach, 1)
	ruleAmbient(c, "R15.4", reach, 2)
}

func ruleOrderedFanIn(c *core.Ctx, rule string) {
	fn := c.P.Fn("bsdiff", "DiffContext.Do")
	if fn == nil {
		c.Missing(rule, "bsdiff.(*DiffContext).Do", "not found")
		return
	}
	s, _ := analyseForkSite(c.P, fn, 2)
	orderedFanInSite(c, rule, s)
}

func reachableModuleFuncs(p *core.Prog, roots []*ssa.Function) map[*ssa.Function]bool {
	g := p.CallGraph(false)
	reach := map[*ssa.Function]bool{}
	var walk func(f *ssa.Function)
	walk = func(f *ssa.Function) {
		if f == nil || reach[f] || !core.InModule(f) || f.Blocks == nil {
			return
		}
		reach[f] = true
		for _, a := range f.AnonFuncs {
			walk(a)
		}
		if n := g.Nodes[f]; n != nil {
			for _, e := range n.Out {
				if e.Callee != nil {
					// interface dispatch fan-out: keep module callees only
					walk(e.Callee.Func)
				}
			}
		}
	}
	for _, r := range roots {
		walk(r)
	}
	return reach
}

func orderedFanInSite(c *core.Ctx, rule string, s *forkSite) {
	if s == nil {
		c.Missing(rule, "bsdiff.(*DiffContext).Do", "fork site not analysed")
		return
	}
	do := s.parent
	wm := c.P.Fn("bsdiff", "DiffContext.writeMessages")
	var wmCall *ssa.Call
	core.Instrs(do, func(in ssa.Instruction) {
		if cl, ok := in.(*ssa.Call); ok && cl.Call.StaticCallee() == wm && wm != nil {
			wmCall = cl
		}
	})
	if wmCall == nil {
		c.Bad(rule, core.FnName(do), "writeMessages call", do.Pos(), "Do no longer hands the matches to writeMessages")
		return
	}
	var matches ssa.Value
	for _, a := range wmCall.Call.Args {
		if _, ok := a.Type().Underlying().(*types.Chan); ok {
			matches = a
		}
	}
	sendsOn := func(f *ssa.Function, pred func(ssa.Value) bool) int {
		n := 0
		for _, ff := range core.WithAnons(f) {
			core.Instrs(ff, func(in ssa.Instruction) {
				if sd, ok := in.(*ssa.Send); ok && pred(sd.Chan) {
					n++
				}
			})
		}
		return n
	}
	var senders []*forkUnit
	for _, u := range s.units {
		if u.fn != nil && sendsOn(u.fn, func(v ssa.Value) bool { return sameChan(v, matches) }) > 0 {
			senders = append(senders, u)
		}
	}
	c.Check(len(senders) == 1 && !senders[0].multi, rule, core.FnName(do), "the channel consumed by writeMessages has exactly one single-instance sender", core.InstrPos(wmCall),
		"one collector goroutine sends the matches", fmt.Sprintf("%d goroutines (or a multi-instance one) send on the channel writeMessages consumes: matches reach the writer in scheduling order", len(senders)))
	// workers send only on their own channel parameter
	for _, lit := range do.AnonFuncs {
		var chParam *ssa.Parameter
		for _, p := range lit.Params {
			if _, ok := p.Type().Underlying().(*types.Chan); ok {
				chParam = p
			}
		}
		if chParam == nil {
			continue
		}
		other := sendsOn(lit, func(v ssa.Value) bool { return !sameChan(v, chParam) })
		own := sendsOn(lit, func(v ssa.Value) bool { return sameChan(v, chParam) })
		c.Check(own > 0 && other == 0, rule, core.FnName(lit), "block analysis sends only on the channel it was given", lit.Pos(),
			fmt.Sprintf("%d sends, all on its channel parameter", own), "the block analysis sends on a channel other than the per-worker channel it was given: matches bypass the ordered collector")
	}
	if len(senders) == 1 {
		col := senders[0].fn
		isField := func(name string) func(ssa.Value) bool {
			return func(v ssa.Value) bool { _, n, ok := core.FieldOf(v); return ok && n == name }
		}
		var recvMatches, sendConsumed ssa.Instruction
		core.Instrs(col, func(in ssa.Instruction) {
			if u, ok := in.(*ssa.UnOp); ok && u.Op == token.ARROW && isField("matches")(u.X) {
				recvMatches = in
			}
			if sd, ok := in.(*ssa.Send); ok && isField("consumed")(sd.Chan) {
				sendConsumed = in
			}
		})
		okTok := recvMatches != nil && sendConsumed != nil && core.FindPath(col, recvMatches, isInstr(sendConsumed), nil) != nil
		c.Check(okTok, rule, core.FnName(col), "collector drains one worker's block, then hands the token back", col.Pos(),
			"receive on state.matches followed by a send on state.consumed", "the collector does not return the per-worker token after draining a block: the dispatcher can reuse a worker whose previous block is still being collected (or never continues)")
	}
	// dispatcher: takes the token before handing out work
	okDisp := false
	for _, u := range s.units {
		if u.fn == nil {
			continue
		}
		var recvTok, sendWork ssa.Instruction
		core.Instrs(u.fn, func(in ssa.Instruction) {
			if x, ok := in.(*ssa.UnOp); ok && x.Op == token.ARROW {
				if _, n, ok := core.FieldOf(x.X); ok && n == "consumed" {
					recvTok = in
				}
			}
			if sd, ok := in.(*ssa.Send); ok {
				if _, n, ok := core.FieldOf(sd.Chan); ok && n == "work" {
					sendWork = in
				}
			}
		})
		if recvTok != nil && sendWork != nil && core.FindPath(u.fn, nil, isInstr(sendWork), isInstr(recvTok)) == nil {
			okDisp = true
		}
	}
	c.Check(okDisp, rule, core.FnName(do), "dispatcher takes the worker's token before giving it work", do.Pos(),
		"<-consumed precedes work <- i", "work is handed to a worker without first taking its 'consumed' token: a worker's channel can carry matches of two blocks interleaved")
}

// ---- R15.2 map order --------------------------------------------------------------------------

func ruleMapOrder(c *core.Ctx, rule string, reach map[*ssa.Function]bool, min int) {
	n := 0
	var fns []*ssa.Function
	for f := range reach {
		fns = append(fns, f)
	}
	sort.Slice(fns, func(i, j int) bool { return core.FnName(fns[i]) < core.FnName(fns[j]) })
	for _, fn := range fns {
		core.Instrs(fn, func(in ssa.Instruction) {
			rg, ok := in.(*ssa.Range)
			if !ok {
				return
			}
			if _, isMap := rg.X.Type().Underlying().(*types.Map); !isMap {
				return
			}
			n++
			problems := mapRangeProblems(fn, rg)
			c.Check(len(problems) == 0, rule, core.FnName(fn), "range over map "+core.Describe(rg.X), core.InstrPos(in),
				"the loop body is order-insensitive (commutative accumulation, map stores, delete, collect-then-sort)",
				"the body of this range over a map depends on iteration order ("+strings.Join(problems, "; ")+") in a function reachable from the diff/optimize entry points: the same input can produce different patches from run to run")
		})
	}
	c.Floor(rule, "ranges over maps in reachable functions", n, min)
}

// mapRangeProblems lists order-sensitive constructs in the body of a range-over-map loop.
func mapRangeProblems(fn *ssa.Function, rg *ssa.Range) []string {
	// loop blocks: blocks on a cycle through the block holding the Next instruction
	var next *ssa.Next
	if refs := rg.Referrers(); refs != nil {
		for _, r := range *refs {
			if nx, ok := r.(*ssa.Next); ok {
				next = nx
			}
		}
	}
	if next == nil {
		return nil
	}
	hdr := next.Block()
	// natural loop of the back edges into the header
	inLoop := map[*ssa.BasicBlock]bool{hdr: true}
	var stack []*ssa.BasicBlock
	for _, t := range hdr.Preds {
		if hdr.Dominates(t) {
			stack = append(stack, t)
		}
	}
	for len(stack) > 0 {
		b := stack[len(stack)-1]
		stack = stack[:len(stack)-1]
		if inLoop[b] {
			continue
		}
		inLoop[b] = true
		for _, q := range b.Preds {
			if !inLoop[q] {
				stack = append(stack, q)
			}
		}
	}
	var problems []string
	add := func(s string) { problems = append(problems, s) }
	sortedLater := func(cell ssa.Value) bool {
		// the collected slice is handed to a sort function after the loop
		found := false
		core.Instrs(fn, func(in ssa.Instruction) {
			cl, ok := in.(*ssa.Call)
			if !ok || inLoop[in.Block()] {
				return
			}
			n := core.CalleeName(cl)
			if strings.HasPrefix(n, "sort.") || strings.HasPrefix(n, "slices.Sort") {
				if len(cl.Call.Args) > 0 {
					a := core.StripConv(cl.Call.Args[0])
					if ld, ok := a.(*ssa.UnOp); ok && ld.Op == token.MUL && core.CellRoot(ld.X) == cell {
						found = true
					}
					for _, o := range core.Origins(a) {
						if o == cell {
							found = true
						}
					}
				}
			}
		})
		return found
	}
	for b := range inLoop {
		for _, in := range b.Instrs {
			switch x := in.(type) {
			case *ssa.Phi:
				if b != hdr {
					continue
				}
				// loop-carried value: fine if numeric accumulation (+, |, max-free) or a collect-then-sort slice
				carried := false
				for i, e := range x.Edges {
					if inLoop[b.Preds[i]] && e != ssa.Value(x) {
						carried = true
					}
				}
				if !carried {
					continue
				}
				switch x.Type().Underlying().(type) {
				case *types.Basic:
					bt := x.Type().Underlying().(*types.Basic)
					if bt.Info()&(types.IsInteger|types.IsFloat) != 0 {
						okAcc := true
						for i, e := range x.Edges {
							if !inLoop[b.Preds[i]] {
								continue
							}
							for _, o := range core.Origins(e) {
								if o == ssa.Value(x) {
									continue
								}
								bo, ok := o.(*ssa.BinOp)
								if !ok || (bo.Op != token.ADD && bo.Op != token.OR && bo.Op != token.XOR && bo.Op != token.MUL) {
									okAcc = false
								}
							}
						}
						if !okAcc {
							add("variable " + x.Comment + " is updated non-commutatively (selection, not accumulation)")
						}
					} else if bt.Info()&types.IsString != 0 {
						add("string " + x.Comment + " is built in iteration order")
					}
				case *types.Slice:
					if !sortedLater(x) {
						// phi slices: look for a sort call on any value derived from the phi after the loop
						found := false
						core.Instrs(fn, func(y ssa.Instruction) {
							if cl, ok := y.(*ssa.Call); ok && !inLoop[y.Block()] && (strings.HasPrefix(core.CalleeName(cl), "sort.") || strings.HasPrefix(core.CalleeName(cl), "slices.Sort")) && len(cl.Call.Args) > 0 {
								for _, o := range core.Origins(cl.Call.Args[0]) {
									if o == ssa.Value(x) {
										found = true
									}
								}
								if core.StripConv(cl.Call.Args[0]) == ssa.Value(x) {
									found = true
								}
							}
						})
						if !found {
							add("slice " + x.Comment + " is appended to in iteration order and not sorted afterwards")
						}
					}
				default:
					add("variable " + x.Comment + " (" + types.TypeString(x.Type(), nil) + ") is selected depending on iteration order")
				}
			case *ssa.Store:
				if _, isIdx := x.Addr.(*ssa.IndexAddr); isIdx {
					continue
				}
				root := core.CellRoot(x.Addr)
				if a, ok := root.(*ssa.Alloc); ok {
					if a.Comment == "varargs" || a.Comment == "complit" || a.Comment == "" {
						continue
					}
					if _, isFA := x.Addr.(*ssa.FieldAddr); !isFA {
						// a local cell: collect-then-sort, or numeric accumulation
						if _, isSl := a.Type().Underlying().(*types.Pointer).Elem().Underlying().(*types.Slice); isSl && sortedLater(a) {
							continue
						}
						if bt, ok := a.Type().Underlying().(*types.Pointer).Elem().Underlying().(*types.Basic); ok && bt.Info()&(types.IsInteger|types.IsFloat) != 0 {
							if bo, ok := x.Val.(*ssa.BinOp); ok && (bo.Op == token.ADD || bo.Op == token.OR) {
								continue
							}
						}
						// per-iteration locals declared inside the loop are fine
						if inLoop[a.Block()] {
							continue
						}
						add("variable " + a.Comment + " is assigned inside the loop")
						continue
					}
				}
				add("store to " + core.Describe(x.Addr) + " inside the loop")
			case *ssa.Send:
				add("channel send inside the loop")
			case *ssa.Call:
				if b, ok := x.Call.Value.(*ssa.Builtin); ok {
					_ = b
					continue
				}
				n := core.CalleeName(x)
				if strings.HasPrefix(n, "fmt.Sprint") || strings.HasPrefix(n, "strings.") || strings.HasPrefix(n, "strconv.") || strings.HasPrefix(n, "path") || n == "pwr.ComputeBlockSize" || n == "pwr.ComputeNumBlocks" {
					continue
				}
				add("call of " + n + " inside the loop")
			}
		}
	}
	sort.Strings(problems)
	return dedup(problems)
}

// ---- R15.4 ambient values --------------------------------------------------------------------------

var ambientSources = map[string]bool{"time.Now": true, "time.Since": true, "runtime.NumCPU": true, "runtime.GOMAXPROCS": true, "os.Getpid": true, "runtime.NumGoroutine": true,
	"os.Hostname": true, "time.Until": true}

func isAmbientCall(cl *ssa.Call) bool {
	n := core.CalleeName(cl)
	return ambientSources[n] || strings.HasPrefix(n, "math/rand.") || strings.HasPrefix(n, "math/rand/v2.") || strings.HasPrefix(n, "crypto/rand.")
}

func isLoggingCall(n string) bool {
	switch {
	case strings.HasPrefix(n, "fmt.Fprint"), strings.HasPrefix(n, "fmt.Print"), strings.HasPrefix(n, "log."):
		return true
	case strings.Contains(n, "headway/state.Consumer)."):
		return true
	case strings.HasSuffix(n, "savior.Debugf"):
		return true
	}
	return false
}

func ruleAmbient(c *core.Ctx, rule string, reach map[*ssa.Function]bool, min int) {
	n := 0
	var fns []*ssa.Function
	for f := range reach {
		fns = append(fns, f)
	}
	sort.Slice(fns, func(i, j int) bool { return core.FnName(fns[i]) < core.FnName(fns[j]) })
	for _, fn := range fns {
		core.Instrs(fn, func(in ssa.Instruction) {
			cl, ok := in.(*ssa.Call)
			if !ok {
				return
			}
			var src ssa.Value
			what := core.CalleeName(cl)
			if isAmbientCall(cl) {
				src = cl
			} else if what == "runtime.ReadMemStats" {
				// the filled struct is the source
				for _, o := range core.Origins(cl.Call.Args[0]) {
					src = o
				}
			}
			if src == nil {
				return
			}
			n++
			bad := ambientEscapes(src)
			c.Check(len(bad) == 0, rule, core.FnName(fn), "ambient value "+what+"() reaches only statistics and diagnostics", core.InstrPos(in),
				"all uses end in a *Stats field, a duration computation or a logging call",
				"the result of "+what+"() is used as "+strings.Join(bad, "; ")+": output can depend on the machine, the clock or the scheduler settings")
		})
	}
	c.Floor(rule, "ambient calls in reachable functions", n, min)
}

// ambientEscapes follows an ambient value forward and returns the uses that are
// not statistics or diagnostics.
func ambientEscapes(src ssa.Value) []string {
	var bad []string
	seen := map[ssa.Value]bool{}
	var follow func(v ssa.Value, d int)
	useOf := func(in ssa.Instruction) string { return in.String() }
	follow = func(v ssa.Value, d int) {
		if v == nil || seen[v] || d > 12 {
			return
		}
		seen[v] = true
		refs := v.Referrers()
		if refs == nil {
			return
		}
		for _, r := range *refs {
			switch x := r.(type) {
			case *ssa.DebugRef:
			case *ssa.Extract, *ssa.Convert, *ssa.ChangeType, *ssa.MakeInterface, *ssa.ChangeInterface, *ssa.Phi, *ssa.Slice, *ssa.FieldAddr, *ssa.Field, *ssa.IndexAddr, *ssa.TypeAssert:
				follow(x.(ssa.Value), d+1)
			case *ssa.UnOp:
				follow(x, d+1)
			case *ssa.BinOp:
				switch x.Op {
				case token.EQL, token.NEQ, token.LSS, token.LEQ, token.GTR, token.GEQ:
					bad = append(bad, "an operand of the comparison "+core.Describe(x)+" (control dependence)")
				default:
					follow(x, d+1)
				}
			case *ssa.MakeChan:
				if x.Size == v {
					bad = append(bad, "the capacity of the channel "+core.Describe(x)+" (how many goroutines may go on at once)")
				}
			case *ssa.Store:
				if x.Val != v {
					continue // stored *into* v: fine
				}
				// statistics field?
				if b, _, ok := core.FieldOf(x.Addr); ok && strings.HasSuffix(core.TypeName(b.Type()), "Stats") {
					continue
				}
				root := core.CellRoot(x.Addr)
				if a, ok := root.(*ssa.Alloc); ok {
					if _, isFA := x.Addr.(*ssa.FieldAddr); !isFA || a.Comment == "complit" {
						// local variable / varargs slot: follow its uses
						if ia, ok := x.Addr.(*ssa.IndexAddr); ok {
							follow(ia.X, d+1)
						} else {
							for _, u := range core.CellUses(a) {
								if ld, ok := u.(*ssa.UnOp); ok {
									follow(ld, d+1)
								}
							}
						}
						continue
					}
				}
				if ia, ok := x.Addr.(*ssa.IndexAddr); ok {
					follow(ia.X, d+1)
					continue
				}
				bad = append(bad, "a value stored to "+core.Describe(x.Addr))
			case ssa.CallInstruction:
				n := core.CalleeName(x)
				switch {
				case isLoggingCall(n):
				case n == "time.Since", n == "(time.Time).Sub", strings.HasPrefix(n, "(time.Duration)."), strings.HasPrefix(n, "(time.Time)."):
					if val, ok := x.(ssa.Value); ok {
						follow(val, d+1)
					}
				case strings.Contains(n, "united.Format"), strings.HasPrefix(n, "fmt.Sprint"):
					if val, ok := x.(ssa.Value); ok {
						follow(val, d+1)
					}
				case n == "runtime.ReadMemStats":
				default:
					bad = append(bad, "an argument of "+n)
				}
			case *ssa.Return:
				bad = append(bad, "a return value")
			case *ssa.If:
				bad = append(bad, "a branch condition")
			case *ssa.MapUpdate, *ssa.Send, *ssa.MakeClosure, *ssa.MakeSlice, *ssa.Index, *ssa.Lookup:
				bad = append(bad, useOf(r))
			}
		}
	}
	follow(src, 0)
	sort.Strings(bad)
	return dedup(bad)
}

// ---- C19 ------------------------------------------------------------------------------------------

func runC19(c *core.Ctx) {
	c.Rule("R19.1", "fork-site conflicts in ExtractZip")
	c.Rule("R19.2", "resume marker has one ordered writer")
	c.Rule("R19.3", "every worker reports exactly once; the parent collects")
	c.Rule("R19.4", "the done-set behind the resume marker is keyed by the entry index itself (no modulo/shift/mask)")
	c.Rule("R19.5", "entries are examined without following links")
	ruleNoFollow(c, "R19.5", "/archiver")
	ruleNoJoinBeforeRelease(c, "R16.8", 1, 1, "/archiver")
	c.Rule("R19.8", "the directory helper removes only what it has seen to be in the way")
	if mk := c.P.Fn("archiver", "Mkdir"); mk == nil {
		c.Missing("R19.8", "archiver.Mkdir", "not found")
	} else {
		// extraction workers make directories concurrently - a worker makes the parents of its own entry. A
		// removal in Mkdir is safe only for something a successful Lstat has shown not to be a directory;
		// removing "whatever may be there" after a failed look deletes what another worker has just made
		nRm := 0
		core.Instrs(mk, func(in ssa.Instruction) {
			cl, ok := in.(*ssa.Call)
			if !ok {
				return
			}
			nm := core.CalleeName(cl)
			if nm != "os.Remove" && nm != "os.RemoveAll" {
				return
			}
			nRm++
			var lstat *ssa.Call
			core.Instrs(mk, func(x ssa.Instruction) {
				if lc, ok := x.(*ssa.Call); ok && core.CalleeName(lc) == "os.Lstat" && core.InstrDominates(x, in) {
					lstat = lc
				}
			})
			seen := lstat != nil && core.FindPathSkipping(mk, lstat, isInstr(in), nil, func(b, s2 *ssa.BasicBlock) bool { return nilOutcomeEdge(lstat, b, s2) }) == nil
			notDir := hasGuard(in, func(g core.Guard) bool {
				c2, ok := g.Cond.(*ssa.Call)
				return ok && c2.Call.IsInvoke() && c2.Call.Method.Name() == "IsDir" && !g.Val
			})
			c.Check(seen && notDir, "R19.8", core.FnName(mk), nm+" only of something seen not to be a directory", core.InstrPos(in),
				"reached only through the nil outcome of an Lstat and the outcome !IsDir()", "Mkdir removes the path without having seen something other than a directory there (after a failed Mkdir or Lstat, say): with several extraction workers, one of them deletes the directory - and what is in it - that another has just made for its own entry")
		})
		c.Stats["R19.8.removals_in_Mkdir"] = nRm
	}
	c.Rule("R19.7", "entry names are not refused by a textual test for '..'")
	{
		nFn := 0
		for _, fn := range c.P.SrcFuncs() {
			if fn.Parent() != nil || !strings.HasSuffix(core.PkgPathOf(fn), "/archiver") {
				continue
			}
			nFn++
			for _, bad := range dotDotTextTests(fn) {
				c.Bad("R19.7", core.FnName(fn), "textual test for \"..\": "+core.CalleeName(bad), core.InstrPos(bad),
					"a name is tested with strings."+strings.TrimPrefix(core.CalleeName(bad), "strings.")+"(…, \"..\"): that is a test of characters, not of path elements - it also refuses legal entries whose name merely begins with (ends with, contains) two dots, such as ..data or ...; the archive of a tree with such an entry cannot be extracted")
			}
		}
		c.Floor("R19.7", "functions of package archiver", nFn, 5)
	}
	c.Rule("R19.6", "the compressing walkers prune nothing")
	{
		nWalk := 0
		for _, fn := range c.P.SrcFuncs() {
			if fn.Parent() != nil || !strings.HasSuffix(core.PkgPathOf(fn), "/archiver") {
				continue
			}
			walks := false
			for _, f := range core.WithAnons(fn) {
				if containsCall(f, callTo("path/filepath.Walk", "path/filepath.WalkDir", "io/fs.WalkDir")) {
					walks = true
				}
			}
			if !walks {
				continue
			}
			nWalk++
			pr := walkPrunes(fn)
			o := c.Check(len(pr) == 0, "R19.6", core.FnName(fn), "no SkipDir / SkipAll in a function that walks the tree to archive it", fn.Pos(),
				"every entry the walk reaches is offered to the archive", "the walk callback can answer SkipDir/SkipAll: for a directory its whole subtree, for anything else (a link, a file) every remaining entry of the containing directory is left out of the archive")
			if len(pr) > 0 {
				o.Pos = c.P.Pos(pr[0].Pos())
			}
		}
		c.Floor("R19.6", "functions of package archiver that walk a tree", nWalk, 1)
	}
	ez := c.P.Fn("archiver", "ExtractZip")
	if ez == nil {
		c.Missing("R19.1", "archiver.ExtractZip", "not found")
		return
	}
	rulePoolHasAWorker(c, "R19.9", ez)
	ruleEntryMadeBeforeDone(c, "R19.10", ez)
	ruleLinkTargetsVerbatim(c, "R19.11", "/archiver", 2)
	s := reportForkSite(c, "R19.1", ez, 1)
	multi := false
	var worker *forkUnit
	for _, u := range s.units {
		if u.multi {
			multi, worker = true, u
		}
	}
	c.Check(multi, "R19.1", core.FnName(ez), "workers are started in a loop (multi-instance)", ez.Pos(), "go statement inside the worker loop", "no multi-instance worker unit found")
	if worker == nil {
		return
	}
	// R19.2: accesses to the resume file pseudo-variable
	nFile := 0
	var locks map[string]bool
	first := true
	for _, a := range worker.accesses {
		if !strings.HasPrefix(a.loc.path, "<file>") || !a.write {
			continue
		}
		nFile++
		if first {
			locks, first = a.locks, false
		} else {
			for k := range locks {
				if !a.locks[k] {
					delete(locks, k)
				}
			}
		}
	}
	c.Check(nFile > 0 && len(locks) > 0, "R19.2", core.FnName(ez), "resume file written by the workers under one common lock", ez.Pos(),
		fmt.Sprintf("%d write sites, common lockset %v", nFile, keysOf(locks)),
		fmt.Sprintf("the resume file is written from the worker goroutines at %d sites with no lock common to all of them: two workers can write it at once and the last writer is not the furthest-advanced one", nFile))
	// R19.4: the structure remembering which entries are done is keyed by the entry index itself
	var progress *ssa.Function
	for _, f := range core.WithAnons(ez) {
		if f != ez && len(core.Calls(f, false, "os.WriteFile")) > 0 {
			progress = f
		}
	}
	if progress == nil {
		c.Bad("R19.4", core.FnName(ez), "resume-file writer", ez.Pos(), "no function literal writes the resume file")
	} else {
		nKeys := 0
		core.Instrs(progress, func(in ssa.Instruction) {
			var key ssa.Value
			switch x := in.(type) {
			case *ssa.MapUpdate:
				key = x.Key
			case *ssa.Lookup:
				if _, isMap := x.X.Type().Underlying().(*types.Map); isMap {
					key = x.Index
				}
			case *ssa.IndexAddr:
				if a, ok := core.CellRoot(x.X).(*ssa.Alloc); ok && (a.Comment == "varargs" || a.Comment == "") {
					return
				}
				for _, o := range core.Origins(x.X) {
					if a, ok := o.(*ssa.Alloc); ok && a.Comment == "varargs" {
						return
					}
				}
				key = x.Index
			}
			if key == nil || !isIndexInt(key.Type()) {
				return
			}
			if _, isC := core.ConstInt(key); isC {
				return
			}
			nKeys++
			lossy := ""
			var walk func(v ssa.Value, d int)
			walk = func(v ssa.Value, d int) {
				if d > 6 || lossy != "" {
					return
				}
				switch y := core.StripConv(v).(type) {
				case *ssa.BinOp:
					switch y.Op {
					case token.REM, token.QUO, token.AND, token.SHR, token.AND_NOT:
						lossy = core.Describe(y)
						return
					}
					walk(y.X, d+1)
					walk(y.Y, d+1)
				case *ssa.Phi:
					for _, e := range y.Edges {
						walk(e, d+1)
					}
				}
			}
			walk(key, 0)
			c.Check(lossy == "", "R19.4", core.FnName(progress), "done-set key "+core.Describe(key)+" identifies the entry", core.InstrPos(in),
				"the key is an entry index (possibly ± a constant), so distinct entries never share a slot",
				"the structure that remembers finished entries is keyed by "+lossy+", which maps different entries to the same slot: a finished later entry can stand for an unfinished earlier one and the resume marker advances past it")
		})
		c.Floor("R19.4", "done-set accesses in the resume-file writer", nKeys, 2)
	}
	// R19.3
	var errsChan ssa.Value
	core.Instrs(worker.fn, func(in ssa.Instruction) {
		if sd, ok := in.(*ssa.Send); ok && isErrorType(sd.Chan.Type().Underlying().(*types.Chan).Elem()) {
			errsChan = sd.Chan
		}
	})
	if errsChan == nil {
		c.Bad("R19.3", core.FnName(worker.fn), "result send", worker.fn.Pos(), "workers no longer report a result")
		return
	}
	ob, _ := pathEventBounds(worker.fn, func(in ssa.Instruction) int {
		if sd, ok := in.(*ssa.Send); ok && sameChan(sd.Chan, errsChan) {
			return 1
		}
		return 0
	}, 0)
	c.Check(ob.min == 1 && ob.max == 1, "R19.3", core.FnName(worker.fn), "exactly one result per worker on every path", worker.fn.Pos(), fmtBounds(ob),
		"a worker does not send exactly one result on every path ("+fmtBounds(ob)+"): ExtractZip blocks collecting results or a worker blocks sending")
	// the channel is buffered for all workers and the parent receives in a loop bounded by the same count
	okBuf := false
	for _, o := range core.Origins(errsChan) {
		if mc, ok := o.(*ssa.MakeChan); ok {
			if _, isC := core.ConstInt(mc.Size); !isC {
				okBuf = true // make(chan error, numWorkers)
			}
		}
	}
	c.Check(okBuf, "R19.3", core.FnName(ez), "result channel buffered for all workers", ez.Pos(), "make(chan error, numWorkers)", "the result channel is not buffered by the worker count: after an early error return the remaining workers block forever on their send")
	recvInLoop := false
	core.Instrs(ez, func(in ssa.Instruction) {
		if u, ok := in.(*ssa.UnOp); ok && u.Op == token.ARROW && sameChan(u.X, errsChan) && core.FindPath(ez, in, isInstr(in), nil) != nil {
			recvInLoop = true
		}
	})
	c.Check(recvInLoop, "R19.3", core.FnName(ez), "the parent collects the workers' results in a loop", ez.Pos(), "<-errs inside the join loop", "the parent does not collect every worker's result before returning success")
}

func keysOf(m map[string]bool) []string {
	var out []string
	for k := range m {
		out = append(out, k)
	}
	sort.Strings(out)
	return out
}

func fixturesC15(fc *core.Ctx) map[string]bool {
	rep := map[string]bool{}
	for _, fn := range fc.P.SrcFuncs() {
		if fn.Parent() != nil || !strings.HasSuffix(core.PkgPathOf(fn), "/forkfx") {
			continue
		}
		s, _ := analyseForkSite(fc.P, fn, 4)
		if len(s.units) > 0 && len(findConflicts(s)) > 0 {
			rep[fn.Name()] = true
		}
		if len(followingStats(fn)) > 0 {
			rep[fn.Name()] = true
		}
		if len(walkPrunes(fn)) > 0 {
			rep[fn.Name()] = true
		}
		if len(dotDotTextTests(fn)) > 0 {
			rep[fn.Name()] = true
		}
		if len(sharedGlobalWrites(fn)) > 0 {
			rep[fn.Name()] = true
		}
		for _, f := range core.WithAnons(fn) {
			if len(pooledUseAfterPut(f)) > 0 {
				rep[fn.Name()] = true
			}
		}
		core.Instrs(fn, func(in ssa.Instruction) {
			if rg, ok := in.(*ssa.Range); ok {
				if _, isMap := rg.X.Type().Underlying().(*types.Map); isMap && len(mapRangeProblems(fn, rg)) > 0 {
					rep[fn.Name()] = true
				}
			}
			if cl, ok := in.(*ssa.Call); ok && isAmbientCall(cl) && len(ambientEscapes(cl)) > 0 {
				rep[fn.Name()] = true
			}
		})
	}
	return rep
}

// walkPrunes lists the uses of the walk-pruning sentinels (filepath.SkipDir, fs.SkipAll ...) in fn's family.
func walkPrunes(top *ssa.Function) []ssa.Instruction {
	var out []ssa.Instruction
	for _, f := range core.WithAnons(top) {
		core.Instrs(f, func(in ssa.Instruction) {
			ld, ok := in.(*ssa.UnOp)
			if !ok || ld.Op != token.MUL {
				return
			}
			g, ok := ld.X.(*ssa.Global)
			if !ok || g.Pkg == nil {
				return
			}
			switch g.Pkg.Pkg.Path() + "." + g.Name() {
			case "path/filepath.SkipDir", "path/filepath.SkipAll", "io/fs.SkipDir", "io/fs.SkipAll":
				out = append(out, in)
			}
		})
	}
	return out
}

// dotDotTextTests lists the calls strings.HasPrefix / HasSuffix / Contains(x, "..") in fn's family.
func dotDotTextTests(top *ssa.Function) []*ssa.Call {
	var out []*ssa.Call
	for _, f := range core.WithAnons(top) {
		core.Instrs(f, func(in ssa.Instruction) {
			cl, ok := in.(*ssa.Call)
			if !ok || len(cl.Call.Args) != 2 {
				return
			}
			switch core.CalleeName(cl) {
			case "strings.HasPrefix", "strings.HasSuffix", "strings.Contains":
			default:
				return
			}
			if k, ok := cl.Call.Args[1].(*ssa.Const); ok && k.Value != nil && k.Value.Kind() == constant.String && constant.StringVal(k.Value) == ".." {
				out = append(out, cl)
			}
		})
	}
	return out
}

// ruleRefillTakesExactlyOneBlock is R15.5: the differ (and the signer) must cut their input into the same
// blocks whatever sizes the reader hands its data out in. A refill by io.ReadAtLeast(r, buf, min) takes
// between min and len(buf) bytes - how many depends on the reader - unless len(buf) is min: the buffer is a
// two-index slice whose bounds are min apart (or the call is io.ReadFull).
func ruleRefillTakesExactlyOneBlock(c *core.Ctx, rule string) {
	c.Rule(rule, "a refill takes a number of bytes that does not depend on the reader")
	n := 0
	for _, fn := range c.P.SrcFuncs() {
		if !strings.HasSuffix(core.PkgPathOf(fn), "/wsync") {
			continue
		}
		core.Instrs(fn, func(in ssa.Instruction) {
			cl, ok := in.(*ssa.Call)
			if !ok || core.CalleeName(cl) != "io.ReadAtLeast" || len(cl.Call.Args) != 3 {
				return
			}
			n++
			buf, min := cl.Call.Args[1], cl.Call.Args[2]
			exact := false
			// min is the length of the very buffer
			if lc, ok := core.StripConv(min).(*ssa.Call); ok {
				if b, ok := lc.Call.Value.(*ssa.Builtin); ok && b.Name() == "len" && (sameVal(lc.Call.Args[0], buf) || sameExpr(lc.Call.Args[0], buf)) {
					exact = true
				}
			}
			for _, o := range core.Origins(buf) {
				sl, ok := o.(*ssa.Slice)
				if !ok || sl.High == nil {
					continue
				}
				hi, ok := core.StripConv(sl.High).(*ssa.BinOp)
				if !ok || hi.Op != token.ADD {
					// buf[:min]
					if sl.Low == nil && (sameVal(sl.High, min) || sameExpr(sl.High, min)) {
						exact = true
					}
					continue
				}
				same := func(a, b ssa.Value) bool { return a != nil && b != nil && (sameVal(a, b) || sameExpr(a, b)) }
				if sl.Low != nil && ((same(hi.X, sl.Low) && same(hi.Y, min)) || (same(hi.Y, sl.Low) && same(hi.X, min))) {
					exact = true
				}
			}
			c.Check(exact, rule, core.FnName(fn), "the buffer given to io.ReadAtLeast is exactly min long", core.InstrPos(in),
				"buf is s[lo:lo+min] (or s[:min]): the call returns min bytes or the end of the stream, never a number the reader chose",
				"the refill can take more than the minimum when the reader offers more: where blocks and data ops are cut then depends on how the source pool slices its reads, and the same build pair yields different patches (a short last block read together with its predecessor is no longer recognised)")
		})
	}
	c.Floor(rule, "io.ReadAtLeast refills in package wsync", n, 1)
}

type globalWrite struct {
	in   ssa.Instruction
	name string
	what string
}

// sharedGlobalWrites lists, in fn's family, the places where data reachable through a package-level variable
// of the module (or of the fixtures) is written or handed to a callee that may write it: element stores, map
// updates, stores through a pointer, a slice passed as an argument, and assignments to the variable itself -
// outside init and registration functions, which run before any work starts.
func sharedGlobalWrites(top *ssa.Function) []globalWrite {
	if top.Name() == "init" || strings.HasPrefix(top.Name(), "init#") || strings.HasPrefix(top.Name(), "Register") {
		return nil
	}
	var out []globalWrite
	ownGlobal := func(v ssa.Value) *ssa.Global {
		ld, ok := v.(*ssa.UnOp)
		if !ok || ld.Op != token.MUL {
			return nil
		}
		g, ok := ld.X.(*ssa.Global)
		if !ok || g.Pkg == nil {
			return nil
		}
		pp := g.Pkg.Pkg.Path()
		if !strings.HasPrefix(pp, core.Mod) && !strings.Contains(pp, "/fixtures/") && !strings.HasPrefix(pp, "wharfverif/") {
			return nil
		}
		return g
	}
	fromGlobal := func(v ssa.Value) *ssa.Global {
		for _, o := range core.Origins(v) {
			if g := ownGlobal(o); g != nil {
				return g
			}
			if sl, ok := o.(*ssa.Slice); ok {
				for _, oo := range core.Origins(sl.X) {
					if g := ownGlobal(oo); g != nil {
						return g
					}
				}
			}
		}
		return nil
	}
	for _, f := range core.WithAnons(top) {
		core.Instrs(f, func(in ssa.Instruction) {
			switch x := in.(type) {
			case *ssa.Store:
				if g, ok := x.Addr.(*ssa.Global); ok && g.Pkg != nil && strings.HasPrefix(g.Pkg.Pkg.Path(), core.Mod) {
					out = append(out, globalWrite{in, g.Name(), "assigned outside init"})
					return
				}
				switch a := x.Addr.(type) {
				case *ssa.IndexAddr:
					if g := fromGlobal(a.X); g != nil {
						out = append(out, globalWrite{in, g.Name(), "written element by element"})
					}
				case *ssa.FieldAddr:
					if g := fromGlobal(a.X); g != nil {
						out = append(out, globalWrite{in, g.Name(), "written through"})
					}
				}
			case *ssa.MapUpdate:
				if g := fromGlobal(x.Map); g != nil {
					out = append(out, globalWrite{in, g.Name(), "updated"})
				}
			}
			// a package-level pointer to a struct handed out: stored into an object, or used as receiver or
			// argument - whoever gets it shares its fields with every other holder
			handOut := func(v ssa.Value, what string) {
				ld, ok := v.(*ssa.UnOp)
				if !ok || ld.Op != token.MUL {
					return
				}
				g := ownGlobal(ld)
				if g == nil {
					return
				}
				pt, ok := ld.Type().Underlying().(*types.Pointer)
				if !ok {
					return
				}
				if _, isStruct := pt.Elem().Underlying().(*types.Struct); !isStruct {
					return
				}
				out = append(out, globalWrite{in, g.Name(), what})
			}
			switch x := in.(type) {
			case *ssa.Store:
				if _, isG := x.Addr.(*ssa.Global); !isG {
					handOut(x.Val, "a shared object stored into another object")
				}
			case ssa.CallInstruction:
				for _, a := range x.Common().Args {
					handOut(a, "a shared object handed to "+core.CalleeName(x))
				}
				for _, a := range x.Common().Args {
					if _, isSlice := a.Type().Underlying().(*types.Slice); !isSlice {
						continue
					}
					if b, ok := x.Common().Value.(*ssa.Builtin); ok && (b.Name() == "len" || b.Name() == "cap") {
						continue
					}
					if g := fromGlobal(a); g != nil {
						out = append(out, globalWrite{in, g.Name(), "handed to " + core.CalleeName(x) + " as a buffer"})
					}
				}
			}
		})
	}
	return out
}

// ruleNoSharedPackageState is R15.6 (shared with C09: two applications in one process each have their own
// safekeeper, and must not meet in a package-level hashing context).
func ruleNoSharedPackageState(c *core.Ctx) {
	c.Rule("R15.6", "no package-level buffer, table or object is written on the working paths")
	{
		nFn := 0
		for _, fn := range c.P.SrcFuncs() {
			if fn.Parent() != nil || !strings.HasPrefix(core.PkgPathOf(fn), core.Mod) || strings.HasSuffix(core.PkgPathOf(fn), "/wtest") {
				continue
			}
			if strings.Contains(c.P.Pos(fn.Pos()), ".pb.go:") {
				continue // generated descriptor tables, initialised once under sync.Once
			}
			nFn++
			for _, w := range sharedGlobalWrites(fn) {
				c.Bad("R15.6", core.FnName(fn), "package-level "+w.what, core.InstrPos(w.in),
					"the package-level variable "+w.name+" is "+w.what+": every diff, signature or application running in the process shares it. Two of them in flight overwrite each other's data (a copy buffer handed from the reader goroutine to the differ and the signer carries the other build's bytes) and the result depends on the schedule")
			}
		}
		c.Floor("R15.6", "top-level functions of the module", nFn, 100)
	}
}
