package rules

import (
	"wharfverif/checker/internal/core"
)

// ruleOrderedFanIn is R15.3 (filled in with the C15 rules).
func ruleOrderedFanIn(c *core.Ctx, rule string) {
	orderedFanIn(c, rule)
}
