package rules

import (
	"go/token"
	"go/types"
	"sort"
	"strings"

	"golang.org/x/tools/go/ssa"

	"wharfverif/checker/internal/core"
)

func init() {
	register(&Property{
		ID: "C06",
		Explanation: `R06.1 every WoundKind the validator side can emit has a case in the healer's switch; ` +
			`R06.2 in Validate's directory and symlink passes an error from os.Lstat/os.Readlink is returned only after a classification that tests both not-exist and not-a-directory (ENOTDIR arises when a parent was replaced by a file), otherwise it becomes a wound; ` +
			`R06.3 repair actions: DIR - every success path consults os.Lstat, returns early only for a real directory, removes a non-directory before MkdirAll and otherwise ends in MkdirAll; SYMLINK - MkdirAll(parent), removal of whatever exists, then os.Symlink(entry.Dest, path) on every success path; FILE - queued once per file and marked whenever queued; R06.5 no function of pwr / pwr/bowl that changes a tree examines a path with os.Stat (which follows links): the kind of what is at an entry's path is decided with Lstat; ` +
			`R06.6 a queued file is copied whole from the archive into the target for the same index; R16.7 (shared) no wound is sent before the consumer exists; R06.7 the verdict about a directory reaches what lies below it: each way of finding a directory of the wrong kind writes a record, and every examination of an entry of the build (Lstat, Readlink, opening through the pool - in the three passes) is dominated by a branch whose condition reads that record (directly, through a closure, or through a function-typed parameter resolved at its call sites); ` +
			`(R06.4 of the design, queue capacity, was dropped as not necessary.) ` +
			`R05.3/R05.5/R05.6 (shared) the deviation table of the validator: the healer repairs what is reported. ` +
			`R06.3 also: the FILE case returns without queueing only through the outcome files[idx] == true (a FILE wound is a file to re-make whatever its range). ` +
			`R05.1 (shared) healthy verdict of the block validator only under index-in-range and strong-hash equality. R06.8 in the archive healer's methods a plain os.Remove is reached only through the outcome !IsDir() of a look at the path (what may be a non-empty directory goes through RemoveAll, or is left to the pool). R06.7 also: from either outcome of a test of the broken-directory record, the next entry (next turn of the loop, success return) is reached only through an examination or through a wound being sent (plain send or select case, directly or in a called literal). NOT decided: that healed content equals the signed content, validator/healer interleavings, behaviour under cancellation.`,
		Assumptions: []string{"the healer's repair switch is the function literal in ArchiveHealer.Do that switches on wound.Kind"},
		Run:         runC06,
		Fixtures:    fixturesNoFollow,
		FixturePkg:  "statfx",
	})
}

func runC06(c *core.Ctx) {
	c.Rule("R06.5", "what is at an entry's path is examined without following links (validator, healer, bowl)")
	ruleNoFollow(c, "R06.5", "/pwr", "/pwr/bowl")
	ruleWoundsAreOwnedByTheMessage(c, "R05.7")
	c.Rule("R16.7", "no wound is sent before the consumer goroutine was started (shared with C16)")
	ruleConsumerStartedFirst(c)
	c.Rule("R06.6", "a queued file is copied whole from the archive into the target, for the same index")
	ruleHiddenSubtrees(c, "R06.7")
	ruleHealerRemovesWhatItSaw(c, "R06.8")
	ruleDeviationTable(c, woundKinds(c.P))
	c.Rule("R05.1", "healthy verdict only under index-in-range and strong-hash equality (shared)")
	ruleHealthyVerdict(c, woundKinds(c.P), false)
	if ho := c.P.Fn("pwr", "ArchiveHealer.healOne"); ho == nil {
		c.Missing("R06.6", "pwr.(*ArchiveHealer).healOne", "not found")
	} else {
		var idx *ssa.Parameter
		for _, p := range ho.Params {
			if bt, ok := p.Type().Underlying().(*types.Basic); ok && bt.Kind() == types.Int64 {
				idx = p
			}
		}
		var rdCall, wrCall *ssa.Call
		core.Instrs(ho, func(in ssa.Instruction) {
			cl, ok := in.(*ssa.Call)
			if !ok || !cl.Call.IsInvoke() || len(cl.Call.Args) != 1 || idx == nil || cl.Call.Args[0] != ssa.Value(idx) {
				return
			}
			switch cl.Call.Method.Name() {
			case "GetReader", "GetReadSeeker":
				rdCall = cl
			case "GetWriter":
				wrCall = cl
			}
		})
		c.Check(rdCall != nil && wrCall != nil, "R06.6", core.FnName(ho), "reader and writer are opened for the file index that was queued", ho.Pos(),
			"sourcePool.GetReader(fileIndex) and targetPool.GetWriter(fileIndex)", "healOne does not open both the archive entry and the target file for the index it was given")
		isCopy := func(in ssa.Instruction) bool {
			cl, ok := in.(*ssa.Call)
			if !ok {
				return false
			}
			n := core.CalleeName(cl)
			var dst, src ssa.Value
			switch {
			case (n == "ctxcopy.Do" || n == "ctxcopy.DoBuffer") && len(cl.Call.Args) >= 3:
				dst, src = cl.Call.Args[1], cl.Call.Args[2]
			case (n == "io.Copy" || n == "io.CopyBuffer") && len(cl.Call.Args) >= 2:
				dst, src = cl.Call.Args[0], cl.Call.Args[1]
			default:
				return false
			}
			fromRd := rdCall != nil && extractOf(src, rdCall, 0)
			// the destination is the writer, possibly wrapped by a counting writer built from it
			toWr := false
			var walk func(v ssa.Value, d int)
			walk = func(v ssa.Value, d int) {
				if d > 4 || toWr {
					return
				}
				for _, o := range core.Origins(v) {
					if wrCall != nil && extractOf(o, wrCall, 0) {
						toWr = true
					}
					if w, ok := o.(*ssa.Call); ok {
						for _, a := range w.Call.Args {
							walk(a, d+1)
						}
					}
				}
			}
			walk(dst, 0)
			return fromRd && toWr
		}
		n := 0
		for _, rs := range successReturns(ho) {
			n++
			p := core.FindPath(ho, nil, isInstr(rs.Ret), isCopy)
			c.Check(p == nil, "R06.6", core.FnName(ho), "success only after the copy from the archive entry into the target file", core.InstrPos(rs.Ret),
				"every path to this success return copies the reader into the writer", "healOne can report success without having copied the archive entry into the target file (a shortcut for some files): the file stays damaged").Path = c.P.PathStrings(p)
			for _, cp := range allInstrs(ho, isCopy) {
				p2 := ungatedPath(ho, cp.(*ssa.Call), rs.Ret, nil)
				c.Check(p2 == nil, "R06.6", core.FnName(ho), "the copy's error is not dropped", core.InstrPos(cp),
					"success is reachable from the copy only through its nil outcome (or returns its error)", "healOne reports success although the copy failed").Path = c.P.PathStrings(p2)
			}
		}
		c.Floor("R06.6", "success returns of healOne", n, 1)
	}
	c.Rule("R06.1", "wound kinds emitted ⊆ kinds handled by the healer")
	c.Rule("R06.2", "Lstat/Readlink errors in the dir/symlink passes are returned only after testing not-exist AND not-a-directory")
	c.Rule("R06.3", "repair actions of the DIR / SYMLINK / FILE cases")
	kinds := woundKinds(c.P)
	kindName := map[int64]string{}
	for n, v := range kinds {
		kindName[v] = n
	}
	do := c.P.Fn("pwr", "ArchiveHealer.Do")
	if do == nil {
		c.Missing("R06", "pwr.(*ArchiveHealer).Do", "not found")
		return
	}
	// the repair literal: compares wound.Kind with constants
	kindTests := func(f *ssa.Function) map[int64]*ssa.If {
		out := map[int64]*ssa.If{}
		core.Instrs(f, func(in ssa.Instruction) {
			ifi, ok := in.(*ssa.If)
			if !ok {
				return
			}
			bo, ok := ifi.Cond.(*ssa.BinOp)
			if !ok || bo.Op != token.EQL {
				return
			}
			if _, n, ok := core.FieldOf(bo.X); !ok || n != "Kind" {
				return
			}
			if k, isC := core.ConstInt(bo.Y); isC {
				out[k] = ifi
			}
		})
		return out
	}
	var repair *ssa.Function
	var cases map[int64]*ssa.If
	for _, f := range core.WithAnons(do) {
		if kt := kindTests(f); len(kt) >= 2 {
			repair, cases = f, kt
		}
	}
	if repair == nil {
		c.Missing("R06.1", core.FnName(do), "no function literal switching on wound.Kind")
		return
	}
	// R06.1
	emitted := map[int64]bool{}
	for _, wl := range woundLits(c.P) {
		if family(wl.fn) == do {
			continue
		}
		if wl.kind >= 0 {
			emitted[wl.kind] = true
		}
	}
	var eks []int64
	for k := range emitted {
		eks = append(eks, k)
	}
	sort.Slice(eks, func(i, j int) bool { return eks[i] < eks[j] })
	for _, k := range eks {
		_, handled := cases[k]
		c.Check(handled, "R06.1", core.FnName(repair), "case for wound kind "+kindName[k], repair.Pos(),
			"the healer's switch has a case for this emitted kind", "wounds of kind "+kindName[k]+" are emitted by the validator side but have no case in the healer: healing fails with 'Unknown wound kind'")
	}
	c.Floor("R06.1", "emitted wound kinds", len(eks), 4)

	// R06.2
	validateFn := c.P.Fn("pwr", "ValidatorContext.Validate")
	if validateFn == nil {
		c.Missing("R06.2", "pwr.(*ValidatorContext).Validate", "not found")
	} else {
		n := 0
		for _, rs := range core.Returns(validateFn, -1) {
			if rs.Val == nil {
				continue
			}
			var src *ssa.Call
			var walk func(v ssa.Value, d int)
			walk = func(v ssa.Value, d int) {
				if d > 4 {
					return
				}
				for _, o := range core.Origins(v) {
					switch x := o.(type) {
					case *ssa.Extract:
						if cl, ok := x.Tuple.(*ssa.Call); ok {
							nm := core.CalleeName(cl)
							if nm == "os.Lstat" || nm == "os.Readlink" {
								src = cl
							}
						}
					case *ssa.Call:
						// errors.WithStack(err)
						if strings.HasPrefix(core.CalleeName(x), "github.com/pkg/errors.With") && len(x.Call.Args) > 0 {
							walk(x.Call.Args[0], d+1)
						}
					}
				}
			}
			walk(rs.Val, 0)
			if src == nil {
				continue
			}
			n++
			// the error classes excluded on the way to this return: every predicate found false, whether the
			// classification is one helper or spelled out (`!os.IsNotExist(e) && !errors.Is(e, syscall.ENOTDIR)`)
			classes := map[string]bool{}
			for _, g := range core.Guards(rs.Ret) {
				cl, ok := g.Cond.(*ssa.Call)
				if !ok || g.Val {
					continue
				}
				if f := cl.Call.StaticCallee(); f != nil {
					for k := range predicateClasses(c.P, f, 0) {
						classes[k] = true
					}
					if n := core.CalleeName(cl); (n == "errors.Is" || n == "github.com/pkg/errors.Is") && len(cl.Call.Args) == 2 {
						for k := range errnoClasses(c.P, cl.Call.Args[1]) {
							classes[k] = true
						}
					}
				}
			}
			guarded := classes["notexist"] && classes["notdir"]
			var got []string
			for k := range classes {
				got = append(got, k)
			}
			sort.Strings(got)
			c.Check(guarded, "R06.2", core.FnName(validateFn), "return of an error from "+core.CalleeName(src), core.InstrPos(rs.Ret),
				"the error is returned only when it is neither not-exist nor not-a-directory",
				"an "+core.CalleeName(src)+" error is returned after a classification that tests only {"+strings.Join(got, ",")+"}: when a parent directory was replaced by a file (ENOTDIR) validation fails instead of emitting a wound, and healing cannot repair the tree")
		}
		c.Floor("R06.2", "returns of Lstat/Readlink errors in Validate", n, 2)
	}

	// R06.3
	succ := successReturns(repair)
	caseSkip := func(k int64) func(b, s *ssa.BasicBlock) bool {
		ifi := cases[k]
		return func(b, s *ssa.BasicBlock) bool { return ifi != nil && b == ifi.Block() && s == b.Succs[1] }
	}
	isSucc := func(in ssa.Instruction) bool {
		for _, rs := range succ {
			if rs.Ret == in {
				return true
			}
		}
		return false
	}
	lstat := callTo("os.Lstat")
	mkdirAll := callTo("os.MkdirAll")
	remove := callTo("os.Remove", "os.RemoveAll")
	symlink := callTo("os.Symlink")
	isDirEdge := func(want bool) func(b, s *ssa.BasicBlock) bool {
		// the edge on which IsDir() == want
		return func(b, s *ssa.BasicBlock) bool {
			ifi, ok := b.Instrs[len(b.Instrs)-1].(*ssa.If)
			if !ok {
				return false
			}
			cl, ok := ifi.Cond.(*ssa.Call)
			if !ok || !cl.Call.IsInvoke() || cl.Call.Method.Name() != "IsDir" {
				return false
			}
			return (s == b.Succs[0]) == want
		}
	}
	or := func(fs ...func(b, s *ssa.BasicBlock) bool) func(b, s *ssa.BasicBlock) bool {
		return func(b, s *ssa.BasicBlock) bool {
			for _, f := range fs {
				if f(b, s) {
					return true
				}
			}
			return false
		}
	}
	if ifi := cases[kinds["DIR"]]; ifi == nil {
		c.Bad("R06.3", core.FnName(repair), "DIR case", repair.Pos(), "no DIR case")
	} else {
		p := core.FindPathSkipping(repair, ifi, isSucc, lstat, caseSkip(kinds["DIR"]))
		o := c.Check(p == nil, "R06.3", core.FnName(repair), "DIR: every success path consults os.Lstat", core.InstrPos(ifi),
			"os.Lstat (which does not follow symlinks) is called on every success path of the DIR repair",
			"a success path of the DIR repair never calls os.Lstat: a symlink to a directory (or anything MkdirAll/Stat follows) is taken for the directory itself")
		o.Path = c.P.PathStrings(p)
		// success without MkdirAll only on the IsDir()==true edge
		p = core.FindPathSkipping(repair, ifi, isSucc, mkdirAll, or(caseSkip(kinds["DIR"]), isDirEdge(true)))
		o = c.Check(p == nil, "R06.3", core.FnName(repair), "DIR: ends in os.MkdirAll unless a real directory exists", core.InstrPos(ifi),
			"every success path that did not find a directory passes os.MkdirAll", "a success path of the DIR repair neither found a directory nor created one")
		o.Path = c.P.PathStrings(p)
		// on the IsDir()==false edge, MkdirAll only after Remove
		var isDirIf ssa.Instruction
		core.Instrs(repair, func(in ssa.Instruction) {
			if x, ok := in.(*ssa.If); ok {
				if cl, ok := x.Cond.(*ssa.Call); ok && cl.Call.IsInvoke() && cl.Call.Method.Name() == "IsDir" && hasGuard(in, func(g core.Guard) bool { return g.If == ifi && g.Val }) {
					isDirIf = in
				}
			}
		})
		if isDirIf == nil {
			c.Bad("R06.3", core.FnName(repair), "DIR: IsDir() test", core.InstrPos(ifi), "the DIR repair no longer tests IsDir() on the Lstat result")
		} else {
			p = core.FindPathSkipping(repair, isDirIf, mkdirAll, remove, isDirEdge(true))
			o = c.Check(p == nil, "R06.3", core.FnName(repair), "DIR: a non-directory is removed before MkdirAll", core.InstrPos(isDirIf),
				"os.Remove precedes os.MkdirAll on the not-a-directory path", "MkdirAll is reached on the not-a-directory path without removing what is in the way: it fails (file) or silently accepts it")
			o.Path = c.P.PathStrings(p)
		}
	}
	if ifi := cases[kinds["SYMLINK"]]; ifi == nil {
		c.Bad("R06.3", core.FnName(repair), "SYMLINK case", repair.Pos(), "no SYMLINK case")
	} else {
		skip := caseSkip(kinds["SYMLINK"])
		p := core.FindPathSkipping(repair, ifi, isSucc, symlink, skip)
		o := c.Check(p == nil, "R06.3", core.FnName(repair), "SYMLINK: every success path creates the link", core.InstrPos(ifi),
			"os.Symlink is on every success path", "a success path of the SYMLINK repair does not create the link")
		o.Path = c.P.PathStrings(p)
		p = core.FindPathSkipping(repair, ifi, symlink, mkdirAll, skip)
		o = c.Check(p == nil, "R06.3", core.FnName(repair), "SYMLINK: parent directory is created first", core.InstrPos(ifi),
			"os.MkdirAll(parent) precedes os.Symlink", "os.Symlink can be reached without creating the parent directory first")
		o.Path = c.P.PathStrings(p)
		// whatever exists (Lstat err == nil) is removed before linking
		var lst ssa.Instruction
		core.Instrs(repair, func(in ssa.Instruction) {
			if lstat(in) && hasGuard(in, func(g core.Guard) bool { return g.If == ifi && g.Val }) {
				lst = in
			}
		})
		if lst == nil {
			c.Bad("R06.3", core.FnName(repair), "SYMLINK: os.Lstat", core.InstrPos(ifi), "the SYMLINK repair no longer looks at what exists at the path")
		} else {
			errNil := func(b, s *ssa.BasicBlock) bool {
				// remove the "Lstat failed" outcome: err == nil false edge / err != nil true edge
				x, ok := b.Instrs[len(b.Instrs)-1].(*ssa.If)
				if !ok {
					return false
				}
				bo, ok := x.Cond.(*ssa.BinOp)
				if !ok || !core.IsNilConst(bo.Y) {
					return false
				}
				isLstatErr := false
				for _, o := range core.Origins(bo.X) {
					if ex, ok := o.(*ssa.Extract); ok && ex.Tuple == ssa.Value(lst.(*ssa.Call)) && ex.Index == 1 {
						isLstatErr = true
					}
				}
				if !isLstatErr {
					return false
				}
				return (bo.Op == token.EQL && s == b.Succs[1]) || (bo.Op == token.NEQ && s == b.Succs[0])
			}
			p = core.FindPathSkipping(repair, lst, symlink, remove, errNil)
			o = c.Check(p == nil, "R06.3", core.FnName(repair), "SYMLINK: an existing entry is removed before linking", core.InstrPos(lst),
				"when Lstat succeeds, Remove/RemoveAll precedes os.Symlink", "os.Symlink can be reached with an existing entry still in place: it fails with EEXIST")
			o.Path = c.P.PathStrings(p)
		}
		// destination is the container's
		for _, in := range allInstrs(repair, symlink) {
			_, n, ok := core.FieldOf(in.(*ssa.Call).Call.Args[0])
			c.Check(ok && n == "Dest", "R06.3", core.FnName(repair), "SYMLINK: link target is the signed Dest", core.InstrPos(in),
				"os.Symlink's target is the entry's Dest field", "os.Symlink is not called with the entry's Dest")
		}
	}
	if ifi := cases[kinds["FILE"]]; ifi == nil {
		c.Bad("R06.3", core.FnName(repair), "FILE case", repair.Pos(), "no FILE case")
	} else {
		// the queue send: a select send state of wound.Index
		var sel *ssa.Select
		var queue ssa.Value
		core.Instrs(repair, func(in ssa.Instruction) {
			if s, ok := in.(*ssa.Select); ok && hasGuard(in, func(g core.Guard) bool { return g.If == ifi && g.Val }) {
				for _, st := range s.States {
					if st.Dir == types.SendOnly {
						sel, queue = s, st.Chan
					}
				}
			}
		})
		var plain *ssa.Send
		if sel == nil {
			core.Instrs(repair, func(in ssa.Instruction) {
				if s, ok := in.(*ssa.Send); ok && hasGuard(in, func(g core.Guard) bool { return g.If == ifi && g.Val }) {
					plain, queue = s, s.Chan
				}
			})
		}
		var sendInstr ssa.Instruction
		if sel != nil {
			sendInstr = sel
		} else if plain != nil {
			sendInstr = plain
		}
		if sendInstr == nil {
			c.Bad("R06.3", core.FnName(repair), "FILE: queue for healing", core.InstrPos(ifi), "the FILE case no longer queues the file index for healing")
		} else {
			isMark := func(in ssa.Instruction) bool {
				mu, ok := in.(*ssa.MapUpdate)
				if !ok {
					return false
				}
				b, isB := core.ConstBool(mu.Value)
				return isB && b
			}
			// the file is marked as queued on every path that queues it (before or after the send: wounds are
			// processed one at a time, so either order prevents a second queueing)
			before := core.FindPathSkipping(repair, ifi, isInstr(sendInstr), isMark, caseSkip(kinds["FILE"])) == nil
			after := true
			if !before {
				for _, rs := range successReturns(repair) {
					if core.FindPathSkipping(repair, sendInstr, isInstr(rs.Ret), isMark, notThisSelectCase(sel)) != nil {
						after = false
					}
				}
			}
			c.Check(before || after, "R06.3", core.FnName(repair), "FILE: marked as queued whenever it is queued", core.InstrPos(sendInstr),
				"files[idx] = true on every path through the send", "a file index can be queued without being marked: it is queued again for every further wound of that file")
			guardedByLookup := hasGuard(sendInstr, func(g core.Guard) bool {
				for _, o := range core.Origins(g.Cond) {
					if lk, ok := o.(*ssa.Lookup); ok {
						_ = lk
						return !g.Val
					}
				}
				return false
			})
			c.Check(guardedByLookup, "R06.3", core.FnName(repair), "FILE: queued at most once per file", core.InstrPos(sendInstr),
				"the send is reached only when files[idx] was not yet set", "the queue send is not guarded by the once-per-file set")
			// ... and skipped only for that reason: a FILE wound is a file that must be rewritten whatever its range
			// (a missing file that was signed as empty is the wound [0,0)); the case returns without queueing only
			// where the once-per-file set says the file is queued already
			nSkip := 0
			for _, rs := range successReturns(repair) {
				if !hasGuard(rs.Ret, func(g core.Guard) bool { return g.If == ifi && g.Val }) {
					continue
				}
				if core.FindPath(repair, ifi, isInstr(rs.Ret), isInstr(sendInstr)) == nil {
					continue // reached only through the queueing statement
				}
				nSkip++
				already := hasGuard(rs.Ret, func(g core.Guard) bool {
					for _, o := range core.Origins(g.Cond) {
						if _, ok := o.(*ssa.Lookup); ok {
							return g.Val
						}
						if ex, ok := o.(*ssa.Extract); ok {
							if _, ok := ex.Tuple.(*ssa.Lookup); ok {
								return g.Val
							}
						}
					}
					return false
				})
				c.Check(already, "R06.3", core.FnName(repair), "FILE: a wound is passed over only when the file is already queued", core.InstrPos(rs.Ret),
					"the return that skips the queueing is reached only through the outcome files[idx] == true",
					"a FILE wound can be dropped for another reason than 'already queued' (its size, its range ...): a file that has to be re-made - a missing file signed as empty is the wound [0,0) - is never queued, healing reports success and the file is not there")
			}
			c.Stats["R06.3.skip_returns"] = nSkip
			// (R06.4 of the design — queue capacity len(container.Files) — was dropped: with a smaller queue the wound
			// consumer merely waits for the healing goroutine, which keeps consuming; it is not a necessary condition)
			for _, o := range core.Origins(queue) {
				if mc, ok := o.(*ssa.MakeChan); ok {
					c.Notes = append(c.Notes, "heal queue created with capacity "+core.Describe(mc.Size)+" (informational; not demanded)")
				}
			}
		}
	}
}

// predicateClasses scans an error predicate (and its module-internal callees)
// for the error classes it tests.
func predicateClasses(p *core.Prog, f *ssa.Function, depth int) map[string]bool {
	out := map[string]bool{}
	if f == nil || depth > 3 {
		return out
	}
	n := core.FnName(f)
	if n == "os.IsNotExist" {
		out["notexist"] = true
		return out
	}
	if f.Blocks == nil || !core.InModule(f) {
		return out
	}
	core.Instrs(f, func(in ssa.Instruction) {
		var ops []*ssa.Value
		for _, op := range in.Operands(ops) {
			if op == nil || *op == nil {
				continue
			}
			for k := range errnoClasses(p, *op) {
				out[k] = true
			}
		}
		if cl, ok := in.(ssa.CallInstruction); ok {
			if sc := cl.Common().StaticCallee(); sc != nil {
				for k := range predicateClasses(p, sc, depth+1) {
					out[k] = true
				}
			}
		}
	})
	return out
}

// errnoClasses classifies a value used as an error sentinel: syscall.ENOTDIR /
// ENOENT constants and the ErrNotExist variables.
func errnoClasses(p *core.Prog, op ssa.Value) map[string]bool {
	out := map[string]bool{}
	enotdir := int64(-1)
	enoent := int64(-1)
	if sp := p.All["syscall"]; sp != nil {
		if k, ok := sp.Types.Scope().Lookup("ENOTDIR").(*types.Const); ok {
			enotdir, _ = constInt64(k)
		}
		if k, ok := sp.Types.Scope().Lookup("ENOENT").(*types.Const); ok {
			enoent, _ = constInt64(k)
		}
	}
	v := core.StripConv(op)
	if k, ok := v.(*ssa.Const); ok && core.TypeName(k.Type()) == "syscall.Errno" {
		if i, isC := core.ConstInt(k); isC {
			if i == enotdir {
				out["notdir"] = true
			}
			if i == enoent {
				out["notexist"] = true
			}
		}
	}
	if g, ok := v.(*ssa.Global); ok && strings.HasSuffix(g.String(), "ErrNotExist") {
		out["notexist"] = true
	}
	if ld, ok := v.(*ssa.UnOp); ok {
		if g, ok := ld.X.(*ssa.Global); ok && strings.HasSuffix(g.String(), "ErrNotExist") {
			out["notexist"] = true
		}
	}
	return out
}

func fixturesNoFollow(fc *core.Ctx) map[string]bool {
	rep := map[string]bool{}
	for _, fn := range fc.P.SrcFuncs() {
		if fn.Parent() != nil || !strings.HasSuffix(core.PkgPathOf(fn), "/statfx") {
			continue
		}
		if len(followingStats(fn)) > 0 {
			rep[fn.Name()] = true
		}
	}
	return rep
}

// notThisSelectCase removes, for a select statement with one send case, the edges taken when another case
// fired: what follows "the send happened" is only what follows that case.
func notThisSelectCase(sel *ssa.Select) func(from, to *ssa.BasicBlock) bool {
	if sel == nil {
		return nil
	}
	sendIdx := -1
	for i, st := range sel.States {
		if st.Dir == types.SendOnly {
			sendIdx = i
		}
	}
	return func(from, to *ssa.BasicBlock) bool {
		if len(from.Instrs) == 0 || len(from.Succs) != 2 {
			return false
		}
		iff, ok := from.Instrs[len(from.Instrs)-1].(*ssa.If)
		if !ok {
			return false
		}
		bo, ok := iff.Cond.(*ssa.BinOp)
		if !ok || bo.Op != token.EQL {
			return false
		}
		ex, ok := bo.X.(*ssa.Extract)
		if !ok || ex.Tuple != ssa.Value(sel) || ex.Index != 0 {
			return false
		}
		k, isC := core.ConstInt(bo.Y)
		if !isC {
			return false
		}
		if int(k) == sendIdx {
			return to == from.Succs[1]
		}
		return to == from.Succs[0]
	}
}
