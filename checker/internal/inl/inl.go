// Package inl normalises the tree under analysis against the reference
// inventory of functions (baseline_funcs.txt): a named function that is not in
// the inventory is a helper introduced by a later change; every static call to
// it from the same package is replaced, in the syntax tree, by a hygienic copy
// of its body, so that the rules see the code where they saw it on the
// reference tree. The rewritten declarations are then type-checked again and
// the SSA form is built from them.
//
// The transformation is semantics preserving or it is not done: callees with
// defer/recover, recursive helpers, generic helpers, calls in positions that are
// evaluated repeatedly or conditionally (loop conditions, case expressions) and
// calls whose hoisting would reorder other calls are left alone and listed.
package inl

import (
	"fmt"
	"go/ast"
	"go/token"
	"go/types"
	"reflect"
	"sort"
	"strings"

	"golang.org/x/tools/go/packages"
	"golang.org/x/tools/go/types/typeutil"
)

// Site is one call that was expanded.
type Site struct {
	Caller, Callee string
	Pos            token.Pos // original position of the call
}

// Skip is one call to a new helper that was left as a call.
type Skip struct {
	Caller, Callee, Reason string
	Pos                    token.Pos
}

// Result describes what Normalize did.
type Result struct {
	NewFuncs []string
	Removed  []string // helpers that were expanded everywhere and dropped
	Sites    []Site
	Skips    []Skip
	Notes    []string
	// Orig maps positions of rewritten declarations back to the positions the
	// nodes had in the source files.
	Orig     map[token.Pos]token.Pos
	synthLo  token.Pos
	synthHi  token.Pos
	sortedNP []token.Pos
	Changed  map[*packages.Package]bool
}

// OrigPos maps a position inside a rewritten declaration back to the source.
func (r *Result) OrigPos(p token.Pos) token.Pos {
	if r == nil || p < r.synthLo || p > r.synthHi {
		return p
	}
	if o, ok := r.Orig[p]; ok {
		return o
	}
	if r.sortedNP == nil {
		for k := range r.Orig {
			r.sortedNP = append(r.sortedNP, k)
		}
		sort.Slice(r.sortedNP, func(i, j int) bool { return r.sortedNP[i] < r.sortedNP[j] })
	}
	i := sort.Search(len(r.sortedNP), func(i int) bool { return r.sortedNP[i] > p })
	if i == 0 {
		return token.NoPos
	}
	return r.Orig[r.sortedNP[i-1]]
}

// FuncKey is the inventory key of a declaration: "pkgpath Name" or
// "pkgpath Recv.Name" (pointer receivers without the star).
func FuncKey(pkgPath string, d *ast.FuncDecl) string {
	if d.Recv != nil && len(d.Recv.List) == 1 {
		return pkgPath + " " + recvTypeName(d.Recv.List[0].Type) + "." + d.Name.Name
	}
	return pkgPath + " " + d.Name.Name
}

func recvTypeName(e ast.Expr) string {
	for {
		switch x := e.(type) {
		case *ast.StarExpr:
			e = x.X
		case *ast.ParenExpr:
			e = x.X
		case *ast.IndexExpr:
			e = x.X
		case *ast.IndexListExpr:
			e = x.X
		case *ast.Ident:
			return x.Name
		default:
			return "?"
		}
	}
}

type helper struct {
	key   string
	decl  *ast.FuncDecl
	obj   *types.Func
	pk    *packages.Package
	file  *ast.File
	free  map[string]types.Object // names the declaration uses from outside itself
	calls map[*helper]bool
	bad   string // reason it cannot be expanded
	done  bool
	nexp  int // calls expanded

	needsFrame bool // uses defer or recover: can only become the body of a function literal

	// a local function literal that is only ever called (name := func(...) {...}; name(...)): expanded like a helper
	sig  *types.Signature
	lit  *ast.FuncLit
	def  *ast.AssignStmt
	v    *types.Var
	uses int
}

func (h *helper) signature() *types.Signature {
	if h.obj != nil {
		return h.obj.Type().(*types.Signature)
	}
	return h.sig
}

type normalizer struct {
	fset     *token.FileSet
	res      *Result
	helpers  map[*types.Func]*helper
	lits     map[*types.Var]*helper
	seq      int
	mark     token.Pos
	callPos  token.Pos
	origDecl map[*ast.FuncDecl]*ast.FuncDecl
	rew      map[*ast.FuncDecl]bool
	wrappers map[*ast.BlockStmt]bool
	addImp   map[*ast.File]map[string]string
	removed  map[*packages.Package][]removedDecl
}

type removedDecl struct {
	file *ast.File
	decl *ast.FuncDecl
}

const markPos = token.Pos(1)

// Normalize expands calls to functions that are not in the inventory. It
// rewrites pk.Syntax in place and re-type-checks the module packages; pkgs must
// be the module's packages, all maps every loaded package by path.
func Normalize(fset *token.FileSet, pkgs []*packages.Package, all map[string]*packages.Package, known map[string]bool, knownLits map[string]map[string]bool) (*Result, error) {
	n := &normalizer{fset: fset, res: &Result{Orig: map[token.Pos]token.Pos{}, Changed: map[*packages.Package]bool{}},
		helpers: map[*types.Func]*helper{}, lits: map[*types.Var]*helper{}, origDecl: map[*ast.FuncDecl]*ast.FuncDecl{}, rew: map[*ast.FuncDecl]bool{},
		wrappers: map[*ast.BlockStmt]bool{}, addImp: map[*ast.File]map[string]string{}, removed: map[*packages.Package][]removedDecl{}}
	type declIn struct {
		d  *ast.FuncDecl
		pk *packages.Package
		f  *ast.File
	}
	var decls []declIn
	for _, pk := range pkgs {
		for _, f := range pk.Syntax {
			for _, d := range f.Decls {
				fd, ok := d.(*ast.FuncDecl)
				if !ok || fd.Body == nil {
					continue
				}
				decls = append(decls, declIn{fd, pk, f})
				key := FuncKey(pk.PkgPath, fd)
				if known[key] || fd.Name.Name == "init" || fd.Name.Name == "main" || fd.Name.Name == "_" {
					continue
				}
				obj, _ := pk.TypesInfo.Defs[fd.Name].(*types.Func)
				if obj == nil {
					continue
				}
				h := &helper{key: key, decl: fd, obj: obj, pk: pk, file: f, calls: map[*helper]bool{}}
				n.helpers[obj] = h
				n.res.NewFuncs = append(n.res.NewFuncs, key)
			}
		}
	}
	// local function literals that the reference tree does not have and that are only ever called
	if knownLits != nil {
		for _, di := range decls {
			n.collectLits(di.d, di.pk, di.f, knownLits[di.pk.PkgPath])
		}
	}
	// a table of functions that is only ranged over and called is a sequence of calls
	if knownLits != nil {
		for _, di := range decls {
			n.unrollFuncTables(di.d, di.pk)
		}
	}
	sort.Strings(n.res.NewFuncs)
	if len(n.helpers) == 0 && len(n.lits) == 0 && len(n.rew) == 0 {
		return n.res, nil
	}
	for _, h := range n.helpers {
		n.vet(h)
	}
	// helper call graph; helpers on a cycle are not expanded
	for _, h := range n.helpers {
		ast.Inspect(h.decl.Body, func(x ast.Node) bool {
			if c, ok := x.(*ast.CallExpr); ok {
				if f := typeutil.StaticCallee(h.pk.TypesInfo, c); f != nil {
					if g := n.helpers[f]; g != nil {
						h.calls[g] = true
					}
				}
			}
			return true
		})
	}
	for _, h := range n.helpers {
		seen := map[*helper]bool{}
		var walk func(x *helper) bool
		walk = func(x *helper) bool {
			for g := range x.calls {
				if g == h {
					return true
				}
				if !seen[g] {
					seen[g] = true
					if walk(g) {
						return true
					}
				}
			}
			return false
		}
		if walk(h) && h.bad == "" {
			h.bad = "recursive"
		}
	}
	// rewrite helpers bottom-up, then everything else
	var order []*helper
	for _, h := range n.helpers {
		order = append(order, h)
	}
	sort.Slice(order, func(i, j int) bool { return order[i].key < order[j].key })
	var visit func(h *helper)
	visit = func(h *helper) {
		if h.done {
			return
		}
		h.done = true
		if h.bad == "recursive" {
			return
		}
		for _, g := range order {
			if h.calls[g] {
				visit(g)
			}
		}
		n.rewriteDecl(h.decl, h.pk, h.file)
	}
	for _, h := range order {
		visit(h)
	}
	for _, d := range decls {
		if obj, _ := d.pk.TypesInfo.Defs[d.d.Name].(*types.Func); obj != nil && n.helpers[obj] != nil {
			continue
		}
		n.rewriteDecl(d.d, d.pk, d.f)
	}
	if len(n.rew) == 0 {
		return n.res, nil
	}
	// a helper whose every use was an expanded call no longer exists
	refs := map[*types.Func]int{}
	for _, pk := range pkgs {
		for _, o := range pk.TypesInfo.Uses {
			if f, ok := o.(*types.Func); ok && n.helpers[f] != nil {
				refs[f]++
			}
		}
	}
	for _, h := range order {
		if h.nexp == 0 || refs[h.obj] != h.nexp {
			continue
		}
		for i, d := range h.file.Decls {
			if d == ast.Decl(h.decl) {
				h.file.Decls = append(h.file.Decls[:i:i], h.file.Decls[i+1:]...)
				n.removed[h.pk] = append(n.removed[h.pk], removedDecl{h.file, h.decl})
				delete(n.rew, h.decl)
				if od := n.origDecl[h.decl]; od != nil {
					*h.decl = *od
				}
				n.res.Removed = append(n.res.Removed, h.key)
				n.res.Changed[h.pk] = true
				break
			}
		}
	}
	// a local literal whose every call was expanded is no longer named
	for _, h := range n.lits {
		if h.nexp > 0 && h.nexp == h.uses {
			h.def.Lhs[0] = &ast.Ident{Name: "_", NamePos: h.def.Lhs[0].Pos()}
			h.def.Tok = token.ASSIGN
			h.def.Rhs[0] = &ast.BasicLit{Kind: token.INT, Value: "0", ValuePos: h.def.Rhs[0].Pos()}
			n.res.Removed = append(n.res.Removed, h.key)
		}
	}
	// imports the expanded bodies need in the caller's file
	for f, m := range n.addImp {
		var names []string
		for k := range m {
			names = append(names, k)
		}
		sort.Strings(names)
		gd := &ast.GenDecl{Tok: token.IMPORT, TokPos: f.Package}
		for _, name := range names {
			spec := &ast.ImportSpec{Name: &ast.Ident{Name: name, NamePos: f.Package}, Path: &ast.BasicLit{Kind: token.STRING, Value: fmt.Sprintf("%q", m[name]), ValuePos: f.Package}}
			gd.Specs = append(gd.Specs, spec)
			f.Imports = append(f.Imports, spec)
		}
		gd.Lparen, gd.Rparen = f.Package, f.Package
		f.Decls = append([]ast.Decl{gd}, f.Decls...)
	}
	// fresh, consistent positions for every rewritten declaration
	n.reposition()
	if err := n.recheck(pkgs, all); err != nil {
		return n.res, err
	}
	return n.res, nil
}

// vet decides whether a helper's body can be copied into a caller at all.
func (n *normalizer) vet(h *helper) {
	d := h.decl
	if d.Type.TypeParams != nil && len(d.Type.TypeParams.List) > 0 {
		h.bad = "generic"
		return
	}
	if d.Recv != nil {
		if len(d.Recv.List) != 1 {
			h.bad = "receiver"
			return
		}
		switch t := d.Recv.List[0].Type.(type) {
		case *ast.Ident:
		case *ast.StarExpr:
			if _, ok := t.X.(*ast.Ident); !ok {
				h.bad = "generic receiver"
				return
			}
		default:
			h.bad = "generic receiver"
			return
		}
	}
	for _, f := range h.file.Imports {
		if f.Name != nil && f.Name.Name == "." {
			h.bad = "dot import"
			return
		}
	}
	info := h.pk.TypesInfo
	ast.Inspect(d.Body, func(x ast.Node) bool {
		switch x := x.(type) {
		case *ast.FuncLit:
			return false // defers and returns of nested literals are their own
		case *ast.DeferStmt:
			h.needsFrame = true
		case *ast.CallExpr:
			if id, ok := x.Fun.(*ast.Ident); ok {
				if b, ok := info.Uses[id].(*types.Builtin); ok && b.Name() == "recover" {
					h.needsFrame = true
				}
			}
		}
		return true
	})
	// names used from outside the declaration
	h.free = map[string]types.Object{}
	ast.Inspect(d, func(x ast.Node) bool {
		id, ok := x.(*ast.Ident)
		if !ok {
			return true
		}
		o := info.Uses[id]
		if o == nil {
			return true
		}
		switch o := o.(type) {
		case *types.Label:
			return true
		case *types.Var:
			if o.IsField() {
				return true
			}
		case *types.Func:
			if o.Type().(*types.Signature).Recv() != nil {
				return true
			}
		}
		if _, isPkgName := o.(*types.PkgName); !isPkgName && o.Pkg() != nil {
			if o.Pkg() != h.pk.Types {
				return true // pkg.Name: only the qualifier has to resolve
			}
			if o.Parent() != h.pk.Types.Scope() {
				if h.lit == nil || (o.Pos() >= h.lit.Pos() && o.Pos() < h.lit.End()) {
					return true // a local of the declaration
				}
				// a variable of the enclosing function that the literal captures: must mean the same at the call
			}
		}
		if prev, ok := h.free[id.Name]; ok && prev != o {
			h.bad = "ambiguous free name " + id.Name
		}
		h.free[id.Name] = o
		return true
	})
}

// ---- rewriting a declaration ---------------------------------------------------------------

type rewriter struct {
	n      *normalizer
	pk     *packages.Package
	file   *ast.File
	decl   *ast.FuncDecl
	caller string
	any    bool
}

func (n *normalizer) rewriteDecl(d *ast.FuncDecl, pk *packages.Package, f *ast.File) {
	// cheap pre-check: does the body call any helper at all?
	has := false
	ast.Inspect(d.Body, func(x ast.Node) bool {
		if c, ok := x.(*ast.CallExpr); ok && !has {
			if fn := typeutil.StaticCallee(pk.TypesInfo, c); fn != nil && n.helpers[fn] != nil {
				has = true
			} else if id, ok := ast.Unparen(c.Fun).(*ast.Ident); ok && len(n.lits) > 0 {
				if v, ok := pk.TypesInfo.Uses[id].(*types.Var); ok && n.lits[v] != nil {
					has = true
				}
			}
		}
		return !has
	})
	if !has {
		return
	}
	r := &rewriter{n: n, pk: pk, file: f, decl: d, caller: FuncKey(pk.PkgPath, d)}
	saved := copyNode(d).(*ast.FuncDecl)
	d.Body.List = r.block(d.Body.List)
	if r.any {
		if n.origDecl[d] == nil {
			n.origDecl[d] = saved
		}
		n.rew[d] = true
		n.res.Changed[pk] = true
	}
}

func (r *rewriter) helperOf(c *ast.CallExpr) *helper {
	fn := typeutil.StaticCallee(r.pk.TypesInfo, c)
	if fn == nil {
		if id, ok := ast.Unparen(c.Fun).(*ast.Ident); ok && len(r.n.lits) > 0 {
			if v, ok := r.pk.TypesInfo.Uses[id].(*types.Var); ok {
				return r.n.lits[v]
			}
		}
		return nil
	}
	return r.n.helpers[fn]
}

// expandable reports whether c is a call to a helper that can be expanded here;
// a non-empty reason is recorded as a skip.
func (r *rewriter) expandable(c *ast.CallExpr) (*helper, string) {
	return r.expandableAs(c, false)
}

// expandableAs: with literal set, the expansion becomes the whole body of a
// function literal (go / defer statements), where defer and recover keep their meaning.
func (r *rewriter) expandableAs(c *ast.CallExpr, literal bool) (*helper, string) {
	h := r.helperOf(c)
	if h == nil {
		return nil, ""
	}
	if h.bad != "" {
		return nil, h.bad
	}
	_ = literal // a helper that uses defer or recover is expanded as the body of a function literal either way
	if h.pk != r.pk {
		return nil, "other package"
	}
	if h.decl == r.decl {
		return nil, "recursive"
	}
	for _, imp := range r.file.Imports {
		if imp.Name != nil && imp.Name.Name == "." {
			return nil, "dot import"
		}
	}
	if h.decl.Recv != nil {
		sel, ok := ast.Unparen(c.Fun).(*ast.SelectorExpr)
		if !ok {
			return nil, "method expression"
		}
		s := r.pk.TypesInfo.Selections[sel]
		if s == nil || s.Kind() != types.MethodVal || len(s.Index()) != 1 {
			return nil, "promoted or indirect method"
		}
	} else if _, ok := ast.Unparen(c.Fun).(*ast.Ident); !ok {
		return nil, "qualified call"
	}
	// hygiene: every outside name of the helper must mean the same thing here
	scope := r.pk.Types.Scope().Innermost(c.Lparen)
	if scope == nil {
		return nil, "no scope"
	}
	for name, want := range h.free {
		_, got := scope.LookupParent(name, c.Lparen)
		if pn, ok := want.(*types.PkgName); ok {
			if got == nil {
				continue // import added below
			}
			gp, ok := got.(*types.PkgName)
			if !ok || gp.Imported() != pn.Imported() {
				return nil, "name " + name + " means something else at the call"
			}
			continue
		}
		if got != want {
			return nil, "name " + name + " means something else at the call"
		}
	}
	return h, ""
}

func (r *rewriter) skip(c *ast.CallExpr, reason string) {
	h := r.helperOf(c)
	if h == nil {
		return
	}
	r.n.res.Skips = append(r.n.res.Skips, Skip{Caller: r.caller, Callee: h.key, Reason: reason, Pos: c.Lparen})
}

// containsHelperCall reports whether x contains a call to a helper outside
// nested function literals.
func (r *rewriter) containsHelperCall(x ast.Node) bool {
	if x == nil || reflect.ValueOf(x).IsNil() {
		return false
	}
	found := false
	ast.Inspect(x, func(y ast.Node) bool {
		if found {
			return false
		}
		switch y := y.(type) {
		case *ast.FuncLit:
			return false
		case *ast.CallExpr:
			if r.helperOf(y) != nil {
				found = true
			}
		}
		return true
	})
	return found
}

func (r *rewriter) block(list []ast.Stmt) []ast.Stmt {
	var out []ast.Stmt
	for _, s := range list {
		out = append(out, r.stmt(s)...)
	}
	return out
}

func (r *rewriter) blockStmt(b *ast.BlockStmt) *ast.BlockStmt {
	if b == nil {
		return nil
	}
	b.List = r.block(b.List)
	return b
}

// lits rewrites the bodies of function literals inside x.
func (r *rewriter) lits(x ast.Node) {
	if x == nil || reflect.ValueOf(x).IsNil() {
		return
	}
	ast.Inspect(x, func(y ast.Node) bool {
		if fl, ok := y.(*ast.FuncLit); ok {
			r.blockStmt(fl.Body)
			return false
		}
		return true
	})
}

func (r *rewriter) wrap(pre []ast.Stmt, s ast.Stmt) []ast.Stmt {
	if len(pre) == 0 {
		return []ast.Stmt{s}
	}
	b := &ast.BlockStmt{Lbrace: markPos, Rbrace: markPos, List: append(pre, s)}
	r.n.wrappers[b] = true
	return []ast.Stmt{b}
}

func (r *rewriter) stmt(s ast.Stmt) []ast.Stmt {
	r.n.callPos = s.Pos()
	switch s := s.(type) {
	case *ast.BlockStmt:
		r.blockStmt(s)
		return []ast.Stmt{s}
	case *ast.ExprStmt:
		var pre []ast.Stmt
		if c, ok := ast.Unparen(s.X).(*ast.CallExpr); ok {
			if h, why := r.expandable(c); h != nil {
				st := &evalState{}
				r.hoistCallOperands(c, &pre, st)
				if !st.blocked {
					r.expand(c, h, &pre)
					return pre
				}
				r.skip(c, "evaluation order")
				return append(pre, s)
			} else if why != "" {
				r.skip(c, why)
			}
		}
		s.X = r.hoist(s.X, &pre, &evalState{}, r.lastHelperCall(s.X))
		return append(pre, s)
	case *ast.AssignStmt:
		var pre []ast.Stmt
		st := &evalState{}
		last := r.lastHelperCall(s)
		for i := range s.Lhs {
			if _, ok := s.Lhs[i].(*ast.Ident); ok {
				continue
			}
			s.Lhs[i] = r.hoist(s.Lhs[i], &pre, st, last)
		}
		if len(s.Rhs) == 1 && len(s.Lhs) > 1 {
			if c, ok := ast.Unparen(s.Rhs[0]).(*ast.CallExpr); ok {
				if h, why := r.expandable(c); h != nil {
					r.hoistCallOperands(c, &pre, st)
					if !st.blocked {
						s.Rhs = r.expand(c, h, &pre)
						return append(pre, s)
					}
					r.skip(c, "evaluation order")
					return append(pre, s)
				} else if why != "" {
					r.skip(c, why)
				}
			}
		}
		for i := range s.Rhs {
			s.Rhs[i] = r.hoist(s.Rhs[i], &pre, st, last)
		}
		return append(pre, s)
	case *ast.DeclStmt:
		gd, ok := s.Decl.(*ast.GenDecl)
		if !ok || gd.Tok != token.VAR {
			return []ast.Stmt{s}
		}
		var pre []ast.Stmt
		st := &evalState{}
		last := r.lastHelperCall(s)
		for _, sp := range gd.Specs {
			vs := sp.(*ast.ValueSpec)
			if len(vs.Values) == 1 && len(vs.Names) > 1 {
				if c, ok := ast.Unparen(vs.Values[0]).(*ast.CallExpr); ok {
					if h, why := r.expandable(c); h != nil {
						r.hoistCallOperands(c, &pre, st)
						if !st.blocked {
							vs.Values = r.expand(c, h, &pre)
							continue
						}
						r.skip(c, "evaluation order")
						continue
					} else if why != "" {
						r.skip(c, why)
					}
				}
			}
			for i := range vs.Values {
				vs.Values[i] = r.hoist(vs.Values[i], &pre, st, last)
			}
		}
		return append(pre, s)
	case *ast.ReturnStmt:
		var pre []ast.Stmt
		st := &evalState{}
		if len(s.Results) == 1 {
			if c, ok := ast.Unparen(s.Results[0]).(*ast.CallExpr); ok {
				if h, why := r.expandable(c); h != nil && h.signature().Results().Len() > 1 {
					r.hoistCallOperands(c, &pre, st)
					if !st.blocked {
						s.Results = r.expand(c, h, &pre)
						return r.wrap(pre, s)
					}
					r.skip(c, "evaluation order")
					return r.wrap(pre, s)
				} else if why != "" {
					r.skip(c, why)
				}
			}
		}
		last := r.lastHelperCall(s)
		for i := range s.Results {
			s.Results[i] = r.hoist(s.Results[i], &pre, st, last)
		}
		return r.wrap(pre, s)
	case *ast.IfStmt:
		var pre []ast.Stmt
		if r.containsHelperCall(s.Init) || r.containsHelperCall(s.Cond) {
			if s.Init != nil {
				pre = append(pre, r.stmt(s.Init)...)
				s.Init = nil
			}
			s.Cond = r.hoist(s.Cond, &pre, &evalState{}, r.lastHelperCall(s.Cond))
		} else {
			r.lits(s.Init)
			r.lits(s.Cond)
		}
		r.blockStmt(s.Body)
		if s.Else != nil {
			el := r.stmt(s.Else)
			if len(el) == 1 {
				switch e := el[0].(type) {
				case *ast.BlockStmt:
					s.Else = e
				case *ast.IfStmt:
					s.Else = e
				default:
					s.Else = &ast.BlockStmt{Lbrace: markPos, Rbrace: markPos, List: el}
				}
			} else {
				s.Else = &ast.BlockStmt{Lbrace: markPos, Rbrace: markPos, List: el}
			}
		}
		return r.wrap(pre, s)
	case *ast.ForStmt:
		var pre []ast.Stmt
		if r.containsHelperCall(s.Init) {
			pre = append(pre, r.stmt(s.Init)...)
			s.Init = nil
		} else {
			r.lits(s.Init)
		}
		r.skipAll(s.Cond, "loop condition")
		r.skipAll(s.Post, "loop post statement")
		r.lits(s.Cond)
		r.lits(s.Post)
		r.blockStmt(s.Body)
		return r.wrap(pre, s)
	case *ast.RangeStmt:
		var pre []ast.Stmt
		s.X = r.hoist(s.X, &pre, &evalState{}, r.lastHelperCall(s.X))
		r.blockStmt(s.Body)
		return r.wrap(pre, s)
	case *ast.SwitchStmt:
		var pre []ast.Stmt
		if r.containsHelperCall(s.Init) || r.containsHelperCall(s.Tag) {
			if s.Init != nil {
				pre = append(pre, r.stmt(s.Init)...)
				s.Init = nil
			}
			if s.Tag != nil {
				s.Tag = r.hoist(s.Tag, &pre, &evalState{}, r.lastHelperCall(s.Tag))
			}
		} else {
			r.lits(s.Init)
			r.lits(s.Tag)
		}
		for _, cc := range s.Body.List {
			cl := cc.(*ast.CaseClause)
			for _, e := range cl.List {
				r.skipAll(e, "case expression")
				r.lits(e)
			}
			cl.Body = r.block(cl.Body)
		}
		return r.wrap(pre, s)
	case *ast.TypeSwitchStmt:
		var pre []ast.Stmt
		if r.containsHelperCall(s.Init) {
			pre = append(pre, r.stmt(s.Init)...)
			s.Init = nil
		} else {
			r.lits(s.Init)
		}
		r.skipAll(s.Assign, "type switch guard")
		r.lits(s.Assign)
		for _, cc := range s.Body.List {
			cl := cc.(*ast.CaseClause)
			cl.Body = r.block(cl.Body)
		}
		return r.wrap(pre, s)
	case *ast.SelectStmt:
		for _, cc := range s.Body.List {
			cl := cc.(*ast.CommClause)
			r.skipAll(cl.Comm, "select communication")
			r.lits(cl.Comm)
			cl.Body = r.block(cl.Body)
		}
		return []ast.Stmt{s}
	case *ast.LabeledStmt:
		res := r.stmt(s.Stmt)
		if len(res) == 1 {
			if b, ok := res[0].(*ast.BlockStmt); ok && r.n.wrappers[b] && b != s.Stmt {
				// keep the label on the statement it named
				k := len(b.List) - 1
				s.Stmt = b.List[k]
				b.List[k] = s
				return []ast.Stmt{b}
			}
			s.Stmt = res[0]
			return []ast.Stmt{s}
		}
		if len(res) == 0 {
			s.Stmt = &ast.EmptyStmt{Semicolon: markPos}
			return []ast.Stmt{s}
		}
		// the statement expanded to a list: the label stays on the list's last
		// element (the original statement); the hoisted part runs before it
		k := len(res) - 1
		s.Stmt = res[k]
		res[k] = s
		return res
	case *ast.GoStmt:
		return r.callStmt(s, s.Call)
	case *ast.DeferStmt:
		return r.callStmt(s, s.Call)
	case *ast.SendStmt:
		var pre []ast.Stmt
		st := &evalState{}
		last := r.lastHelperCall(s)
		s.Chan = r.hoist(s.Chan, &pre, st, last)
		s.Value = r.hoist(s.Value, &pre, st, last)
		return append(pre, s)
	case *ast.IncDecStmt:
		var pre []ast.Stmt
		s.X = r.hoist(s.X, &pre, &evalState{}, r.lastHelperCall(s.X))
		return append(pre, s)
	}
	return []ast.Stmt{s}
}

func (r *rewriter) callStmt(s ast.Stmt, c *ast.CallExpr) []ast.Stmt {
	var pre []ast.Stmt
	st := &evalState{}
	r.hoistCallOperands(c, &pre, st)
	if h, why := r.expandableAs(c, true); h != nil && !st.blocked {
		// go f(a, b)  ==>  { a0, b0 := a, b; go func() R { <body of f> }() }
		lit := r.expandLiteral(c, h, &pre)
		nc := &ast.CallExpr{Fun: lit, Lparen: markPos, Rparen: markPos}
		switch x := s.(type) {
		case *ast.GoStmt:
			x.Call = nc
		case *ast.DeferStmt:
			x.Call = nc
		}
		return r.wrap(pre, s)
	} else if h != nil {
		r.skip(c, "evaluation order")
	} else if why != "" {
		r.skip(c, why)
	}
	return r.wrap(pre, s)
}

// bindParams evaluates the receiver and arguments of call c to helper h into
// fresh temporaries (appended to *outer, in the caller's scope) and returns the
// statements that declare the helper's own parameter names from them.
func (r *rewriter) bindParams(c *ast.CallExpr, h *helper, outer *[]ast.Stmt) (inner []ast.Stmt) {
	n := r.n
	d := h.decl
	if d.Recv != nil {
		sel := ast.Unparen(c.Fun).(*ast.SelectorExpr)
		var recv ast.Expr = sel.X
		s := r.pk.TypesInfo.Selections[sel]
		_, wantPtr := d.Recv.List[0].Type.(*ast.StarExpr)
		_, havePtr := s.Recv().Underlying().(*types.Pointer)
		switch {
		case wantPtr && !havePtr:
			recv = &ast.UnaryExpr{Op: token.AND, OpPos: markPos, X: &ast.ParenExpr{Lparen: markPos, X: recv, Rparen: markPos}}
		case !wantPtr && havePtr:
			recv = &ast.StarExpr{Star: markPos, X: &ast.ParenExpr{Lparen: markPos, X: recv, Rparen: markPos}}
		}
		a := n.fresh("a")
		*outer = append(*outer, varDecl(a, copyNode(d.Recv.List[0].Type).(ast.Expr), recv))
		if len(d.Recv.List[0].Names) == 1 && d.Recv.List[0].Names[0].Name != "_" {
			inner = append(inner, define(ident(d.Recv.List[0].Names[0].Name), ident(a)))
			inner = append(inner, assign(ident("_"), ident(d.Recv.List[0].Names[0].Name)))
		} else {
			*outer = append(*outer, assign(ident("_"), ident(a)))
		}
	}
	type par struct {
		name string
		typ  ast.Expr
		vari bool
	}
	var pars []par
	for _, f := range d.Type.Params.List {
		t := f.Type
		vari := false
		if el, ok := t.(*ast.Ellipsis); ok {
			t = &ast.ArrayType{Lbrack: markPos, Elt: el.Elt}
			vari = true
		}
		if len(f.Names) == 0 {
			pars = append(pars, par{"_", t, vari})
		}
		for _, nm := range f.Names {
			pars = append(pars, par{nm.Name, t, vari})
		}
	}
	args := c.Args
	tupleArg := false
	if len(args) == 1 && len(pars) > 1 {
		if tv, ok := r.pk.TypesInfo.Types[args[0]]; ok {
			if _, isTuple := tv.Type.(*types.Tuple); isTuple {
				tupleArg = true
			}
		}
	}
	var temps []string
	if tupleArg {
		var lhs []ast.Expr
		for range pars {
			t := n.fresh("a")
			temps = append(temps, t)
			lhs = append(lhs, ident(t))
		}
		*outer = append(*outer, &ast.AssignStmt{Lhs: lhs, Tok: token.DEFINE, TokPos: markPos, Rhs: []ast.Expr{args[0]}})
	} else {
		for i, p := range pars {
			t := n.fresh("a")
			temps = append(temps, t)
			switch {
			case p.vari && c.Ellipsis.IsValid():
				*outer = append(*outer, varDecl(t, copyNode(p.typ).(ast.Expr), args[i]))
			case p.vari:
				if len(args) > i {
					lit := &ast.CompositeLit{Type: copyNode(p.typ).(ast.Expr), Lbrace: markPos, Rbrace: markPos, Elts: append([]ast.Expr{}, args[i:]...)}
					*outer = append(*outer, varDecl(t, copyNode(p.typ).(ast.Expr), lit))
				} else {
					*outer = append(*outer, varDecl(t, copyNode(p.typ).(ast.Expr), nil))
				}
			default:
				*outer = append(*outer, varDecl(t, copyNode(p.typ).(ast.Expr), args[i]))
			}
		}
	}
	for i, p := range pars {
		if p.name == "_" {
			*outer = append(*outer, assign(ident("_"), ident(temps[i])))
			continue
		}
		inner = append(inner, define(ident(p.name), ident(temps[i])))
		inner = append(inner, assign(ident("_"), ident(p.name)))
	}
	return inner
}

func (r *rewriter) noteExpansion(c *ast.CallExpr, h *helper) {
	n := r.n
	r.any = true
	n.res.Sites = append(n.res.Sites, Site{Caller: r.caller, Callee: h.key, Pos: c.Lparen})
	h.nexp++
	// imports of the helper's file that this file lacks
	if h.file != r.file {
		scope := r.pk.TypesInfo.Scopes[r.file]
		for name, o := range h.free {
			pn, ok := o.(*types.PkgName)
			if !ok {
				continue
			}
			if scope != nil && scope.Lookup(name) != nil {
				continue
			}
			if n.addImp[r.file] == nil {
				n.addImp[r.file] = map[string]string{}
			}
			n.addImp[r.file][name] = pn.Imported().Path()
		}
	}
	if obj, _ := r.pk.TypesInfo.Defs[r.decl.Name].(*types.Func); obj != nil {
		if encl := n.helpers[obj]; encl != nil && encl.free != nil {
			for k, v := range h.free {
				if prev, ok := encl.free[k]; ok && prev != v {
					encl.bad = "ambiguous free name " + k
				}
				encl.free[k] = v
			}
			if h.needsFrame {
				// (only reachable through a literal, which is its own frame)
			}
		}
	}
}

// expandLiteral builds `func() R { <params>; <body of h> }` for a go or defer
// statement; the arguments are evaluated into temporaries in *pre.
func (r *rewriter) expandLiteral(c *ast.CallExpr, h *helper, pre *[]ast.Stmt) *ast.FuncLit {
	r.noteExpansion(c, h)
	d := h.decl
	inner := r.bindParams(c, h, pre)
	body := copyNode(d.Body).(*ast.BlockStmt)
	ft := &ast.FuncType{Func: markPos, Params: &ast.FieldList{Opening: markPos, Closing: markPos}}
	if d.Type.Results != nil {
		ft.Results = copyNode(d.Type.Results).(*ast.FieldList)
	}
	return &ast.FuncLit{Type: ft, Body: &ast.BlockStmt{Lbrace: markPos, Rbrace: markPos, List: append(inner, body.List...)}}
}

func (r *rewriter) skipAll(x ast.Node, reason string) {
	if x == nil || reflect.ValueOf(x).IsNil() {
		return
	}
	ast.Inspect(x, func(y ast.Node) bool {
		switch y := y.(type) {
		case *ast.FuncLit:
			return false
		case *ast.CallExpr:
			if r.helperOf(y) != nil {
				r.skip(y, reason)
			}
		}
		return true
	})
}

// lastHelperCall returns the helper call inside x that is evaluated last
// (post-order, outside function literals); calls after it need no hoisting.
func (r *rewriter) lastHelperCall(x ast.Node) *ast.CallExpr {
	if x == nil || reflect.ValueOf(x).IsNil() {
		return nil
	}
	var last *ast.CallExpr
	var stack []ast.Node
	ast.Inspect(x, func(y ast.Node) bool {
		if y == nil {
			top := stack[len(stack)-1]
			stack = stack[:len(stack)-1]
			if c, ok := top.(*ast.CallExpr); ok && r.helperOf(c) != nil {
				last = c
			}
			return true
		}
		if _, ok := y.(*ast.FuncLit); ok {
			return false
		}
		stack = append(stack, y)
		return true
	})
	return last
}

func containsNode(x ast.Node, n ast.Node) bool {
	found := false
	ast.Inspect(x, func(y ast.Node) bool {
		if y == n {
			found = true
		}
		return !found
	})
	return found
}

type evalState struct {
	blocked bool // an impure operand that could not be hoisted was passed
	done    bool // the last helper call has been handled: nothing more to hoist
}

func (r *rewriter) isConversionOrBuiltin(c *ast.CallExpr) bool {
	info := r.pk.TypesInfo
	if tv, ok := info.Types[c.Fun]; ok && tv.IsType() {
		return true
	}
	switch f := ast.Unparen(c.Fun).(type) {
	case *ast.Ident:
		if _, ok := info.Uses[f].(*types.Builtin); ok {
			return true
		}
	case *ast.SelectorExpr:
		if _, ok := info.Uses[f.Sel].(*types.Builtin); ok {
			return true // unsafe.Sizeof etc.
		}
	}
	return false
}

func (r *rewriter) hoistCallOperands(c *ast.CallExpr, pre *[]ast.Stmt, st *evalState) {
	var last *ast.CallExpr
	ops := []ast.Expr{}
	if sel, ok := ast.Unparen(c.Fun).(*ast.SelectorExpr); ok {
		ops = append(ops, sel.X)
	} else if _, ok := ast.Unparen(c.Fun).(*ast.Ident); !ok {
		ops = append(ops, c.Fun)
	}
	ops = append(ops, c.Args...)
	for _, a := range ops {
		if l := r.lastHelperCall(a); l != nil {
			last = l
		}
	}
	if last == nil {
		for _, a := range ops {
			r.lits(a)
		}
		return
	}
	st2 := &evalState{blocked: st.blocked}
	switch f := ast.Unparen(c.Fun).(type) {
	case *ast.SelectorExpr:
		if _, isPkg := r.pk.TypesInfo.Uses[identOf(f.X)].(*types.PkgName); !isPkg {
			f.X = r.hoist(f.X, pre, st2, last)
		}
	case *ast.Ident:
	default:
		c.Fun = r.hoist(c.Fun, pre, st2, last)
	}
	for i := range c.Args {
		c.Args[i] = r.hoist(c.Args[i], pre, st2, last)
	}
	st.blocked = st2.blocked
}

// hoist walks e in evaluation order. Calls to helpers are expanded into *pre
// and replaced by their result; other calls that are evaluated before the last
// helper call are moved to temporaries so that the order of calls is kept.
func (r *rewriter) hoist(e ast.Expr, pre *[]ast.Stmt, st *evalState, last *ast.CallExpr) ast.Expr {
	if e == nil {
		return nil
	}
	if last == nil || st.done {
		r.lits(e)
		return e
	}
	switch x := e.(type) {
	case *ast.Ident, *ast.BasicLit:
		return e
	case *ast.FuncLit:
		r.blockStmt(x.Body)
		return e
	case *ast.ParenExpr:
		x.X = r.hoist(x.X, pre, st, last)
		return e
	case *ast.SelectorExpr:
		x.X = r.hoist(x.X, pre, st, last)
		return e
	case *ast.StarExpr:
		x.X = r.hoist(x.X, pre, st, last)
		return e
	case *ast.UnaryExpr:
		x.X = r.hoist(x.X, pre, st, last)
		if x.Op == token.ARROW && !st.done {
			if st.blocked {
				return e
			}
			return r.temp(e, pre)
		}
		return e
	case *ast.BinaryExpr:
		if x.Op == token.LAND || x.Op == token.LOR {
			x.X = r.hoist(x.X, pre, st, last)
			if !r.containsHelperCall(x.Y) {
				r.lits(x.Y)
				if r.impure(x.Y) {
					st.blocked = true
				}
				return e
			}
			if st.blocked {
				r.skipAll(x.Y, "evaluation order")
				return e
			}
			// c := X; if c { c = Y }   (|| : if !c)
			lastInY := containsNode(x.Y, last)
			c := r.n.fresh("c")
			*pre = append(*pre, define(ident(c), x.X))
			var inner []ast.Stmt
			st2 := &evalState{}
			y := r.hoist(x.Y, &inner, st2, r.lastHelperCall(x.Y))
			inner = append(inner, assign(ident(c), y))
			var cond ast.Expr = ident(c)
			if x.Op == token.LOR {
				cond = &ast.UnaryExpr{Op: token.NOT, OpPos: markPos, X: cond}
			}
			*pre = append(*pre, &ast.IfStmt{If: markPos, Cond: cond, Body: &ast.BlockStmt{Lbrace: markPos, Rbrace: markPos, List: inner}})
			if lastInY {
				st.done = true
			}
			r.any = true
			return ident(c)
		}
		x.X = r.hoist(x.X, pre, st, last)
		x.Y = r.hoist(x.Y, pre, st, last)
		return e
	case *ast.IndexExpr:
		x.X = r.hoist(x.X, pre, st, last)
		x.Index = r.hoist(x.Index, pre, st, last)
		return e
	case *ast.SliceExpr:
		x.X = r.hoist(x.X, pre, st, last)
		x.Low = r.hoist(x.Low, pre, st, last)
		x.High = r.hoist(x.High, pre, st, last)
		x.Max = r.hoist(x.Max, pre, st, last)
		return e
	case *ast.TypeAssertExpr:
		x.X = r.hoist(x.X, pre, st, last)
		return e
	case *ast.KeyValueExpr:
		if _, ok := x.Key.(*ast.Ident); !ok {
			x.Key = r.hoist(x.Key, pre, st, last)
		}
		x.Value = r.hoist(x.Value, pre, st, last)
		return e
	case *ast.CompositeLit:
		for i := range x.Elts {
			x.Elts[i] = r.hoist(x.Elts[i], pre, st, last)
		}
		return e
	case *ast.CallExpr:
		if r.isConversionOrBuiltin(x) {
			for i := range x.Args {
				x.Args[i] = r.hoist(x.Args[i], pre, st, last)
			}
			return e
		}
		switch f := ast.Unparen(x.Fun).(type) {
		case *ast.SelectorExpr:
			if _, isPkg := r.pk.TypesInfo.Uses[identOf(f.X)].(*types.PkgName); !isPkg {
				f.X = r.hoist(f.X, pre, st, last)
			}
		case *ast.Ident:
		default:
			x.Fun = r.hoist(x.Fun, pre, st, last)
		}
		for i := range x.Args {
			x.Args[i] = r.hoist(x.Args[i], pre, st, last)
		}
		h, why := r.expandable(x)
		if h != nil && !st.blocked {
			sig := h.signature()
			if sig.Results().Len() == 1 {
				res := r.expand(x, h, pre)
				if x == last {
					st.done = true
				}
				return res[0]
			}
			why = "multi-value call in an expression"
		} else if h != nil {
			why = "evaluation order"
		}
		if why != "" {
			r.skip(x, why)
		}
		if x == last {
			st.done = true
			return e
		}
		if st.done || st.blocked {
			return e
		}
		// an ordinary call evaluated before the last helper call: keep the order
		if tv, ok := r.pk.TypesInfo.Types[x]; ok {
			if _, isTuple := tv.Type.(*types.Tuple); isTuple || tv.IsVoid() {
				st.blocked = true
				return e
			}
		} else {
			st.blocked = true
			return e
		}
		return r.temp(e, pre)
	}
	// types and anything else: not evaluated
	return e
}

func identOf(e ast.Expr) *ast.Ident {
	id, _ := ast.Unparen(e).(*ast.Ident)
	if id == nil {
		return &ast.Ident{Name: "_"}
	}
	return id
}

func (r *rewriter) impure(e ast.Expr) bool {
	imp := false
	ast.Inspect(e, func(y ast.Node) bool {
		switch y := y.(type) {
		case *ast.FuncLit:
			return false
		case *ast.CallExpr:
			if !r.isConversionOrBuiltin(y) {
				imp = true
			}
		case *ast.UnaryExpr:
			if y.Op == token.ARROW {
				imp = true
			}
		}
		return !imp
	})
	return imp
}

func (r *rewriter) temp(e ast.Expr, pre *[]ast.Stmt) ast.Expr {
	t := r.n.fresh("t")
	*pre = append(*pre, define(ident(t), e))
	r.any = true
	return ident(t)
}

func (n *normalizer) fresh(kind string) string {
	n.seq++
	return fmt.Sprintf("__%s%d", kind, n.seq)
}

func ident(name string) *ast.Ident { return &ast.Ident{Name: name, NamePos: markPos} }

func define(l *ast.Ident, r ast.Expr) ast.Stmt {
	return &ast.AssignStmt{Lhs: []ast.Expr{l}, Tok: token.DEFINE, TokPos: markPos, Rhs: []ast.Expr{r}}
}

func assign(l ast.Expr, r ast.Expr) ast.Stmt {
	return &ast.AssignStmt{Lhs: []ast.Expr{l}, Tok: token.ASSIGN, TokPos: markPos, Rhs: []ast.Expr{r}}
}

func varDecl(name string, typ ast.Expr, val ast.Expr) ast.Stmt {
	vs := &ast.ValueSpec{Names: []*ast.Ident{ident(name)}, Type: typ}
	if val != nil {
		vs.Values = []ast.Expr{val}
	}
	return &ast.DeclStmt{Decl: &ast.GenDecl{Tok: token.VAR, TokPos: markPos, Specs: []ast.Spec{vs}}}
}

// expand appends the expansion of call c to helper h to *pre and returns the
// identifiers that hold its results.
func (r *rewriter) expand(c *ast.CallExpr, h *helper, pre *[]ast.Stmt) []ast.Expr {
	n := r.n
	r.noteExpansion(c, h)
	d := h.decl
	var results []ast.Expr
	var resNames []string
	// result holders, in the caller's scope
	if d.Type.Results != nil {
		for _, f := range d.Type.Results.List {
			k := len(f.Names)
			if k == 0 {
				k = 1
			}
			for i := 0; i < k; i++ {
				name := n.fresh("r")
				resNames = append(resNames, name)
				results = append(results, ident(name))
				*pre = append(*pre, varDecl(name, copyNode(f.Type).(ast.Expr), nil))
			}
		}
	}
	outer := &ast.BlockStmt{Lbrace: markPos, Rbrace: markPos}
	inner := &ast.BlockStmt{Lbrace: markPos, Rbrace: markPos}
	if h.needsFrame {
		// defer / recover need their own frame:  r1, r2 = func() (R1, R2) { <params>; <body> }()
		bound := r.bindParams(c, h, &outer.List)
		body := copyNode(d.Body).(*ast.BlockStmt)
		ft := &ast.FuncType{Func: markPos, Params: &ast.FieldList{Opening: markPos, Closing: markPos}}
		if d.Type.Results != nil {
			ft.Results = copyNode(d.Type.Results).(*ast.FieldList)
		}
		lit := &ast.FuncLit{Type: ft, Body: &ast.BlockStmt{Lbrace: markPos, Rbrace: markPos, List: append(bound, body.List...)}}
		call := &ast.CallExpr{Fun: lit, Lparen: markPos, Rparen: markPos}
		if len(results) == 0 {
			outer.List = append(outer.List, &ast.ExprStmt{X: call})
		} else {
			outer.List = append(outer.List, &ast.AssignStmt{Lhs: append([]ast.Expr{}, results...), Tok: token.ASSIGN, TokPos: markPos, Rhs: []ast.Expr{call}})
		}
		*pre = append(*pre, outer)
		out := make([]ast.Expr, len(resNames))
		for i, rn := range resNames {
			out[i] = ident(rn)
		}
		return out
	}
	inner.List = r.bindParams(c, h, &outer.List)
	// named results are ordinary locals of the copy
	var named []string
	if d.Type.Results != nil {
		for _, f := range d.Type.Results.List {
			for _, nm := range f.Names {
				named = append(named, nm.Name)
				if nm.Name != "_" {
					inner.List = append(inner.List, varDecl(nm.Name, copyNode(f.Type).(ast.Expr), nil))
					inner.List = append(inner.List, assign(ident("_"), ident(nm.Name)))
				}
			}
		}
	}
	body := copyNode(d.Body).(*ast.BlockStmt)
	suffix := fmt.Sprintf("_%d", n.seq)
	label := n.fresh("L")
	// labels of the copy must be unique in the caller
	labels := map[string]bool{}
	ast.Inspect(body, func(x ast.Node) bool {
		if ls, ok := x.(*ast.LabeledStmt); ok {
			labels[ls.Label.Name] = true
		}
		return true
	})
	if len(labels) > 0 {
		ast.Inspect(body, func(x ast.Node) bool {
			switch x := x.(type) {
			case *ast.LabeledStmt:
				x.Label.Name += suffix
			case *ast.BranchStmt:
				if x.Label != nil && labels[x.Label.Name] {
					x.Label.Name += suffix
				}
			}
			return true
		})
	}
	// returns
	nret := 0
	var lastRet *ast.ReturnStmt
	ast.Inspect(body, func(x ast.Node) bool {
		switch x := x.(type) {
		case *ast.FuncLit:
			return false
		case *ast.ReturnStmt:
			nret++
			lastRet = x
		}
		return true
	})
	tailOnly := nret == 0 || (nret == 1 && len(body.List) > 0 && body.List[len(body.List)-1] == ast.Stmt(lastRet))
	retAssign := func(rs *ast.ReturnStmt) ast.Stmt {
		if len(resNames) == 0 {
			return nil
		}
		var lhs []ast.Expr
		for _, rn := range resNames {
			lhs = append(lhs, ident(rn))
		}
		var rhs []ast.Expr
		if len(rs.Results) == 0 {
			for _, nm := range named {
				if nm == "_" {
					return nil // cannot happen in valid code with a bare return
				}
				rhs = append(rhs, ident(nm))
			}
		} else {
			rhs = rs.Results
		}
		return &ast.AssignStmt{Lhs: lhs, Tok: token.ASSIGN, TokPos: markPos, Rhs: rhs}
	}
	if tailOnly {
		if nret == 1 {
			body.List = body.List[:len(body.List)-1]
			if a := retAssign(lastRet); a != nil {
				body.List = append(body.List, a)
			}
		}
		inner.List = append(inner.List, body.List...)
	} else {
		var fix func(list []ast.Stmt)
		replace := func(s ast.Stmt) ast.Stmt {
			rs, ok := s.(*ast.ReturnStmt)
			if !ok {
				return s
			}
			b := &ast.BlockStmt{Lbrace: markPos, Rbrace: markPos}
			if a := retAssign(rs); a != nil {
				b.List = append(b.List, a)
			}
			b.List = append(b.List, &ast.BranchStmt{TokPos: markPos, Tok: token.BREAK, Label: ident(label)})
			return b
		}
		var fixStmt func(s ast.Stmt)
		fix = func(list []ast.Stmt) {
			for i, s := range list {
				list[i] = replace(s)
				fixStmt(list[i])
			}
		}
		fixStmt = func(s ast.Stmt) {
			switch s := s.(type) {
			case *ast.BlockStmt:
				if len(s.List) > 0 {
					if _, isBr := s.List[len(s.List)-1].(*ast.BranchStmt); isBr && s.Lbrace == markPos {
						return // a block made by replace
					}
				}
				fix(s.List)
			case *ast.IfStmt:
				fix(s.Body.List)
				if s.Else != nil {
					if rs, ok := s.Else.(*ast.ReturnStmt); ok {
						s.Else = replace(rs)
					} else {
						fixStmt(s.Else)
					}
				}
			case *ast.ForStmt:
				fix(s.Body.List)
			case *ast.RangeStmt:
				fix(s.Body.List)
			case *ast.SwitchStmt:
				for _, cc := range s.Body.List {
					fix(cc.(*ast.CaseClause).Body)
				}
			case *ast.TypeSwitchStmt:
				for _, cc := range s.Body.List {
					fix(cc.(*ast.CaseClause).Body)
				}
			case *ast.SelectStmt:
				for _, cc := range s.Body.List {
					fix(cc.(*ast.CommClause).Body)
				}
			case *ast.LabeledStmt:
				s.Stmt = replace(s.Stmt)
				fixStmt(s.Stmt)
			}
		}
		fix(body.List)
		sw := &ast.SwitchStmt{Switch: markPos, Body: &ast.BlockStmt{Lbrace: markPos, Rbrace: markPos, List: []ast.Stmt{
			&ast.CaseClause{Case: markPos, Colon: markPos, Body: body.List},
		}}}
		inner.List = append(inner.List, &ast.LabeledStmt{Label: ident(label), Colon: markPos, Stmt: sw})
	}
	outer.List = append(outer.List, inner)
	*pre = append(*pre, outer)
	return results
}

// ---- copying and positions ------------------------------------------------------------------

var (
	posType    = reflect.TypeOf(token.NoPos)
	objPtrType = reflect.TypeOf((*ast.Object)(nil))
	scopeType  = reflect.TypeOf((*ast.Scope)(nil))
	cgType     = reflect.TypeOf((*ast.CommentGroup)(nil))
)

// copyNode makes a deep copy of an AST (comments and resolver objects dropped).
func copyNode(n ast.Node) ast.Node {
	if n == nil {
		return nil
	}
	return copyValue(reflect.ValueOf(n)).Interface().(ast.Node)
}

func copyValue(v reflect.Value) reflect.Value {
	switch v.Kind() {
	case reflect.Ptr:
		if v.IsNil() {
			return v
		}
		if v.Type() == objPtrType || v.Type() == scopeType || v.Type() == cgType {
			return reflect.Zero(v.Type())
		}
		nv := reflect.New(v.Type().Elem())
		nv.Elem().Set(copyValue(v.Elem()))
		return nv
	case reflect.Interface:
		if v.IsNil() {
			return v
		}
		nv := reflect.New(v.Type()).Elem()
		nv.Set(copyValue(v.Elem()))
		return nv
	case reflect.Slice:
		if v.IsNil() {
			return v
		}
		nv := reflect.MakeSlice(v.Type(), v.Len(), v.Len())
		for i := 0; i < v.Len(); i++ {
			nv.Index(i).Set(copyValue(v.Index(i)))
		}
		return nv
	case reflect.Struct:
		nv := reflect.New(v.Type()).Elem()
		for i := 0; i < v.NumField(); i++ {
			if !nv.Field(i).CanSet() {
				continue
			}
			nv.Field(i).Set(copyValue(v.Field(i)))
		}
		return nv
	}
	return v
}

// reposition gives every rewritten declaration fresh, strictly increasing
// positions in a synthetic file and records where each came from.
func (n *normalizer) reposition() {
	var decls []*ast.FuncDecl
	for d := range n.rew {
		decls = append(decls, d)
	}
	sort.Slice(decls, func(i, j int) bool { return decls[i].Pos() < decls[j].Pos() })
	const stride = 24
	// upper bound on the number of positions
	count := 0
	for _, d := range decls {
		ast.Inspect(d, func(x ast.Node) bool {
			if x != nil {
				count += 12
				if id, ok := x.(*ast.Ident); ok {
					count += len(id.Name)/stride + 1
				}
				if bl, ok := x.(*ast.BasicLit); ok {
					count += len(bl.Value)/stride + 1
				}
			}
			return true
		})
	}
	size := count*stride + 1024
	tf := n.fset.AddFile("<normalised>", -1, size)
	next := tf.Base() + 8
	n.res.synthLo = token.Pos(tf.Base())
	n.res.synthHi = token.Pos(tf.Base() + size)
	lastOrig := token.NoPos
	seen := map[uintptr]bool{}
	var walk func(v reflect.Value)
	walk = func(v reflect.Value) {
		switch v.Kind() {
		case reflect.Ptr:
			if v.IsNil() || v.Type() == objPtrType || v.Type() == scopeType {
				return
			}
			if v.Type() == cgType {
				return
			}
			if seen[v.Pointer()] {
				return
			}
			seen[v.Pointer()] = true
			walk(v.Elem())
		case reflect.Interface:
			if !v.IsNil() {
				walk(v.Elem())
			}
		case reflect.Slice:
			for i := 0; i < v.Len(); i++ {
				walk(v.Index(i))
			}
		case reflect.Struct:
			extra := 0
			for i := 0; i < v.NumField(); i++ {
				f := v.Field(i)
				if f.Type() == posType {
					old := token.Pos(f.Int())
					if old == token.NoPos {
						continue
					}
					np := token.Pos(next)
					if old == markPos {
						n.res.Orig[np] = lastOrig
					} else {
						n.res.Orig[np] = old
						lastOrig = old
					}
					if f.CanSet() {
						f.SetInt(int64(np))
					}
					next += stride
					continue
				}
				if f.Kind() == reflect.String && (v.Type().Name() == "Ident" || v.Type().Name() == "BasicLit") {
					extra = len(f.String())
					continue
				}
				walk(f)
			}
			next += extra
		}
	}
	for _, d := range decls {
		d.Doc = nil
		lastOrig = d.Pos()
		walk(reflect.ValueOf(d))
		next += stride
	}
	if next >= tf.Base()+size {
		panic("inl: synthetic file too small")
	}
}

// ---- type-checking again --------------------------------------------------------------------

type importerFunc func(path string) (*types.Package, error)

func (f importerFunc) Import(path string) (*types.Package, error) { return f(path) }

func (n *normalizer) recheck(pkgs []*packages.Package, all map[string]*packages.Package) error {
	inMod := map[string]*packages.Package{}
	for _, pk := range pkgs {
		inMod[pk.PkgPath] = pk
	}
	done := map[string]bool{}
	var order []*packages.Package
	var visit func(pk *packages.Package)
	visit = func(pk *packages.Package) {
		if done[pk.PkgPath] {
			return
		}
		done[pk.PkgPath] = true
		var paths []string
		for p := range pk.Imports {
			paths = append(paths, p)
		}
		sort.Strings(paths)
		for _, p := range paths {
			if m := inMod[pk.Imports[p].PkgPath]; m != nil {
				visit(m)
			}
		}
		order = append(order, pk)
	}
	for _, pk := range pkgs {
		visit(pk)
	}
	// only packages that changed, and module packages that import them, need it
	need := map[string]bool{}
	for _, pk := range order {
		if n.res.Changed[pk] {
			need[pk.PkgPath] = true
			continue
		}
		for _, imp := range pk.Imports {
			if need[imp.PkgPath] {
				need[pk.PkgPath] = true
			}
		}
	}
	newTypes := map[string]*types.Package{}
	for _, pk := range order {
		if !need[pk.PkgPath] {
			continue
		}
		for attempt := 0; ; attempt++ {
			var hard []types.Error
			conf := &types.Config{
				Importer: importerFunc(func(path string) (*types.Package, error) {
					if path == "unsafe" {
						return types.Unsafe, nil
					}
					// resolve through the package's own import map (vendoring, replace)
					if imp, ok := pk.Imports[path]; ok {
						if t, ok := newTypes[imp.PkgPath]; ok {
							return t, nil
						}
						return imp.Types, nil
					}
					if t, ok := newTypes[path]; ok {
						return t, nil
					}
					if p, ok := all[path]; ok {
						return p.Types, nil
					}
					return nil, fmt.Errorf("package %s was not loaded", path)
				}),
				Sizes: pk.TypesSizes,
				Error: func(err error) {
					if te, ok := err.(types.Error); ok && !te.Soft {
						hard = append(hard, te)
					}
				},
			}
			if pk.Module != nil && pk.Module.GoVersion != "" {
				conf.GoVersion = "go" + pk.Module.GoVersion
			}
			info := &types.Info{
				Types:        map[ast.Expr]types.TypeAndValue{},
				Defs:         map[*ast.Ident]types.Object{},
				Uses:         map[*ast.Ident]types.Object{},
				Implicits:    map[ast.Node]types.Object{},
				Instances:    map[*ast.Ident]types.Instance{},
				Scopes:       map[ast.Node]*types.Scope{},
				Selections:   map[*ast.SelectorExpr]*types.Selection{},
				FileVersions: map[*ast.File]string{},
			}
			tp, _ := conf.Check(pk.PkgPath, n.fset, pk.Syntax, info)
			if len(hard) == 0 {
				pk.Types, pk.TypesInfo = tp, info
				newTypes[pk.PkgPath] = tp
				break
			}
			// give up on the declarations the errors point into and try again
			restored := 0
			for _, e := range hard {
				for d := range n.rew {
					if e.Pos >= d.Pos() && e.Pos <= d.End() {
						if od := n.origDecl[d]; od != nil {
							n.res.Notes = append(n.res.Notes, fmt.Sprintf("normalisation of %s abandoned: %s", d.Name.Name, e.Msg))
							*d = *od
							delete(n.rew, d)
							restored++
						}
					}
				}
			}
			if restored == 0 && len(n.removed[pk]) > 0 {
				for _, rd := range n.removed[pk] {
					rd.file.Decls = append(rd.file.Decls, rd.decl)
					n.res.Notes = append(n.res.Notes, "kept "+rd.decl.Name.Name+" after a type error without it")
				}
				n.removed[pk] = nil
				n.res.Removed = nil
				restored++
			}
			if restored == 0 || attempt > 50 {
				var msgs []string
				for _, e := range hard {
					msgs = append(msgs, n.fset.Position(e.Pos).String()+": "+e.Msg)
				}
				return fmt.Errorf("type-checking %s after normalisation: %s", pk.PkgPath, strings.Join(msgs, "; "))
			}
		}
	}
	return nil
}


// collectLits registers, as expandable helpers, the function literals of d that are bound to a local name the
// reference tree does not know (name := func(...) {...}) and that are only ever called.
func (n *normalizer) collectLits(d *ast.FuncDecl, pk *packages.Package, f *ast.File, known map[string]bool) {
	info := pk.TypesInfo
	type cand struct {
		as  *ast.AssignStmt
		id  *ast.Ident
		lit *ast.FuncLit
		v   *types.Var
	}
	var cands []cand
	ast.Inspect(d.Body, func(x ast.Node) bool {
		as, ok := x.(*ast.AssignStmt)
		if !ok || as.Tok != token.DEFINE || len(as.Lhs) != 1 || len(as.Rhs) != 1 {
			return true
		}
		id, ok := as.Lhs[0].(*ast.Ident)
		if !ok || id.Name == "_" || known[id.Name] {
			return true
		}
		lit, ok := as.Rhs[0].(*ast.FuncLit)
		if !ok || (lit.Type.TypeParams != nil && len(lit.Type.TypeParams.List) > 0) {
			return true
		}
		v, _ := info.Defs[id].(*types.Var)
		if v == nil {
			return true
		}
		cands = append(cands, cand{as, id, lit, v})
		return true
	})
	if len(cands) == 0 {
		return
	}
	callUses, allUses := map[*types.Var]int{}, map[*types.Var]int{}
	ast.Inspect(d.Body, func(x ast.Node) bool {
		switch y := x.(type) {
		case *ast.CallExpr:
			if id, ok := ast.Unparen(y.Fun).(*ast.Ident); ok {
				if v, ok := info.Uses[id].(*types.Var); ok {
					callUses[v]++
				}
			}
		case *ast.Ident:
			if v, ok := info.Uses[y].(*types.Var); ok {
				allUses[v]++
			}
		}
		return true
	})
	for _, c := range cands {
		if callUses[c.v] == 0 || callUses[c.v] != allUses[c.v] {
			continue // handed on as a value somewhere, or assigned again
		}
		sig, _ := info.TypeOf(c.lit).(*types.Signature)
		if sig == nil {
			continue
		}
		// a literal that calls itself or mentions its own name cannot be copied into itself
		self := false
		ast.Inspect(c.lit.Body, func(x ast.Node) bool {
			if id, ok := x.(*ast.Ident); ok && info.Uses[id] == types.Object(c.v) {
				self = true
			}
			return !self
		})
		if self {
			continue
		}
		key := FuncKey(pk.PkgPath, d) + "$" + c.id.Name
		h := &helper{key: key, decl: &ast.FuncDecl{Name: &ast.Ident{Name: c.id.Name, NamePos: c.lit.Pos()}, Type: c.lit.Type, Body: c.lit.Body},
			pk: pk, file: f, calls: map[*helper]bool{}, sig: sig, lit: c.lit, def: c.as, v: c.v, uses: callUses[c.v]}
		n.vet(h)
		n.lits[c.v] = h
		n.res.NewFuncs = append(n.res.NewFuncs, key)
	}
}


// unrollFuncTables rewrites
//
//	tbl := []func() error{a.f, a.g, h}
//	for _, fn := range tbl { ...fn()... }
//
// into one copy of the loop body per element with the call spelled out (a.f(), a.g(), h()), when the table has no
// other use, the loop variable is only ever called, and the body neither breaks, continues, defers nor declares
// the variable's name again. The rules then see the calls where they saw them before the table was introduced.
func (n *normalizer) unrollFuncTables(d *ast.FuncDecl, pk *packages.Package) {
	info := pk.TypesInfo
	var saved *ast.FuncDecl
	usesOf := func(v *types.Var) int {
		k := 0
		ast.Inspect(d.Body, func(x ast.Node) bool {
			if id, ok := x.(*ast.Ident); ok && info.Uses[id] == types.Object(v) {
				k++
			}
			return true
		})
		return k
	}
	var blocks []*ast.BlockStmt
	ast.Inspect(d.Body, func(x ast.Node) bool {
		if b, ok := x.(*ast.BlockStmt); ok {
			blocks = append(blocks, b)
		}
		return true
	})
	for _, b := range blocks {
		for idx := 0; idx < len(b.List); idx++ {
			rs, ok := b.List[idx].(*ast.RangeStmt)
			if !ok || rs.Tok != token.DEFINE || rs.Value == nil {
				continue
			}
			if k, ok := rs.Key.(*ast.Ident); !ok || k.Name != "_" {
				continue
			}
			valID, ok := rs.Value.(*ast.Ident)
			if !ok || valID.Name == "_" {
				continue
			}
			pv, _ := info.Defs[valID].(*types.Var)
			if pv == nil {
				continue
			}
			var def *ast.AssignStmt
			var lit *ast.CompositeLit
			tblName := "literal"
			if cl, ok := rs.X.(*ast.CompositeLit); ok {
				lit = cl // ranged over directly
			} else if tblID, ok := rs.X.(*ast.Ident); ok {
				tv, _ := info.Uses[tblID].(*types.Var)
				if tv == nil || usesOf(tv) != 1 {
					continue
				}
				tblName = tblID.Name
				// the table's definition, earlier in the same block
				for _, s := range b.List[:idx] {
					as, ok := s.(*ast.AssignStmt)
					if !ok || as.Tok != token.DEFINE || len(as.Lhs) != 1 || len(as.Rhs) != 1 {
						continue
					}
					if id, ok := as.Lhs[0].(*ast.Ident); ok && info.Defs[id] == types.Object(tv) {
						if cl, ok := as.Rhs[0].(*ast.CompositeLit); ok {
							def, lit = as, cl
						}
					}
				}
				if def == nil {
					continue
				}
			} else {
				continue
			}
			if lit == nil || len(lit.Elts) == 0 || len(lit.Elts) > 8 {
				continue
			}
			isFuncTable := false
			switch st := info.TypeOf(lit).Underlying().(type) {
			case *types.Slice:
				_, isFuncTable = st.Elem().Underlying().(*types.Signature)
			case *types.Array:
				_, isFuncTable = st.Elem().Underlying().(*types.Signature)
			default:
				continue
			}
			if !isFuncTable {
				// a table of plain values: every element is an address (&x, &a.b), a basic literal, or a name that the
				// body does not assign - evaluating it at the head of its own copy of the body is then the same
				// as evaluating all of them before the loop
				assigned := map[string]bool{}
				ast.Inspect(rs.Body, func(x ast.Node) bool {
					switch y := x.(type) {
					case *ast.AssignStmt:
						for _, l := range y.Lhs {
							e := l
							for {
								switch z := e.(type) {
								case *ast.SelectorExpr:
									e = z.X
									continue
								case *ast.IndexExpr:
									e = z.X
									continue
								case *ast.StarExpr:
									e = z.X
									continue
								case *ast.ParenExpr:
									e = z.X
									continue
								}
								break
							}
							if id, ok := e.(*ast.Ident); ok {
								assigned[id.Name] = true
							}
						}
					case *ast.IncDecStmt:
						if id, ok := y.X.(*ast.Ident); ok {
							assigned[id.Name] = true
						}
					}
					return true
				})
				var plain func(e ast.Expr, addr bool) bool
				plain = func(e ast.Expr, addr bool) bool {
					switch z := e.(type) {
					case *ast.BasicLit:
						return true
					case *ast.Ident:
						return addr || !assigned[z.Name]
					case *ast.SelectorExpr:
						return plain(z.X, addr)
					case *ast.UnaryExpr:
						return z.Op == token.AND && plain(z.X, true)
					case *ast.ParenExpr:
						return plain(z.X, addr)
					}
					return false
				}
				okPlain := true
				for _, e := range lit.Elts {
					if _, isKV := e.(*ast.KeyValueExpr); isKV || !plain(e, false) {
						okPlain = false
					}
				}
				clean, used := true, false
				ast.Inspect(rs.Body, func(x ast.Node) bool {
					switch y := x.(type) {
					case *ast.Ident:
						if info.Uses[y] == types.Object(pv) {
							used = true
						}
					case *ast.BranchStmt, *ast.DeferStmt, *ast.LabeledStmt, *ast.GoStmt:
						clean = false
					}
					return true
				})
				if !okPlain || !clean {
					continue
				}
				if saved == nil {
					saved = copyNode(d).(*ast.FuncDecl)
				}
				var unrolled []ast.Stmt
				for _, e := range lit.Elts {
					body := copyNode(rs.Body).(*ast.BlockStmt)
					var bind ast.Stmt
					if used {
						bind = &ast.AssignStmt{Lhs: []ast.Expr{&ast.Ident{Name: valID.Name, NamePos: valID.Pos()}}, Tok: token.DEFINE, TokPos: valID.Pos(), Rhs: []ast.Expr{copyNode(e).(ast.Expr)}}
					} else {
						bind = &ast.AssignStmt{Lhs: []ast.Expr{&ast.Ident{Name: "_", NamePos: valID.Pos()}}, Tok: token.ASSIGN, TokPos: valID.Pos(), Rhs: []ast.Expr{copyNode(e).(ast.Expr)}}
					}
					unrolled = append(unrolled, &ast.BlockStmt{Lbrace: rs.Body.Lbrace, List: append([]ast.Stmt{bind}, body.List...), Rbrace: rs.Body.Rbrace})
				}
				if def != nil {
					def.Lhs[0] = &ast.Ident{Name: "_", NamePos: def.Lhs[0].Pos()}
					def.Tok = token.ASSIGN
					def.Rhs[0] = &ast.BasicLit{Kind: token.INT, Value: "0", ValuePos: def.Rhs[0].Pos()}
				}
				nl := append([]ast.Stmt{}, b.List[:idx]...)
				nl = append(nl, unrolled...)
				nl = append(nl, b.List[idx+1:]...)
				b.List = nl
				idx += len(unrolled) - 1
				n.res.Sites = append(n.res.Sites, Site{Caller: FuncKey(pk.PkgPath, d), Callee: "table " + tblName, Pos: rs.For})
				continue
			}
			if def == nil {
				continue // (a function table ranged over directly: not met so far)
			}
			okElts := true
			for _, e := range lit.Elts {
				switch e.(type) {
				case *ast.SelectorExpr, *ast.Ident:
				default:
					okElts = false
				}
			}
			if !okElts {
				continue
			}
			// the loop variable is only called; the body has no branch statements, defers, or a second declaration of the name
			calls, all, clean := 0, 0, true
			ast.Inspect(rs.Body, func(x ast.Node) bool {
				switch y := x.(type) {
				case *ast.CallExpr:
					if id, ok := ast.Unparen(y.Fun).(*ast.Ident); ok && info.Uses[id] == types.Object(pv) {
						calls++
					}
				case *ast.Ident:
					if info.Uses[y] == types.Object(pv) {
						all++
					}
					if y.Name == valID.Name && info.Defs[y] != nil {
						clean = false
					}
				case *ast.BranchStmt, *ast.DeferStmt, *ast.LabeledStmt, *ast.GoStmt:
					clean = false
				}
				return true
			})
			if !clean || calls == 0 || calls != all {
				continue
			}
			if saved == nil {
				saved = copyNode(d).(*ast.FuncDecl)
			}
			var unrolled []ast.Stmt
			for _, e := range lit.Elts {
				body := copyNode(rs.Body).(*ast.BlockStmt)
				elt := e
				ast.Inspect(body, func(x ast.Node) bool {
					if c, ok := x.(*ast.CallExpr); ok {
						if id, ok := ast.Unparen(c.Fun).(*ast.Ident); ok && id.Name == valID.Name {
							c.Fun = copyNode(elt).(ast.Expr)
						}
					}
					return true
				})
				unrolled = append(unrolled, body)
			}
			def.Lhs[0] = &ast.Ident{Name: "_", NamePos: def.Lhs[0].Pos()}
			def.Tok = token.ASSIGN
			def.Rhs[0] = &ast.BasicLit{Kind: token.INT, Value: "0", ValuePos: def.Rhs[0].Pos()}
			nl := append([]ast.Stmt{}, b.List[:idx]...)
			nl = append(nl, unrolled...)
			nl = append(nl, b.List[idx+1:]...)
			b.List = nl
			idx += len(unrolled) - 1
			n.res.Sites = append(n.res.Sites, Site{Caller: FuncKey(pk.PkgPath, d), Callee: "table " + tblName, Pos: rs.For})
		}
	}
	if saved != nil {
		n.origDecl[d] = saved
		n.rew[d] = true
		n.res.Changed[pk] = true
	}
}
