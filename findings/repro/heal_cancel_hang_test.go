package probe

import (
	"context"
	"os"
	"path/filepath"
	"testing"
	"time"

	"github.com/itchio/headway/state"
	"github.com/itchio/wharf/archiver"
	"github.com/itchio/wharf/pwr"
)

// C16 / C06: the context is cancelled while the healer handles its last FILE wound (between the check at
// the top of the wound loop and the select that queues the file). The heal goroutine answers the
// cancellation with a nil on errs; if the select takes that nil, processWound returns nil, the loop ends,
// and the final <-errs waits for a second result that never comes.
func TestHealerCancelledDuringLastWound(t *testing.T) {
	hangs, cancelled, other := 0, 0, 0
	const runs = 40
	for i := 0; i < runs; i++ {
		dir := t.TempDir()
		build := filepath.Join(dir, "build")
		writeFile(t, build, "only", randBytes(int64(100+i), 70000))
		c, _ := sign(t, build)

		zipPath := filepath.Join(dir, "build.zip")
		zf, err := os.Create(zipPath)
		must(t, err)
		_, err = archiver.CompressZip(zf, build, &state.Consumer{})
		must(t, err)
		must(t, zf.Close())

		healer, err := pwr.NewHealer("archive,"+zipPath, build)
		must(t, err)
		ctx, cancel := context.WithCancel(context.Background())
		// ProgressLabel is called in the FILE case right before the select
		healer.SetConsumer(&state.Consumer{OnProgressLabel: func(string) {
			cancel()
			time.Sleep(20 * time.Millisecond) // let the heal goroutine see it and report
		}})

		wounds := make(chan *pwr.Wound, 1)
		wounds <- &pwr.Wound{Kind: pwr.WoundKind_FILE, Index: 0, Start: 0, End: 70000}
		close(wounds)

		done := make(chan error, 1)
		go func() { done <- healer.Do(ctx, c, wounds) }()
		select {
		case err := <-done:
			if err != nil {
				cancelled++
			} else {
				other++
			}
		case <-time.After(2 * time.Second):
			hangs++
		}
		cancel()
	}
	t.Logf("healer cancelled during its last wound: Do never returned %d/%d times, returned an error %d, returned nil %d", hangs, runs, cancelled, other)
}
