package probe

import (
	"context"
	"os"
	"path/filepath"
	"testing"

	"github.com/itchio/headway/state"
	"github.com/itchio/wharf/archiver"
	"github.com/itchio/wharf/pwr"
)

// C06: a directory replaced by a symlink to a sibling directory with the same children
func TestHealDirReplacedBySymlinkToSibling(t *testing.T) {
	healErrs, stillInvalid := 0, 0
	var lastHeal, lastCheck error
	const runs = 30
	for i := 0; i < runs; i++ {
		dir := t.TempDir()
		build := filepath.Join(dir, "build")
		same := randBytes(21, 70000)
		writeFile(t, build, "a/x", same)
		writeFile(t, build, "a/sub/y", same)
		writeFile(t, build, "b/x", same)
		writeFile(t, build, "b/sub/y", same)
		writeFile(t, build, "top", randBytes(22, 5000))
		c, h := sign(t, build)

		zipPath := filepath.Join(dir, "build.zip")
		zf, err := os.Create(zipPath)
		must(t, err)
		_, err = archiver.CompressZip(zf, build, &state.Consumer{})
		must(t, err)
		must(t, zf.Close())

		must(t, os.RemoveAll(filepath.Join(build, "a")))
		must(t, os.Symlink("b", filepath.Join(build, "a")))

		v := &pwr.ValidatorContext{HealPath: "archive," + zipPath, Consumer: &state.Consumer{}}
		err = v.Validate(context.Background(), build, &pwr.SignatureInfo{Container: c, Hashes: h})
		if err != nil {
			healErrs++
			lastHeal = err
			continue
		}
		ff := &pwr.ValidatorContext{FailFast: true, Consumer: &state.Consumer{}}
		err = ff.Validate(context.Background(), build, &pwr.SignatureInfo{Container: c, Hashes: h})
		if err != nil {
			stillInvalid++
			lastCheck = err
		}
	}
	t.Logf("dir replaced by symlink to sibling: healing failed %d/%d (last: %v); healing returned nil but the tree is still invalid %d/%d (last: %v)",
		healErrs, runs, lastHeal, stillInvalid, runs, lastCheck)
}
