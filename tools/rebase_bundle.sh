#!/bin/bash
# tools/rebase_bundle.sh <bundle.patch> <file-to-redo>... < python-edit-script
# Re-makes a stored bundle after /repo moved: every file diff of the bundle except the named files is
# applied as it is; the named files are re-done by the python edit script (cwd = scratch copy with the
# rest applied). The result must compile and pass the package tests of the touched directories.
set -eu
PF="$(realpath "$1")"; shift
S="$(mktemp -d /tmp/wharf-rebase-XXXXXX)"
trap 'rm -rf "$S"' EXIT
rsync -a --exclude .git /repo/ "$S/a/"
rsync -a --exclude .git /repo/ "$S/b/"
cat > "$S/edit.py"
python3 - "$PF" "$S/rest.patch" "$@" <<'PY'
import re,sys
src,out,skip=sys.argv[1],sys.argv[2],sys.argv[3:]
s=open(src).read()
parts=re.split(r'(?m)^(?=diff )',s)
keep=[]
for p in parts[1:]:
    first=p.split('\n')[0]
    if any((' b/'+f) in first+' ' or first.endswith('b/'+f) for f in skip):
        continue
    keep.append(p)
open(out,'w').write(''.join(keep))
open(out+'.hdr','w').write(parts[0])
PY
(cd "$S/b" && patch -p1 -s --no-backup-if-mismatch < "$S/rest.patch")
(cd "$S/b" && python3 "$S/edit.py")
(cd "$S/b" && gofmt -l . | grep . && { echo "gofmt complains"; exit 1; } || true)
(cd "$S/b" && GOFLAGS=-mod=mod GOPROXY=off go build ./... && GOFLAGS=-mod=mod GOPROXY=off go test -vet=off -count=1 ./pwr/ ./pwr/patcher/ 2>&1 | tail -3)
{ cat "$S/rest.patch.hdr"; (cd "$S" && diff -ruN a b | sed -E 's/^(---|\+\+\+) ([ab]\/[^\t]*)\t.*/\1 \2/') || true; } > "$PF"
echo "rewrote $PF ($(grep -c '^diff ' "$PF") files)"
