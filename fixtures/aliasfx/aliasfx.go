// Package aliasfx holds positive and negative examples for the rule about
// appending onto an interior sub-slice (R08.5): Bad* must be reported, Good*
// must stay silent.
package aliasfx

type entry struct {
	key   uint32
	value int
}

// BadBucketsCarvedFromOneArray keeps one-element sub-slices of a shared array
// in a map and appends to them later: the append lands on the neighbour.
func BadBucketsCarvedFromOneArray(all []entry) map[uint32][]entry {
	own := make([]entry, len(all))
	copy(own, all)
	buckets := make(map[uint32][]entry, len(own))
	for i := range own {
		k := own[i].key
		if b, ok := buckets[k]; ok {
			buckets[k] = append(b, own[i])
		} else {
			buckets[k] = own[i : i+1]
		}
	}
	return buckets
}

// BadAppendToWindow appends to a window in the middle of a buffer.
func BadAppendToWindow(buf []byte, lo, hi int, b byte) []byte {
	w := buf[lo:hi]
	return append(w, b)
}

// GoodBucketsCapLimited limits the capacity: append reallocates.
func GoodBucketsCapLimited(all []entry) map[uint32][]entry {
	own := make([]entry, len(all))
	copy(own, all)
	buckets := make(map[uint32][]entry, len(own))
	for i := range own {
		k := own[i].key
		if b, ok := buckets[k]; ok {
			buckets[k] = append(b, own[i])
		} else {
			buckets[k] = own[i : i+1 : i+1]
		}
	}
	return buckets
}

// GoodBucketsOwnSlices gives every bucket its own slice.
func GoodBucketsOwnSlices(all []entry) map[uint32][]entry {
	buckets := make(map[uint32][]entry)
	for _, e := range all {
		if buckets[e.key] == nil {
			buckets[e.key] = []entry{e}
		} else {
			buckets[e.key] = append(buckets[e.key], e)
		}
	}
	return buckets
}

// GoodReuseFromStart is the usual buffer reuse.
func GoodReuseFromStart(buf []byte, data []byte) []byte {
	buf = buf[:0]
	return append(buf, data...)
}

// GoodAppendToTail extends the owner's own tail.
func GoodAppendToTail(buf []byte, lo int, b byte) []byte {
	return append(buf[lo:], b)
}
