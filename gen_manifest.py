#!/usr/bin/env python3
"""Regenerates MANIFEST.json from the table below (single source of truth)."""
import json, subprocess

PROPS = ["C%02d" % i for i in range(1, 20)]

# property -> (technique, level text, design ref)
CLAIMS = {
 "C01": ("control-dependence (edge-dominance) of match acceptance and whole-file-op detection, value provenance of the short-size class, cyclic must-pass-through framing rules on the writer loops, set agreement of emitted vs handled op/series kinds, codec pairing (go/ssa)",
         "Decides structural necessary conditions, not the behaviour: a block matches only under non-empty window, equal short-size class (taken from the final short read) and strong-hash equality; whole-file ops are recognised only under equal sizes, full span and BLOCK_RANGE; every file's series is opened by a SyncHeader and closed by HEY_YOU_DID_IT on every path of WritePatch and Optimize (BsdiffHeader before a bsdiff series, unmapped ops copied verbatim); emitted op and series kinds are handled by the patcher; the fresh bowl prepares its folder; compressors/decompressors pair up; the copy loop that feeds differ and signer writes what it read before acting on end-of-stream. The rolling search, replay arithmetic and tree equality are NOT decided.",
         "DESIGN.md 4 (C01)"),
 "C07": ("reaching-definition analysis of divisors and of the partition count (phi operands, backward walk over local cells with branch outcomes on the way), cyclic framing path rules on Optimize, end-of-series must-pass-through (go/ssa)",
         "Decides structural necessary conditions of 'terminates without crashing for every parameter setting' and of framing, not result equality: no integer division by a floor quotient/difference/length that can be zero without a non-zero test on every reaching definition; the partition count given to the suffix sorter is 1 or bounded against the old buffer's length; Optimize keeps per-file framing and copies unmapped ops verbatim; every bsdiff series ends with Eof; suffix sorting and searching only ever see non-empty input; a pool read-seeker is positioned before it is consumed linearly. Equality of the optimized patch's result is NOT decided.",
         "DESIGN.md 4 (C07)"),
 "C08": ("exactly-one-update path counting, callee identity agreement (same hash functions on both sides), phi/control-dependence shape of the rolling/skip flags, loop-exhaustion edge dominance (go/ssa)",
         "Decides structural necessary conditions of 'equal content costs no fresh bytes' and 'reused + fresh = size', not the numbers: every op written is counted exactly once; differ and signer use the same weak and strong hash functions; the rolling state is reset after a match and the lookup skipped only while rolling; the library holds every hash and the matcher gives up only after searching the whole bucket; a stored ShortSize is below the block size by construction (so a full last block stays matchable). Byte counts, the per-edit bound and the rolling-update arithmetic are NOT decided.",
         "DESIGN.md 4 (C08)"),
 "C11": ("value provenance of block-range fields, control-dependence of the range merge, pending-flush path rules (incl. deferred closures), who-is-called confinement to the cleaner, literal-shape bound rule for data payloads (go/ssa)",
         "Decides structural necessary conditions, not the behaviour: block ranges are built from the matched library block with span 1 and merged only under same-file contiguity; the pending range is flushed before data ops and on every return; every op leaves through the cleaner, which drops only empty non-leading data ops; every data payload is bounded by MaxDataOp by construction; the end of the pending data follows every move of the hash window's start; empty windows never match. Replay equality and the exhaustive small-alphabet enumeration are NOT decided (dynamic family).",
         "DESIGN.md 4 (C11)"),
 "C14": ("emit/advance pairing path rules, flush-before-marker ordering with error gating, control dependence on the resume offset, set agreement of emitted vs applied op types, bound-by-read-count guard rule (go/ssa)",
         "Decides structural necessary conditions, not the behaviour: overlay ops are written only by fresh/skip/Finalize and each advances readOffset by its extent; Finalize flushes (checked) before the end marker; magic/header only at offset 0 with seeded counters; the applier handles every emitted op type and succeeds only at the marker; the old-file window is inspected only below the count read, and filled by a read that cannot come back short in mid-file (full read, or no bufio reader); the committer truncates at the applier's final position. Window/skip index arithmetic is NOT decided.",
         "DESIGN.md 4 (C14)"),
 "C02": ("effect confinement with interprocedural path provenance (which folder a file-system mutator's path derives from, which API can reach it), dominance/error-gating of commit phases, comparator shape, set coverage of entry kinds, unification-based index-space inference (go/ssa + call graph)",
         "Decides structural necessary conditions, not the behaviour: every file-system mutator reachable from the overlay bowl's patching-phase API works under the stage folder and none touches the output folder or target pool, while every output-folder mutator is reachable only from Commit (the 'old build intact until commit' sentence, structurally); commit phases run in the required order with errors checked; ghosts are deleted longest path first and detected for files, symlinks and dirs; overlays end with truncation; no integer is used both as a new-build and as an old-build file index; a directory of the new build is made only after Lstat of its path. That the commit result equals the new build, map-order independence of applyTranspositions and kind changes are NOT decided.",
         "DESIGN.md 4 (C02)"),
 "C03": ("set agreement over type-checked field accesses (saved vs restored checkpoint fields, per type and per Save/Resume implementation; gob registrations), literal-completeness, must-pass-through / error-gating path rules, constant flag checks, control-dependence provenance (go/ssa)",
         "Decides structural necessary conditions, not the behaviour: every checkpoint field is saved and restored (type level, and per Bowl/EntryWriter implementation: what its Save writes its own Resume reads); the literal handed to SaveConsumer.Save is complete; entry writers report an offset only after Flush and a checked fsync; reopening never truncates and repositions from the checkpoint (both offsets for the overlay writer); every successful series end finalizes the writer; work lists are de-duplicated by a completed search; checkpoint payload types are gob-registered; checkpoints are requested inside the loops and offered, and never between reading a message and applying it; the reader-side save protocol (R13.2) holds. Agreement of the four state layers at every interruption point and content equality after resume are NOT decided.",
         "DESIGN.md 4 (C03)"),
 "C04": ("contradiction rule over three sibling functions (empty-file special case), writer/reader stream-prefix agreement extracted from dominance-ordered framing events per stream root, value-provenance rule for the shared read, provenance of symlink-destination comparisons (go/ssa)",
         "Decides structural necessary conditions, not the behaviour: producer, reader and grouping of signatures agree on the empty-file hash; the signature stream's and the patch stream's non-loop prefixes (magic, header, compression point, containers and their identity/order) are the same on every writer and reader; diff and signature consume two Reader()s of one multiread over pool.GetReader(fileIndex) for the same index; symlink destinations are compared modulo FromSlash only; a stored ShortSize is below the block size by construction (0, a remainder, a length tested short); what a signature writer is handed carries a computed strong hash. Block boundaries under re-chunking and hash values are NOT decided.",
         "DESIGN.md 4 (C04)"),
 "C05": ("control-dependence (edge-dominance) rules over go/ssa: healthy-verdict guards, literal-shape ordering of Wound ranges, guard-token classification of wound emission sites, must-consume path rule for the aggregation loop",
         "Decides structural necessary conditions, not the behaviour: a block is declared healthy only under index-in-range and strong-hash equality (both sibling validators); every FILE/CLOSED_FILE wound literal has Start <= End by construction; every deviation test the property enumerates (missing/kind/destination/open error/shorter/longer) controls a wound emission; the aggregator keeps, merges or forwards every incoming wound and flushes before close; the per-file check succeeds only after a wound or a full pass through the validating writer; a wound that is sent is a fresh object the sender does not overwrite later. That reported wounds cover every differing offset (block arithmetic) is NOT decided.",
         "DESIGN.md 4 (C05)"),
 "C06": ("set agreement (emitted vs handled wound kinds), error-classification rule over predicate call trees, case-region path rules (must-pass-through with edge filtering) over go/ssa",
         "Decides structural necessary conditions, not the behaviour: every emitted wound kind has a healer case; Lstat/Readlink errors in the directory and symlink passes are returned only after testing both not-exist and not-a-directory; the DIR/SYMLINK/FILE repair cases perform their repair actions in the required order on every success path (Lstat before trusting a directory, remove before create, parent before link, mark whenever queued); no function that changes a tree examines a path with os.Stat (link-following). That healed content equals the signed content and all validator/healer interleavings are NOT decided.",
         "DESIGN.md 4 (C06)"),
 "C09": ("must-pass-through / verdict-gating path rules, escape (who-may-touch) analysis of the wrapped reader, value-provenance rules for the position mirror, over go/ssa",
         "Decides structural necessary conditions, not the behaviour: the wrapped reader is read only after validateBlock and only on its nil verdict; raw pool readers never escape the validating wrapper; validateBlock restores the saved position on every path after moving the reader; the wrapper's offset mirrors the wrapped reader's position at construction, Seek and Read; the read cache's chunk size is a constant dividing the signed block size (a chunk read never covers an unchecked block); the bytes handed to the block validator are the buffer cut at the count read. Which damage a given patch happens to read, and the EOF case of 64KiB-multiple files (F13, arithmetic), are NOT decided.",
         "DESIGN.md 4 (C09)"),
 "C12": ("end-of-series must-pass-through, offset-accounting path rules with nil/len edge filtering, slot-bookkeeping provenance rules in the read cache, reaching-definition divisor rule (go/ssa)",
         "Decides structural necessary conditions, not the behaviour: every series ends with an Eof control on every success path; Apply positions the cache at OldOffset before adding and advances OldOffset by len(Add) and Seek exactly once on success; the cache stores a new chunk in a free slot, marks it, tells the LRU, frees exactly the evicted slot through a registered callback and frees all on Reset; partition arithmetic cannot divide by zero; suffix sorting and searching only ever see non-empty input. That add+copy tile the new file, the suffix search and the cache's index arithmetic are NOT decided.",
         "DESIGN.md 4 (C12)"),
 "C13": ("who-may-call / effect confinement of source reads, must-update path rules, typestate shape of the three-state save protocol, set agreement of codec registrations and magic constants, call-graph unreachability (go/ssa + CHA)",
         "Decides structural necessary conditions, not the behaviour: every read of the underlying source happens in the counting reader or Resume and updates the counted offset; framing reads go through the counting reader; the save protocol's transitions and the content of the popped checkpoint have the required shape and PopCheckpoint is unreachable from inside ReadMessage; compressors and decompressors are registered pairwise for the same algorithms with matching implementations, NONE is a pass-through; every magic written has a reader; Read counts are never discarded in package wire; ReadMessage resets and decodes on every success path. The round trip itself and savior's decompressor checkpoints are NOT decided.",
         "DESIGN.md 4 (C13)"),
 "C17": ("call-graph effect confinement (which calls can reach a bowl write or pool read), transitive control-dependence of the skip decision on the whitelist lookup, sibling agreement of message types read by the skip and process paths with generated-struct-tag aliasing check, must-assign path rule (go/ssa)",
         "Decides structural necessary conditions, not the behaviour: bowl writes/transposes and old-build pool reads are reachable from Resume only through processFile and never from skipFile; skipping is decided by the whitelist lookup keyed by the checked header index and is exclusive with processing; the skip path decodes every series message type with its own type (or one that cannot alias the end marker); the series kind skipFile dispatches on is assigned from the header just read; the whitelist kept is the caller's map or a copy with its values. Equality of the selected files with full application is NOT decided.",
         "DESIGN.md 4 (C17)"),
 "C15": ("fork-site access-set analysis (captured variables, field paths, callee effect summaries through closures and maker functions, must-locksets, per-iteration variables, fork/join regions), natural-loop map-order rule, single-sender/token shape rules, forward slicing of ambient values (go/ssa + CHA)",
         "Decides structural necessary conditions, not byte-identical output: at the differ's four fork sites no two concurrent units (or instances, or a unit and the parent before the join) touch overlapping locations with a write and no common lock; ranges over maps on the diff/optimize call tree have order-insensitive bodies; matches reach the bsdiff writer through one sender in token-passing order; time/CPU-count/GOMAXPROCS/random values reach only statistics and diagnostics; what a unit does after its last result send is compared with what the parent does after the join; the fan-out copy loop writes what it read before acting on end-of-stream. Slice-element races, races inside dependencies and short-read independence are NOT decided.",
         "DESIGN.md 3.2, 4 (C15)"),
 "C19": ("fork-site access-set analysis with file pseudo-variables and must-locksets, per-path result-send counting (go/ssa)",
         "Decides structural necessary conditions, not tree equality: ExtractZip's workers (concurrent instances of one goroutine) and the parent before the join share no location with a write and no common lock (entry counters, progress, flags); the resume file is written only under one lock common to all write sites; every worker sends exactly one result on every path into a channel buffered for all workers and the parent collects them; the done-set behind the marker is keyed by the entry index; no tree-changing function of the archiver examines a path with os.Stat (link-following). Whether the marker value is a contiguous high-water mark is value-level and NOT decided (a seeded change of that kind is recorded as missed).",
         "DESIGN.md 3.2, 4 (C19)"),
 "C16": ("channel-protocol shape rules over go/ssa: per-path send counting (defers included), edge-dominance of loop exits by channel-closed tests, dominance ordering of the shutdown sequence, select-case control dependence",
         "Decides structural necessary conditions, not the behaviour: the consumer goroutine drains the wound channel until closed; worker and consumer each send exactly one result on every path; every result-receiving select case re-puts and closes 'cancelled', which is closed nowhere else; the shutdown sequence dominates the return in order; relay/aggregation goroutines exit only on close and always signal; the fail-fast consumer never returns nil from its cancellation case. These quantify over all paths of the protocol code, which no schedule sample can; full deadlock freedom over all interleavings is NOT decided.",
         "DESIGN.md 4 (C16)"),
 "C18": ("must-pass-through and verdict-gating path rules over go/ssa CFGs with nil-test edge filtering; per-path event counting; constant agreement",
         "Decides structural necessary conditions, not the behaviour: in drip.Writer every forward to the underlying writer is preceded (when a validator is set) by Validate on the same slice and unreachable after a non-nil verdict; the validate closure advances the block index exactly once per drip after using it and sends/returns the verdict; the relay goroutine is joined before close; drip buffer, safekeeper buffer and hashing contexts are exactly pwr.BlockSize; a block is declared healthy only under index-in-range and strong-hash equality (both sibling validators). Index arithmetic of the slicing and the tiling/ordering of wounds are NOT decided.",
         "DESIGN.md 4 (C18)"),
 "C10": ("interprocedural wire-taint dataflow with range-guard typestate over go/ssa (sparse fixpoint, edge-dominance guards, validator summaries)",
         "Decides a structural necessary condition, not the behaviour: on every path of every module function, an integer read from a patch/signature/overlay message reaches an index, slice bound, make size, divisor or lake-pool call only under a dominating two-sided range guard (or equality with trusted data), and SignatureInfo.Hashes is never sliced without a len() comparison. All paths of the code are covered, which no input sample can do; nil-dereference, type-assertion panics and non-termination are NOT decided.",
         "DESIGN.md 3.1, 4 (C10)"),
}

NOTE = ("go/parser, go/types, golang.org/x/tools v0.29.0 (go/packages, go/ssa, callgraph cha/vta) and the rule code under /verif/checker are trusted; "
        "rules see the shape of the code, not runtime values; soundness limits are listed per property in evidence.assumptions")

def main():
    checks = []
    na = []
    for p in PROPS:
        if p in CLAIMS:
            tech, text, ref = CLAIMS[p]
            checks.append({
                "property_id": p,
                "quick_cmd": "./run.sh %s quick" % p,
                "thorough_cmd": "./run.sh %s thorough" % p,
                "evidence_file": "/verif/evidence/%s.json" % p,
                "replay_cmd_template": "./run.sh -replay {path}",
                "engine": "wharfcheck",
                "level_claimed": {"category": "other", "text": text, "design_ref": ref},
                "level_note": NOTE,
                "technique": "static analysis: " + tech,
            })
        else:
            na.append({"property_id": p, "reason": "rules for this property are not built yet (build round in progress); see DESIGN.md section 4 for the planned structural clauses"})
    m = {
        "version": 1,
        "setup_cmd": "./run.sh build",
        "hooks": {
            "guard": "verif",
            "enable": "none needed: static analysis instruments nothing; checks read /repo's working tree as it is",
            "baseline_off_cmd": "cd /repo && GOFLAGS=-mod=mod go test -vet=off -count=1 -timeout 25m ./...",
            "source_commits": [],
            "add_only": True,
        },
        "engines": [{"name": "wharfcheck", "path": "/verif/checker", "serves_properties": sorted(CLAIMS.keys()),
                     "kind_free_text": "repository-specific static analyser (Go, go/ssa + go/types + call graph); one binary, one rule set per property"}],
        "checks": checks,
        "not_applicable": na,
        "notes": "Family: static analysis only. Every claim is level 'other': structural necessary conditions of the property, decided over all paths of the code; the behaviour itself is not decided (DESIGN.md section 4 lists, per property, what stays undecided). Repaired defects and known findings: known_findings.txt.",
    }
    json.dump(m, open("MANIFEST.json", "w"), indent=1)
    print("checks:", len(checks), "not_applicable:", len(na))

if __name__ == "__main__":
    main()
